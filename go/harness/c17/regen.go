package main

import (
	"bufio"
	"fmt"
	"os"
	"path/filepath"
	"sort"
	"strings"

	"verifharness/internal/rng"
)

// Generator dimension "THE STATE OF THE PROJECT DIRECTORY WHEN GENERATION STARTS" (projects c17g*), added after the miss
// seeded/C17-change11. Every other family generates ONCE into a directory that holds nothing but the schema and
// gqlgen.yml. api.Generate however starts by removing the previous executor and model file - BEFORE cfg.Init() lets
// autobind and the binder look at the packages - and the plugins treat what they find on disk differently (modelgen
// overwrites, follow-schema resolvergen merges, single-file resolvergen keeps, stubgen overwrites). C17 quantifies
// over every valid schema and configuration; the everyday sequence is generate, edit the schema, generate again.
//
// A c17g project is a schema + configuration AND a second step (directory step2/: files that replace those of the
// first step; checks/c17.py generates, copies step2/ over the project, generates again in a NEW process and type-checks
// again). regen.tsv names the point of the dimension:
//   autobind  none   | model  (the package of model.filename is listed under `autobind`, as `gqlgen init` proposes)
//             | hand (as model + a hand-written struct beside models_gen.go that a schema type binds to)
//             | other (autobind lists a separate hand-written package)
//   edit      what distinguishes the directory state of the second generation from the schema it generates:
//             same (output of the same schema present) | field (the schema gained a field on a generated model)
//             | type (gained a type + a field of that type) | drop (lost a type the stale model file still declares)
//             | enum (an enum gained a value) | config (the earlier generation used ANOTHER configuration: model file
//             in another package, two boolean options and the template flavour flipped; its files are still there)
// Random projects take the schema and options of the random grammar (schemas.go); the directed corpus
// (corpus/C17/regen.txt) uses a small fixed schema: <name> <autobind> <edit> <option,...|->, options: follow (exec
// layout), resfollow | ressingle | resnone, samepkg (models beside the executor), funcsyn, or a boolean option.

var rgAutobinds = []string{"none", "model", "hand", "other"}
var rgEdits = []string{"same", "field", "type", "drop", "enum", "config"}

const rgSeedTypes = `
type RegenSeed { id: ID!  kind: RegenKind  hand: RegenHand }
type RegenGone { id: ID!  seed: RegenSeed }
type RegenHand { id: ID!  label: String }
enum RegenKind { FIRST SECOND }
`

const rgHandGo = `// hand-written model (not generated): RegenHand of the schema binds to it through autobind
package %s

type RegenHand struct {
	ID    string
	Label *string
}
`

type rgProject struct {
	name     string
	autobind string
	edit     string
	kind     string // directed | random
	files1   map[string]string
	files2   map[string]string // step 2: replaces / adds
	note     string
}

func rgStep2Schema(base, edit, target string) (string, string) {
	switch edit {
	case "same":
		return base, "unchanged"
	case "field":
		return base + fmt.Sprintf("\nextend type %s { regenAdded: Int  regenAddedList: [RegenKind!] }\n", target), "field added to " + target
	case "type":
		return base + "\ntype RegenAdded { id: ID!  seed: RegenSeed  kind: RegenKind! }\nextend type RegenSeed { added: [RegenAdded!] }\n", "type RegenAdded added, RegenSeed.added refers to it"
	case "drop":
		return strings.Replace(base, "type RegenGone { id: ID!  seed: RegenSeed }\n", "", 1), "type RegenGone removed"
	case "enum":
		return strings.Replace(base, "enum RegenKind { FIRST SECOND }", "enum RegenKind { FIRST SECOND THIRD }", 1), "enum value RegenKind.THIRD added"
	}
	return base, "unchanged schema, configuration changed"
}

// build fills files1 / files2 from a first-step yml + schema files. modelPkg: models in <proj>/model (else beside the executor).
func (g *rgProject) build(yml2 string, schema map[string]string, first string, modelPkg bool, ymlEarlier string, target string) {
	g.files1 = map[string]string{}
	g.files2 = map[string]string{}
	imp := "verifharness/genout/c17/" + g.name
	mdir, mpkg := "model", "model"
	if !modelPkg {
		mdir, mpkg = ".", g.name
	}
	ab := ""
	switch g.autobind {
	case "model":
		ab = "autobind:\n  - " + strings.TrimSuffix(imp+"/"+mdir, "/.") + "\n"
		g.files1[filepath.Join(mdir, "doc.go")] = "package " + mpkg + "\n"
	case "hand":
		ab = "autobind:\n  - " + strings.TrimSuffix(imp+"/"+mdir, "/.") + "\n"
		g.files1[filepath.Join(mdir, "hand.go")] = fmt.Sprintf(rgHandGo, mpkg)
	case "other":
		ab = "autobind:\n  - " + imp + "/hand\n"
		g.files1["hand/hand.go"] = fmt.Sprintf(rgHandGo, "hand")
	}
	for f, s := range schema {
		g.files1[f] = s
	}
	g.files1[first] = schema[first] + rgSeedTypes
	s2, note := rgStep2Schema(g.files1[first], g.edit, target)
	g.note = note
	if s2 != g.files1[first] {
		g.files2[first] = s2
	}
	if g.edit == "config" {
		g.files1["gqlgen.yml"] = ymlEarlier + ab
		g.files2["gqlgen.yml"] = yml2 + ab
		if g.autobind == "model" || g.autobind == "hand" {
			// the model package of BOTH configurations must exist as a package before the first generation
			g.files1["model/doc.go"] = "package model\n"
		}
	} else {
		g.files1["gqlgen.yml"] = yml2 + ab
	}
}

func (g *rgProject) write(root string) error {
	d := filepath.Join(root, g.name)
	put := func(base string, files map[string]string) error {
		for f, s := range files {
			p := filepath.Join(base, f)
			if err := os.MkdirAll(filepath.Dir(p), 0o755); err != nil {
				return err
			}
			if err := os.WriteFile(p, []byte(s), 0o644); err != nil {
				return err
			}
		}
		return nil
	}
	if err := put(d, g.files1); err != nil {
		return err
	}
	if err := os.MkdirAll(filepath.Join(d, "step2"), 0o755); err != nil {
		return err
	}
	if err := put(filepath.Join(d, "step2"), g.files2); err != nil {
		return err
	}
	var f2 []string
	for f := range g.files2 {
		f2 = append(f2, f)
	}
	sort.Strings(f2)
	tsv := fmt.Sprintf("regen\t%s\t%s\t%s\nnote\t%s\nstep2\t%s\n", g.autobind, g.edit, g.kind, g.note, strings.Join(f2, " "))
	if err := os.WriteFile(filepath.Join(d, "regen.tsv"), []byte(tsv), 0o644); err != nil {
		return err
	}
	fmt.Fprintf(out, "project\t%s\tregen autobind=%s edit=%s kind=%s\n", g.name, g.autobind, g.edit, g.kind)
	return nil
}

const rgFixedSchema = `type Query {
  todos(first: Int = 10): [Todo!]!
  seed: RegenSeed
}

type Todo {
  id: ID!
  text: String!
  done: Boolean!
  owner: User!
}

type User {
  id: ID!
  name: String!
  role: Role
}

enum Role { ADMIN USER }

input NewTodo { text: String!  userId: ID! }

type Mutation { createTodo(input: NewTodo!): Todo! }
`

// the configuration of a fixed-schema project; earlier=true renders the "other configuration" of an earlier generation
func rgFixedYml(name string, opts map[string]bool, cfg map[string]string, earlier bool) string {
	var b strings.Builder
	b.WriteString("schema:\n  - schema.graphql\nexec:\n")
	if opts["follow"] {
		fmt.Fprintf(&b, "  layout: follow-schema\n  dir: .\n  package: %s\n", name)
	} else {
		b.WriteString("  filename: generated.go\n")
	}
	same := opts["samepkg"]
	if earlier {
		same = !same
	}
	if same {
		b.WriteString("model:\n  filename: models_gen.go\n")
	} else {
		b.WriteString("model:\n  filename: model/models_gen.go\n  package: model\n")
	}
	switch {
	case opts["ressingle"]:
		b.WriteString("resolver:\n  filename: res/resolver.go\n  package: res\n  type: Resolver\n")
	case opts["resnone"]:
	default:
		b.WriteString("resolver:\n  layout: follow-schema\n  dir: res\n  package: res\n")
	}
	b.WriteString("skip_mod_tidy: true\n")
	fs := opts["funcsyn"]
	if earlier {
		fs = !fs
	}
	if fs {
		b.WriteString("use_function_syntax_for_execution_context: true\n")
	}
	var keys []string
	for k := range cfg {
		keys = append(keys, k)
	}
	sort.Strings(keys)
	for i, k := range keys {
		v := cfg[k]
		if earlier && i < 2 {
			v = map[string]string{"true": "false", "false": "true"}[v]
		}
		fmt.Fprintf(&b, "%s: %s\n", k, v)
	}
	return b.String()
}

func rgFixed(name, autobind, edit string, opts map[string]bool, cfg map[string]string, kind string) *rgProject {
	g := &rgProject{name: name, autobind: autobind, edit: edit, kind: kind}
	target := "Todo"
	g.build(rgFixedYml(name, opts, cfg, false), map[string]string{"schema.graphql": rgFixedSchema}, "schema.graphql", !opts["samepkg"], rgFixedYml(name, opts, cfg, true), target)
	return g
}

// a random-grammar project crossed with a point of the dimension
func rgRandom(r *rng.R, name, autobind, edit, tier string) *rgProject {
	p := genProject(r.Fork(), name, tier)
	if autobind == "model" || autobind == "hand" {
		p.model = "pkg" // the autobound package is the MODEL package, not the executor's
	}
	g := &rgProject{name: name, autobind: autobind, edit: edit, kind: "random"}
	schema := map[string]string{}
	for i, s := range p.render() {
		schema[fileNames[i]] = s
	}
	// a field is added to a generated model that is not a root type: RegenSeed or a plain object of the schema
	target := "RegenSeed"
	var objs []string
	for _, t := range p.types {
		if t.kind == "object" && t.name != "Query" && t.name != "Mutation" && t.name != "Subscription" {
			objs = append(objs, t.name)
		}
	}
	if len(objs) > 0 && r.Bool() {
		target = objs[r.Below(len(objs))]
	}
	yml2 := p.gqlgenYml()
	// earlier configuration: the other model location, two boolean options and the flavour flipped
	q := *p
	q.cfg = map[string]string{}
	for k, v := range p.cfg {
		q.cfg[k] = v
	}
	q.model = map[string]string{"pkg": "same", "same": "pkg"}[p.model]
	flip := func(k string) {
		if q.cfg[k] == "true" {
			q.cfg[k] = "false"
		} else {
			q.cfg[k] = "true"
		}
	}
	flip("use_function_syntax_for_execution_context")
	for _, k := range []string{"omit_getters", "struct_fields_always_pointers", "omit_complexity", "omit_slice_element_pointers"}[r.Below(3):][:2] {
		flip(k)
	}
	g.build(yml2, schema, fileNames[0], p.model == "pkg", q.gqlgenYml(), target)
	return g
}

func writeRegen(root string, seed uint64, tier, corpus string) {
	r := rng.New(seed ^ 0x4E6E47)
	fail := func(err error) {
		fmt.Fprintln(os.Stderr, err)
		out.Flush()
		os.Exit(1)
	}
	if corpus != "" {
		f, err := os.Open(corpus)
		if err != nil {
			fail(err)
		}
		sc := bufio.NewScanner(f)
		for sc.Scan() {
			line := strings.TrimSpace(sc.Text())
			if line == "" || strings.HasPrefix(line, "#") {
				continue
			}
			fs := strings.Fields(line)
			if len(fs) != 4 || idxOf(rgAutobinds, fs[1]) < 0 || idxOf(rgEdits, fs[2]) < 0 {
				fail(fmt.Errorf("regeneration corpus line %q: want `<name> <autobind> <edit> <options|->`", line))
			}
			opts := map[string]bool{}
			cfg := map[string]string{}
			if fs[3] != "-" {
				for _, o := range strings.Split(fs[3], ",") {
					switch {
					case o == "follow", o == "resfollow", o == "ressingle", o == "resnone", o == "samepkg", o == "funcsyn":
						opts[o] = true
					case idxOf(boolOptions, o) >= 0 || o == "omit_root_models":
						cfg[o] = "true"
					default:
						fail(fmt.Errorf("regeneration corpus line %q: unknown option %s", line, o))
					}
				}
			}
			if err := rgFixed("c17g_"+fs[0], fs[1], fs[2], opts, cfg, "directed").write(root); err != nil {
				fail(err)
			}
		}
		f.Close()
	}
	// seeded cover: every autobind x edit pair (quick: half of the pairs, rotating with the seed; thorough: three times each), the random grammar's
	// schema and options underneath; the pairing with the random project rotates with the seed
	rounds := 1
	if tier == "thorough" {
		rounds = 3
	}
	off := r.Below(len(rgEdits))
	i := 0
	for k := 0; k < rounds; k++ {
		for a, ab := range rgAutobinds {
			for e := range rgEdits {
				ed := rgEdits[(e+off+a)%len(rgEdits)]
				if tier != "thorough" && e%2 == 1 {
					continue // quick: three of the six edits per autobind class, which three rotates with the seed
				}
				// quick: half of the pairs on a random schema, the other half on the fixed schema with random options
				name := fmt.Sprintf("c17g%03d", i)
				var g *rgProject
				if tier == "thorough" || (i+int(seed))%2 == 0 {
					g = rgRandom(r, name, ab, ed, tier)
				} else {
					opts := map[string]bool{"follow": r.Bool(), "funcsyn": r.Bool(), "samepkg": (ab == "none" || ab == "other") && r.Below(3) == 0}
					opts[[]string{"resfollow", "ressingle", "resnone"}[r.Below(3)]] = true
					cfg := map[string]string{}
					for _, o := range boolOptions {
						if r.Below(4) == 0 {
							cfg[o] = "true"
						}
					}
					g = rgFixed(name, ab, ed, opts, cfg, "cover")
				}
				if err := g.write(root); err != nil {
					fail(err)
				}
				i++
			}
		}
	}
}
