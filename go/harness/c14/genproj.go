// -mode genproj: the GENERATED `executableSchema.Complexity` switch in the tie.
//
// Writes gqlgen projects under -out (schema.graphql, gqlgen.yml, hand.go = the user's hand-written models,
// run/main.go = go/harness/c14/genrun.go.txt, cases.tsv); the check then generates each project with /repo's CURRENT
// templates (api.Generate through /verif/go/gen), builds its runner and executes cases.tsv on the really generated
// code. The dimension swept is the BINDING of schema fields to Go fields: any number of fields of one object may be
// bound to the same Go struct field / method (`@goField(name:)`, `models.<T>.fields.<f>.fieldName`, or names that
// differ only in case / underscores) and then share ONE `ComplexityRoot` entry; which member of such a group comes
// last in the schema, where the expensive function sits, whether the group has arguments, and which layout
// (`generated!.gotpl` single file / `root_.gotpl` follow-schema) emits the switch are all varied.
//
// Projects: the directed ones of corpus/C14/genprojects.txt and seeded random ones. Each is emitted for both layouts.
// stdout (tab separated; the expectation side of every case - the runner prints the implementation side):
//
//	gproj   <project> <objs token for the Lean driver>
//	gcx     <project> <id> <Type> <field> <declared entry Type.key | ->
//	gcalc   <project> <id> <schema> <objs> <entries> <expanded customs> <vars> <doc> <oracle> <tags> <query>
//	ggate   <project> <id> <schema> <objs> <entries> <expanded customs> <vars> <doc> <limit> <oracle> <query>
package main

import (
	"encoding/json"
	"fmt"
	"math"
	"os"
	"path/filepath"
	"regexp"
	"sort"
	"strings"

	"github.com/vektah/gqlparser/v2"
	"github.com/vektah/gqlparser/v2/ast"
	"github.com/vektah/gqlparser/v2/validator"

	"verifharness/internal/rng"
)

type gpField struct {
	kind   string // gen (field of a modelgen model) | var | method (hand-written model) | res (resolver)
	name   string
	args   string // "(first: Int = 2)" or ""
	typ    string
	goName string // the Go struct field / method a var/method field is bound to
	via    string // name | config | goField | case
}

type gpObject struct {
	name       string // the GraphQL type name, spelled as the schema spells it (any case, underscores, digits)
	hand, root bool
	goType     string // hand: the exported Go struct the type is bound to (the schema name need not be a Go name)
	rootKind   string // root: query | mutation | subscription (the schema name of a root is free: `schema { query: query_root }`)
	implements string
	fields     []*gpField
}

func (o *gpObject) goName() string {
	if o.goType != "" {
		return o.goType
	}
	return o.name
}

type gpOp struct {
	query string
	vars  map[string]any
}

type gpProject struct {
	name    string
	sdl     []string
	objects []*gpObject
	ops     []gpOp
	entries []customs // directed ComplexityRoot tables, keyed Type.key
}

func normName(s string) string { return strings.ToLower(strings.ReplaceAll(s, "_", "")) }

// key: the ComplexityRoot entry (normalised Go field name) a field is DECLARED to be bound to.
func (f *gpField) key() string {
	if (f.kind == "var" || f.kind == "method") && f.goName != "" {
		return normName(f.goName)
	}
	return normName(f.name)
}

const goFieldDirective = `directive @goField(forceResolver: Boolean, name: String, omittable: Boolean, type: String) on INPUT_FIELD_DEFINITION | FIELD_DEFINITION`

func (p *gpProject) SDL() string {
	var b strings.Builder
	b.WriteString(goFieldDirective + "\n")
	for _, s := range p.sdl {
		b.WriteString(s + "\n")
	}
	var roots []string
	renamed := false
	for _, o := range p.objects {
		if o.root {
			roots = append(roots, o.rootKind+": "+o.name)
			renamed = renamed || o.name != ucFirst(o.rootKind)
		}
	}
	if renamed {
		b.WriteString("schema { " + strings.Join(roots, " ") + " }\n")
	}
	for _, o := range p.objects {
		fmt.Fprintf(&b, "type %s", o.name)
		if o.implements != "" {
			fmt.Fprintf(&b, " implements %s", o.implements)
		}
		b.WriteString(" {\n")
		for _, f := range o.fields {
			fmt.Fprintf(&b, "  %s%s: %s", f.name, f.args, f.typ)
			var d []string
			if f.via == "goField" && f.goName != "" {
				d = append(d, fmt.Sprintf("name: %q", lcFirst(f.goName)))
			}
			if f.kind == "res" && o.hand && f.via == "goField" {
				d = append(d, "forceResolver: true")
			}
			if len(d) > 0 {
				fmt.Fprintf(&b, " @goField(%s)", strings.Join(d, ", "))
			}
			b.WriteString("\n")
		}
		b.WriteString("}\n")
	}
	return b.String()
}

// goParam: gqlgen binds method parameters to arguments BY NAME (strings.EqualFold): the parameter is spelled as the argument
func goParam(s string) string { return s }

func lcFirst(s string) string {
	if s == "" {
		return s
	}
	return strings.ToLower(s[:1]) + s[1:]
}

func (p *gpProject) yml(pkg, layout string) string {
	var b strings.Builder
	b.WriteString("schema:\n  - schema.graphql\nexec:\n")
	if layout == "f" {
		fmt.Fprintf(&b, "  layout: follow-schema\n  dir: .\n  package: %s\n", pkg)
	} else {
		b.WriteString("  filename: generated.go\n")
	}
	b.WriteString("model:\n  filename: models_gen.go\n")
	if layout == "f" {
		b.WriteString("use_function_syntax_for_execution_context: true\n")
	}
	b.WriteString("models:\n")
	for _, o := range p.objects {
		if !o.hand {
			continue
		}
		fmt.Fprintf(&b, "  %s:\n    model: verifharness/genout/c14/%s.%s\n", o.name, pkg, o.goName())
		var fl []string
		for _, f := range o.fields {
			switch {
			case f.kind == "res" && f.via != "goField":
				fl = append(fl, fmt.Sprintf("      %s:\n        resolver: true\n", f.name))
			case f.via == "config":
				fl = append(fl, fmt.Sprintf("      %s:\n        fieldName: %s\n", f.name, lcFirst(f.goName)))
			}
		}
		if len(fl) > 0 {
			b.WriteString("    fields:\n" + strings.Join(fl, ""))
		}
	}
	return b.String()
}

func (p *gpProject) goType(t string) string {
	nonNull := strings.HasSuffix(t, "!")
	t = strings.TrimSuffix(t, "!")
	if strings.HasPrefix(t, "[") {
		return "[]" + p.goType(strings.TrimSuffix(strings.TrimPrefix(t, "["), "]"))
	}
	base := map[string]string{"Int": "int", "String": "string", "Boolean": "bool", "Float": "float64", "ID": "string"}[t]
	if base == "" {
		for _, o := range p.objects {
			if o.name == t {
				return "*" + o.goName() // another hand-written model
			}
		}
		return "*" + t
	}
	if nonNull {
		return base
	}
	return "*" + base
}

func zeroOf(gt string) string {
	switch {
	case strings.HasPrefix(gt, "*"), strings.HasPrefix(gt, "[]"):
		return "nil"
	case gt == "string":
		return `""`
	case gt == "bool":
		return "false"
	}
	return "0"
}

// splitArgs: "(a: Int = 1, b: Int!)" -> [[a, Int], [b, Int!]]
func splitArgs(args string) [][2]string {
	args = strings.TrimSpace(args)
	if args == "" {
		return nil
	}
	var res [][2]string
	for _, a := range strings.Split(strings.TrimSuffix(strings.TrimPrefix(args, "("), ")"), ",") {
		a = strings.TrimSpace(a)
		i := strings.Index(a, ":")
		t := strings.TrimSpace(a[i+1:])
		if j := strings.Index(t, "="); j >= 0 {
			t = strings.TrimSpace(t[:j])
		}
		res = append(res, [2]string{strings.TrimSpace(a[:i]), t})
	}
	return res
}

func (p *gpProject) handGo(pkg string) string {
	var b strings.Builder
	fmt.Fprintf(&b, "// the user's hand-written models of project %s (written by h_c14 -mode genproj)\npackage %s\n\n", p.name, pkg)
	for _, o := range p.objects {
		if !o.hand {
			continue
		}
		seen := map[string]bool{}
		fmt.Fprintf(&b, "type %s struct {\n", o.goName())
		for _, f := range o.fields {
			if f.kind == "var" && !seen[f.goName] {
				seen[f.goName] = true
				fmt.Fprintf(&b, "\t%s %s\n", f.goName, p.goType(f.typ))
			}
		}
		b.WriteString("}\n\n")
		for _, f := range o.fields {
			if f.kind == "method" && !seen[f.goName] {
				seen[f.goName] = true
				var ps []string
				for _, a := range splitArgs(f.args) {
					ps = append(ps, goParam(a[0])+" "+p.goType(a[1]))
				}
				rt := p.goType(f.typ)
				fmt.Fprintf(&b, "func (r *%s) %s(%s) %s { return %s }\n\n", o.goName(), f.goName, strings.Join(ps, ", "), rt, zeroOf(rt))
			}
		}
	}
	return b.String()
}

// objsTok: what codegen.Data.Objects holds, for the Lean model: Name:reserved[+Root][+Stream]:field>key>reserved|…;…
func (p *gpProject) objsTok() string {
	var parts []string
	for _, o := range p.objects {
		var fs []string
		for _, f := range o.fields {
			fs = append(fs, f.name+">"+f.key()+">0")
		}
		if o.rootKind == "query" {
			// codegen adds the introspection entry points to the query root; both are reserved
			fs = append(fs, "__schema>introspectschema>1", "__type>introspecttype>1")
		}
		// the KIND of the object, as a template guard can read it: $object.Root (any root), $object.Stream (the subscription root)
		attrs := ""
		if o.root {
			attrs = "+Root"
		}
		if o.rootKind == "subscription" {
			attrs += "+Stream"
		}
		parts = append(parts, o.name+":0"+attrs+":"+strings.Join(fs, "|"))
	}
	parts = append(parts, "__Type:1:name>name>0|kind>kind>0", "__Field:1:name>name>0")
	return strings.Join(parts, ";")
}

// expand: the documented meaning of a ComplexityRoot table - every schema field costs what the function
// configured for the Go field it is bound to says (written here from the declared binding only).
func (p *gpProject) expand(entries customs) customs {
	c := customs{}
	for _, o := range p.objects {
		for _, f := range o.fields {
			if e, ok := entries[o.name+"."+f.key()]; ok {
				c[o.name+"."+f.name] = e
			}
		}
	}
	return c
}

// ------------------------------------------------------------------ corpus

func parseDecl(s string) (name, args, typ string) {
	s = strings.TrimSpace(s)
	if i := strings.Index(s, "("); i >= 0 && i < strings.Index(s, ":") {
		j := strings.Index(s, ")")
		return s[:i], s[i : j+1], strings.TrimSpace(strings.TrimPrefix(strings.TrimSpace(s[j+1:]), ":"))
	}
	i := strings.Index(s, ":")
	return strings.TrimSpace(s[:i]), "", strings.TrimSpace(s[i+1:])
}

func parseEntriesTok(s string) customs {
	c := customs{}
	for _, kv := range strings.Split(strings.TrimSpace(s), ";") {
		kv = strings.TrimSpace(kv)
		if kv == "" || kv == "-" {
			continue
		}
		i := strings.Index(kv, "=")
		p := strings.Split(kv[i+1:], ":")
		atoi := func(x string) int {
			switch x {
			case "MAX":
				return math.MaxInt64
			case "MIN":
				return math.MinInt64
			}
			var v int
			fmt.Sscan(x, &v)
			return v
		}
		var e expr
		switch p[0] {
		case "c":
			e = expr{kind: "c", b: atoi(p[1])}
		case "l":
			e = expr{kind: "l", a: atoi(p[1]), b: atoi(p[2])}
		default:
			e = expr{kind: "a", arg: p[1], b: atoi(p[2])}
		}
		c[strings.TrimSpace(kv[:i])] = e
	}
	return c
}

func fixVars(m map[string]any) map[string]any {
	for k, v := range m {
		if n, ok := v.(json.Number); ok {
			if i, err := n.Int64(); err == nil {
				m[k] = i
			} else {
				f, _ := n.Float64()
				m[k] = f
			}
		}
	}
	return m
}

func parseGenCorpus(path string) []*gpProject {
	data, err := os.ReadFile(path)
	if err != nil {
		fmt.Fprintln(os.Stderr, "corpus:", err)
		os.Exit(3)
	}
	var ps []*gpProject
	var p *gpProject
	var o *gpObject
	for ln, line := range strings.Split(string(data), "\n") {
		t := strings.TrimSpace(line)
		if t == "" || strings.HasPrefix(t, "#") {
			continue
		}
		w := strings.SplitN(t, " ", 2)
		rest := ""
		if len(w) > 1 {
			rest = strings.TrimSpace(w[1])
		}
		bad := func(msg string) {
			fmt.Fprintf(os.Stderr, "%s:%d: %s: %s\n", path, ln+1, msg, t)
			os.Exit(3)
		}
		switch w[0] {
		case "project":
			p = &gpProject{name: rest}
			ps = append(ps, p)
		case "sdl":
			p.sdl = append(p.sdl, rest)
		case "type", "hand", "root":
			f := strings.Fields(rest)
			o = &gpObject{name: f[0], hand: w[0] == "hand", root: w[0] == "root"}
			if len(f) == 3 && f[1] == "implements" {
				o.implements = f[2]
			}
			if o.hand {
				// `hand <name> [go <GoStruct>]`: a schema name that is not an exported Go identifier needs the Go name
				if len(f) == 3 && f[1] == "go" {
					o.goType = f[2]
				} else if c := f[0][0]; c < 'A' || c > 'Z' {
					bad("hand-written model of a type whose name is not an exported Go identifier needs `go <GoStruct>`")
				}
			}
			if o.root {
				// `root <name> [query|mutation|subscription]`
				o.rootKind = strings.ToLower(f[0])
				if len(f) == 2 {
					o.rootKind = f[1]
				}
				if o.rootKind != "query" && o.rootKind != "mutation" && o.rootKind != "subscription" {
					bad("root needs its kind: query | mutation | subscription")
				}
			}
			p.objects = append(p.objects, o)
		case "gen", "var", "method", "res":
			if o == nil {
				bad("field outside an object")
			}
			decl, target := rest, ""
			if i := strings.Index(rest, "->"); i >= 0 {
				decl, target = rest[:i], strings.TrimSpace(rest[i+2:])
			}
			f := &gpField{kind: w[0], via: "name"}
			f.name, f.args, f.typ = parseDecl(decl)
			if tf := strings.Fields(target); len(tf) > 0 {
				if tf[0] != "-" {
					f.goName = tf[0]
				}
				if len(tf) > 1 {
					f.via = tf[1]
				}
			}
			if (f.kind == "var" || f.kind == "method") && f.goName == "" {
				bad("var/method needs -> GoName")
			}
			o.fields = append(o.fields, f)
		case "op":
			q, vs := rest, ""
			if i := strings.LastIndex(rest, " | {"); i >= 0 {
				q, vs = rest[:i], rest[i+3:]
			}
			vars := map[string]any{}
			if vs != "" {
				d := json.NewDecoder(strings.NewReader(vs))
				d.UseNumber()
				if err := d.Decode(&vars); err != nil {
					bad("variables: " + err.Error())
				}
			}
			p.ops = append(p.ops, gpOp{query: strings.TrimSpace(q), vars: fixVars(vars)})
		case "entries":
			p.entries = append(p.entries, parseEntriesTok(rest))
		default:
			bad("unknown line")
		}
	}
	return ps
}

// ------------------------------------------------------------------ seeded random projects

var gpBases = []string{"total", "count", "size", "cost", "rank", "level", "weight", "price", "score", "depth"}
var gpHandNames = []string{"Report", "Stats", "Usage", "Ledger", "Quota"}

func ucFirst(s string) string { return strings.ToUpper(s[:1]) + s[1:] }

func randomGenProject(r *rng.R, name string) *gpProject {
	p := &gpProject{name: name}
	p.sdl = []string{
		`interface Node { id: ID! score(w: Int = 2): Int }`,
		`union Thing = Item | Box`,
		`input Filter { min: Int! = 0 tags: [String!] nested: Filter }`,
		`enum Mode { FAST SLOW }`,
	}
	nHand := 2 + r.Below(3)
	hands := gpHandNames[:nHand]
	item := &gpObject{name: "Item", implements: "Node", fields: []*gpField{
		{kind: "gen", name: "id", typ: "ID!", via: "name"}, {kind: "gen", name: "score", args: "(w: Int = 2)", typ: "Int", via: "name"},
		{kind: "gen", name: "owner", typ: hands[0], via: "name"}, {kind: "gen", name: "more", args: "(first: Int = 2, mode: Mode)", typ: "[Item!]", via: "name"}}}
	box := &gpObject{name: "Box", implements: "Node", fields: []*gpField{
		{kind: "gen", name: "id", typ: "ID!", via: "name"}, {kind: "gen", name: "score", args: "(w: Int = 2)", typ: "Int", via: "name"},
		{kind: "gen", name: "items", args: "(first: Int, filter: Filter)", typ: "[Item!]!", via: "name"}, {kind: "gen", name: "holder", typ: hands[nHand-1], via: "name"}}}
	p.objects = append(p.objects, item, box)
	for hi, hn := range hands {
		o := &gpObject{name: hn, hand: true}
		bases := append([]string{}, gpBases...)
		for i := len(bases) - 1; i > 0; i-- {
			j := r.Below(i + 1)
			bases[i], bases[j] = bases[j], bases[i]
		}
		nGroups := 2 + r.Below(4)
		for gi := 0; gi < nGroups; gi++ {
			base := bases[gi]
			goName := ucFirst(base)
			size := 1 + r.Below(3)
			if gi == 0 && size == 1 {
				size = 2 // every hand-written model has at least one shared Go field
			}
			kind, args, typ := "var", "", []string{"Int!", "Int", "String!", "Int!"}[r.Below(4)]
			switch r.Below(6) {
			case 0, 1:
				kind = "method"
				args = []string{"(scale: Int = 1)", "(scale: Int, by: Int!)", "(first: Int! = 3, w: Float = 1)", "(n: Int)"}[r.Below(4)]
			case 2:
				typ = hands[r.Below(nHand)] // an object-typed shared field: children under a shared entry
			}
			if r.Below(5) == 0 && kind == "var" {
				// names that differ only in case / underscore collide without any directive or configuration
				goName = ucFirst(base) + "Val"
				o.fields = append(o.fields, &gpField{kind: kind, name: base + "Val", typ: typ, goName: goName, via: "case"},
					&gpField{kind: kind, name: base + "_val", typ: typ, goName: goName, via: "case"})
				continue
			}
			for m := 0; m < size; m++ {
				f := &gpField{kind: kind, args: args, typ: typ, goName: goName}
				if m == 0 && r.Below(3) != 0 {
					f.name, f.via = base, "name"
				} else {
					f.name = []string{"old", "raw", "net", "alt"}[m%4] + ucFirst(base)
					if m >= 4 {
						f.name += fmt.Sprint(m)
					}
					f.via = []string{"config", "goField"}[r.Below(2)]
				}
				o.fields = append(o.fields, f)
			}
		}
		// resolvers (their own entries), one of them declared next to a shared Go name
		o.fields = append(o.fields, &gpField{kind: "res", name: "items", args: "(first: Int = 2, filter: Filter, mode: Mode = FAST)", typ: "[Item!]", via: []string{"name", "goField"}[r.Below(2)]})
		if r.Bool() {
			o.fields = append(o.fields, &gpField{kind: "res", name: "peer", args: "(n: Int)", typ: hands[(hi+1)%nHand], via: "name"})
		}
		if r.Bool() {
			o.fields = append(o.fields, &gpField{kind: "res", name: "forced" + ucFirst(bases[0]), typ: "Int!", goName: ucFirst(bases[0]), via: "goField"})
		}
		// the position of a member inside its group (first / middle / last in schema order) is part of the sweep
		for i := len(o.fields) - 1; i > 0; i-- {
			j := r.Below(i + 1)
			o.fields[i], o.fields[j] = o.fields[j], o.fields[i]
		}
		p.objects = append(p.objects, o)
	}
	q := &gpObject{name: "Query", root: true, rootKind: "query"}
	for _, hn := range hands {
		q.fields = append(q.fields, &gpField{kind: "res", name: lcFirst(hn), typ: hn + "!", via: "name"},
			&gpField{kind: "res", name: lcFirst(hn) + "List", args: "(first: Int = 3)", typ: "[" + hn + "!]", via: "name"})
	}
	q.fields = append(q.fields, &gpField{kind: "res", name: "node", args: "(id: ID!)", typ: "Node", via: "name"},
		&gpField{kind: "res", name: "things", args: "(first: Int)", typ: "[Thing!]", via: "name"},
		&gpField{kind: "res", name: "scalar", typ: "Int!", via: "name"})
	m := &gpObject{name: "Mutation", root: true, rootKind: "mutation", fields: []*gpField{{kind: "res", name: "bump", args: "(by: Int = 1)", typ: hands[0], via: "name"}}}
	// the ROOT dimension: every project has the three roots, each with fields that carry arguments (custom costs that depend
	// on them) and with scalar / object / list / interface results. A subscription resolver returns a channel.
	m.fields = append(m.fields, &gpField{kind: "res", name: "reset", args: "(n: Int! = 1, w: Float)", typ: "Int!", via: "name"})
	sub := &gpObject{name: "Subscription", root: true, rootKind: "subscription"}
	sub.fields = append(sub.fields, &gpField{kind: "res", name: "events", args: "(last: Int = 2, filter: Filter)", typ: "[Item!]", via: "name"},
		&gpField{kind: "res", name: lcFirst(hands[0]) + "Feed", args: "(every: Int! = 1)", typ: hands[0] + "!", via: "name"})
	if r.Bool() {
		sub.fields = append(sub.fields, &gpField{kind: "res", name: "ticks", args: "(n: Int)", typ: "Int!", via: "name"})
	}
	if r.Bool() {
		sub.fields = append(sub.fields, &gpField{kind: "res", name: "nodeChanged", args: "(id: ID!, depth: Int = 1)", typ: "Node", via: "name"})
	}
	for i := len(sub.fields) - 1; i > 0; i-- {
		j := r.Below(i + 1)
		sub.fields[i], sub.fields[j] = sub.fields[j], sub.fields[i]
	}
	// the roots come in any order among themselves (the templates range over .Objects in schema order)
	roots := []*gpObject{q, m, sub}
	for i := len(roots) - 1; i > 0; i-- {
		j := r.Below(i + 1)
		roots[i], roots[j] = roots[j], roots[i]
	}
	p.objects = append(p.objects, roots...)
	for _, o := range p.objects {
		if o.hand {
			o.goType = o.name // the Go struct keeps the canonical name, the schema name is restyled below
		}
	}
	p.restyle(r)
	return p
}

// ------------------------------------------------------------------ the NAMES dimension
//
// The walker hands `ObjectDefinition.Name` and `Field.Name` to Complexity() exactly as the schema spells them, while the
// templates derive Go identifiers from the same names (ComplexityRoot.<ucFirst type>.<ToGo field>, resolver interfaces,
// field_<type>_<field>_args). A project is first built with canonical names and then every type name (objects, roots,
// interface, union) and every field name is respelled the way real schemas do: leading lower case / capital,
// snake_case, ALL CAPS, digits, initialisms. Type names stay distinct after Go mangling (distinct bases; gqlgen does
// not compile two types mangled to one Go name); field names bound by name keep matching their Go field up to case and
// underscores (the binder's rule), others are free; spellings that collide after mangling inside one object are the
// "case" groups (one shared ComplexityRoot entry).

var identRe = regexp.MustCompile(`[A-Za-z_][A-Za-z0-9_]*`)

func snake(s string) string {
	var b strings.Builder
	for i, c := range s {
		if c >= 'A' && c <= 'Z' && i > 0 {
			b.WriteByte('_')
		}
		b.WriteRune(c)
	}
	return strings.ToLower(b.String())
}

// styleType: style 0 keeps the name; 1.. are the spellings of the sweep
func styleType(name string, style int) string {
	switch style {
	case 1:
		return lcFirst(name)
	case 2:
		return strings.ToLower(name) + "_rec"
	case 3:
		return name + "_Set"
	case 4:
		return strings.ToUpper(name)
	case 5:
		return name + "2"
	case 6:
		return lcFirst(name) + "3D"
	case 7:
		return name + "URL"
	case 8:
		return "HTTP" + name
	case 9:
		return "i" + name // iOSDevice-like: lower-case first letter, capital second
	}
	return name
}

const nTypeStyles = 10

var lowerTypeStyles = []int{1, 2, 6, 9}

// styleFree: a field bound by configuration / directive, generated, or resolved: any spelling (the entry is ToGo(name))
func styleFree(name string, style int) string {
	switch style {
	case 1:
		return ucFirst(name)
	case 2:
		return snake(name)
	case 3:
		return strings.ToUpper(snake(name))
	case 4:
		return name + "2"
	case 5:
		return name + "Id"
	case 6:
		return name + "_url"
	case 7:
		return snake(name) + "_"
	case 8:
		return name + "_2x"
	}
	return name
}

const nFreeStyles = 9

// styleBound: a field bound to its Go field BY NAME: only case and underscores may differ
func styleBound(name string, style int) string {
	switch style {
	case 1:
		return ucFirst(name)
	case 2:
		return strings.ToUpper(name)
	case 3:
		return name[:len(name)/2] + "_" + name[len(name)/2:]
	case 4:
		return name + "_"
	case 5:
		return snake(name)
	}
	return name
}

const nBoundStyles = 6

func (p *gpProject) restyle(r *rng.R) {
	// ---- type names
	ren := map[string]string{}
	pick := func(canon string, styles []int) {
		ren[canon] = styleType(canon, styles[r.Below(len(styles))])
	}
	all := make([]int, nTypeStyles)
	for i := range all {
		all[i] = i
	}
	firstHand, firstGen := true, true
	for _, o := range p.objects {
		switch {
		case o.root:
			ren[o.name] = [][]string{{"Query", "query", "query_root", "RootQuery", "QUERY"}, {"Mutation", "mutation", "mutation_root", "Mutations2", "Mutation"},
				{"Subscription", "subscription", "subscription_root", "Subscriptions2", "SUBSCRIPTION"}}[map[string]int{"query": 0, "mutation": 1, "subscription": 2}[o.rootKind]][r.Below(5)]
		case o.hand && firstHand:
			firstHand = false
			pick(o.name, lowerTypeStyles) // every project has a hand-written model whose type starts lower-case
		case !o.hand && firstGen:
			firstGen = false
			pick(o.name, lowerTypeStyles) // ... and a generated model
		default:
			pick(o.name, all)
		}
	}
	pick("Node", all)
	pick("Thing", all)
	reType := func(s string) string {
		return identRe.ReplaceAllStringFunc(s, func(id string) string {
			if n, ok := ren[id]; ok {
				return n
			}
			return id
		})
	}
	// ---- field names: interface fields are respelled once for the interface and its implementors
	shared := map[string]string{"score": styleFree("score", r.Below(nFreeStyles)), "id": []string{"id", "ID", "Id", "id", "_id"}[r.Below(4)]}
	reShared := func(s string) string {
		// only the field positions of the interface declaration: `{ id: ID! score(w: Int = 2): Int }`
		for from, to := range shared {
			s = regexp.MustCompile(`([{ ])`+from+`([(:])`).ReplaceAllString(s, "${1}"+to+"${2}")
		}
		return s
	}
	for i, d := range p.sdl {
		if strings.HasPrefix(d, "interface ") {
			d = reShared(d)
		}
		p.sdl[i] = reType(d)
	}
	for _, o := range p.objects {
		o.name = reType(o.name)
		o.implements = reType(o.implements)
		used := map[string]bool{}
		for _, f := range o.fields {
			used[normName(f.name)] = true
		}
		for _, f := range o.fields {
			f.typ, f.args = reType(f.typ), reType(f.args)
			if n, ok := shared[f.name]; ok && o.implements != "" {
				f.name = n
				continue
			}
			var n string
			switch {
			case f.via == "case":
				continue // the pair fooVal / foo_val IS a spelling collision already
			case (f.kind == "var" || f.kind == "method") && f.via == "name":
				n = styleBound(f.name, r.Below(nBoundStyles))
			default:
				n = styleFree(f.name, r.Below(nFreeStyles))
			}
			if k := normName(n); k != normName(f.name) && used[k] {
				continue // would collide with another field of the object after mangling: keep the canonical spelling
			}
			used[normName(n)] = true
			f.name = n
		}
	}
}

// ------------------------------------------------------------------ ComplexityRoot tables

func (p *gpProject) entryKeys() (keys []string, intArgs map[string][]string, groupSize map[string]int) {
	intArgs, groupSize = map[string][]string{}, map[string]int{}
	for _, o := range p.objects {
		for _, f := range o.fields {
			k := o.name + "." + f.key()
			if groupSize[k] == 0 {
				keys = append(keys, k)
				for _, a := range splitArgs(f.args) {
					if strings.TrimSuffix(a[1], "!") == "Int" || strings.TrimSuffix(a[1], "!") == "Float" {
						intArgs[k] = append(intArgs[k], a[0])
					}
				}
			}
			groupSize[k]++
		}
	}
	return
}

func (p *gpProject) genEntries(r *rng.R, density int, wild bool) customs {
	keys, intArgs, groupSize := p.entryKeys()
	c := customs{}
	for _, k := range keys {
		d := density
		if groupSize[k] > 1 && d > 0 {
			d = 85 // shared entries are what this stream is about
		}
		if r.Below(100) >= d {
			continue
		}
		small := func(pool []int) int {
			v := pool[r.Below(len(pool))]
			if !wild && (v > 1<<20 || v < -1<<20) {
				v = r.Below(30)
			}
			return v
		}
		var e expr
		switch x := r.Below(10); {
		case x < 4:
			e = expr{kind: "c", b: small(constPool)}
			if groupSize[k] > 1 && r.Bool() {
				e.b = 50 + r.Below(1000) // clearly above the default cost
			}
		case x < 7 || len(intArgs[k]) == 0:
			e = expr{kind: "l", a: small(mulPool), b: small(addPool)}
		default:
			e = expr{kind: "a", arg: intArgs[k][r.Below(len(intArgs[k]))], b: small(addPool)}
		}
		c[k] = e
	}
	return c
}

// ------------------------------------------------------------------ cases

func sampleArg(schema *ast.Schema, t *ast.Type, depth int) any {
	if t.Elem != nil {
		return []any{sampleArg(schema, t.Elem, depth)}
	}
	switch t.Name() {
	case "Int":
		return 2
	case "Float":
		return 1.5
	case "String", "ID":
		return "s"
	case "Boolean":
		return true
	}
	d := schema.Types[t.Name()]
	if d == nil {
		return nil
	}
	switch d.Kind {
	case ast.Enum:
		return d.EnumValues[0].Name
	case ast.InputObject:
		m := map[string]any{}
		for _, f := range d.Fields {
			if f.Type.NonNull && depth < 3 {
				m[f.Name] = sampleArg(schema, f.Type, depth+1)
			}
		}
		return m
	}
	return nil
}

func intVars(m map[string]any) map[string]any {
	res := map[string]any{}
	for k, v := range m {
		if i, ok := asInt(v); ok {
			res[k] = int64(i)
		} else {
			res[k] = v
		}
	}
	return res
}

type gpWriter struct {
	cases strings.Builder
	n     int
}

func runGenProj(outDir, corpus, tier string, seed uint64) {
	r := rng.New(seed ^ 0x6E14)
	projects := parseGenCorpus(corpus)
	nRandom, nOps, nGate := 2, 350, 120
	if tier == "thorough" {
		nRandom, nOps, nGate = 10, 3000, 600
	}
	for i := 0; i < nRandom; i++ {
		projects = append(projects, randomGenProject(r.Fork(), fmt.Sprintf("r%d", i)))
	}
	tmpl, err := os.ReadFile("harness/c14/genrun.go.txt")
	if err != nil {
		fmt.Fprintln(os.Stderr, err)
		os.Exit(3)
	}
	for pi, p := range projects {
		sdl := p.SDL()
		schema, gerr := gqlparser.LoadSchema(&ast.Source{Name: p.name, Input: sdl})
		if gerr != nil {
			fmt.Fprintf(os.Stderr, "project %s: schema does not load: %v\n%s\n", p.name, gerr, sdl)
			os.Exit(3)
		}
		// ---- the cases (identical for both layouts)
		w := &gpWriter{}
		var exp strings.Builder
		pr := r.Fork()
		objs := p.objsTok()
		for _, o := range p.objects {
			for _, f := range o.fields {
				fmt.Fprintf(&w.cases, "bind\t%s.%s\t%s.%s\n", o.name, f.name, o.name, f.key())
			}
		}
		// (a) the switch itself: every (type, field) of the schema, plus names that are not fields
		var tnames []string
		for n := range schema.Types {
			tnames = append(tnames, n)
		}
		sort.Strings(tnames)
		declared := map[string]string{}
		for _, o := range p.objects {
			for _, f := range o.fields {
				declared[o.name+"."+f.name] = o.name + "." + f.key()
			}
		}
		for _, tn := range tnames {
			d := schema.Types[tn]
			if d.Kind != ast.Object && d.Kind != ast.Interface && d.Kind != ast.Union {
				continue
			}
			if strings.HasPrefix(tn, "__") && tn != "__Type" {
				continue
			}
			type tf struct {
				f    string
				args map[string]any
			}
			fs := []tf{{"__typename", nil}, {"nope", nil}}
			for _, fd := range d.Fields {
				a := map[string]any{}
				for _, ad := range fd.Arguments {
					if v := sampleArg(schema, ad.Type, 0); v != nil {
						a[ad.Name] = v
					}
				}
				fs = append(fs, tf{fd.Name, a})
			}
			for _, x := range fs {
				w.n++
				want := declared[tn+"."+x.f]
				if want == "" {
					want = "-"
				}
				aj, _ := json.Marshal(x.args)
				if x.args == nil {
					aj = []byte("{}")
				}
				fmt.Fprintf(&w.cases, "cx\t%d\t%s\t%s\t%s\n", w.n, tn, x.f, aj)
				fmt.Fprintf(&exp, "gcx\tPROJECT\t%d\t%s\t%s\t%s\n", w.n, tn, x.f, want)
			}
		}
		// (b) whole operations: directed ops x directed tables, then seeded random ops x random tables
		emit := func(c *opCase, entries customs, gate bool, cr *rng.R) {
			cus := p.expand(entries)
			vj, _ := json.Marshal(c.vars)
			// the walker is handed the COERCED variables (operation-level defaults filled in by gqlparser's
			// validator.VariableValues, library code); the runner gets the raw ones, as a client sends them
			raw := c.vars
			if cv, err := validator.VariableValues(c.schema, c.op, raw); err == nil {
				c = &opCase{schema: c.schema, query: c.query, vars: intVars(cv), doc: c.doc, op: c.op}
			}
			orc, o := runOracle(c.schema, cus, c.vars, c.op)
			w.n++
			fmt.Fprintf(&w.cases, "calc\t%d\t%s\t%s\t%s\n", w.n, entries.String(), flat(c.query), vj)
			fmt.Fprintf(&exp, "gcalc\tPROJECT\t%d\t%s\t%s\t%s\t%s\t%s\t%s\t%d\t%s\t%s\n", w.n, schemaTok(c.schema), objs, entries.String(), cus.String(),
				varsTok(c.vars), docTok(c.op), orc, tagStr(o.tags), flat(c.query))
			if !gate {
				return
			}
			limits := []int{orc, orc - 1, orc + 1}
			if cr != nil {
				limits = limitsFor(cr, orc)
			}
			for _, l := range limits {
				opName := "Op"
				if l%2 == 0 && !strings.Contains(c.query, " Other") {
					opName = ""
				}
				w.n++
				fmt.Fprintf(&w.cases, "gate\t%d\t%s\t%s\t%s\t%d\t%s\n", w.n, entries.String(), flat(c.query), vj, l, opName)
				fmt.Fprintf(&exp, "ggate\tPROJECT\t%d\t%s\t%s\t%s\t%s\t%s\t%s\t%d\t%d\t%s\n", w.n, schemaTok(c.schema), objs, entries.String(), cus.String(),
					varsTok(c.vars), docTok(c.op), l, orc, flat(c.query))
			}
		}
		// one table per shared entry: only that entry is expensive (the member asked for may be any of the group)
		tables := append([]customs{}, p.entries...)
		keys, _, groupSize := p.entryKeys()
		for _, k := range keys {
			if groupSize[k] > 1 {
				tables = append(tables, customs{k: {kind: "c", b: 1000}}, customs{k: {kind: "l", a: 3, b: 7}})
			}
		}
		tables = append(tables, customs{})
		// directed operations: those of the corpus + one per field of every hand-written model, reached from the root
		ops := append([]gpOp{}, p.ops...)
		var queryFields []*gpField
		for _, o := range p.objects {
			if o.rootKind == "query" {
				queryFields = o.fields
			}
		}
		for _, o := range p.objects {
			if !o.hand {
				continue
			}
			for _, f := range o.fields {
				sub := ""
				if td := schema.Types[strings.Trim(f.typ, "[]!")]; composite(td) {
					sub = " { __typename }"
				}
				args := ""
				var req []string
				for _, a := range splitArgs(f.args) {
					if strings.HasSuffix(a[1], "!") && !strings.Contains(f.args, a[0]+": "+a[1]+" =") {
						req = append(req, a[0]+": 4")
					}
				}
				if len(req) > 0 {
					args = "(" + strings.Join(req, ", ") + ")"
				}
				for _, rf := range queryFields {
					if strings.Trim(rf.typ, "[]!") == o.name && rf.args == "" {
						ops = append(ops, gpOp{query: fmt.Sprintf("query Op { %s { %s%s%s } }", rf.name, f.name, args, sub), vars: map[string]any{}})
						break
					}
				}
			}
		}
		loadOp := func(op gpOp) *opCase {
			c := &opCase{schema: schema, query: op.query, vars: op.vars}
			if c.vars == nil {
				c.vars = map[string]any{}
			}
			c.load()
			if c.op == nil {
				fmt.Fprintf(os.Stderr, "project %s: directed operation does not validate: %s: %v\n", p.name, op.query, c.errs)
				os.Exit(3)
			}
			return c
		}
		for _, op := range ops {
			c := loadOp(op)
			for _, t := range tables {
				emit(c, t, true, nil)
			}
		}
		// the ROOT dimension: one operation of its own kind (query / mutation / subscription) per field of EVERY root, with
		// only that field's ComplexityRoot entry set (constant far above the default cost; a multiple of the children; the
		// value of its first Int argument x children, the operation passing 50) and with no entry at all, each through the
		// gate at c-1 / c / c+1: a limit between the default and the custom cost tells a root whose functions are ignored
		for _, o := range p.objects {
			if !o.root {
				continue
			}
			for _, f := range o.fields {
				var args []string
				intArg := ""
				for _, a := range splitArgs(f.args) {
					switch {
					case strings.TrimSuffix(a[1], "!") == "Int" && intArg == "":
						intArg = a[0]
						args = append(args, a[0]+": 50")
					case strings.HasSuffix(a[1], "!") && !strings.Contains(f.args, a[0]+": "+a[1]+" ="):
						args = append(args, a[0]+": 4")
					}
				}
				q := o.rootKind + " Op { " + f.name
				if len(args) > 0 {
					q += "(" + strings.Join(args, ", ") + ")"
				}
				if td := schema.Types[strings.Trim(f.typ, "[]!")]; composite(td) {
					q += " { __typename }"
				}
				c := loadOp(gpOp{query: q + " }", vars: map[string]any{}})
				k := o.name + "." + f.key()
				ts := []customs{{k: {kind: "c", b: 1000}}, {k: {kind: "l", a: 3, b: 7}}, {}}
				if intArg != "" {
					ts = append(ts, customs{k: {kind: "a", arg: intArg, b: 0}})
				}
				for _, t := range ts {
					emit(c, t, true, nil)
				}
			}
		}
		for i := 0; i < nOps; i++ {
			c := genOp(pr.Fork(), schema, 4)
			if c.op == nil {
				continue
			}
			cr := pr.Fork()
			emit(c, p.genEntries(cr, []int{15, 40, 90}[cr.Below(3)], cr.Below(4) == 0), i < nGate, cr)
		}
		// ---- the two layouts
		for _, layout := range []string{"s", "f"} {
			pkg := fmt.Sprintf("g%d%s%s", pi, p.name, layout)
			d := filepath.Join(outDir, pkg)
			if err := os.MkdirAll(filepath.Join(d, "run"), 0o755); err != nil {
				fmt.Fprintln(os.Stderr, err)
				os.Exit(3)
			}
			files := map[string]string{
				"schema.graphql": sdl,
				"gqlgen.yml":     p.yml(pkg, layout),
				"hand.go":        p.handGo(pkg),
				"cases.tsv":      w.cases.String(),
				"run/main.go":    strings.ReplaceAll(string(tmpl), "EXECPKG", "verifharness/genout/c14/"+pkg),
			}
			for n, c := range files {
				if err := os.WriteFile(filepath.Join(d, n), []byte(c), 0o644); err != nil {
					fmt.Fprintln(os.Stderr, err)
					os.Exit(3)
				}
			}
			fmt.Fprintf(out, "gproj\t%s\t%s\n", pkg, objs)
			out.WriteString(strings.ReplaceAll(exp.String(), "\tPROJECT\t", "\t"+pkg+"\t"))
		}
	}
}
