// Code generated for the C14 harness (all subsets of the six hook interfaces); DO NOT EDIT.
//
// Go fixes the method set of a type at compile time, so "an extension that implements hooks S" needs one type per S:
//   w<S>  = a user type with its own methods for the hooks of S (63 types); MutateOperationContext may DELEGATE to a
//           *extension.ComplexityLimit it holds
//   e<S>  = a user type that EMBEDS *extension.ComplexityLimit (its OperationContextMutator, ExtensionName and Validate are
//           the promoted ones) and adds the hooks of S from {P,O,R,T,F} (32 types)
package main

import (
	"github.com/99designs/gqlgen/graphql"
	"github.com/99designs/gqlgen/graphql/handler/extension"
)

type wP struct {
	nMix
	pMix
}

type wC struct {
	nMix
	cMix
}

type wO struct {
	nMix
	oMix
}

type wR struct {
	nMix
	rMix
}

type wT struct {
	nMix
	tMix
}

type wF struct {
	nMix
	fMix
}

type wPC struct {
	nMix
	pMix
	cMix
}

type wPO struct {
	nMix
	pMix
	oMix
}

type wPR struct {
	nMix
	pMix
	rMix
}

type wPT struct {
	nMix
	pMix
	tMix
}

type wPF struct {
	nMix
	pMix
	fMix
}

type wCO struct {
	nMix
	cMix
	oMix
}

type wCR struct {
	nMix
	cMix
	rMix
}

type wCT struct {
	nMix
	cMix
	tMix
}

type wCF struct {
	nMix
	cMix
	fMix
}

type wOR struct {
	nMix
	oMix
	rMix
}

type wOT struct {
	nMix
	oMix
	tMix
}

type wOF struct {
	nMix
	oMix
	fMix
}

type wRT struct {
	nMix
	rMix
	tMix
}

type wRF struct {
	nMix
	rMix
	fMix
}

type wTF struct {
	nMix
	tMix
	fMix
}

type wPCO struct {
	nMix
	pMix
	cMix
	oMix
}

type wPCR struct {
	nMix
	pMix
	cMix
	rMix
}

type wPCT struct {
	nMix
	pMix
	cMix
	tMix
}

type wPCF struct {
	nMix
	pMix
	cMix
	fMix
}

type wPOR struct {
	nMix
	pMix
	oMix
	rMix
}

type wPOT struct {
	nMix
	pMix
	oMix
	tMix
}

type wPOF struct {
	nMix
	pMix
	oMix
	fMix
}

type wPRT struct {
	nMix
	pMix
	rMix
	tMix
}

type wPRF struct {
	nMix
	pMix
	rMix
	fMix
}

type wPTF struct {
	nMix
	pMix
	tMix
	fMix
}

type wCOR struct {
	nMix
	cMix
	oMix
	rMix
}

type wCOT struct {
	nMix
	cMix
	oMix
	tMix
}

type wCOF struct {
	nMix
	cMix
	oMix
	fMix
}

type wCRT struct {
	nMix
	cMix
	rMix
	tMix
}

type wCRF struct {
	nMix
	cMix
	rMix
	fMix
}

type wCTF struct {
	nMix
	cMix
	tMix
	fMix
}

type wORT struct {
	nMix
	oMix
	rMix
	tMix
}

type wORF struct {
	nMix
	oMix
	rMix
	fMix
}

type wOTF struct {
	nMix
	oMix
	tMix
	fMix
}

type wRTF struct {
	nMix
	rMix
	tMix
	fMix
}

type wPCOR struct {
	nMix
	pMix
	cMix
	oMix
	rMix
}

type wPCOT struct {
	nMix
	pMix
	cMix
	oMix
	tMix
}

type wPCOF struct {
	nMix
	pMix
	cMix
	oMix
	fMix
}

type wPCRT struct {
	nMix
	pMix
	cMix
	rMix
	tMix
}

type wPCRF struct {
	nMix
	pMix
	cMix
	rMix
	fMix
}

type wPCTF struct {
	nMix
	pMix
	cMix
	tMix
	fMix
}

type wPORT struct {
	nMix
	pMix
	oMix
	rMix
	tMix
}

type wPORF struct {
	nMix
	pMix
	oMix
	rMix
	fMix
}

type wPOTF struct {
	nMix
	pMix
	oMix
	tMix
	fMix
}

type wPRTF struct {
	nMix
	pMix
	rMix
	tMix
	fMix
}

type wCORT struct {
	nMix
	cMix
	oMix
	rMix
	tMix
}

type wCORF struct {
	nMix
	cMix
	oMix
	rMix
	fMix
}

type wCOTF struct {
	nMix
	cMix
	oMix
	tMix
	fMix
}

type wCRTF struct {
	nMix
	cMix
	rMix
	tMix
	fMix
}

type wORTF struct {
	nMix
	oMix
	rMix
	tMix
	fMix
}

type wPCORT struct {
	nMix
	pMix
	cMix
	oMix
	rMix
	tMix
}

type wPCORF struct {
	nMix
	pMix
	cMix
	oMix
	rMix
	fMix
}

type wPCOTF struct {
	nMix
	pMix
	cMix
	oMix
	tMix
	fMix
}

type wPCRTF struct {
	nMix
	pMix
	cMix
	rMix
	tMix
	fMix
}

type wPORTF struct {
	nMix
	pMix
	oMix
	rMix
	tMix
	fMix
}

type wCORTF struct {
	nMix
	cMix
	oMix
	rMix
	tMix
	fMix
}

type wPCORTF struct {
	nMix
	pMix
	cMix
	oMix
	rMix
	tMix
	fMix
}

type eC struct {
	*extension.ComplexityLimit
}

type eCP struct {
	*extension.ComplexityLimit
	pMix
}

type eCO struct {
	*extension.ComplexityLimit
	oMix
}

type eCR struct {
	*extension.ComplexityLimit
	rMix
}

type eCT struct {
	*extension.ComplexityLimit
	tMix
}

type eCF struct {
	*extension.ComplexityLimit
	fMix
}

type eCPO struct {
	*extension.ComplexityLimit
	pMix
	oMix
}

type eCPR struct {
	*extension.ComplexityLimit
	pMix
	rMix
}

type eCPT struct {
	*extension.ComplexityLimit
	pMix
	tMix
}

type eCPF struct {
	*extension.ComplexityLimit
	pMix
	fMix
}

type eCOR struct {
	*extension.ComplexityLimit
	oMix
	rMix
}

type eCOT struct {
	*extension.ComplexityLimit
	oMix
	tMix
}

type eCOF struct {
	*extension.ComplexityLimit
	oMix
	fMix
}

type eCRT struct {
	*extension.ComplexityLimit
	rMix
	tMix
}

type eCRF struct {
	*extension.ComplexityLimit
	rMix
	fMix
}

type eCTF struct {
	*extension.ComplexityLimit
	tMix
	fMix
}

type eCPOR struct {
	*extension.ComplexityLimit
	pMix
	oMix
	rMix
}

type eCPOT struct {
	*extension.ComplexityLimit
	pMix
	oMix
	tMix
}

type eCPOF struct {
	*extension.ComplexityLimit
	pMix
	oMix
	fMix
}

type eCPRT struct {
	*extension.ComplexityLimit
	pMix
	rMix
	tMix
}

type eCPRF struct {
	*extension.ComplexityLimit
	pMix
	rMix
	fMix
}

type eCPTF struct {
	*extension.ComplexityLimit
	pMix
	tMix
	fMix
}

type eCORT struct {
	*extension.ComplexityLimit
	oMix
	rMix
	tMix
}

type eCORF struct {
	*extension.ComplexityLimit
	oMix
	rMix
	fMix
}

type eCOTF struct {
	*extension.ComplexityLimit
	oMix
	tMix
	fMix
}

type eCRTF struct {
	*extension.ComplexityLimit
	rMix
	tMix
	fMix
}

type eCPORT struct {
	*extension.ComplexityLimit
	pMix
	oMix
	rMix
	tMix
}

type eCPORF struct {
	*extension.ComplexityLimit
	pMix
	oMix
	rMix
	fMix
}

type eCPOTF struct {
	*extension.ComplexityLimit
	pMix
	oMix
	tMix
	fMix
}

type eCPRTF struct {
	*extension.ComplexityLimit
	pMix
	rMix
	tMix
	fMix
}

type eCORTF struct {
	*extension.ComplexityLimit
	oMix
	rMix
	tMix
	fMix
}

type eCPORTF struct {
	*extension.ComplexityLimit
	pMix
	oMix
	rMix
	tMix
	fMix
}

// instWrapTypes: hooks (letters of PCORTF, in that order) -> constructor
var instWrapTypes = map[string]func(c *instCore) graphql.HandlerExtension{
	"P":      func(c *instCore) graphql.HandlerExtension { return wP{nMix{c}, pMix{c}} },
	"C":      func(c *instCore) graphql.HandlerExtension { return wC{nMix{c}, cMix{c}} },
	"O":      func(c *instCore) graphql.HandlerExtension { return wO{nMix{c}, oMix{c}} },
	"R":      func(c *instCore) graphql.HandlerExtension { return wR{nMix{c}, rMix{c}} },
	"T":      func(c *instCore) graphql.HandlerExtension { return wT{nMix{c}, tMix{c}} },
	"F":      func(c *instCore) graphql.HandlerExtension { return wF{nMix{c}, fMix{c}} },
	"PC":     func(c *instCore) graphql.HandlerExtension { return wPC{nMix{c}, pMix{c}, cMix{c}} },
	"PO":     func(c *instCore) graphql.HandlerExtension { return wPO{nMix{c}, pMix{c}, oMix{c}} },
	"PR":     func(c *instCore) graphql.HandlerExtension { return wPR{nMix{c}, pMix{c}, rMix{c}} },
	"PT":     func(c *instCore) graphql.HandlerExtension { return wPT{nMix{c}, pMix{c}, tMix{c}} },
	"PF":     func(c *instCore) graphql.HandlerExtension { return wPF{nMix{c}, pMix{c}, fMix{c}} },
	"CO":     func(c *instCore) graphql.HandlerExtension { return wCO{nMix{c}, cMix{c}, oMix{c}} },
	"CR":     func(c *instCore) graphql.HandlerExtension { return wCR{nMix{c}, cMix{c}, rMix{c}} },
	"CT":     func(c *instCore) graphql.HandlerExtension { return wCT{nMix{c}, cMix{c}, tMix{c}} },
	"CF":     func(c *instCore) graphql.HandlerExtension { return wCF{nMix{c}, cMix{c}, fMix{c}} },
	"OR":     func(c *instCore) graphql.HandlerExtension { return wOR{nMix{c}, oMix{c}, rMix{c}} },
	"OT":     func(c *instCore) graphql.HandlerExtension { return wOT{nMix{c}, oMix{c}, tMix{c}} },
	"OF":     func(c *instCore) graphql.HandlerExtension { return wOF{nMix{c}, oMix{c}, fMix{c}} },
	"RT":     func(c *instCore) graphql.HandlerExtension { return wRT{nMix{c}, rMix{c}, tMix{c}} },
	"RF":     func(c *instCore) graphql.HandlerExtension { return wRF{nMix{c}, rMix{c}, fMix{c}} },
	"TF":     func(c *instCore) graphql.HandlerExtension { return wTF{nMix{c}, tMix{c}, fMix{c}} },
	"PCO":    func(c *instCore) graphql.HandlerExtension { return wPCO{nMix{c}, pMix{c}, cMix{c}, oMix{c}} },
	"PCR":    func(c *instCore) graphql.HandlerExtension { return wPCR{nMix{c}, pMix{c}, cMix{c}, rMix{c}} },
	"PCT":    func(c *instCore) graphql.HandlerExtension { return wPCT{nMix{c}, pMix{c}, cMix{c}, tMix{c}} },
	"PCF":    func(c *instCore) graphql.HandlerExtension { return wPCF{nMix{c}, pMix{c}, cMix{c}, fMix{c}} },
	"POR":    func(c *instCore) graphql.HandlerExtension { return wPOR{nMix{c}, pMix{c}, oMix{c}, rMix{c}} },
	"POT":    func(c *instCore) graphql.HandlerExtension { return wPOT{nMix{c}, pMix{c}, oMix{c}, tMix{c}} },
	"POF":    func(c *instCore) graphql.HandlerExtension { return wPOF{nMix{c}, pMix{c}, oMix{c}, fMix{c}} },
	"PRT":    func(c *instCore) graphql.HandlerExtension { return wPRT{nMix{c}, pMix{c}, rMix{c}, tMix{c}} },
	"PRF":    func(c *instCore) graphql.HandlerExtension { return wPRF{nMix{c}, pMix{c}, rMix{c}, fMix{c}} },
	"PTF":    func(c *instCore) graphql.HandlerExtension { return wPTF{nMix{c}, pMix{c}, tMix{c}, fMix{c}} },
	"COR":    func(c *instCore) graphql.HandlerExtension { return wCOR{nMix{c}, cMix{c}, oMix{c}, rMix{c}} },
	"COT":    func(c *instCore) graphql.HandlerExtension { return wCOT{nMix{c}, cMix{c}, oMix{c}, tMix{c}} },
	"COF":    func(c *instCore) graphql.HandlerExtension { return wCOF{nMix{c}, cMix{c}, oMix{c}, fMix{c}} },
	"CRT":    func(c *instCore) graphql.HandlerExtension { return wCRT{nMix{c}, cMix{c}, rMix{c}, tMix{c}} },
	"CRF":    func(c *instCore) graphql.HandlerExtension { return wCRF{nMix{c}, cMix{c}, rMix{c}, fMix{c}} },
	"CTF":    func(c *instCore) graphql.HandlerExtension { return wCTF{nMix{c}, cMix{c}, tMix{c}, fMix{c}} },
	"ORT":    func(c *instCore) graphql.HandlerExtension { return wORT{nMix{c}, oMix{c}, rMix{c}, tMix{c}} },
	"ORF":    func(c *instCore) graphql.HandlerExtension { return wORF{nMix{c}, oMix{c}, rMix{c}, fMix{c}} },
	"OTF":    func(c *instCore) graphql.HandlerExtension { return wOTF{nMix{c}, oMix{c}, tMix{c}, fMix{c}} },
	"RTF":    func(c *instCore) graphql.HandlerExtension { return wRTF{nMix{c}, rMix{c}, tMix{c}, fMix{c}} },
	"PCOR":   func(c *instCore) graphql.HandlerExtension { return wPCOR{nMix{c}, pMix{c}, cMix{c}, oMix{c}, rMix{c}} },
	"PCOT":   func(c *instCore) graphql.HandlerExtension { return wPCOT{nMix{c}, pMix{c}, cMix{c}, oMix{c}, tMix{c}} },
	"PCOF":   func(c *instCore) graphql.HandlerExtension { return wPCOF{nMix{c}, pMix{c}, cMix{c}, oMix{c}, fMix{c}} },
	"PCRT":   func(c *instCore) graphql.HandlerExtension { return wPCRT{nMix{c}, pMix{c}, cMix{c}, rMix{c}, tMix{c}} },
	"PCRF":   func(c *instCore) graphql.HandlerExtension { return wPCRF{nMix{c}, pMix{c}, cMix{c}, rMix{c}, fMix{c}} },
	"PCTF":   func(c *instCore) graphql.HandlerExtension { return wPCTF{nMix{c}, pMix{c}, cMix{c}, tMix{c}, fMix{c}} },
	"PORT":   func(c *instCore) graphql.HandlerExtension { return wPORT{nMix{c}, pMix{c}, oMix{c}, rMix{c}, tMix{c}} },
	"PORF":   func(c *instCore) graphql.HandlerExtension { return wPORF{nMix{c}, pMix{c}, oMix{c}, rMix{c}, fMix{c}} },
	"POTF":   func(c *instCore) graphql.HandlerExtension { return wPOTF{nMix{c}, pMix{c}, oMix{c}, tMix{c}, fMix{c}} },
	"PRTF":   func(c *instCore) graphql.HandlerExtension { return wPRTF{nMix{c}, pMix{c}, rMix{c}, tMix{c}, fMix{c}} },
	"CORT":   func(c *instCore) graphql.HandlerExtension { return wCORT{nMix{c}, cMix{c}, oMix{c}, rMix{c}, tMix{c}} },
	"CORF":   func(c *instCore) graphql.HandlerExtension { return wCORF{nMix{c}, cMix{c}, oMix{c}, rMix{c}, fMix{c}} },
	"COTF":   func(c *instCore) graphql.HandlerExtension { return wCOTF{nMix{c}, cMix{c}, oMix{c}, tMix{c}, fMix{c}} },
	"CRTF":   func(c *instCore) graphql.HandlerExtension { return wCRTF{nMix{c}, cMix{c}, rMix{c}, tMix{c}, fMix{c}} },
	"ORTF":   func(c *instCore) graphql.HandlerExtension { return wORTF{nMix{c}, oMix{c}, rMix{c}, tMix{c}, fMix{c}} },
	"PCORT":  func(c *instCore) graphql.HandlerExtension { return wPCORT{nMix{c}, pMix{c}, cMix{c}, oMix{c}, rMix{c}, tMix{c}} },
	"PCORF":  func(c *instCore) graphql.HandlerExtension { return wPCORF{nMix{c}, pMix{c}, cMix{c}, oMix{c}, rMix{c}, fMix{c}} },
	"PCOTF":  func(c *instCore) graphql.HandlerExtension { return wPCOTF{nMix{c}, pMix{c}, cMix{c}, oMix{c}, tMix{c}, fMix{c}} },
	"PCRTF":  func(c *instCore) graphql.HandlerExtension { return wPCRTF{nMix{c}, pMix{c}, cMix{c}, rMix{c}, tMix{c}, fMix{c}} },
	"PORTF":  func(c *instCore) graphql.HandlerExtension { return wPORTF{nMix{c}, pMix{c}, oMix{c}, rMix{c}, tMix{c}, fMix{c}} },
	"CORTF":  func(c *instCore) graphql.HandlerExtension { return wCORTF{nMix{c}, cMix{c}, oMix{c}, rMix{c}, tMix{c}, fMix{c}} },
	"PCORTF": func(c *instCore) graphql.HandlerExtension { return wPCORTF{nMix{c}, pMix{c}, cMix{c}, oMix{c}, rMix{c}, tMix{c}, fMix{c}} },
}

// instEmbedTypes: hooks (always with C) -> constructor; the outer value is used by pointer
var instEmbedTypes = map[string]func(c *instCore) graphql.HandlerExtension{
	"C":      func(c *instCore) graphql.HandlerExtension { return &eC{c.lim} },
	"PC":     func(c *instCore) graphql.HandlerExtension { return &eCP{c.lim, pMix{c}} },
	"CO":     func(c *instCore) graphql.HandlerExtension { return &eCO{c.lim, oMix{c}} },
	"CR":     func(c *instCore) graphql.HandlerExtension { return &eCR{c.lim, rMix{c}} },
	"CT":     func(c *instCore) graphql.HandlerExtension { return &eCT{c.lim, tMix{c}} },
	"CF":     func(c *instCore) graphql.HandlerExtension { return &eCF{c.lim, fMix{c}} },
	"PCO":    func(c *instCore) graphql.HandlerExtension { return &eCPO{c.lim, pMix{c}, oMix{c}} },
	"PCR":    func(c *instCore) graphql.HandlerExtension { return &eCPR{c.lim, pMix{c}, rMix{c}} },
	"PCT":    func(c *instCore) graphql.HandlerExtension { return &eCPT{c.lim, pMix{c}, tMix{c}} },
	"PCF":    func(c *instCore) graphql.HandlerExtension { return &eCPF{c.lim, pMix{c}, fMix{c}} },
	"COR":    func(c *instCore) graphql.HandlerExtension { return &eCOR{c.lim, oMix{c}, rMix{c}} },
	"COT":    func(c *instCore) graphql.HandlerExtension { return &eCOT{c.lim, oMix{c}, tMix{c}} },
	"COF":    func(c *instCore) graphql.HandlerExtension { return &eCOF{c.lim, oMix{c}, fMix{c}} },
	"CRT":    func(c *instCore) graphql.HandlerExtension { return &eCRT{c.lim, rMix{c}, tMix{c}} },
	"CRF":    func(c *instCore) graphql.HandlerExtension { return &eCRF{c.lim, rMix{c}, fMix{c}} },
	"CTF":    func(c *instCore) graphql.HandlerExtension { return &eCTF{c.lim, tMix{c}, fMix{c}} },
	"PCOR":   func(c *instCore) graphql.HandlerExtension { return &eCPOR{c.lim, pMix{c}, oMix{c}, rMix{c}} },
	"PCOT":   func(c *instCore) graphql.HandlerExtension { return &eCPOT{c.lim, pMix{c}, oMix{c}, tMix{c}} },
	"PCOF":   func(c *instCore) graphql.HandlerExtension { return &eCPOF{c.lim, pMix{c}, oMix{c}, fMix{c}} },
	"PCRT":   func(c *instCore) graphql.HandlerExtension { return &eCPRT{c.lim, pMix{c}, rMix{c}, tMix{c}} },
	"PCRF":   func(c *instCore) graphql.HandlerExtension { return &eCPRF{c.lim, pMix{c}, rMix{c}, fMix{c}} },
	"PCTF":   func(c *instCore) graphql.HandlerExtension { return &eCPTF{c.lim, pMix{c}, tMix{c}, fMix{c}} },
	"CORT":   func(c *instCore) graphql.HandlerExtension { return &eCORT{c.lim, oMix{c}, rMix{c}, tMix{c}} },
	"CORF":   func(c *instCore) graphql.HandlerExtension { return &eCORF{c.lim, oMix{c}, rMix{c}, fMix{c}} },
	"COTF":   func(c *instCore) graphql.HandlerExtension { return &eCOTF{c.lim, oMix{c}, tMix{c}, fMix{c}} },
	"CRTF":   func(c *instCore) graphql.HandlerExtension { return &eCRTF{c.lim, rMix{c}, tMix{c}, fMix{c}} },
	"PCORT":  func(c *instCore) graphql.HandlerExtension { return &eCPORT{c.lim, pMix{c}, oMix{c}, rMix{c}, tMix{c}} },
	"PCORF":  func(c *instCore) graphql.HandlerExtension { return &eCPORF{c.lim, pMix{c}, oMix{c}, rMix{c}, fMix{c}} },
	"PCOTF":  func(c *instCore) graphql.HandlerExtension { return &eCPOTF{c.lim, pMix{c}, oMix{c}, tMix{c}, fMix{c}} },
	"PCRTF":  func(c *instCore) graphql.HandlerExtension { return &eCPRTF{c.lim, pMix{c}, rMix{c}, tMix{c}, fMix{c}} },
	"CORTF":  func(c *instCore) graphql.HandlerExtension { return &eCORTF{c.lim, oMix{c}, rMix{c}, tMix{c}, fMix{c}} },
	"PCORTF": func(c *instCore) graphql.HandlerExtension { return &eCPORTF{c.lim, pMix{c}, oMix{c}, rMix{c}, tMix{c}, fMix{c}} },
}
