// Harness for C14: runs gqlgen's real complexity walker (complexity.Calculate), the real safeAdd (through the
// verif-tagged export) and the real complexity gate (extension.FixedComplexityLimit inside executor.New and
// inside handler.New + transport.POST) on generated operations, custom cost tables and limits. One TSV line per
// case carries the input in the Lean driver's line protocol, the implementation's observable output, and the
// verdict of an independent Go-side reference evaluator (math/big, written from the documented definition).
//
//	maxint  <impl maxInt>
//	sa      <a> <b> <impl safeAdd(a,b)>
//	calc    <schema> <customs> <vars> <doc> <impl Calculate|panic:…> <oracle> <tags> <query>
//	gate    <schema> <customs> <vars> <doc> <limit> <execCalls> <code|-> <statsComplexity> <statsLimit>
//	        <httpExecCalls> <httpCode|-> <httpStatus> <resolverCalls> <query> <getExecCalls|na> <getCode|-|na>
//	mono    <customs> <impl before> <impl after> <query before> <query after>   (one selection added at the top level)
//	witness <customs> <impl before> <impl after> <query before> <query after>   (Lean: monotone_add_selection_witness)
//	bad     <limit> <execCalls> <code|-> <httpExecCalls> <httpCode|-> <query>
//	inst    see install.go: the limit installed through stock / embedding / delegating extension types with further hooks
//
// -mode genproj (genproj.go) writes the "generated server" projects whose REAL generated Complexity() switch is
// executed by genrun.go.txt after the check generated them from /repo's current templates.
package main

import (
	"bufio"
	"bytes"
	"context"
	"encoding/json"
	"flag"
	"fmt"
	"math"
	"math/big"
	"net/http"
	"net/http/httptest"
	"net/url"
	"os"
	"sort"
	"strconv"
	"strings"

	"github.com/vektah/gqlparser/v2"
	"github.com/vektah/gqlparser/v2/ast"
	"github.com/vektah/gqlparser/v2/gqlerror"

	"github.com/99designs/gqlgen/complexity"
	"github.com/99designs/gqlgen/graphql"
	"github.com/99designs/gqlgen/graphql/executor"
	"github.com/99designs/gqlgen/graphql/handler"
	"github.com/99designs/gqlgen/graphql/handler/extension"
	"github.com/99designs/gqlgen/graphql/handler/transport"
	"verifharness/internal/rng"
)

var out = bufio.NewWriterSize(os.Stdout, 1<<20)

// ------------------------------------------------------------------ probe schemas

const sdlA = `
interface Node { id: ID! name: String related(first: Int = 2): [Node!] owner: Actor }
interface Ghost { x: Int peer: Ghost }
union Actor = User | Org
enum Kind { A B }
type User implements Node {
  id: ID! name: String related(first: Int = 2): [Node!] owner: Actor
  friends(first: Int = 5, after: String): [User!]! age: Int
  posts(first: Int, kind: Kind = A): [Post!]
}
type Org implements Node {
  id: ID! name: String related(first: Int = 2): [Node!] owner: Actor
  members(first: Int = 10): [User!]
}
type Post implements Node {
  id: ID! name: String related(first: Int = 2): [Node!] owner: Actor
  author: User comments(first: Int, skip: Int = 0): [Comment]
}
type Comment { text: String author: Actor post: Post }
type Query {
  node(id: ID!): Node
  nodes(first: Int = 3, kinds: [Kind!]): [Node!]!
  me: User
  search(q: String = "x", first: Int): [Actor!]
  posts(first: Int = 1): [Post!]
  ghost: Ghost
  scalar: Int
}
type Mutation { addPost(title: String!, weight: Int = 1): Post bump(by: Int): Int }
`

// a small recursive schema: deep chains, one interface with a single implementor, a union of one
const sdlB = `
interface Shape { area: Int next(n: Int = 1): Shape }
type Sq implements Shape { area: Int next(n: Int = 1): Shape side: Int inner(n: Int): Sq }
union U = Sq
type Query { shape(n: Int): Shape sq: Sq u: U list(first: Int = 4, w: Float = 1): [Sq!] }
`

// randomSDL: a seeded random schema - objects implementing random subsets of interfaces (an interface may end
// up without implementors), unions, fields of random composite/scalar types with Int arguments and defaults.
func randomSDL(r *rng.R) string {
	nObj, nIf, nUn := 2+r.Below(4), 1+r.Below(3), r.Below(3)
	var objs, ifs, uns, comp []string
	// names as real schemas spell them: the walker must hand them to Complexity() verbatim (leading lower case,
	// snake_case, all caps, digits, initialisms), for type names and for field names
	spell := func(styles []string, i int) string { return fmt.Sprintf(styles[r.Below(len(styles))], i) }
	for i := 0; i < nObj; i++ {
		objs = append(objs, spell([]string{"O%d", "O%d", "o%d", "obj_%d", "o%dX", "OBJ_%d", "iO%dURL"}, i))
	}
	for i := 0; i < nIf; i++ {
		ifs = append(ifs, spell([]string{"I%d", "I%d", "i%d", "iface_%d", "HTTPI%d"}, i))
	}
	for i := 0; i < nUn; i++ {
		uns = append(uns, spell([]string{"U%d", "U%d", "u%d", "u_%d_set"}, i))
	}
	fieldStyles := []string{"%s", "%s", "F%s", "f_%s", "%s_ID", "%sUrl", "X_%s_2"}
	fname := func(base string) string { return fmt.Sprintf(fieldStyles[r.Below(len(fieldStyles))], base) }
	comp = append(append(append(comp, objs...), ifs...), uns...)
	field := func(name string) string {
		t := []string{"%s", "%s!", "[%s]", "[%s!]!"}[r.Below(4)]
		t = fmt.Sprintf(t, func() string {
			if r.Below(10) >= 4 {
				return comp[r.Below(len(comp))]
			}
			return []string{"Int", "String", "ID"}[r.Below(3)]
		}())
		var args []string
		if r.Below(2) == 0 {
			args = append(args, "n: Int")
		}
		if r.Below(3) == 0 {
			args = append(args, fmt.Sprintf("m: Int = %d", r.Below(9)))
		}
		if r.Below(5) == 0 {
			args = append(args, "s: String")
		}
		a := ""
		if len(args) > 0 {
			a = "(" + strings.Join(args, ", ") + ")"
		}
		return name + a + ": " + t
	}
	var b strings.Builder
	ifFields := make([][]string, nIf)
	for i := range ifs {
		for j := 0; j <= r.Below(3); j++ {
			ifFields[i] = append(ifFields[i], field(fname(fmt.Sprintf("i%df%d", i, j))))
		}
		fmt.Fprintf(&b, "interface %s { %s }\n", ifs[i], strings.Join(ifFields[i], " "))
	}
	for i, o := range objs {
		var impl, fs []string
		for k := range ifs {
			if r.Below(5) < 2 {
				impl = append(impl, ifs[k])
				fs = append(fs, ifFields[k]...)
			}
		}
		for j := 0; j <= r.Below(3); j++ {
			fs = append(fs, field(fname(fmt.Sprintf("o%df%d", i, j))))
		}
		hdr := "type " + o
		if len(impl) > 0 {
			hdr += " implements " + strings.Join(impl, " & ")
		}
		fmt.Fprintf(&b, "%s { %s }\n", hdr, strings.Join(fs, " "))
	}
	for _, u := range uns {
		var ms []string
		for _, o := range objs {
			if r.Below(2) == 0 {
				ms = append(ms, o)
			}
		}
		if len(ms) == 0 {
			ms = []string{objs[r.Below(len(objs))]}
		}
		fmt.Fprintf(&b, "union %s = %s\n", u, strings.Join(ms, " | "))
	}
	b.WriteString("type Query { scalar: Int")
	for _, c := range comp {
		fmt.Fprintf(&b, " %s(n: Int = 2): %s", fname("q"+c), c)
	}
	b.WriteString(" }\n")
	return b.String()
}

func mustSchema(sdl string) *ast.Schema {
	s, err := gqlparser.LoadSchema(&ast.Source{Name: "probe", Input: sdl})
	if err != nil {
		panic(err)
	}
	return s
}

// ------------------------------------------------------------------ the shared cost-function language

type expr struct {
	kind string // c | l | a
	a, b int
	arg  string
}

func (e expr) String() string {
	switch e.kind {
	case "c":
		return fmt.Sprintf("c:%d", e.b)
	case "l":
		return fmt.Sprintf("l:%d:%d", e.a, e.b)
	}
	return fmt.Sprintf("a:%s:%d", e.arg, e.b)
}

func asInt(v any) (int, bool) {
	switch v := v.(type) {
	case int:
		return v, true
	case int64:
		return int(v), true
	case json.Number:
		i, err := strconv.ParseInt(string(v), 10, 64)
		return int(i), err == nil
	}
	return 0, false
}

func (e expr) eval(child int, args map[string]any) int {
	switch e.kind {
	case "c":
		return e.b
	case "l":
		return e.a*child + e.b
	}
	k, ok := asInt(args[e.arg])
	if !ok {
		k = 1
	}
	return k*child + e.b
}

type customs map[string]expr // "Type.field"

func (c customs) String() string {
	if len(c) == 0 {
		return "-"
	}
	keys := make([]string, 0, len(c))
	for k := range c {
		keys = append(keys, k)
	}
	sort.Strings(keys)
	var parts []string
	for _, k := range keys {
		parts = append(parts, k+"="+c[k].String())
	}
	return strings.Join(parts, ";")
}

// execSchema is the hand-built graphql.ExecutableSchema: custom costs from the table, an Exec that counts.
type execSchema struct {
	schema        *ast.Schema
	cus           customs
	execCalls     int
	resolverCalls int
}

func (e *execSchema) Schema() *ast.Schema { return e.schema }

func (e *execSchema) Complexity(ctx context.Context, typeName, field string, childComplexity int, args map[string]any) (int, bool) {
	x, ok := e.cus[typeName+"."+field]
	if !ok {
		return 0, false
	}
	return x.eval(childComplexity, args), true
}

func (e *execSchema) Exec(ctx context.Context) graphql.ResponseHandler {
	e.execCalls++
	opCtx := graphql.GetOperationContext(ctx)
	root := "Query"
	if opCtx.Operation.Operation == ast.Mutation {
		root = "Mutation"
	}
	// one "resolver" per collected root field
	e.resolverCalls += len(graphql.CollectFields(opCtx, opCtx.Operation.SelectionSet, []string{root}))
	return graphql.OneShot(&graphql.Response{Data: json.RawMessage(`{}`)})
}

// ------------------------------------------------------------------ serialisation for the Lean driver

func schemaTok(s *ast.Schema) string {
	names := make([]string, 0, len(s.Types))
	for n := range s.Types {
		names = append(names, n)
	}
	sort.Strings(names)
	var parts []string
	for _, n := range names {
		d := s.Types[n]
		k := "x"
		switch d.Kind {
		case ast.Object:
			k = "o"
		case ast.Interface:
			k = "i"
		case ast.Union:
			k = "u"
		}
		var poss []string
		for _, p := range s.PossibleTypes[n] {
			poss = append(poss, p.Name)
		}
		parts = append(parts, n+":"+k+":"+strings.Join(poss, "|"))
	}
	return strings.Join(parts, ";")
}

func valTok(v *ast.Value) string {
	switch v.Kind {
	case ast.IntValue:
		return "i" + v.Raw
	case ast.NullValue:
		return "n"
	}
	return "o"
}

func selsTok(ss ast.SelectionSet, b *[]string) {
	*b = append(*b, strconv.Itoa(len(ss)))
	for _, sel := range ss {
		switch s := sel.(type) {
		case *ast.Field:
			*b = append(*b, "f", s.ObjectDefinition.Name, s.Name, s.Definition.Type.Name(), strconv.Itoa(len(s.Definition.Arguments)))
			for _, ad := range s.Definition.Arguments {
				src := "-"
				if a := s.Arguments.ForName(ad.Name); a != nil {
					if a.Value.Kind == ast.Variable {
						src = "V" + a.Value.Raw
					} else {
						src = "L" + valTok(a.Value)
					}
				}
				d := "-"
				if ad.DefaultValue != nil {
					d = valTok(ad.DefaultValue)
				}
				*b = append(*b, ad.Name, src, d)
			}
			selsTok(s.SelectionSet, b)
		case *ast.FragmentSpread:
			*b = append(*b, "s", s.Name)
			selsTok(s.Definition.SelectionSet, b)
		case *ast.InlineFragment:
			c := s.TypeCondition
			if c == "" {
				c = "-"
			}
			*b = append(*b, "i", c)
			selsTok(s.SelectionSet, b)
		}
	}
}

func docTok(op *ast.OperationDefinition) string {
	var b []string
	selsTok(op.SelectionSet, &b)
	return strings.Join(b, ",")
}

func varsTok(vars map[string]any) string {
	if len(vars) == 0 {
		return "-"
	}
	keys := make([]string, 0, len(vars))
	for k := range vars {
		keys = append(keys, k)
	}
	sort.Strings(keys)
	var parts []string
	for _, k := range keys {
		switch v := vars[k].(type) {
		case nil:
			parts = append(parts, k+"=n")
		case int64:
			parts = append(parts, fmt.Sprintf("%s=i%d", k, v))
		default:
			parts = append(parts, k+"=o")
		}
	}
	return strings.Join(parts, ";")
}

// ------------------------------------------------------------------ independent reference evaluator

var bigMax = big.NewInt(math.MaxInt64)

func sat(x *big.Int) int {
	if x.Cmp(bigMax) > 0 {
		return math.MaxInt64
	}
	return int(x.Int64())
}

type oracle struct {
	schema *ast.Schema
	cus    customs
	vars   map[string]any
	tags   map[string]bool
	// childOf records the child complexity seen at each (Type.field) key, for the directed generator
	childOf map[string]int
}

func (o *oracle) one(t, field string, child int, args map[string]any) int {
	dflt := new(big.Int).Add(big.NewInt(1), big.NewInt(int64(child)))
	if dflt.Cmp(bigMax) > 0 {
		o.tags["sat-default"] = true
	}
	o.childOf[t+"."+field] = child
	if x, ok := o.cus[t+"."+field]; ok {
		c := x.eval(child, args)
		switch {
		case c < 0:
			o.tags["custom-negative"] = true
		case c < child:
			o.tags["custom-below-children"] = true
		case c == child:
			o.tags["custom-equals-children"] = true
		default:
			o.tags["custom-used"] = true
		}
		if x.kind == "a" {
			if _, ok := asInt(args[x.arg]); ok {
				o.tags["custom-reads-arg"] = true
			} else {
				o.tags["custom-arg-missing"] = true
			}
		}
		if c >= child {
			return c
		}
	}
	return sat(dflt)
}

func (o *oracle) sels(ss ast.SelectionSet) *big.Int {
	sum := new(big.Int)
	for _, sel := range ss {
		switch s := sel.(type) {
		case *ast.Field:
			ret := s.Definition.Type.Name()
			if ret == "__Schema" {
				o.tags["skip-__Schema"] = true
				continue
			}
			child := 0
			switch o.schema.Types[ret].Kind {
			case ast.Object, ast.Interface, ast.Union:
				sub := o.sels(s.SelectionSet)
				if sub.Cmp(bigMax) > 0 {
					o.tags["sat-children"] = true
				}
				child = sat(sub)
			}
			for _, a := range s.Arguments {
				if a.Value.Kind == ast.Variable {
					o.tags["arg-variable"] = true
				}
			}
			args := s.ArgumentMap(o.vars)
			cost := 0
			if s.ObjectDefinition.Kind == ast.Interface {
				o.tags["interface-field"] = true
				poss := o.schema.PossibleTypes[s.ObjectDefinition.Name]
				if len(poss) == 0 {
					o.tags["interface-no-implementors"] = true
				}
				for _, t := range poss {
					if c := o.one(t.Name, s.Name, child, args); c > cost {
						cost = c
					}
				}
			} else {
				cost = o.one(s.ObjectDefinition.Name, s.Name, child, args)
			}
			if len(s.Directives) > 0 {
				o.tags["directive-on-field"] = true
			}
			sum.Add(sum, big.NewInt(int64(cost)))
		case *ast.FragmentSpread:
			o.tags["fragment-spread"] = true
			sum.Add(sum, o.sels(s.Definition.SelectionSet))
		case *ast.InlineFragment:
			o.tags["inline-fragment"] = true
			sum.Add(sum, o.sels(s.SelectionSet))
		}
	}
	return sum
}

func runOracle(schema *ast.Schema, cus customs, vars map[string]any, op *ast.OperationDefinition) (int, *oracle) {
	o := &oracle{schema: schema, cus: cus, vars: vars, tags: map[string]bool{}, childOf: map[string]int{}}
	total := o.sels(op.SelectionSet)
	if total.Cmp(bigMax) > 0 {
		o.tags["sat-total"] = true
	}
	return sat(total), o
}

func tagStr(t map[string]bool) string {
	if len(t) == 0 {
		return "plain"
	}
	keys := make([]string, 0, len(t))
	for k := range t {
		keys = append(keys, k)
	}
	sort.Strings(keys)
	return strings.Join(keys, ",")
}

// ------------------------------------------------------------------ operation generator

type gen struct {
	r        *rng.R
	schema   *ast.Schema
	frags    []string          // fragment definitions (text)
	fragType map[string]string // completed fragment name -> type condition
	fragList []string
	varDecls []string
	vars     map[string]any
	nAlias   int
	nVar     int
	nFrag    int
	budget   int
}

func (g *gen) pick(xs []string) string { return xs[g.r.Below(len(xs))] }

func (g *gen) intVar() string {
	g.nVar++
	name := fmt.Sprintf("v%d", g.nVar)
	g.varDecls = append(g.varDecls, "$"+name+": Int")
	switch g.r.Below(6) {
	case 0: // not provided
	case 1:
		g.vars[name] = nil
	default:
		g.vars[name] = int64(g.smallInt())
	}
	return "$" + name
}

func (g *gen) boolVar() string {
	g.nVar++
	name := fmt.Sprintf("b%d", g.nVar)
	g.varDecls = append(g.varDecls, "$"+name+": Boolean!")
	g.vars[name] = g.r.Bool()
	return "$" + name
}

func (g *gen) smallInt() int {
	switch g.r.Below(10) {
	case 0:
		return 0
	case 1:
		return -1 - g.r.Below(5)
	case 2:
		return 1000 + g.r.Below(100000)
	}
	return 1 + g.r.Below(20)
}

func (g *gen) directive() string {
	if g.r.Below(10) != 0 {
		return ""
	}
	d := g.pick([]string{"@skip", "@include"})
	switch g.r.Below(3) {
	case 0:
		return " " + d + "(if: true)"
	case 1:
		return " " + d + "(if: false)"
	}
	return " " + d + "(if: " + g.boolVar() + ")"
}

func (g *gen) argList(fd *ast.FieldDefinition) string {
	var parts []string
	for _, a := range fd.Arguments {
		required := a.Type.NonNull && a.DefaultValue == nil
		tn := a.Type.Name()
		isList := a.Type.Elem != nil
		switch {
		case tn == "Int" && !isList:
			switch g.r.Below(10) {
			case 0, 1, 2:
				if required {
					parts = append(parts, fmt.Sprintf("%s: %d", a.Name, g.smallInt()))
				}
			case 3, 4, 5:
				parts = append(parts, fmt.Sprintf("%s: %d", a.Name, g.smallInt()))
			case 6:
				if !required {
					parts = append(parts, a.Name+": null")
				} else {
					parts = append(parts, a.Name+": 1")
				}
			default:
				if required {
					parts = append(parts, a.Name+": 2")
				} else {
					parts = append(parts, a.Name+": "+g.intVar())
				}
			}
		case required || g.r.Below(3) == 0:
			var lit string
			switch tn {
			case "ID":
				lit = g.pick([]string{`"n1"`, `7`})
			case "String":
				lit = `"s"`
			case "Float":
				lit = g.pick([]string{"2", "1.5"})
			case "Kind":
				lit = g.pick([]string{"A", "B"})
			default:
				lit = "null"
			}
			if isList {
				lit = "[" + lit + "]"
			}
			parts = append(parts, a.Name+": "+lit)
		}
	}
	if len(parts) == 0 {
		return ""
	}
	return "(" + strings.Join(parts, ", ") + ")"
}

func composite(d *ast.Definition) bool {
	return d != nil && (d.Kind == ast.Object || d.Kind == ast.Interface || d.Kind == ast.Union)
}

// conds returns the type conditions a fragment inside a selection set on t may carry.
func (g *gen) conds(t *ast.Definition) []string {
	cs := []string{t.Name}
	if t.Kind == ast.Object {
		for _, i := range g.schema.Implements[t.Name] {
			cs = append(cs, i.Name)
		}
	} else {
		for _, p := range g.schema.PossibleTypes[t.Name] {
			cs = append(cs, p.Name)
		}
	}
	return cs
}

// subscriptionSel: the selection set of a subscription operation - exactly one root field (gqlparser's
// SingleFieldSubscriptions rule; the generated executor refuses anything else after the gate), reached directly, through an
// inline fragment or through a named fragment on the root; arguments literal / null / variable / absent as everywhere.
func (g *gen) subscriptionSel(t *ast.Definition, depth int) string {
	var fds []*ast.FieldDefinition
	for _, fd := range t.Fields {
		if !strings.HasPrefix(fd.Name, "__") {
			fds = append(fds, fd)
		}
	}
	fd := fds[g.r.Below(len(fds))]
	al := ""
	if g.r.Below(3) == 0 {
		g.nAlias++
		al = fmt.Sprintf("a%d: ", g.nAlias)
	}
	s := al + fd.Name + g.argList(fd)
	if rt := g.schema.Types[fd.Type.Name()]; composite(rt) {
		s += " " + g.selSet(rt, depth-1)
	}
	switch g.r.Below(6) {
	case 0:
		return "{ ... on " + t.Name + " { " + s + " } }"
	case 1:
		g.nFrag++
		name := fmt.Sprintf("F%d", g.nFrag)
		g.frags = append(g.frags, "fragment "+name+" on "+t.Name+" { "+s+" }")
		g.fragType[name] = t.Name
		g.fragList = append(g.fragList, name)
		return "{ ..." + name + " }"
	}
	return "{ " + s + " }"
}

func (g *gen) selSet(t *ast.Definition, depth int) string {
	n := 1 + g.r.Below(4)
	if depth <= 0 {
		n = 1 + g.r.Below(2)
	}
	var parts []string
	for i := 0; i < n; i++ {
		g.budget--
		roll := g.r.Below(20)
		if t.Kind == ast.Interface && len(g.schema.PossibleTypes[t.Name]) == 0 {
			roll = 0 // nothing can be spread inside a type without possible types
		}
		switch {
		case t.Kind == ast.Union && roll < 14, roll >= 17 && depth > 0 && g.budget > 0: // inline fragment
			cond := g.pick(g.conds(t))
			ct := g.schema.Types[cond]
			hdr := "... on " + cond
			if g.r.Below(6) == 0 && t.Kind != ast.Union {
				hdr, ct = "...", t
			}
			if ct.Kind == ast.Union && t.Kind == ast.Union && g.r.Below(2) == 0 {
				parts = append(parts, "__typename")
				continue
			}
			parts = append(parts, hdr+g.directive()+" "+g.selSet(ct, depth-1))
		case roll >= 14 && roll < 17 && depth > 0 && g.budget > 0: // fragment spread
			cands := g.conds(t)
			var reuse []string
			for _, f := range g.fragList {
				for _, c := range cands {
					if g.fragType[f] == c {
						reuse = append(reuse, f)
					}
				}
			}
			if len(reuse) > 0 && g.r.Below(2) == 0 {
				parts = append(parts, "..."+g.pick(reuse)+g.directive())
				continue
			}
			g.nFrag++
			name := fmt.Sprintf("F%d", g.nFrag)
			cond := g.pick(cands)
			body := g.selSet(g.schema.Types[cond], depth-1)
			g.frags = append(g.frags, "fragment "+name+" on "+cond+" "+body)
			g.fragType[name] = cond // only now: a fragment never spreads itself
			g.fragList = append(g.fragList, name)
			parts = append(parts, "..."+name+g.directive())
		default:
			if t.Kind == ast.Union {
				parts = append(parts, "__typename")
				continue
			}
			var fd *ast.FieldDefinition
			if g.r.Below(12) == 0 {
				parts = append(parts, "__typename")
				continue
			}
			// leaf-biased at depth 0
			for tries := 0; tries < 8; tries++ {
				fd = t.Fields[g.r.Below(len(t.Fields))]
				isComp := composite(g.schema.Types[fd.Type.Name()])
				if strings.HasPrefix(fd.Name, "__") && g.r.Below(3) != 0 {
					continue
				}
				if depth <= 0 && isComp {
					continue
				}
				if depth > 0 && !isComp && g.r.Below(3) == 0 {
					continue
				}
				break
			}
			rt := g.schema.Types[fd.Type.Name()]
			al := ""
			if len(fd.Arguments) > 0 || g.r.Below(8) == 0 {
				g.nAlias++
				al = fmt.Sprintf("a%d: ", g.nAlias)
			}
			s := al + fd.Name + g.argList(fd) + g.directive()
			if composite(rt) {
				if depth <= 0 {
					// forced composite at the bottom: close it with __typename
					s += " { __typename }"
				} else {
					s += " " + g.selSet(rt, depth-1)
				}
			}
			parts = append(parts, s)
		}
	}
	return "{ " + strings.Join(parts, " ") + " }"
}

type opCase struct {
	schema *ast.Schema
	query  string
	vars   map[string]any
	doc    *ast.QueryDocument
	op     *ast.OperationDefinition
	errs   gqlerror.List
}

func genOp(r *rng.R, schema *ast.Schema, maxDepth int) *opCase {
	g := &gen{r: r, schema: schema, fragType: map[string]string{}, vars: map[string]any{}, budget: 60}
	root, kw := schema.Query, "query"
	if schema.Mutation != nil && r.Below(12) == 0 {
		root, kw = schema.Mutation, "mutation"
	}
	var body string
	if schema.Subscription != nil && kw == "query" && r.Below(5) == 0 {
		// the ROOT dimension: a subscription (schemas of the generated-server projects have the three roots)
		root, kw = schema.Subscription, "subscription"
		body = g.subscriptionSel(root, 1+r.Below(maxDepth))
	} else {
		body = g.selSet(root, 1+r.Below(maxDepth))
	}
	decl := ""
	if len(g.varDecls) > 0 {
		decl = "(" + strings.Join(g.varDecls, ", ") + ")"
	}
	q := kw + " Op" + decl + " " + body
	for _, f := range g.frags {
		q += " " + f
	}
	c := &opCase{schema: schema, query: q, vars: g.vars}
	c.load()
	return c
}

func (c *opCase) load() {
	doc, errs := gqlparser.LoadQuery(c.schema, c.query)
	c.doc, c.errs = doc, errs
	c.op = nil
	if len(errs) == 0 {
		c.op = doc.Operations.ForName("Op")
	}
}

// ------------------------------------------------------------------ custom tables

var constPool = []int{0, 1, 2, 3, 5, 8, 13, 100, 4096, -1, -7, math.MinInt64, math.MaxInt64, math.MaxInt64 - 1,
	math.MaxInt64/2 - 1, math.MaxInt64 / 2, math.MaxInt64/2 + 1, math.MaxInt64/2 + 2, 1 << 32, 1 << 62}
var mulPool = []int{0, 1, 1, 2, 2, 3, 10, -1, -2, 1 << 31, 1 << 62, math.MaxInt64}
var addPool = []int{0, 0, 1, 5, -3, 100, math.MaxInt64 - 3}

func genCustoms(r *rng.R, schema *ast.Schema, density int, wild bool) customs {
	cus := customs{}
	names := make([]string, 0, len(schema.Types))
	for n := range schema.Types {
		names = append(names, n)
	}
	sort.Strings(names) // map order must not leak into the seeded stream
	for _, n := range names {
		d := schema.Types[n]
		if strings.HasPrefix(d.Name, "__") && r.Below(4) != 0 {
			continue
		}
		if d.Kind != ast.Object && d.Kind != ast.Interface {
			continue
		}
		for _, f := range d.Fields {
			if r.Below(100) >= density {
				continue
			}
			var e expr
			var intArgs []string
			for _, a := range f.Arguments {
				if a.Type.Name() == "Int" || a.Type.Name() == "Float" {
					intArgs = append(intArgs, a.Name)
				}
			}
			small := func(pool []int) int {
				v := pool[r.Below(len(pool))]
				if !wild && (v > 1<<20 || v < -1<<20) {
					v = r.Below(30)
				}
				return v
			}
			switch k := r.Below(10); {
			case k < 3:
				e = expr{kind: "c", b: small(constPool)}
			case k < 6 || len(intArgs) == 0:
				e = expr{kind: "l", a: small(mulPool), b: small(addPool)}
			default:
				e = expr{kind: "a", arg: intArgs[r.Below(len(intArgs))], b: small(addPool)}
			}
			cus[d.Name+"."+f.Name] = e
		}
	}
	return cus
}

// ------------------------------------------------------------------ running the implementation

func implCalculate(es *execSchema, op *ast.OperationDefinition, vars map[string]any) (res string) {
	defer func() {
		if p := recover(); p != nil {
			res = "panic:" + strings.ReplaceAll(fmt.Sprint(p), "\t", " ")
		}
	}()
	return strconv.Itoa(complexity.Calculate(context.Background(), es, op, vars))
}

func flat(s string) string {
	return strings.NewReplacer("\t", " ", "\n", " ", "\r", " ").Replace(s)
}

func codeOf(errs gqlerror.List) string {
	if len(errs) == 0 {
		return "-"
	}
	if c, ok := errs[0].Extensions["code"].(string); ok {
		return c
	}
	return "no-code"
}

type gateResult struct {
	execCalls, resolverCalls int
	code                     string
	statsC, statsL           string
	httpExec                 int
	httpCode                 string
	httpStatus               int
	getExec                  string // "na" for mutations (GET refuses them before the gate)
	getCode                  string
}

func varsJSON(vars map[string]any) map[string]any {
	m := map[string]any{}
	for k, v := range vars {
		m[k] = v
	}
	return m
}

func runGate(schema *ast.Schema, cus customs, query string, vars map[string]any, limit int) (g gateResult, perr string) {
	defer func() {
		if p := recover(); p != nil {
			perr = "panic:" + flat(fmt.Sprint(p))
		}
	}()
	// (1) the executor, driven the way every transport drives it
	es := &execSchema{schema: schema, cus: cus}
	ex := executor.New(es)
	ex.Use(extension.FixedComplexityLimit(limit))
	ctx := graphql.StartOperationTrace(context.Background())
	opName := "Op"
	if limit%2 == 0 && !strings.Contains(query, " Other") {
		opName = "" // a single-operation document may be sent without operationName
	}
	rc, errs := ex.CreateOperationContext(ctx, &graphql.RawParams{Query: query, OperationName: opName, Variables: varsJSON(vars)})
	g.code, g.statsC, g.statsL = "-", "-", "-"
	if errs != nil {
		resp := ex.DispatchError(graphql.WithOperationContext(ctx, rc), errs)
		g.code = codeOf(resp.Errors)
	} else {
		rh, rctx := ex.DispatchOperation(ctx, rc)
		resp := rh(rctx)
		if len(resp.Errors) > 0 {
			g.code = "exec-error:" + codeOf(resp.Errors)
		}
	}
	if rc != nil {
		if st, ok := rc.Stats.GetExtension("ComplexityLimit").(*extension.ComplexityStats); ok && st != nil {
			g.statsC, g.statsL = strconv.Itoa(st.Complexity), strconv.Itoa(st.ComplexityLimit)
		}
	}
	g.execCalls, g.resolverCalls = es.execCalls, es.resolverCalls

	// (2) the same through handler.New + transport.POST
	es2 := &execSchema{schema: schema, cus: cus}
	srv := handler.New(es2)
	srv.AddTransport(transport.POST{})
	srv.Use(extension.FixedComplexityLimit(limit))
	body, _ := json.Marshal(map[string]any{"query": query, "operationName": opName, "variables": vars})
	req := httptest.NewRequest(http.MethodPost, "/query", bytes.NewReader(body))
	req.Header.Set("Content-Type", "application/json")
	rec := httptest.NewRecorder()
	srv.ServeHTTP(rec, req)
	g.httpStatus = rec.Code
	g.httpExec = es2.execCalls
	g.httpCode = "-"
	var resp struct {
		Errors []struct {
			Extensions map[string]any `json:"extensions"`
		} `json:"errors"`
	}
	if err := json.Unmarshal(rec.Body.Bytes(), &resp); err != nil {
		g.httpCode = "bad-json"
	} else if len(resp.Errors) > 0 {
		g.httpCode = "no-code"
		if c, ok := resp.Errors[0].Extensions["code"].(string); ok {
			g.httpCode = c
		}
	}
	// (3) and through transport.GET (queries only)
	g.getExec, g.getCode = "na", "na"
	if strings.HasPrefix(query, "query") && !strings.Contains(query, "mutation Other") {
		es3 := &execSchema{schema: schema, cus: cus}
		srv3 := handler.New(es3)
		srv3.AddTransport(transport.GET{})
		srv3.Use(extension.FixedComplexityLimit(limit))
		vj, _ := json.Marshal(vars)
		uv := url.Values{"query": {query}, "operationName": {opName}, "variables": {string(vj)}}
		req3 := httptest.NewRequest(http.MethodGet, "/query?"+uv.Encode(), nil)
		rec3 := httptest.NewRecorder()
		srv3.ServeHTTP(rec3, req3)
		g.getExec, g.getCode = strconv.Itoa(es3.execCalls), "-"
		var resp3 struct {
			Errors []struct {
				Extensions map[string]any `json:"extensions"`
			} `json:"errors"`
		}
		if err := json.Unmarshal(rec3.Body.Bytes(), &resp3); err != nil {
			g.getCode = "bad-json"
		} else if len(resp3.Errors) > 0 {
			g.getCode = "no-code"
			if c, ok := resp3.Errors[0].Extensions["code"].(string); ok {
				g.getCode = c
			}
		}
	}
	return g, ""
}

// ------------------------------------------------------------------ case streams

func emitCalc(c *opCase, cus customs) (impl string, orc int, o *oracle) {
	es := &execSchema{schema: c.schema, cus: cus}
	impl = implCalculate(es, c.op, c.vars)
	orc, o = runOracle(c.schema, cus, c.vars, c.op)
	fmt.Fprintf(out, "calc\t%s\t%s\t%s\t%s\t%s\t%d\t%s\t%s\n", schemaTok(c.schema), cus.String(), varsTok(c.vars), docTok(c.op),
		impl, orc, tagStr(o.tags), flat(c.query))
	return
}

func emitGate(c *opCase, cus customs, limit int) {
	g, perr := runGate(c.schema, cus, c.query, c.vars, limit)
	if perr != "" {
		g.code = perr
	}
	fmt.Fprintf(out, "gate\t%s\t%s\t%s\t%s\t%d\t%d\t%s\t%s\t%s\t%d\t%s\t%d\t%d\t%s\t%s\t%s\n", schemaTok(c.schema), cus.String(), varsTok(c.vars),
		docTok(c.op), limit, g.execCalls, g.code, g.statsC, g.statsL, g.httpExec, g.httpCode, g.httpStatus, g.resolverCalls, flat(c.query), g.getExec, g.getCode)
}

func limitsFor(r *rng.R, c int) []int {
	ls := []int{c, c - 1, c + 1}
	pool := []int{0, -1, 1, math.MaxInt64, math.MaxInt64 - 1, math.MinInt64, c / 2, c * 2, r.Below(50)}
	ls = append(ls, pool[r.Below(len(pool))])
	var res []int
	for _, l := range ls {
		// c-1 / c+1 at the ends of the range wrap: keep them, they are legal limits too
		res = append(res, l)
	}
	return res
}

// directed operations (text, vars) per schema
type directedOp struct {
	sdl   int
	query string
	vars  map[string]any
}

var directedOps = []directedOp{
	{0, `query Op { scalar }`, nil},
	{0, `query Op { __typename }`, nil},
	{0, `query Op { __schema { types { name } } scalar }`, nil},
	{0, `query Op { __type(name: "User") { name fields { name type { name ofType { name } } } } }`, nil},
	{0, `query Op { ghost { x peer { x peer { x } } } }`, nil},
	{0, `query Op { me { id name age } }`, nil},
	{0, `query Op { me { id @skip(if: true) name @include(if: false) friends @skip(if: true) { id friends { id } } } }`, nil},
	{0, `query Op($n: Int) { me { a1: friends(first: $n) { id name } a2: friends { id } a3: friends(first: null) { id } } }`, map[string]any{"n": int64(7)}},
	{0, `query Op($n: Int) { me { a1: friends(first: $n) { id name } } }`, map[string]any{}},
	{0, `query Op($n: Int) { me { a1: friends(first: $n) { id name } } }`, map[string]any{"n": nil}},
	{0, `query Op { node(id: "1") { id name owner { __typename ... on User { age } ... on Org { members { id } } } related { id related { id related { id } } } } }`, nil},
	{0, `query Op { nodes { ...N } a1: nodes(first: 9) { ...N ... on User { ...U } } } fragment N on Node { id name owner { ...A } } fragment A on Actor { __typename ... on User { ...U } } fragment U on User { age a2: posts(first: 3) { id a3: comments(first: 2) { text } } }`, nil},
	{0, `query Op { a1: search(first: 4) { ... on User { id ...F1 } ... on Org { id name } ... on Node { related { id } } } } fragment F1 on User { ...F2 ...F2 } fragment F2 on User { age name ...F3 } fragment F3 on Node { id }`, nil},
	{0, `mutation Op { a1: addPost(title: "t") { id author { id } } a2: bump(by: 3) }`, nil},
	{0, `query Op { a1: posts { id } a2: posts { id } a3: posts { id } a4: posts { id } ... { a5: posts { id } } ... on Query { a6: posts { id a7: comments(first: 1) { post { id } } } } }`, nil},
	{0, `query Other { me { friends { friends { friends { id name age } } } } } query Op { scalar me { ...F } } fragment F on User { id }`, nil},
	{0, `query Other { scalar } query Op { me { friends { friends { id name } } } nodes { id } }`, nil},
	{0, `query Op { scalar } mutation Other { a1: addPost(title: "x") { id related { id related { id } } } }`, nil},
	{1, `query Op { shape { area next { area next { area next { area next { area next { area } } } } } } }`, nil},
	{1, `query Op { sq { side a1: inner(n: 3) { side a2: inner(n: 3) { side a3: inner(n: 3) { side a4: inner(n: 3) { side } } } } } }`, nil},
	{1, `query Op($k: Int) { a1: list(first: $k) { side a2: next(n: $k) { area ... on Sq { side } } } u { __typename ... on Sq { side } } }`, map[string]any{"k": int64(1 << 40)}},
	{1, `query Op { u { ... on Sq { a1: inner { a2: inner { a3: inner { side } } } } } a4: shape(n: 2) { ... on Sq { side } ... on Shape { area } } }`, nil},
}

// directed custom tables: the interesting arithmetic
func directedCustoms(sdl int) []customs {
	M := math.MaxInt64
	if sdl == 0 {
		return []customs{
			{},
			{"User.friends": {kind: "a", arg: "first"}, "Query.nodes": {kind: "a", arg: "first", b: 1}, "User.posts": {kind: "a", arg: "first"}, "Post.comments": {kind: "a", arg: "first"}},
			{"User.name": {kind: "c", b: -5}, "Org.name": {kind: "c", b: 7}, "Post.name": {kind: "c", b: 3}, "Node.name": {kind: "c", b: 1000}},
			{"User.related": {kind: "l", a: 2}, "Org.related": {kind: "l", a: 3, b: 1}, "Post.related": {kind: "l", a: -1, b: 10}},
			{"Query.posts": {kind: "c", b: M / 2}, "Post.id": {kind: "c", b: 5}},
			{"Query.posts": {kind: "c", b: M/2 + 1}},
			{"Query.posts": {kind: "c", b: M - 1}, "Query.scalar": {kind: "c", b: 1}},
			{"Query.posts": {kind: "c", b: M}, "Query.me": {kind: "c", b: M}},
			{"User.age": {kind: "c", b: M}, "User.id": {kind: "c", b: M}, "Query.me": {kind: "l", a: 1, b: 0}},
			{"User.age": {kind: "c", b: M - 2}, "Query.me": {kind: "l", a: 1, b: 0}},
			{"User.friends": {kind: "l", a: 1 << 62, b: 0}, "User.id": {kind: "c", b: 2}},
			{"User.friends": {kind: "l", a: 1 << 31, b: 0}, "Post.comments": {kind: "l", a: 1 << 31}, "User.posts": {kind: "l", a: 1 << 31}},
			{"Query.me": {kind: "c", b: -1}, "User.id": {kind: "c", b: math.MinInt64}, "User.name": {kind: "c", b: -1}, "User.age": {kind: "c", b: -1}},
			{"Query.me": {kind: "c", b: 3}, "Query.node": {kind: "c", b: 0}, "Query.nodes": {kind: "c", b: 2}},
			{"Ghost.x": {kind: "c", b: 50}, "Ghost.peer": {kind: "c", b: 50}, "Query.ghost": {kind: "l", a: 2}},
			{"Query.__schema": {kind: "c", b: 999}, "Query.__type": {kind: "c", b: 999}, "__Type.fields": {kind: "l", a: 3}, "Query.__typename": {kind: "c", b: 4}},
			{"Actor.__typename": {kind: "c", b: 9}, "User.__typename": {kind: "c", b: 11}, "User.owner": {kind: "l", a: 5}, "Org.owner": {kind: "c", b: 1}, "Post.owner": {kind: "c", b: 2}},
			{"Mutation.addPost": {kind: "a", arg: "weight", b: 0}, "Mutation.bump": {kind: "a", arg: "by", b: 2}},
		}
	}
	return []customs{
		{},
		{"Sq.next": {kind: "l", a: 2, b: 0}, "Sq.inner": {kind: "a", arg: "n", b: 1}},
		{"Sq.next": {kind: "l", a: 1 << 31, b: 0}, "Sq.inner": {kind: "l", a: 1 << 31, b: 0}, "Sq.side": {kind: "c", b: 3}},
		{"Sq.inner": {kind: "a", arg: "n", b: M - 3}},
		{"Query.list": {kind: "a", arg: "first", b: 0}, "Sq.next": {kind: "a", arg: "n", b: 0}},
		{"Query.list": {kind: "a", arg: "w", b: 0}, "Sq.side": {kind: "c", b: -2}, "Sq.area": {kind: "c", b: M}},
		{"Shape.area": {kind: "c", b: 77}, "Shape.next": {kind: "c", b: 77}, "Query.shape": {kind: "l", a: -1, b: 10}},
		{"Query.u": {kind: "l", a: 1, b: 0}, "U.__typename": {kind: "c", b: 5}, "Sq.__typename": {kind: "c", b: 6}},
	}
}

func mutateQuery(r *rng.R, q string) string {
	switch r.Below(7) {
	case 0: // drop a closing brace
		i := strings.LastIndex(q, "}")
		return q[:i] + q[i+1:]
	case 1:
		return strings.Replace(q, "{", "{ nosuchfield ", 1)
	case 2:
		return strings.Replace(q, "Op", "Op($unused: Int)", 1)
	case 3:
		return q + " fragment Unused on Query { __typename }"
	case 4:
		return strings.Replace(q, "{", "{ ...Missing ", 1)
	case 5:
		return q[:len(q)/2]
	}
	return strings.Replace(q, "{", "{ x: __typename x: scalar y: sq ", 1)
}

func main() {
	tier := flag.String("tier", "quick", "")
	seed := flag.Uint64("seed", 1, "")
	mode := flag.String("mode", "run", "run | genproj (write the generated-server projects, see genproj.go)")
	outDir := flag.String("out", "", "genproj: directory the projects are written to")
	corpus := flag.String("corpus", "", "genproj: corpus/C14/genprojects.txt")
	instCorpus := flag.String("instcorpus", "", "run: corpus/C14/installs.txt (directed installation configurations; the inst stream is skipped without it)")
	flag.Parse()
	defer out.Flush()
	if *mode == "genproj" {
		runGenProj(*outDir, *corpus, *tier, *seed)
		return
	}
	r := rng.New(*seed ^ 0xC14C14)
	schemas := []*ast.Schema{mustSchema(sdlA), mustSchema(sdlB)}

	nCalc, nGate, nBad, nSa, nRand, nInst := 8000, 1500, 200, 5000, 4, 800
	if *tier == "thorough" {
		nCalc, nGate, nBad, nSa, nRand, nInst = 200000, 20000, 2000, 300000, 40, 25000
	}
	for i := 0; i < nRand; i++ {
		sdl := randomSDL(r.Fork())
		s, err := gqlparser.LoadSchema(&ast.Source{Name: "random", Input: sdl})
		if err != nil {
			fmt.Fprintf(os.Stderr, "random schema does not load: %v\n%s\n", err, sdl)
			os.Exit(3)
		}
		schemas = append(schemas, s)
	}

	// ---- safeAdd on the exhaustive boundary grid, then random pairs
	fmt.Fprintf(out, "maxint\t%d\n", complexity.MaxIntForVerif)
	M := math.MaxInt64
	grid := []int{math.MinInt64, math.MinInt64 + 1, math.MinInt64 / 2, -M / 2, -(1 << 32), -2, -1, 0, 1, 2, 3, 1 << 31, 1 << 32,
		M/2 - 1, M / 2, M/2 + 1, M/2 + 2, M - 2, M - 1, M}
	for _, a := range grid {
		for _, b := range grid {
			fmt.Fprintf(out, "sa\t%d\t%d\t%d\n", a, b, complexity.SafeAddForVerif(a, b))
		}
	}
	for i := 0; i < nSa; i++ {
		a, b := int(r.Next()), int(r.Next())
		switch r.Below(4) {
		case 0:
			a >>= uint(r.Below(63))
		case 1:
			b >>= uint(r.Below(63))
		case 2:
			b = M - a + r.Below(5) - 2 // around the overflow boundary
		}
		fmt.Fprintf(out, "sa\t%d\t%d\t%d\n", a, b, complexity.SafeAddForVerif(a, b))
	}

	// ---- directed operations x directed custom tables (+ gate at the boundary limits)
	for _, d := range directedOps {
		c := &opCase{schema: schemas[d.sdl], query: d.query, vars: d.vars}
		if c.vars == nil {
			c.vars = map[string]any{}
		}
		c.load()
		if c.op == nil {
			fmt.Fprintf(os.Stderr, "directed operation does not validate: %s: %v\n", d.query, c.errs)
			os.Exit(3)
		}
		for _, cus := range directedCustoms(d.sdl) {
			_, orc, o := emitCalc(c, cus)
			for _, l := range []int{orc, orc - 1, orc + 1} {
				emitGate(c, cus, l)
			}
			// custom cost pinned to the children's cost of some composite field, and one either side
			keys := make([]string, 0, len(o.childOf))
			for k, ch := range o.childOf {
				if ch > 0 {
					keys = append(keys, k)
				}
			}
			sort.Strings(keys)
			if len(keys) > 0 {
				k := keys[r.Below(len(keys))]
				for _, dlt := range []int{-1, 0, 1} {
					c2 := customs{}
					for kk, v := range cus {
						c2[kk] = v
					}
					c2[k] = expr{kind: "c", b: o.childOf[k] + dlt}
					emitCalc(c, c2)
				}
			}
		}
	}

	// ---- the Lean witness for "the definition itself is not monotone under a non-monotone custom function"
	{
		cus := customs{"Query.me": {kind: "l", a: -1, b: 10}}
		qa, qb := `query Op { me { id } }`, `query Op { me { name id } }`
		ca := &opCase{schema: schemas[0], query: qa, vars: map[string]any{}}
		cb := &opCase{schema: schemas[0], query: qb, vars: map[string]any{}}
		ca.load()
		cb.load()
		fmt.Fprintf(out, "witness\t%s\t%s\t%s\t%s\t%s\n", cus.String(),
			implCalculate(&execSchema{schema: schemas[0], cus: cus}, ca.op, ca.vars),
			implCalculate(&execSchema{schema: schemas[0], cus: cus}, cb.op, cb.vars), qa, qb)
		emitCalc(ca, cus)
		emitCalc(cb, cus)
	}

	// ---- seeded random operations
	invalid := 0
	for i := 0; i < nCalc; i++ {
		si := 0
		switch k := r.Below(8); {
		case k == 0 || k == 1:
			si = 1
		case k >= 5:
			si = 2 + r.Below(len(schemas)-2)
		}
		c := genOp(r.Fork(), schemas[si], 5)
		if c.op == nil {
			invalid++
			fmt.Fprintf(out, "invalid\t%s\t%s\n", flat(c.query), flat(c.errs.Error()))
			continue
		}
		cr := r.Fork()
		cus := genCustoms(cr, schemas[si], []int{0, 15, 40, 90}[cr.Below(4)], cr.Below(3) == 0)
		_, orc, o := emitCalc(c, cus)
		if i%5 == 0 {
			// pin a custom cost to the cost of its children (the >= boundary of fieldComplexity)
			keys := make([]string, 0, len(o.childOf))
			for k, ch := range o.childOf {
				if ch > 0 {
					keys = append(keys, k)
				}
			}
			sort.Strings(keys)
			if len(keys) > 0 {
				k := keys[cr.Below(len(keys))]
				cus[k] = expr{kind: "c", b: o.childOf[k] + cr.Below(3) - 1}
				_, orc, _ = emitCalc(c, cus)
			}
		}
		if i%4 == 1 {
			// metamorphic: one more selection at the top level never lowers the complexity, whatever the custom functions
			extra := []string{"zz: __typename", "zz: __typename ... { zy: __typename }", "... { zz: __typename }"}[cr.Below(3)]
			if si <= 1 && c.op.Operation == ast.Query && cr.Below(2) == 0 {
				extra = []string{"zz: scalar", "zz: __schema { description }", "... on Query { zz: scalar }"}[cr.Below(3)]
			}
			at := strings.Index(c.query, "{")
			if cr.Below(2) == 0 { // at the end of the operation's selection set instead of the start
				depth := 0
				for j := at; j < len(c.query); j++ {
					if c.query[j] == '{' {
						depth++
					} else if c.query[j] == '}' {
						depth--
						if depth == 0 {
							at = j - 1
							break
						}
					}
				}
			}
			c2 := &opCase{schema: c.schema, query: c.query[:at+1] + " " + extra + " " + c.query[at+1:], vars: c.vars}
			c2.load()
			if c2.op != nil {
				before := implCalculate(&execSchema{schema: c.schema, cus: cus}, c.op, c.vars)
				after, _, _ := emitCalc(c2, cus)
				fmt.Fprintf(out, "mono\t%s\t%s\t%s\t%s\t%s\n", cus.String(), before, after, flat(c.query), flat(c2.query))
			}
		}
		if i < nGate {
			for _, l := range limitsFor(cr, orc) {
				emitGate(c, cus, l)
			}
		}
	}

	// ---- malformed stream: operations that must be stopped before the gate, and never reach Exec
	for i := 0; i < nBad; i++ {
		si := r.Below(2)
		c := genOp(r.Fork(), schemas[si], 3)
		q := mutateQuery(r, c.query)
		limit := []int{0, 5, 1000, M}[r.Below(4)]
		g, perr := runGate(schemas[si], customs{}, q, c.vars, limit)
		if perr != "" {
			g.code = perr
		}
		valid := "invalid"
		if _, errs := gqlparser.LoadQuery(schemas[si], q); len(errs) == 0 {
			valid = "valid"
		}
		fmt.Fprintf(out, "bad\t%s\t%d\t%d\t%s\t%d\t%s\t%s\n", valid, limit, g.execCalls, g.code, g.httpExec, g.httpCode, flat(q))
	}
	fmt.Fprintf(out, "stats\tinvalid-generated\t%d\n", invalid)

	// ---- HOW the limit is installed: stock / embedded / delegated-to, with further hooks, among other extensions (install.go)
	if *instCorpus != "" {
		runInstStream(r, schemas, *instCorpus, nInst)
	}
}
