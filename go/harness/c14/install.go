package main

// The INSTALLATION dimension of the gate (stream `inst`): the limit is not only `Use(extension.FixedComplexityLimit(n))` on an
// otherwise empty server. It is carried by
//
//	k  the stock *extension.ComplexityLimit from extension.FixedComplexityLimit
//	e  a user type EMBEDDING *extension.ComplexityLimit that implements further hook interfaces
//	w  a user type with its own MutateOperationContext DELEGATING to a *extension.ComplexityLimit (or passing / refusing)
//	a  (never a limit) the Around{Operations,Responses,RootFields,Fields} conveniences
//
// for every subset of the six hook interfaces (insttypes_gen.go), registered among other extensions in any order, on
// executor.New and on handler.New + transport.POST. Parameter mutators pass, refuse, or REWRITE the document (as APQ does):
// the gate must judge the document that will be executed. Every mutator call is logged (P<i> / C<i>, i = position in Use
// order), so "the gate ran" is observed directly, not only through its effect.
//
//	inst <families> <cfg> <cSent> <cAlt> <limit under test> <execCalls> <code|-> <stats c/l|-> <calls|-> <resolverCalls>
//	     <httpExecCalls> <httpCode|-> <httpCalls|-> <other hook calls O/R/T/F> <customs> <vars> <query sent> <query alt|->
//
// cfg is the Lean driver's encoding (Driver/C14.lean `inst`): `<hooks>:<pact>:<cact>;…`.

import (
	"bufio"
	"bytes"
	"context"
	"encoding/json"
	"fmt"
	"math"
	"net/http"
	"net/http/httptest"
	"os"
	"strconv"
	"strings"

	"github.com/vektah/gqlparser/v2/ast"
	"github.com/vektah/gqlparser/v2/gqlerror"

	"github.com/99designs/gqlgen/graphql"
	"github.com/99designs/gqlgen/graphql/errcode"
	"github.com/99designs/gqlgen/graphql/executor"
	"github.com/99designs/gqlgen/graphql/handler"
	"github.com/99designs/gqlgen/graphql/handler/extension"
	"github.com/99designs/gqlgen/graphql/handler/transport"
	"verifharness/internal/rng"
)

const instHooks = "PCORTF"

type instLog struct {
	calls []string // P<i> / C<i> in call order
	other [4]int   // O R T F
}

// instCore is what the mixins of one extension value share
type instCore struct {
	idx    int
	log    *instLog
	pact   string // p | r | f
	pcode  string
	cact   string // p | f | l
	ccode  string
	lim    *extension.ComplexityLimit
	alt    string
	silent bool // the limit's Func does not log (the wrapper's own method already did)
}

type nMix struct{ c *instCore }

func (m nMix) ExtensionName() string { return "Inst" + strconv.Itoa(m.c.idx) }
func (m nMix) Validate(es graphql.ExecutableSchema) error {
	if m.c.lim != nil {
		return m.c.lim.Validate(es)
	}
	return nil
}

func instErr(code string) *gqlerror.Error {
	err := gqlerror.Errorf("refused by an extension")
	errcode.Set(err, code)
	return err
}

type pMix struct{ c *instCore }

func (m pMix) MutateOperationParameters(ctx context.Context, p *graphql.RawParams) *gqlerror.Error {
	m.c.log.calls = append(m.c.log.calls, "P"+strconv.Itoa(m.c.idx))
	switch m.c.pact {
	case "f":
		return instErr(m.c.pcode)
	case "r":
		p.Query = m.c.alt
		p.Variables = map[string]any{}
	}
	return nil
}

type cMix struct{ c *instCore }

func (m cMix) MutateOperationContext(ctx context.Context, opCtx *graphql.OperationContext) *gqlerror.Error {
	m.c.log.calls = append(m.c.log.calls, "C"+strconv.Itoa(m.c.idx))
	switch m.c.cact {
	case "f":
		return instErr(m.c.ccode)
	case "l":
		return m.c.lim.MutateOperationContext(ctx, opCtx)
	}
	return nil
}

type oMix struct{ c *instCore }

func (m oMix) InterceptOperation(ctx context.Context, next graphql.OperationHandler) graphql.ResponseHandler {
	m.c.log.other[0]++
	return next(ctx)
}

type rMix struct{ c *instCore }

func (m rMix) InterceptResponse(ctx context.Context, next graphql.ResponseHandler) *graphql.Response {
	m.c.log.other[1]++
	return next(ctx)
}

type tMix struct{ c *instCore }

func (m tMix) InterceptRootField(ctx context.Context, next graphql.RootResolver) graphql.Marshaler {
	m.c.log.other[2]++
	return next(ctx)
}

type fMix struct{ c *instCore }

func (m fMix) InterceptField(ctx context.Context, next graphql.Resolver) (any, error) {
	m.c.log.other[3]++
	return next(ctx)
}

// instExt: one extension of a configuration, as written in the corpus / drawn by the generator
type instExt struct {
	family string // k | e | w | a
	hooks  string // letters of PCORTF in that order
	pact   string // p | r | f<code>
	cact   string // p | f<code> | lL (the limit under test) | lH (MaxInt) | l<n>
}

func (e instExt) String() string { return e.family + ":" + e.hooks + ":" + e.pact + ":" + e.cact }

func parseInstCfg(s string) ([]instExt, error) {
	var res []instExt
	for _, part := range strings.Split(s, ";") {
		f := strings.Split(strings.TrimSpace(part), ":")
		if len(f) != 4 {
			return nil, fmt.Errorf("extension %q: expected family:hooks:pact:cact", part)
		}
		e := instExt{f[0], f[1], f[2], f[3]}
		if err := e.check(); err != nil {
			return nil, err
		}
		res = append(res, e)
	}
	return res, nil
}

func (e instExt) check() error {
	last := -1
	for _, c := range e.hooks {
		i := strings.IndexRune(instHooks, c)
		if i <= last {
			return fmt.Errorf("extension %s: hooks must be letters of %s in that order", e, instHooks)
		}
		last = i
	}
	hasC, hasP := strings.Contains(e.hooks, "C"), strings.Contains(e.hooks, "P")
	switch e.family {
	case "k":
		if e.hooks != "C" || !strings.HasPrefix(e.cact, "l") {
			return fmt.Errorf("extension %s: the stock limit implements C only and carries a limit", e)
		}
	case "e":
		if !hasC || !strings.HasPrefix(e.cact, "l") {
			return fmt.Errorf("extension %s: an embedding type implements C and carries a limit", e)
		}
	case "w":
		if e.hooks == "" {
			return fmt.Errorf("extension %s: no hook", e)
		}
	case "a":
		if len(e.hooks) != 1 || !strings.Contains("ORTF", e.hooks) {
			return fmt.Errorf("extension %s: Around* registers exactly one interceptor", e)
		}
	default:
		return fmt.Errorf("extension %s: unknown family", e)
	}
	if !hasC && e.cact != "p" || !hasP && e.pact != "p" {
		return fmt.Errorf("extension %s: an action for a hook the type does not implement", e)
	}
	return nil
}

// limitOf resolves the limit token of a cact against the limit under test
func limitOf(cact string, under int) int {
	switch cact {
	case "lL":
		return under
	case "lH":
		return math.MaxInt64
	}
	n, err := strconv.Atoi(cact[1:])
	if err != nil {
		panic("bad limit token " + cact)
	}
	return n
}

// driverCfg: the configuration as the Lean driver reads it (limits resolved)
func driverCfg(cfg []instExt, under int) string {
	var parts []string
	for _, e := range cfg {
		c := e.cact
		if strings.HasPrefix(c, "l") {
			c = "l" + strconv.Itoa(limitOf(c, under))
		}
		parts = append(parts, e.hooks+":"+e.pact+":"+c)
	}
	if len(parts) == 0 {
		return "-"
	}
	return strings.Join(parts, ";")
}

func familiesOf(cfg []instExt) string {
	var parts []string
	for _, e := range cfg {
		parts = append(parts, e.family)
	}
	if len(parts) == 0 {
		return "-"
	}
	return strings.Join(parts, ";")
}

// instUser is what both *executor.Executor and *handler.Server offer for installing extensions
type instUser interface {
	Use(graphql.HandlerExtension)
	AroundOperations(graphql.OperationMiddleware)
	AroundResponses(graphql.ResponseMiddleware)
	AroundRootFields(graphql.RootFieldMiddleware)
	AroundFields(graphql.FieldMiddleware)
}

func installCfg(u instUser, cfg []instExt, under int, alt string, log *instLog) {
	for i, e := range cfg {
		i := i
		core := &instCore{idx: i, log: log, pact: e.pact[:1], cact: e.cact[:1], alt: alt}
		if core.pact == "f" {
			core.pcode = e.pact[1:]
		}
		if core.cact == "f" {
			core.ccode = e.cact[1:]
		}
		if core.cact == "l" {
			core.silent = e.family == "w"
			core.lim = extension.FixedComplexityLimit(limitOf(e.cact, under))
			stock := core.lim.Func
			core.lim.Func = func(ctx context.Context, opCtx *graphql.OperationContext) int {
				if !core.silent {
					log.calls = append(log.calls, "C"+strconv.Itoa(i))
				}
				return stock(ctx, opCtx)
			}
		}
		switch e.family {
		case "k":
			u.Use(core.lim)
		case "e":
			u.Use(instEmbedTypes[e.hooks](core))
		case "w":
			u.Use(instWrapTypes[e.hooks](core))
		case "a":
			switch e.hooks {
			case "O":
				u.AroundOperations(func(ctx context.Context, next graphql.OperationHandler) graphql.ResponseHandler {
					log.other[0]++
					return next(ctx)
				})
			case "R":
				u.AroundResponses(func(ctx context.Context, next graphql.ResponseHandler) *graphql.Response {
					log.other[1]++
					return next(ctx)
				})
			case "T":
				u.AroundRootFields(func(ctx context.Context, next graphql.RootResolver) graphql.Marshaler {
					log.other[2]++
					return next(ctx)
				})
			case "F":
				u.AroundFields(func(ctx context.Context, next graphql.Resolver) (any, error) {
					log.other[3]++
					return next(ctx)
				})
			}
		}
	}
}

type instResult struct {
	exec, resolvers int
	code, stats     string
	calls           string
	httpExec        int
	httpCode        string
	httpCalls       string
	other           [4]int
}

func joinCalls(c []string) string {
	if len(c) == 0 {
		return "-"
	}
	return strings.Join(c, ",")
}

func runInstall(schema *ast.Schema, cus customs, cfg []instExt, under int, query, alt string, vars map[string]any) (r instResult, perr string) {
	defer func() {
		if p := recover(); p != nil {
			perr = "panic:" + flat(fmt.Sprint(p))
		}
	}()
	// (1) the executor, driven the way every transport drives it
	es := &execSchema{schema: schema, cus: cus}
	ex := executor.New(es)
	log := &instLog{}
	installCfg(ex, cfg, under, alt, log)
	ctx := graphql.StartOperationTrace(context.Background())
	rc, errs := ex.CreateOperationContext(ctx, &graphql.RawParams{Query: query, OperationName: "Op", Variables: varsJSON(vars)})
	r.code, r.stats = "-", "-"
	if errs != nil {
		resp := ex.DispatchError(graphql.WithOperationContext(ctx, rc), errs)
		r.code = codeOf(resp.Errors)
	} else {
		rh, rctx := ex.DispatchOperation(ctx, rc)
		resp := rh(rctx)
		if len(resp.Errors) > 0 {
			r.code = "exec-error:" + codeOf(resp.Errors)
		}
	}
	if rc != nil {
		if st, ok := rc.Stats.GetExtension("ComplexityLimit").(*extension.ComplexityStats); ok && st != nil {
			r.stats = strconv.Itoa(st.Complexity) + "/" + strconv.Itoa(st.ComplexityLimit)
		}
	}
	r.exec, r.resolvers, r.calls, r.other = es.execCalls, es.resolverCalls, joinCalls(log.calls), log.other

	// (2) handler.New + transport.POST
	es2 := &execSchema{schema: schema, cus: cus}
	srv := handler.New(es2)
	srv.AddTransport(transport.POST{})
	log2 := &instLog{}
	installCfg(srv, cfg, under, alt, log2)
	body, _ := json.Marshal(map[string]any{"query": query, "operationName": "Op", "variables": vars})
	req := httptest.NewRequest(http.MethodPost, "/query", bytes.NewReader(body))
	req.Header.Set("Content-Type", "application/json")
	rec := httptest.NewRecorder()
	srv.ServeHTTP(rec, req)
	r.httpExec, r.httpCode, r.httpCalls = es2.execCalls, "-", joinCalls(log2.calls)
	var resp struct {
		Errors []struct {
			Extensions map[string]any `json:"extensions"`
		} `json:"errors"`
	}
	if err := json.Unmarshal(rec.Body.Bytes(), &resp); err != nil {
		r.httpCode = "bad-json"
	} else if len(resp.Errors) > 0 {
		r.httpCode = "no-code"
		if c, ok := resp.Errors[0].Extensions["code"].(string); ok {
			r.httpCode = c
		}
	}
	return r, ""
}

// effectiveOf: the complexity of the document that will be executed (Lean: ExtInstall.Spec.effective)
func effectiveOf(cfg []instExt, cSent, cAlt int) int {
	for _, e := range cfg {
		if strings.Contains(e.hooks, "P") && e.pact == "r" {
			return cAlt
		}
	}
	return cSent
}

func emitInst(sent, alt *opCase, cus customs, cfg []instExt, under, cSent, cAlt int) {
	altQ := "-"
	if alt != nil {
		altQ = alt.query
	}
	r, perr := runInstall(sent.schema, cus, cfg, under, sent.query, altQ, sent.vars)
	if perr != "" {
		r.code = perr
	}
	fmt.Fprintf(out, "inst\t%s\t%s\t%d\t%d\t%d\t%d\t%s\t%s\t%s\t%d\t%d\t%s\t%s\t%d/%d/%d/%d\t%s\t%s\t%s\t%s\n",
		familiesOf(cfg), driverCfg(cfg, under), cSent, cAlt, under,
		r.exec, r.code, r.stats, r.calls, r.resolvers, r.httpExec, r.httpCode, r.httpCalls,
		r.other[0], r.other[1], r.other[2], r.other[3], cus.String(), varsTok(sent.vars), flat(sent.query), flat(altQ))
}

var instCodes = []string{"TENANT_BLOCKED", "UNAUTHENTICATED", "RATE_LIMITED"}

func subsetOf(r *rng.R, letters string, nonEmpty bool) string {
	for {
		s := ""
		for _, c := range letters {
			if r.Below(3) == 0 {
				s += string(c)
			}
		}
		if s != "" || !nonEmpty {
			return s
		}
	}
}

func orderHooks(s string) string {
	res := ""
	for _, c := range instHooks {
		if strings.ContainsRune(s, c) {
			res += string(c)
		}
	}
	return res
}

// genInstCfg draws a configuration: 1..5 extensions, usually one or two of them carrying a limit
func genInstCfg(r *rng.R, canRewrite bool) []instExt {
	n := 1 + r.Below(5)
	var cfg []instExt
	limits := 0
	for i := 0; i < n; i++ {
		e := instExt{pact: "p", cact: "p"}
		switch k := r.Below(10); {
		case k < 3:
			e.family, e.hooks = "e", orderHooks("C"+subsetOf(r, "PORTF", false))
		case k < 4:
			e.family, e.hooks = "k", "C"
		case k < 9:
			e.family, e.hooks = "w", subsetOf(r, instHooks, true)
		default:
			e.family, e.hooks = "a", string("ORTF"[r.Below(4)])
		}
		if strings.Contains(e.hooks, "C") {
			switch k := r.Below(10); {
			case e.family != "w" || k < 5:
				e.cact = "lL"
				if limits > 0 && r.Below(2) == 0 {
					e.cact = []string{"lH", "l0", "l1000000"}[r.Below(3)]
				}
				limits++
			case k < 7:
				e.cact = "f" + instCodes[r.Below(len(instCodes))]
			}
		}
		if strings.Contains(e.hooks, "P") {
			switch k := r.Below(12); {
			case k == 0:
				e.pact = "f" + instCodes[r.Below(len(instCodes))]
			case k <= 2 && canRewrite:
				e.pact = "r"
			}
		}
		cfg = append(cfg, e)
	}
	return cfg
}

func loadInstCorpus(path string) [][]instExt {
	f, err := os.Open(path)
	if err != nil {
		fmt.Fprintf(os.Stderr, "install corpus: %v\n", err)
		os.Exit(3)
	}
	defer f.Close()
	var res [][]instExt
	sc := bufio.NewScanner(f)
	for sc.Scan() {
		l := strings.TrimSpace(sc.Text())
		if l == "" || strings.HasPrefix(l, "#") {
			continue
		}
		cfg, err := parseInstCfg(l)
		if err != nil {
			fmt.Fprintf(os.Stderr, "install corpus: %q: %v\n", l, err)
			os.Exit(3)
		}
		res = append(res, cfg)
	}
	return res
}

// instOps: the operations of the stream - a sent document and a variable-free alternative on the same schema
var instOps = []struct {
	sdl       int
	sent, alt string
	vars      map[string]any
	cus       customs
}{
	{0, `query Op { scalar }`, `query Op { me { friends { friends { id name } } } nodes { id } }`, nil, customs{}},
	{0, `query Op { nodes(first: 100) { id related(first: 100) { id name } } }`, `query Op { scalar me { id } }`, nil,
		customs{"Query.nodes": {kind: "a", arg: "first"}, "Node.related": {kind: "a", arg: "first"}, "User.related": {kind: "a", arg: "first"},
			"Org.related": {kind: "a", arg: "first"}, "Post.related": {kind: "a", arg: "first"}}},
	{0, `query Op($n: Int) { me { a1: friends(first: $n) { id name } a2: friends { id } } }`, `query Op { me { id name age } }`,
		map[string]any{"n": int64(7)}, customs{"User.friends": {kind: "a", arg: "first", b: 1}}},
	{1, `query Op { sq { side a1: inner(n: 3) { side a2: inner(n: 3) { side } } } }`, `query Op { u { __typename ... on Sq { side } } }`, nil,
		customs{"Sq.inner": {kind: "a", arg: "n"}}},
	{0, `mutation Op { a1: addPost(title: "t") { id author { id } } a2: bump(by: 3) }`, `query Op { scalar }`, nil, customs{"Mutation.bump": {kind: "c", b: 40}}},
}

func runInstStream(r *rng.R, schemas []*ast.Schema, corpusPath string, nRandom int) {
	corpus := loadInstCorpus(corpusPath)
	load := func(s *ast.Schema, q string, vars map[string]any) *opCase {
		c := &opCase{schema: s, query: q, vars: vars}
		if c.vars == nil {
			c.vars = map[string]any{}
		}
		c.load()
		if c.op == nil {
			fmt.Fprintf(os.Stderr, "install stream: operation does not validate: %s: %v\n", q, c.errs)
			os.Exit(3)
		}
		return c
	}
	// ---- the directed configurations x directed operations x the limit under test at c-1 / c / c+1
	for _, d := range instOps {
		sent, alt := load(schemas[d.sdl], d.sent, d.vars), load(schemas[d.sdl], d.alt, nil)
		_, cSent, _ := emitCalc(sent, d.cus)
		_, cAlt, _ := emitCalc(alt, d.cus)
		for _, cfg := range corpus {
			c := effectiveOf(cfg, cSent, cAlt)
			for _, l := range []int{c - 1, c, c + 1} {
				emitInst(sent, alt, d.cus, cfg, l, cSent, cAlt)
			}
		}
	}
	// ---- seeded: random operations x random custom tables x random configurations
	for i := 0; i < nRandom; i++ {
		si := 0
		switch k := r.Below(8); {
		case k == 0 || k == 1:
			si = 1
		case k >= 5:
			si = 2 + r.Below(len(schemas)-2)
		}
		sent := genOp(r.Fork(), schemas[si], 4)
		if sent.op == nil {
			continue
		}
		var alt *opCase
		for try := 0; try < 4 && alt == nil; try++ {
			a := genOp(r.Fork(), schemas[si], 3)
			if a.op != nil && len(a.vars) == 0 {
				alt = a
			}
		}
		cr := r.Fork()
		cus := genCustoms(cr, schemas[si], []int{0, 15, 40}[cr.Below(3)], cr.Below(6) == 0)
		_, cSent, _ := emitCalc(sent, cus)
		cAlt := 0
		if alt != nil {
			_, cAlt, _ = emitCalc(alt, cus)
		}
		cfg := genInstCfg(cr, alt != nil)
		c := effectiveOf(cfg, cSent, cAlt)
		ls := []int{c - 1, c, c + 1}
		if cr.Below(4) == 0 {
			ls = append(ls, []int{0, -1, math.MaxInt64, math.MinInt64, c / 2, 2 * c}[cr.Below(6)])
		}
		for _, l := range ls {
			emitInst(sent, alt, cus, cfg, l, cSent, cAlt)
		}
	}
}
