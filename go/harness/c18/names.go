package main

import (
	"bufio"
	"fmt"
	"os"
	"strings"

	"github.com/99designs/gqlgen/codegen/templates"
)

// -mode names: the REAL name registry. Every stdin line is one request sequence (GraphQL names separated by blanks);
// templates.ToGoModelName is called for the names in that order, and one line `name=<templates.ToGo(name)>=<answer>;...`
// is written per sequence. The registry is process-global and is NOT reset between lines (no hook needed): the caller
// gives every sequence its own name prefix, so sequences cannot see each other's entries.
func runNames() int {
	in := bufio.NewScanner(os.Stdin)
	in.Buffer(make([]byte, 1<<20), 1<<20)
	out := bufio.NewWriter(os.Stdout)
	defer out.Flush()
	for in.Scan() {
		var parts []string
		for _, n := range strings.Fields(in.Text()) {
			parts = append(parts, fmt.Sprintf("%s=%s=%s", n, templates.ToGo(n), templates.ToGoModelName(n)))
		}
		fmt.Fprintln(out, strings.Join(parts, ";"))
	}
	return 0
}
