package main

// -mode render: templates.Render on template SETS of every shape (what a plugin does through the public API).
//
//	-tplroot <dir>   every sub-directory is one case: its top-level *.gotpl files are the set (sub-directories and other
//	                 files must be ignored by Render); plus the fixed case `callerdir` (no TemplateFS: the templates next
//	                 to the caller's source file)
//	-fs dir|map      Options.TemplateFS = os.DirFS(case) or an in-memory fstest.MapFS with the same files
//	-reps N          N renders per case in this process (map iteration is randomised per range statement)
//	-out <dir>       where the rendered files go
//
// One line per render: render <TAB> case <TAB> rep <TAB> sha256 <TAB> region names in file order (comma separated).
import (
	"crypto/sha256"
	"fmt"
	"io/fs"
	"os"
	"path/filepath"
	"regexp"
	"sort"
	"strings"
	"testing/fstest"

	"github.com/99designs/gqlgen/codegen/config"
	"github.com/99designs/gqlgen/codegen/templates"

	"verifharness/harness/c18/callerdir"
)

// `// region    ***** name *****` (center() pads with stars up to 70 columns; a long name gets none)
var regionRe = regexp.MustCompile(`(?m)^// region\s+\**\s*([^\s*]+)\s*\**\s*$`)

type tplData struct {
	Version string
	Names   []string
}

func renderOnce(opts templates.Options, viaCaller bool) (err error) {
	defer func() {
		if r := recover(); r != nil {
			err = fmt.Errorf("PANIC: %v", r)
			templates.CurrentImports = nil
		}
	}()
	if viaCaller {
		return callerdir.Render(opts)
	}
	return templates.Render(opts)
}

func runRender(root, fsMode, out string, reps int) int {
	ents, err := os.ReadDir(root)
	if err != nil {
		fmt.Fprintln(os.Stderr, err)
		return 2
	}
	if err := os.MkdirAll(out, 0o755); err != nil {
		fmt.Fprintln(os.Stderr, err)
		return 2
	}
	// a *code.Packages as a plugin gets it: from an initialised config
	wd, _ := os.Getwd()
	if err := os.Chdir(out); err != nil {
		fmt.Fprintln(os.Stderr, err)
		return 2
	}
	cfg := config.DefaultConfig()
	cfg.SkipModTidy = true
	cfg.SkipValidation = true
	if err := cfg.Init(); err != nil {
		fmt.Fprintln(os.Stderr, "CONFIG-ERROR:", err)
		return 3
	}
	_ = os.Chdir(wd)
	var cases []string
	for _, e := range ents {
		if e.IsDir() {
			cases = append(cases, e.Name())
		}
	}
	sort.Strings(cases)
	cases = append(cases, "callerdir")
	for _, c := range cases {
		var fsys fs.FS
		dir := filepath.Join(root, c)
		if c != "callerdir" {
			if fsMode == "map" {
				m := fstest.MapFS{}
				err := filepath.WalkDir(dir, func(p string, d fs.DirEntry, err error) error {
					if err != nil || d.IsDir() {
						return err
					}
					b, err := os.ReadFile(p)
					if err != nil {
						return err
					}
					rel, _ := filepath.Rel(dir, p)
					m[filepath.ToSlash(rel)] = &fstest.MapFile{Data: b}
					return nil
				})
				if err != nil {
					fmt.Fprintln(os.Stderr, err)
					return 2
				}
				fsys = m
			} else {
				fsys = os.DirFS(dir)
			}
		}
		for rep := 0; rep < reps; rep++ {
			file := filepath.Join(out, c, "plugin_gen.go")
			_ = os.Remove(file)
			err := renderOnce(templates.Options{
				PackageName: "work", Filename: file, TemplateFS: fsys, RegionTags: true, GeneratedHeader: true,
				Data: tplData{Version: "1.0", Names: []string{"a", "b"}}, Packages: cfg.Packages,
			}, c == "callerdir")
			if err != nil {
				fmt.Printf("render\t%s\t%d\tERROR\t%s\n", c, rep, strings.ReplaceAll(err.Error(), "\n", " "))
				continue
			}
			b, err := os.ReadFile(file)
			if err != nil {
				fmt.Printf("render\t%s\t%d\tERROR\t%s\n", c, rep, err)
				continue
			}
			var regions []string
			for _, m := range regionRe.FindAllStringSubmatch(string(b), -1) {
				regions = append(regions, m[1])
			}
			fmt.Printf("render\t%s\t%d\t%x\t%s\n", c, rep, sha256.Sum256(b), strings.Join(regions, ","))
		}
	}
	return 0
}
