package main

// -mode find: what the binder resolves the bound Go types of a project to.
//
//	-dir <project> -reps N
//
// Loads the project's config as the generator does (config.LoadConfigFromDefaultLocations + Init) and, for every
// `models:` entry `<pkg>.<Type>`, asks N FRESH binders (`cfg.NewBinder().FindObject(pkg, Type)`: each builds its own name
// index by ranging over pkg.TypesInfo.Defs, a map whose iteration is randomised per range statement) and prints
//
//	find <TAB> graphql name <TAB> pkg <TAB> Type <TAB> outcome=count;outcome=count…      outcome = Kind@file:line:col | ERR:…
//	defs <TAB> pkg <TAB> name/file:line:col/k,…     the entries of TypesInfo.Defs named like a looked-up Type or Marshal<Type>
//	                                                k: x nil object, n no parent scope, p package scope, s nested scope
import (
	"fmt"
	"os"
	"path/filepath"
	"sort"
	"strings"

	"github.com/99designs/gqlgen/codegen/config"
)

func runFind(dir string, reps int) (code int) {
	abs, err := filepath.Abs(dir)
	if err != nil {
		fmt.Fprintln(os.Stderr, err)
		return 2
	}
	if err := os.Chdir(abs); err != nil {
		fmt.Fprintln(os.Stderr, err)
		return 2
	}
	defer func() {
		if r := recover(); r != nil {
			fmt.Fprintf(os.Stderr, "PANIC: %v\n", r)
			code = 4
		}
	}()
	cfg, err := config.LoadConfigFromDefaultLocations()
	if err != nil {
		fmt.Fprintln(os.Stderr, "CONFIG-ERROR:", err)
		return 3
	}
	if err := cfg.Init(); err != nil {
		fmt.Fprintln(os.Stderr, "CONFIG-ERROR:", err)
		return 3
	}
	var names []string
	for n := range cfg.Models {
		names = append(names, n)
	}
	sort.Strings(names)
	wanted := map[string]map[string]bool{} // pkg -> identifier names of interest
	for _, n := range names {
		for _, m := range cfg.Models[n].Model {
			i := strings.LastIndex(m, ".")
			if i < 0 || strings.ContainsAny(m[:i], "[]*( ") {
				continue
			}
			pkg, typ := m[:i], m[i+1:]
			if wanted[pkg] == nil {
				wanted[pkg] = map[string]bool{}
			}
			wanted[pkg][typ] = true
			wanted[pkg]["Marshal"+typ] = true
			counts := map[string]int{}
			for r := 0; r < reps; r++ {
				b := cfg.NewBinder()
				obj, err := b.FindObject(pkg, typ)
				out := ""
				if err != nil {
					out = "ERR:" + strings.ReplaceAll(err.Error(), "\t", " ")
				} else {
					p := b.ObjectPosition(obj)
					out = fmt.Sprintf("%s@%s:%d:%d", strings.TrimPrefix(fmt.Sprintf("%T", obj), "*types."), filepath.Base(p.Filename), p.Line, p.Column)
				}
				counts[out]++
			}
			var outs []string
			for o, c := range counts {
				outs = append(outs, fmt.Sprintf("%s=%d", o, c))
			}
			sort.Strings(outs)
			fmt.Printf("find\t%s\t%s\t%s\t%s\n", n, pkg, typ, strings.Join(outs, ";"))
		}
	}
	var pkgs []string
	for p := range wanted {
		pkgs = append(pkgs, p)
	}
	sort.Strings(pkgs)
	for _, pp := range pkgs {
		pkg := cfg.Packages.LoadWithTypes(pp)
		if pkg == nil || pkg.TypesInfo == nil || pkg.Types == nil {
			continue
		}
		scope := pkg.Types.Scope()
		var ents []string
		for id, obj := range pkg.TypesInfo.Defs {
			if !wanted[pp][id.Name] {
				continue
			}
			k := "s"
			switch {
			case obj == nil:
				k = "x"
			case obj.Parent() == nil:
				k = "n"
			case obj.Parent() == scope:
				k = "p"
			}
			p := pkg.Fset.Position(id.Pos())
			ents = append(ents, fmt.Sprintf("%s/%s:%d:%d/%s", id.Name, filepath.Base(p.Filename), p.Line, p.Column, k))
		}
		sort.Strings(ents)
		fmt.Printf("defs\t%s\t%s\n", pp, strings.Join(ents, ","))
	}
	return 0
}
