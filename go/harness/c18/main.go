// Harness for C18 (generation is deterministic and idempotent).
//
//	-mode gen  -dir <project> [-start <subdir>] [-cfg search|rel|dotrel|abs]
//	           run the REAL generator the way the gqlgen CLI does. The caller STARTS this process in <project>/<start>
//	           (the harness refuses to run otherwise: a chdir made after process start is not the same thing - package
//	           level initialisers have already run); -cfg search = `gqlgen generate`:
//	           config.LoadConfigFromDefaultLocations() (walks up to gqlgen.yml and chdirs there); rel / dotrel / abs =
//	           `gqlgen generate -c gqlgen.yml | ./gqlgen.yml | <abs>/gqlgen.yml`: config.LoadConfig(<that>), no chdir
//	           (only from the project root: an explicitly named config does not move the generator).
//	           Then api.Generate + plugin/stubgen. One process per run: fresh map seed, GOMAXPROCS from the environment.
//	-mode hash -dir <project>                     SHA-256 of every file under <project> (path <TAB> hash, sorted)
//	-mode render -tplroot <dir> -fs dir|map -reps N -out <dir>     templates.Render on template sets (render.go)
//	-mode names                                   real templates.ToGoModelName on request sequences from stdin (names.go)
//	-mode find -dir <project> -reps N             Binder.FindObject for every bound type, N fresh binders (find.go)
//
// bin/check C18 runs `gen` repeatedly (separate processes, varying GOMAXPROCS, start directories, clean tree vs
// tree with previous output) and requires all hash listings to agree.
package main

import (
	"crypto/sha256"
	"flag"
	"fmt"
	"io/fs"
	"os"
	"path/filepath"
	"runtime"
	"runtime/debug"
	"sort"

	"github.com/99designs/gqlgen/api"
	"github.com/99designs/gqlgen/codegen/config"
	"github.com/99designs/gqlgen/plugin/stubgen"
)

// procStart is the directory this process was started in (what a package-level initialiser of the generator sees).
var procStart, procStartErr = os.Getwd()

func runGen(dir, start, cfgMode string) (code int) {
	if !filepath.IsAbs(dir) {
		fmt.Fprintln(os.Stderr, "CONFIG-ERROR: -dir must be absolute (the process is started inside the project)")
		return 2
	}
	abs := filepath.Clean(dir)
	want := filepath.Join(abs, start)
	if procStartErr != nil || procStart != want {
		fmt.Fprintf(os.Stderr, "CONFIG-ERROR: harness must be STARTED in %s (was started in %s)\n", want, procStart)
		return 2
	}
	defer func() {
		if r := recover(); r != nil {
			fmt.Fprintf(os.Stderr, "PANIC: %v\n%s\n", r, debug.Stack())
			code = 4
		}
	}()
	var cfg *config.Config
	var err error
	switch cfgMode {
	case "", "search":
		cfg, err = config.LoadConfigFromDefaultLocations()
	case "rel", "dotrel", "abs":
		if start != "" {
			fmt.Fprintln(os.Stderr, "CONFIG-ERROR: -cfg rel|dotrel|abs only from the project root")
			return 2
		}
		name := map[string]string{"rel": "gqlgen.yml", "dotrel": "./gqlgen.yml", "abs": filepath.Join(abs, "gqlgen.yml")}[cfgMode]
		cfg, err = config.LoadConfig(name)
	default:
		fmt.Fprintln(os.Stderr, "CONFIG-ERROR: unknown -cfg", cfgMode)
		return 2
	}
	if err != nil {
		fmt.Fprintln(os.Stderr, "CONFIG-ERROR:", err)
		return 3
	}
	wd, _ := os.Getwd()
	if wd != abs {
		fmt.Fprintf(os.Stderr, "CONFIG-ERROR: generator did not move to the project root: %s\n", wd)
		return 3
	}
	stubDir := filepath.Dir(cfg.Exec.Filename)
	if cfg.Exec.Layout == config.ExecLayoutFollowSchema {
		stubDir = cfg.Exec.DirName
	}
	if !filepath.IsAbs(stubDir) {
		stubDir = filepath.Join(abs, stubDir)
	}
	if err := api.Generate(cfg, api.AddPlugin(stubgen.New(filepath.Join(stubDir, "stub.go"), "Stub"))); err != nil {
		fmt.Fprintln(os.Stderr, "GENERATE-ERROR:", err)
		return 3
	}
	fmt.Printf("generated\tGOMAXPROCS=%d\tstart=%s\tcfg=%s\tprocstart=%s\n", runtime.GOMAXPROCS(0), start, cfgMode, procStart)
	return 0
}

func runHash(dir string) int {
	var lines []string
	err := filepath.WalkDir(dir, func(p string, d fs.DirEntry, err error) error {
		if err != nil {
			return err
		}
		if d.IsDir() {
			return nil
		}
		b, err := os.ReadFile(p)
		if err != nil {
			return err
		}
		rel, _ := filepath.Rel(dir, p)
		lines = append(lines, fmt.Sprintf("%s\t%x", rel, sha256.Sum256(b)))
		return nil
	})
	if err != nil {
		fmt.Fprintln(os.Stderr, err)
		return 2
	}
	sort.Strings(lines)
	for _, l := range lines {
		fmt.Println(l)
	}
	return 0
}

func main() {
	mode := flag.String("mode", "gen", "gen | hash | render | find")
	dir := flag.String("dir", "", "project directory")
	start := flag.String("start", "", "sub-directory of the project this process was started in")
	cfgMode := flag.String("cfg", "search", "gen: search | rel | dotrel | abs (how the config file is found)")
	tplroot := flag.String("tplroot", "", "render: directory whose sub-directories are template sets")
	fsMode := flag.String("fs", "dir", "render: dir | map")
	reps := flag.Int("reps", 8, "render / find: repetitions inside this process")
	out := flag.String("out", "", "render: output directory")
	flag.Parse()
	switch *mode {
	case "gen":
		os.Exit(runGen(*dir, *start, *cfgMode))
	case "hash":
		os.Exit(runHash(*dir))
	case "render":
		os.Exit(runRender(*tplroot, *fsMode, *out, *reps))
	case "find":
		os.Exit(runFind(*dir, *reps))
	case "names":
		os.Exit(runNames())
	}
	os.Exit(2)
}
