// Package callerdir is a miniature gqlgen plugin that renders WITHOUT Options.TemplateFS: templates.Render then loads
// every *.gotpl next to the source file of its caller (runtime.Caller), i.e. the files of this directory - two
// important templates (`!.gotpl`), two ordinary ones and one `_.gotpl` include (harness c18, -mode render).
package callerdir

import "github.com/99designs/gqlgen/codegen/templates"

// Render renders this directory's templates into filename.
func Render(opts templates.Options) error {
	opts.Template = ""
	opts.TemplateFS = nil
	return templates.Render(opts)
}
