// The CONTENT dimension of C12's tie: what the payloads that the streaming transports frame are made of.
//
// The statement quantifies over "all payload counts and contents". A transport has to deliver exactly the bytes
// json.Marshal gave for the response the executor produced, whatever they contain. The classes below are the
// kinds of text that mean something to one of the layers a payload passes on its way to the wire:
//
//	printf    '%' and printf verbs (fmt.Fprintf writes the SSE event; the multipart delimiters go through it too)
//	lines     CR / LF / CRLF / blank lines (SSE and MIME are line protocols; json.Marshal escapes them)
//	ssefield  text that is an SSE field or a whole SSE event when it stands at the start of a line
//	boundary  the multipart delimiter / closing delimiter of THIS exchange (the boundary the case configures), MIME headers
//	quotes    quotes, backslashes, text that looks like the end of the JSON document / of the incremental wrapper
//	nonascii  2-, 3-, 4-byte UTF-8, U+2028 / U+2029 / U+0085 line separators, BOM, invalid UTF-8 (json.Marshal -> U+FFFD)
//	html      < > & (json.Marshal writes < ...; the recorded payload is json.Marshal's, so must the wire be)
//	ctrl      NUL and the other C0 controls, DEL
//	long      values around the sizes of the buffers on the way (net/http's 2 KiB / 4 KiB bufio, 32 KiB io.Copy chunks, 64 KiB)
//
// and the PLACES are the members of graphql.Response a transport marshals: a value / a key of `data`, an error
// message, an error's extensions, the response's extensions, label, path (incremental payloads), and the text of
// the panic that ends an operation (it becomes the message / path / extensions of the error response
// nextResponse builds). Every class meets every place on both transports in directed cases (genContentCase),
// genString draws from the classes in every random case, and corpus/C12/content-*.json pins a few exchanges.
package main

import (
	"encoding/json"
	"strings"

	"github.com/vektah/gqlparser/v2/ast"

	"verifharness/internal/rng"
)

// curBoundary: the multipart boundary of the plan being generated ("" for SSE plans); plans are generated one
// after the other by buildPlans, so a plain variable is enough.
var curBoundary string

var contentClasses = []string{"printf", "lines", "ssefield", "boundary", "quotes", "nonascii", "html", "ctrl", "long"}

var contentPlaces = []string{"data-value", "data-key", "error-message", "error-extensions", "extensions", "label", "path",
	// the text of the panic that ends the operation, through each arm of nextResponse (RecoverFunc returns a *gqlerror.Error / a plain error / a wrapped *gqlerror.Error)
	"panic-message/gqlerror", "panic-message/error", "panic-message/wrapped"}

var printfBits = []string{
	"%", "100%", "%s", "%d", "%v", "%+v", "%q", "%x", "%%", "%%%", "%!", "%!s(MISSING)", "%[1]s", "%[2]d", "%*d", "%.3f", "%-5s",
	"% d", "%n", "%c", "%U", "%T", "%p", "%w", "50%d of 20%s", "100%% sure", "discount: 100%", "%\"", "%}", "%\\", "%\n", "%\u00e9", "%s%s%s%s",
	"%!(EXTRA []uint8=", "%!(NOVERB)", "%!(BADINDEX)",
}

var sseBits = []string{
	"data:", "data: ", "data", "event:", "event: next", "event: complete", "event: complete\n\n", "id: 1", "id", "retry: 0", "retry:1\n", ":",
	": ping", ": ping\n\n", "\n\ndata: x", "\ndata: {}\n\n", "event: next\ndata: {\"data\":null}\n\n", ":\n\n", "\ufeffdata: x",
}

var quoteBits = []string{
	"\"", "\\", "\\\"", "\\n", "\\u0000", "\\u", "'", "`", "{}", "[]", "}", "\"}", "\"}]}", "],\"hasNext\":false}", "],\"hasNext\":true}", "{\"incremental\":[",
	"null", "\"\"", "\\\\", "\"},{\"data\":", ",\"errors\":[", "/*", "//",
}

var nonASCIIBits = []string{
	"\u00e9", "\u00df", "\u2713", "\u20ac", "\U0001d11e", "\U0001f600", "\u2028", "\u2029", "\u0085", "\ufeff", "\u00a0", "\u200b", "\u202e", "\ufffd",
	"\xff", "\xfe\xff", "\xc3", "\xe2\x82", "\xf0\x9f\x98", "\xed\xa0\x80", "\xc0\xaf", "e\u0301", "\u65e5\u672c\u8a9e", "\U0010ffff",
}

var htmlBits = []string{"<", ">", "&", "<script>", "</script>", "&amp;", "<!--", "-->", "&#37;", "<a href=\"%s\">", "\\u003c"}

var lineBits = []string{"\r", "\n", "\r\n", "\n\n", "\r\n\r\n", "\n\r", "a\nb", "a\r\nb", "\n ", " \n", "\v", "\f", "\t", "\r\r\n"}

var longSizes = []int{1, 2047, 2048, 2049, 4000, 4095, 4096, 4097, 8191, 8192, 8193, 16384, 20000, 32767, 32768, 32769, 65535, 65536, 65537, 70000}

func pick(r *rng.R, xs []string) string { return xs[r.Below(len(xs))] }

// boundaryBits: delimiter texts of the exchange under generation (and of gqlgen's default boundary "-")
func boundaryBits() []string {
	b := curBoundary
	if b == "" {
		b = "-"
	}
	return []string{
		"--" + b, "--" + b + "--", "\r\n--" + b + "\r\n", "\r\n--" + b + "--\r\n", "\n--" + b + "\n", "\n--" + b + "--\n", "--" + b + "\r\n", b, b + "--",
		"\r\n--" + b + "\r\nContent-Type: application/json\r\n\r\n{}", "Content-Type: application/json\r\n\r\n", "Content-Type: text/plain", "Content-Length: 0\r\n\r\n",
		"\r\n-----\r\n", "---", "-----", "\r\n--graphql--\r\n", "\r\n--graphql\r\n", "--", "boundary=\"" + b + "\"",
	}
}

// genContent: one string of the class
func genContent(r *rng.R, class string) string {
	glue := func(bits []string) string {
		// a bit alone, two bits, or bits inside ordinary text: the interesting text at the start, in the middle, at the very end
		switch r.Below(5) {
		case 0:
			return pick(r, bits)
		case 1:
			return pick(r, bits) + pick(r, bits)
		case 2:
			return "abc " + pick(r, bits)
		case 3:
			return pick(r, bits) + " xyz"
		}
		return "a" + pick(r, bits) + "b" + pick(r, bits) + "c"
	}
	switch class {
	case "printf":
		return glue(printfBits)
	case "lines":
		return glue(lineBits)
	case "ssefield":
		return glue(sseBits)
	case "boundary":
		return glue(boundaryBits())
	case "quotes":
		return glue(quoteBits)
	case "nonascii":
		return glue(nonASCIIBits)
	case "html":
		return glue(htmlBits)
	case "ctrl":
		n := 1 + r.Below(6)
		b := make([]byte, n)
		for i := range b {
			b[i] = byte(r.Below(33))
			if b[i] == 32 {
				b[i] = 0x7f
			}
		}
		return string(b)
	case "long":
		n := longSizes[r.Below(len(longSizes))]
		if r.Below(4) == 0 {
			n += r.Below(40) - 20
			if n < 0 {
				n = 0
			}
		}
		// what it is made of decides how long the MARSHALLED value is (an escaped character takes 2-6 bytes)
		unit := []string{"x", "%", "\n", "\u00e9", "\"", "<", "ab%s", "0123456789abcdef"}[r.Below(8)]
		var sb strings.Builder
		for sb.Len() < n {
			sb.WriteString(unit)
		}
		return sb.String()[:n]
	}
	return "s"
}

// genContentAny: a string of any class but "long" (random cases draw these everywhere; long values have their own cases)
func genContentAny(r *rng.R) string {
	return genContent(r, contentClasses[r.Below(len(contentClasses)-1)])
}

// placeContent puts text of the class into one member of the payload
func placeContent(r *rng.R, pl *payload, class, place string) {
	s := func() string { return genContent(r, class) }
	switch place {
	case "data-value":
		pl.data = mustJSON(map[string]any{"x": s(), "l": []any{s(), 1, nil}})
	case "data-key":
		pl.data = mustJSON(map[string]any{s(): 1, "o": map[string]any{s(): "v"}})
	case "error-message":
		pl.errs = []string{s(), "plain", s()}
	case "error-extensions":
		pl.errs = []string{"failed"}
		pl.errExt = map[string]any{"code": s(), s(): []any{s()}}
	case "extensions":
		pl.ext = map[string]any{"trace": s(), s(): map[string]any{"k": s()}}
	case "label":
		pl.label = s()
	case "path":
		pl.path = ast.Path{ast.PathName(s()), ast.PathIndex(2), ast.PathName(s())}
	}
}

// genContentCase: three back-to-back payloads that all carry text of <class> at <place>; for the places
// "panic-message/*" two plain payloads, then the operation ends by a panic whose text is of the class (the
// RecoverFunc puts it into message, path and extensions of the error the transport has to deliver).
func genContentCase(r *rng.R, id int, kind, class, place string) *plan {
	p := &plan{id: id, kind: kind, disc: -1, cancelAt: -1, body: `{"query":"{ x }"}`, shape: true, desc: "content:" + class + "@" + place}
	curBoundary = ""
	if kind == "sse" {
		p.kaUS = []int{0, 1, 50, 1000}[r.Below(4)]
	} else {
		p.boundary = boundaries[r.Below(len(boundaries))]
		p.timeoutUS = timeouts[r.Below(len(timeouts))]
		curBoundary = p.boundary
	}
	n := 3
	if class == "long" {
		n = 2
	}
	isPanic := strings.HasPrefix(place, "panic-message")
	if isPanic {
		p.panicEnd = true
		p.panicVal = r.Below(5)
		p.recoverKind = map[string]int{"panic-message/gqlerror": 1, "panic-message/error": 2, "panic-message/wrapped": 4}[place]
		p.panicMsg = genContent(r, class)
		n = 2
	}
	t, f := true, false
	for i := 0; i < n; i++ {
		pl := payload{data: json.RawMessage(`{"x":1}`)}
		if !isPanic {
			placeContent(r, &pl, class, place)
		}
		if kind == "mp" {
			if i < n-1 || p.panicEnd {
				pl.hasNext = &t
			} else {
				pl.hasNext = &f
			}
		}
		p.payloads = append(p.payloads, pl)
	}
	return p
}

// corpusPayload: explicit contents of one payload of a directed case (corpus/C12/content-*.json, "payloads")
type corpusPayload struct {
	Data       json.RawMessage `json:"data"`
	Errors     []string        `json:"errors"`
	ErrorExt   map[string]any  `json:"error_extensions"`
	Extensions map[string]any  `json:"extensions"`
	Label      string          `json:"label"`
	Path       []any           `json:"path"`
	// Repeat > 0: every "@LONG@" in the strings above stands for Unit repeated Repeat times
	Repeat int    `json:"repeat"`
	Unit   string `json:"unit"`
}

func (c corpusPayload) toPayload() payload {
	exp := func(s string) string {
		if c.Repeat > 0 {
			return strings.ReplaceAll(s, "@LONG@", strings.Repeat(c.Unit, c.Repeat))
		}
		return s
	}
	var expAny func(v any) any
	expAny = func(v any) any {
		switch x := v.(type) {
		case string:
			return exp(x)
		case []any:
			for i := range x {
				x[i] = expAny(x[i])
			}
		case map[string]any:
			m := map[string]any{}
			for k, e := range x {
				m[exp(k)] = expAny(e)
			}
			return m
		}
		return v
	}
	pl := payload{data: c.Data, label: exp(c.Label)}
	if len(pl.data) == 0 {
		pl.data = json.RawMessage("null")
	} else if c.Repeat > 0 {
		var v any
		if json.Unmarshal(pl.data, &v) == nil {
			pl.data = mustJSON(expAny(v))
		}
	}
	for _, e := range c.Errors {
		pl.errs = append(pl.errs, exp(e))
	}
	if c.ErrorExt != nil {
		pl.errExt = expAny(c.ErrorExt).(map[string]any)
	}
	if c.Extensions != nil {
		pl.ext = expAny(c.Extensions).(map[string]any)
	}
	for _, e := range c.Path {
		switch x := e.(type) {
		case string:
			pl.path = append(pl.path, ast.PathName(exp(x)))
		case float64:
			pl.path = append(pl.path, ast.PathIndex(int(x)))
		}
	}
	return pl
}
