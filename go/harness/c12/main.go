// Harness for C12: runs gqlgen's real SSE and multipart/mixed transports behind a real
// httptest.Server (real TCP connections) with a hand-built ExecutableSchema that produces a planned
// sequence of payloads with planned delays, keep-alive / flush intervals down to microseconds and
// client disconnect points. The raw response bytes are parsed by INDEPENDENT Go parsers (a
// bufio-based SSE reader, mime/multipart) and judged by a Go-side oracle; bin/check feeds the same
// payloads and the observed ping / batch positions to the Lean model and compares byte streams,
// and runs the Lean parsers (the Spec) on the implementation's own bytes.
//
// One TSV line per case on stdout:
//
//	sse <id> <ka_us> <disc> <status> <ctype> <payloads> <raw> <items> <verdict> <handler> <desc> <fin> <cancel>
//	mp  <id> <boundary> <timeout_us> <disc> <status> <ctype> <payloads> <raw> <items> <batches> <verdict> <handler> <shape> <desc> <fin> <cancel>
//	ns  <id> <transport> <status> <ctype> <raw> <verdict> <desc>
//
// payloads: comma separated hex of json.Marshal(resp) as the transport receives it (":1"/":0" =
// hasNext appended for mp). An operation may END BY A PANIC raised while a response is being built
// (plan.panicEnd; what a custom scalar's MarshalGQL panicking does): <fin> is then the error response
// transport.nextResponse must build from what the server's RecoverFunc returns (computed here from the
// RecoverFunc's return value, not taken from the transport) and it is also the last entry of
// <payloads>, i.e. <payloads> is always what has to be DELIVERED; <fin> is "-" when no panic was raised.
// <cancel>: the request context was cancelled ON THE SERVER SIDE while the client kept reading
// (plan.cancelAt / plan.cancelUS): "-" never; "<k>:<after>:<seen>" = cancelled just before response k was
// built (k = number of payloads: before the nil that ends the operation), "t<us>:<after>:<seen>" = by a deadline
// <us> microseconds after the request arrived; <after> = what the operation does once it sees the cancelled
// context (0 goes on, 1 returns nil, 2 one last error payload then nil); <seen> = number of responses that had
// been produced when the context was cancelled (-1: it never was).
// Payload CONTENTS (strings in data, error messages, extensions, labels, paths, panic texts) are drawn from the
// content classes of content.go ('%' and printf verbs, CR/LF, SSE fields, this exchange's multipart delimiters,
// quotes, non-ASCII, HTML, controls, long values); cases "content:<class>@<place>" put every class at every
// member of a response on both transports.
// -judge: no cases are generated; JSON lines on stdin (exchanges of a GENERATED server driven by
// go/universal/httprun.go with `record`) are judged by the same oracles and printed in the same format.
// With -race -par 1 every case is announced on stderr ("BEGIN <id>") so a
// race report can be attributed to the case that was running.
package main

import (
	"bufio"
	"bytes"
	"context"
	"encoding/hex"
	"encoding/json"
	"errors"
	"flag"
	"fmt"
	"io"
	"log"
	"mime"
	"mime/multipart"
	"net/http"
	"net/http/httptest"
	"os"
	"os/exec"
	"path/filepath"
	"regexp"
	"runtime"
	"sort"
	"strings"
	"sync"
	"sync/atomic"
	"time"

	"github.com/vektah/gqlparser/v2"
	"github.com/vektah/gqlparser/v2/ast"
	"github.com/vektah/gqlparser/v2/gqlerror"

	"github.com/99designs/gqlgen/graphql"
	"github.com/99designs/gqlgen/graphql/handler"
	"github.com/99designs/gqlgen/graphql/handler/transport"
	"verifharness/internal/rng"
)

func hx(b []byte) string {
	if len(b) == 0 {
		return "-"
	}
	return hex.EncodeToString(b)
}

var schema = gqlparser.MustLoadSchema(&ast.Source{Input: `
type Query { x: Int }
type Subscription { s: Int }
`})

// ---------------------------------------------------------------- plan

type payload struct {
	data    json.RawMessage
	errs    []string
	label   string
	path    ast.Path
	hasNext *bool
	ext     map[string]any
	errExt  map[string]any // extensions of every error of this payload
	delayUS int            // delay before this payload is produced
}

type plan struct {
	id        int
	kind      string // sse | mp | ns
	desc      string
	payloads  []payload
	tailUS    int // delay between the last payload and the nil that ends the operation
	kaUS      int // sse keep-alive interval (0 = off)
	boundary  string
	timeoutUS int // multipart DeliveryTimeout
	disc      int // client closes after reading this many body bytes (-1: reads to EOF)
	obeyCtx   bool
	body      string // request body
	transport string // for ns
	shape     bool   // mp: hasNext sequence is true...true,false

	// the operation ends by a panic raised while the response after the last payload is being built
	panicEnd    bool
	panicVal    int    // what is thrown: 0 string, 1 error, 2 runtime error, 3 *gqlerror.Error, 4 struct
	recoverKind int    // the server's RecoverFunc: 0 graphql.DefaultRecover, 1 *gqlerror.Error (message, path, extensions), 2 plain error, 3 nil, 4 wrapped *gqlerror.Error
	panicMsg    string // text carried by the panic value / the recovered error

	// the request context is cancelled on the server side (a deadline middleware, shutdown) while the client
	// stays connected and reads to EOF
	cancelAt    int // -1 never; k: just before response k is built (k = len(payloads): before the nil / the panic that ends the operation)
	cancelUS    int // > 0: by a deadline this many microseconds after the request arrived (any point of the stream)
	afterCancel int // the operation, once it sees the cancelled context: 0 goes on as planned, 1 returns nil, 2 returns one last error payload, then nil
}

func (p *plan) cancels() bool { return p.cancelAt >= 0 || p.cancelUS > 0 }

type fakeES struct {
	p          *plan
	raised     atomic.Bool  // the planned panic was thrown
	askedAfter atomic.Int32 // calls of the response handler after it had panicked
	mu         sync.Mutex
	expErr     *gqlerror.Error // what nextResponse has to put into the error response

	cancel     func()       // cancels the request context (set by the middleware of runCase)
	cancelled  atomic.Bool  // the planned cancellation happened
	seenAtCancel atomic.Int32 // responses produced before it
	produced   atomic.Int32
	bye        bool
}

// cancelNow: the server-side cancellation of the request context
func (e *fakeES) cancelNow() {
	if e.cancel != nil && e.cancelled.CompareAndSwap(false, true) {
		e.seenAtCancel.Store(e.produced.Load())
		e.cancel()
	}
}

type oddPanic struct {
	A string
	B int
}

func (e *fakeES) throw() {
	p := e.p
	e.raised.Store(true)
	switch p.panicVal {
	case 1:
		panic(errors.New("marshal: " + p.panicMsg))
	case 2:
		var m map[string]int
		m[p.panicMsg] = 1 // runtime error: assignment to entry in nil map
	case 3:
		panic(&gqlerror.Error{Message: p.panicMsg, Path: ast.Path{ast.PathName("x"), ast.PathIndex(3)}})
	case 4:
		panic(oddPanic{p.panicMsg, 7})
	}
	panic("boom " + p.panicMsg)
}

// recoverFunc: the server's RecoverFunc for this plan; records the error the transport has to deliver
func (e *fakeES) recoverFunc() graphql.RecoverFunc {
	p := e.p
	set := func(g *gqlerror.Error) {
		e.mu.Lock()
		e.expErr = g
		e.mu.Unlock()
	}
	switch p.recoverKind {
	case 1:
		return func(ctx context.Context, v any) error {
			g := &gqlerror.Error{Message: fmt.Sprint(v) + p.panicMsg, Path: ast.Path{ast.PathName(p.panicMsg), ast.PathIndex(1)},
				Extensions: map[string]any{"code": p.panicMsg, "n": 1}}
			set(g)
			return g
		}
	case 2:
		return func(ctx context.Context, v any) error {
			err := fmt.Errorf("recovered %v%s", v, p.panicMsg)
			set(&gqlerror.Error{Message: err.Error()})
			return err
		}
	case 3:
		return func(ctx context.Context, v any) error {
			set(&gqlerror.Error{})
			return nil
		}
	case 4:
		return func(ctx context.Context, v any) error {
			g := &gqlerror.Error{Message: p.panicMsg + fmt.Sprint(v)}
			set(g)
			return fmt.Errorf("wrapped: %w", g)
		}
	}
	return nil
}

func (e *fakeES) Schema() *ast.Schema { return schema }
func (e *fakeES) Complexity(ctx context.Context, typeName, fieldName string, childComplexity int, args map[string]any) (int, bool) {
	return 0, false
}

func pause(us int) {
	if us <= 0 {
		return
	}
	if us < 60 {
		t0 := time.Now()
		for time.Since(t0) < time.Duration(us)*time.Microsecond {
			runtime.Gosched()
		}
		return
	}
	time.Sleep(time.Duration(us) * time.Microsecond)
}

func (e *fakeES) Exec(ctx context.Context) graphql.ResponseHandler {
	i := 0
	return func(ctx context.Context) *graphql.Response {
		if e.raised.Load() {
			e.askedAfter.Add(1) // the transport must stop asking once nextResponse reported the panic
			return nil
		}
		if e.p.cancelAt == i {
			e.cancelNow()
		}
		if e.p.afterCancel != 0 && e.p.cancels() && ctx.Err() != nil {
			// the operation winds down because its context ended; the client is still there
			if e.p.afterCancel == 2 && !e.bye {
				e.bye = true
				r := &graphql.Response{Errors: gqlerror.List{{Message: "operation expired: " + ctx.Err().Error()}}}
				if e.p.kind == "mp" {
					f := false
					r.HasNext = &f
				}
				e.produced.Add(1)
				return r
			}
			return nil
		}
		if i >= len(e.p.payloads) {
			pause(e.p.tailUS)
			if e.p.panicEnd {
				e.throw()
			}
			return nil
		}
		if e.p.obeyCtx && ctx.Err() != nil {
			return nil
		}
		p := e.p.payloads[i]
		i++
		pause(p.delayUS)
		for k, v := range p.ext {
			graphql.RegisterExtension(ctx, k, v)
		}
		r := &graphql.Response{Data: p.data, Label: p.label, Path: p.path, HasNext: p.hasNext}
		for _, m := range p.errs {
			r.Errors = append(r.Errors, &gqlerror.Error{Message: m, Extensions: p.errExt})
		}
		e.produced.Add(1)
		return r
	}
}

// ---------------------------------------------------------------- generators

var nasty = []string{
	"\n\ndata: x", "event: complete\n\n", ": ping\n\n", "\r\n--graphql--\r\n", "\r\n--graphql\r\n", "\r\n-----\r\n",
	"\r", "\n", "\r\n", "a\nb", " ", " ", "<script>&", "\x00\x1f", "\xff\xfe", "data:", "--", "-----",
	"Content-Type: application/json\r\n\r\n", "\"", "\\", "\\n", "{}", "],\"hasNext\":false}", "é✓𝄞",
}

func genString(r *rng.R) string {
	switch r.Below(6) {
	case 4, 5:
		// the content classes of content.go ('%' and printf verbs, this exchange's multipart delimiters, SSE fields,
		// quotes, non-ASCII, HTML, controls)
		return genContentAny(r)
	case 0:
		return nasty[r.Below(len(nasty))]
	case 1:
		return nasty[r.Below(len(nasty))] + nasty[r.Below(len(nasty))]
	case 2:
		n := r.Below(12)
		b := make([]byte, n)
		for i := range b {
			const alpha = "abcXYZ019 :-\n\r{}[],\"%%sd\\<"
			b[i] = alpha[r.Below(len(alpha))]
		}
		return string(b)
	}
	return "s"
}

func genValue(r *rng.R, depth int) any {
	k := r.Below(7)
	if depth <= 0 && k >= 5 {
		k = r.Below(5)
	}
	switch k {
	case 0:
		return nil
	case 1:
		return r.Below(2) == 0
	case 2:
		return int64(r.Next()>>uint(r.Below(64))) - int64(r.Below(3))
	case 3:
		return genString(r)
	case 4:
		return float64(r.Below(1000)) / 8
	case 5:
		n := r.Below(4)
		a := make([]any, n)
		for i := range a {
			a[i] = genValue(r, depth-1)
		}
		return a
	}
	n := r.Below(4)
	m := map[string]any{}
	for i := 0; i < n; i++ {
		m[genString(r)] = genValue(r, depth-1)
	}
	return m
}

// genData: a valid JSON text; sometimes pretty-printed (raw newlines / CRLF between tokens), which
// json.Marshal must compact away before it reaches the stream.
func genData(r *rng.R) json.RawMessage {
	v := map[string]any{"x": genValue(r, 2)}
	switch r.Below(6) {
	case 0:
		b, _ := json.MarshalIndent(v, "", "  ")
		return b
	case 1:
		b, _ := json.MarshalIndent(v, "\r", "\r\n")
		return bytes.ReplaceAll(b, []byte("\n"), []byte("\r\n"))
	case 2:
		return json.RawMessage("null")
	}
	b, _ := json.Marshal(v)
	return b
}

func genDelay(r *rng.R, class int) int {
	switch class {
	case 0:
		return 0
	case 1:
		return r.Below(30)
	case 2:
		return r.Below(300)
	case 3:
		return 200 + r.Below(2500)
	}
	// mixed
	return genDelay(r, r.Below(4))
}

func genPayload(r *rng.R, dclass int, incremental bool) payload {
	p := payload{data: genData(r), delayUS: genDelay(r, dclass)}
	if r.Below(4) == 0 {
		n := 1 + r.Below(2)
		for i := 0; i < n; i++ {
			p.errs = append(p.errs, genString(r))
		}
		if r.Below(3) == 0 {
			p.errExt = map[string]any{"code": genString(r), genString(r): genValue(r, 1)}
		}
	}
	if r.Below(5) == 0 {
		p.ext = map[string]any{genString(r): genValue(r, 1)}
	}
	if incremental {
		if r.Below(3) != 0 {
			p.label = genString(r)
		}
		n := r.Below(4)
		for i := 0; i < n; i++ {
			if r.Below(2) == 0 {
				p.path = append(p.path, ast.PathName(genString(r)))
			} else {
				p.path = append(p.path, ast.PathIndex(r.Below(100)))
			}
		}
	}
	return p
}

func genCount(r *rng.R) int {
	switch r.Below(6) {
	case 0:
		return r.Below(3)
	case 1:
		return 50
	case 2:
		return 20 + r.Below(31)
	}
	return 1 + r.Below(12)
}

var kaChoices = []int{0, 1, 1, 2, 5, 20, 50, 200, 1000, 5000}

func genSSE(r *rng.R, id int, directed int) *plan {
	p := &plan{id: id, kind: "sse", disc: -1, cancelAt: -1, body: `{"query":"{ x }"}`}
	curBoundary = ""
	n := genCount(r)
	dclass := r.Below(5)
	p.kaUS = kaChoices[r.Below(len(kaChoices))]
	p.desc = "random"
	switch directed {
	case 1: // ping storm against many back-to-back events
		n, dclass, p.kaUS, p.desc = 50, 0, 1, "pingstorm-burst"
	case 2: // ping storm against slow events
		n, dclass, p.kaUS, p.desc = 6, 3, 1, "pingstorm-slow"
	case 3: // no payloads at all, ping storm around complete
		n, p.kaUS, p.tailUS, p.desc = 0, 1, 800, "empty-pingstorm"
	case 4: // handler returns while the ping goroutine is busy
		n, dclass, p.kaUS, p.tailUS, p.desc = 1, 1, 1, 300, "return-under-ping"
	case 5: // interval about as long as the gap between events
		n, dclass, p.kaUS, p.desc = 30, 2, 100, "interval-near-gap"
	case 6: // keep-alive disabled
		n, p.kaUS, p.desc = 10, 0, "no-keepalive"
	case 7: // validation error: opErr path (one error event then complete)
		n, p.body, p.desc = 0, `{"query":"{ nope }"}`, "operr"
	case 8: // subscription operation
		p.body, p.desc = `{"query":"subscription { s }"}`, "subscription"
	// a panic while a response is being built (nextResponse turns it into an error event):
	case 9: // ... the very first response, ping storm around the error event and complete
		n, p.kaUS, p.tailUS, p.panicEnd, p.desc = 0, 1, 400, true, "panic-initial"
	case 10: // ... after one good payload
		n, dclass, p.panicEnd, p.desc = 1, 1, true, "panic-after-1"
	case 11: // ... after many back-to-back events under a ping storm
		n, dclass, p.kaUS, p.panicEnd, p.desc = 30, 0, 1, true, "panic-after-burst"
	case 12: // ... after slow events, subscription
		n, dclass, p.kaUS, p.panicEnd, p.body, p.desc = 4, 3, 100, true, `{"query":"subscription { s }"}`, "panic-after-slow"
	// the request context is cancelled on the server side, the client keeps reading: everything the operation
	// still produces must arrive, and the stream must end with `complete`:
	case 13: // ... before the first response is built, the operation does not care
		n, dclass, p.kaUS, p.cancelAt, p.afterCancel, p.desc = 3, 1, 100, 0, 0, "cancel-before-first-goes-on"
	case 14: // ... between two payloads, the operation then ends
		n, dclass, p.kaUS, p.cancelAt, p.afterCancel, p.desc = 5, 1, 100, 2, 1, "cancel-mid-ends"
	case 15: // ... between two payloads, the operation says why it ends (one last payload), ping storm
		n, dclass, p.kaUS, p.cancelAt, p.afterCancel, p.desc = 4, 2, 1, 2, 2, "cancel-mid-bye-pingstorm"
	case 16: // ... after the last payload, before the nil
		n, dclass, p.kaUS, p.tailUS, p.cancelAt, p.afterCancel, p.desc = 3, 1, 50, 500, 3, 1, "cancel-after-last"
	case 17: // ... by a deadline while slow events are on their way
		n, dclass, p.kaUS, p.cancelUS, p.afterCancel, p.desc = 6, 3, 200, 700, 2, "deadline-slow-bye"
	case 18: // ... before the first response, the operation ends at once: header, then complete
		n, p.kaUS, p.cancelAt, p.afterCancel, p.desc = 2, 20, 0, 1, "cancel-before-first-ends"
	case 19: // ... a subscription bounded by a deadline middleware
		n, dclass, p.kaUS, p.cancelAt, p.afterCancel, p.body, p.desc = 4, 2, 100, 2, 2, `{"query":"subscription { s }"}`, "cancel-subscription-bye"
	}
	if directed == 0 && r.Below(5) == 0 {
		p.panicEnd, p.desc = true, "panic"
		if r.Below(4) == 0 {
			n = 0
		} else {
			n = r.Below(n + 1)
		}
	}
	if p.panicEnd {
		genPanic(r, p, directed)
	}
	for i := 0; i < n; i++ {
		p.payloads = append(p.payloads, genPayload(r, dclass, false))
	}
	if p.tailUS == 0 && r.Below(3) == 0 {
		p.tailUS = genDelay(r, 4)
	}
	if directed == 0 && r.Below(5) == 0 {
		p.disc = r.Below(40 + 60*n)
		p.obeyCtx = r.Bool()
		if p.panicEnd {
			p.desc = "panic-disconnect"
		} else {
			p.desc = "disconnect"
		}
	} else if directed == 0 && r.Below(4) == 0 {
		genCancel(r, p, n)
	}
	return p
}

// genCancel: where the server-side cancellation of the request context strikes and what the operation does then
func genCancel(r *rng.R, p *plan, n int) {
	if r.Below(3) == 0 {
		p.cancelUS = 1 + r.Below(3000)
	} else {
		p.cancelAt = r.Below(n + 1)
	}
	p.afterCancel = r.Below(3)
	if p.panicEnd {
		p.afterCancel = 0
		p.desc = "panic-cancel"
	} else {
		p.desc = "cancel"
	}
}

// genPanic: what is thrown and what the server's RecoverFunc makes of it
func genPanic(r *rng.R, p *plan, directed int) {
	p.panicVal = r.Below(5)
	p.recoverKind = 1 + r.Below(4)
	if directed != 0 && directed%4 == 1 {
		p.recoverKind = 0 // graphql.DefaultRecover ("internal system error")
	}
	p.panicMsg = genString(r)
}

var boundaries = []string{"", "", "graphql", "-", "--", "x--y", "B--", "a'b(c)+_,-./:=?", "gq l", "0123456789012345678901234567890123456789012345678901234567890123456789"}
var timeouts = []int{0, 1, 500, 1000, 1000, 2000, 3000}

func genMP(r *rng.R, id int, directed int) *plan {
	p := &plan{id: id, kind: "mp", disc: -1, cancelAt: -1, body: `{"query":"{ x }"}`, shape: true}
	n := genCount(r)
	if n == 0 {
		n = 1
	}
	dclass := r.Below(5)
	p.boundary = boundaries[r.Below(len(boundaries))]
	curBoundary = p.boundary
	p.timeoutUS = timeouts[r.Below(len(timeouts))]
	p.desc = "random"
	noshape := 0
	switch directed {
	case 1: // everything arrives within one tick
		n, dclass, p.desc = 30, 0, "one-batch"
	case 2: // a tick between every two payloads
		n, dclass, p.timeoutUS, p.desc = 8, 3, 1000, "tick-per-payload"
	case 3: // initial only
		n, p.desc = 1, "initial-only"
	case 4: // gaps near the tick period
		n, dclass, p.timeoutUS, p.desc = 40, 2, 1000, "gap-near-tick"
	case 5: // last payload right at Done
		n, dclass, p.tailUS, p.desc = 5, 2, 0, "done-race"
	case 6: // malformed stream: subscription-like (every payload hasNext absent)
		n, noshape, p.desc = 3, 1, "noshape-all-absent"
	case 7: // malformed stream: hasNext=false in the middle
		n, noshape, p.desc = 6, 2, "noshape-false-middle"
	case 8: // malformed stream: hasNext=true at the end
		n, noshape, p.desc = 4, 3, "noshape-true-last"
	case 9: // malformed stream: no payload at all
		n, noshape, p.desc = 0, 4, "noshape-empty"
	// a panic while a response is being built; every payload before it said hasNext:true, the error
	// response nextResponse builds carries no hasNext and must close the stream:
	case 10: // ... the initial response
		n, p.panicEnd, p.desc = 0, true, "panic-initial"
	case 11: // ... the first deferred payload, in the same flush as the initial one
		n, dclass, p.timeoutUS, p.panicEnd, p.desc = 1, 0, 3000, true, "panic-after-1-same-flush"
	case 12: // ... the first deferred payload, a tick after the initial one
		n, dclass, p.timeoutUS, p.tailUS, p.panicEnd, p.desc = 1, 0, 500, 2500, true, "panic-after-1-next-flush"
	case 13: // ... after many payloads that arrive within one tick
		n, dclass, p.panicEnd, p.desc = 20, 0, true, "panic-after-one-batch"
	case 14: // ... a tick between every two payloads
		n, dclass, p.timeoutUS, p.panicEnd, p.desc = 6, 3, 1000, true, "panic-tick-per-payload"
	case 15: // ... right at Done
		n, dclass, p.tailUS, p.panicEnd, p.desc = 3, 2, 0, true, "panic-done-race"
	// the request context is cancelled on the server side, the client keeps reading:
	case 16: // ... before the initial response is built, the operation does not care; one batch
		n, dclass, p.timeoutUS, p.cancelAt, p.afterCancel, p.desc = 4, 0, 3000, 0, 0, "cancel-before-first-goes-on"
	case 17: // ... between two payloads, one last payload (hasNext:false) says why; a tick between payloads
		n, dclass, p.timeoutUS, p.cancelAt, p.afterCancel, p.desc = 6, 3, 1000, 2, 2, "cancel-mid-bye-ticks"
	case 18: // ... the same within one flush
		n, dclass, p.timeoutUS, p.cancelAt, p.afterCancel, p.desc = 3, 0, 3000, 1, 2, "cancel-mid-bye-same-flush"
	case 19: // ... after the last payload
		n, dclass, p.cancelAt, p.afterCancel, p.desc = 3, 1, 3, 1, "cancel-after-last"
	case 20: // ... by a deadline while slow payloads are on their way
		n, dclass, p.timeoutUS, p.cancelUS, p.afterCancel, p.desc = 6, 3, 1000, 1500, 2, "deadline-slow-bye"
	case 21: // ... before the initial response: the only part is the operation's last word
		n, p.cancelAt, p.afterCancel, p.desc = 3, 0, 2, "cancel-before-first-bye"
	case 22: // ... the operation just stops (its last payload said hasNext:true: outside the shape, compared only)
		n, dclass, p.cancelAt, p.afterCancel, p.desc = 5, 1, 2, 1, "cancel-mid-ends-noshape"
	}
	if directed == 0 && r.Below(5) == 0 {
		p.panicEnd, p.desc = true, "panic"
		if r.Below(4) == 0 {
			n = 0
		} else {
			n = r.Below(n + 1)
		}
	}
	if p.panicEnd {
		genPanic(r, p, directed)
	}
	t, f := true, false
	for i := 0; i < n; i++ {
		pl := genPayload(r, dclass, i > 0)
		if i < n-1 {
			pl.hasNext = &t
		} else if r.Bool() || n > 1 {
			pl.hasNext = &f
		}
		switch noshape {
		case 1:
			pl.hasNext = nil
		case 2:
			if i == n/2 {
				pl.hasNext = &f
			}
		case 3:
			pl.hasNext = &t
		}
		if p.panicEnd {
			pl.hasNext = &t
		}
		p.payloads = append(p.payloads, pl)
	}
	p.shape = noshape == 0
	if p.tailUS == 0 && directed != 5 && directed != 15 && r.Below(3) == 0 {
		p.tailUS = genDelay(r, 4)
	}
	if directed == 0 && r.Below(6) == 0 {
		p.disc = r.Below(60 + 80*n)
		p.obeyCtx = r.Bool()
		if p.panicEnd {
			p.desc = "panic-disconnect"
		} else {
			p.desc = "disconnect"
		}
	} else if directed == 0 && r.Below(4) == 0 {
		genCancel(r, p, n)
	}
	return p
}

func genNS(r *rng.R, id int) *plan {
	bodies := []string{`{"query":`, `null`, `[]`, `{"query":"{ x }","variables":3}`, ``, `{"query":"{ nope }"}`, `{"query":"{"}`}
	p := &plan{id: id, kind: "ns", disc: -1, cancelAt: -1}
	p.body = bodies[r.Below(len(bodies))]
	if r.Bool() {
		p.transport = "sse"
		if strings.Contains(p.body, "nope") || strings.HasSuffix(p.body, `"{"}`) {
			p.body = `null`
		}
	} else {
		p.transport = "mp"
	}
	p.kaUS = 1
	p.desc = "malformed-request"
	return p
}

// ---------------------------------------------------------------- independent parsers / oracles

// parseSSE: bufio line reader; LF is the only line terminator accepted (a CR anywhere is junk).
// Items: C<hex text> comment outside an event; E<type>/<data> event (~ = field absent);
// J<hex line> junk (unknown field, duplicate event field, comment inside an event, CR);
// trailing R = incomplete tail (unterminated line or event without its blank line).
func parseSSE(raw []byte) []string {
	var items []string
	br := bufio.NewReader(bytes.NewReader(raw))
	var typ, data []byte
	hasTyp, hasData, open := false, false, false
	opt := func(b []byte, has bool) string {
		if !has {
			return "~"
		}
		return hx(b)
	}
	for {
		line, err := br.ReadBytes('\n')
		if err != nil {
			if len(line) > 0 || open {
				items = append(items, "R")
			}
			return items
		}
		line = line[:len(line)-1]
		switch {
		case bytes.IndexByte(line, '\r') >= 0:
			items = append(items, "J"+hx(line))
		case len(line) == 0:
			if open {
				items = append(items, "E"+opt(typ, hasTyp)+"/"+opt(data, hasData))
				typ, data, hasTyp, hasData, open = nil, nil, false, false, false
			}
		case line[0] == ':':
			if open {
				items = append(items, "J"+hx(line))
			} else {
				items = append(items, "C"+hx(line[1:]))
			}
		default:
			name, val := line, []byte(nil)
			if i := bytes.IndexByte(line, ':'); i >= 0 {
				name, val = line[:i], line[i+1:]
				if len(val) > 0 && val[0] == ' ' {
					val = val[1:]
				}
			}
			switch string(name) {
			case "event":
				if hasTyp {
					items = append(items, "J"+hx(line))
				} else {
					typ, hasTyp, open = append([]byte(nil), val...), true, true
				}
			case "data":
				if hasData {
					data = append(append(data, '\n'), val...)
				} else {
					data, hasData, open = append([]byte(nil), val...), true, true
				}
			default:
				items = append(items, "J"+hx(line))
			}
		}
	}
}

const ping = "C" + "2070696e67" // " ping"

func sseVerdict(items []string, payloads [][]byte, prefix bool, ka bool) string {
	var want []string
	want = append(want, "C-")
	for _, p := range payloads {
		want = append(want, "E"+hx([]byte("next"))+"/"+hx(p))
	}
	want = append(want, "E"+hx([]byte("complete"))+"/~")
	k := 0
	for i, it := range items {
		if it == "R" && i == len(items)-1 {
			if !prefix {
				return "incomplete-tail"
			}
			continue
		}
		if it[0] == 'J' {
			return "junk"
		}
		if it == ping && k > 0 {
			if !ka {
				return "ping-without-keepalive"
			}
			if k == len(want) {
				return "ping-after-complete"
			}
			continue
		}
		if k >= len(want) {
			return "extra-item"
		}
		if it != want[k] {
			if it[0] == 'E' && k > 0 && k < len(want)-1 {
				return "payload-mismatch"
			}
			return "unexpected-item"
		}
		k++
	}
	if !prefix && k != len(want) {
		return "missing-items"
	}
	return "ok"
}

type hn struct {
	body    []byte
	hasNext bool
}

func wrapIncremental(batch []hn) []byte {
	var b bytes.Buffer
	b.WriteString(`{"incremental":[`)
	for i, p := range batch {
		if i > 0 {
			b.WriteByte(',')
		}
		b.Write(p.body)
	}
	b.WriteString(`],"hasNext":`)
	if batch[len(batch)-1].hasNext {
		b.WriteString("true}")
	} else {
		b.WriteString("false}")
	}
	return b.Bytes()
}

// mpOracle: mime/multipart reading of the raw body. Returns canonical items (P<hdr>/<body>, Z when
// the closing delimiter ended the stream), batch sizes (k0 = increments delivered in the same
// flush as the initial payload is not observable from the parts, so sizes are per part) and a verdict.
func mpOracle(raw []byte, ctype string, payloads []hn, prefix bool) (items []string, batches []int, verdict string) {
	verdict = "ok"
	fail := func(v string) {
		if verdict == "ok" {
			verdict = v
		}
	}
	mt, params, err := mime.ParseMediaType(ctype)
	if err != nil || mt != "multipart/mixed" {
		return nil, nil, "bad-content-type"
	}
	boundary := params["boundary"]
	mr := multipart.NewReader(bytes.NewReader(raw), boundary)
	rest := payloads
	idx := 0
	for {
		part, err := mr.NextRawPart()
		if err == io.EOF {
			items = append(items, "Z")
			break
		}
		if err != nil {
			if !prefix {
				fail("no-closing-boundary")
			}
			break
		}
		body, rerr := io.ReadAll(part)
		if rerr != nil {
			if !prefix {
				fail("truncated-part")
			}
			break
		}
		items = append(items, "P"+hx([]byte("Content-Type: "+part.Header.Get("Content-Type")))+"/"+hx(body))
		if part.Header.Get("Content-Type") != "application/json" || len(part.Header) != 1 {
			fail("part-header")
		}
		if !json.Valid(body) {
			fail("part-not-json")
		}
		if idx == 0 {
			if len(rest) == 0 || !bytes.Equal(body, rest[0].body) {
				fail("initial-mismatch")
			} else {
				rest = rest[1:]
			}
			batches = append(batches, 1)
		} else {
			var w struct {
				Incremental []json.RawMessage `json:"incremental"`
				HasNext     *bool             `json:"hasNext"`
			}
			if err := json.Unmarshal(body, &w); err != nil || w.HasNext == nil || len(w.Incremental) == 0 {
				fail("incremental-shape")
			} else if len(w.Incremental) > len(rest) {
				fail("incremental-extra")
			} else {
				k := len(w.Incremental)
				for i := 0; i < k; i++ {
					if !bytes.Equal(w.Incremental[i], rest[i].body) {
						fail("incremental-mismatch")
					}
				}
				if !bytes.Equal(body, wrapIncremental(rest[:k])) {
					fail("incremental-bytes")
				}
				rest = rest[k:]
				batches = append(batches, k)
			}
		}
		idx++
	}
	if !prefix {
		if len(rest) != 0 {
			fail("payload-missing")
		}
		b := boundary
		closing := []byte("\r\n--" + b + "--\r\n")
		if !bytes.HasSuffix(raw, closing) {
			fail("closing-not-last")
		}
		n := 0
		for _, l := range bytes.Split(raw, []byte("\r\n")) {
			if string(l) == "--"+b+"--" {
				n++
			}
		}
		if n != 1 {
			fail(fmt.Sprintf("closing-count-%d", n))
		}
	}
	return items, batches, verdict
}

// ---------------------------------------------------------------- running a case

type result struct {
	seen     int // responses produced when the request context was cancelled on the server side (-1: it never was)
	status   int
	ctype    string
	raw      []byte
	payloads []hn
	handler  string
	fin      []byte // error response of the planned panic (nil: no panic was raised)
}

func runCase(p *plan) result {
	es := &fakeES{p: p}
	srv := handler.New(es)
	switch {
	case p.kind == "sse" || p.transport == "sse":
		srv.AddTransport(transport.SSE{KeepAlivePingInterval: time.Duration(p.kaUS) * time.Microsecond})
	default:
		srv.AddTransport(transport.MultipartMixed{Boundary: p.boundary, DeliveryTimeout: time.Duration(p.timeoutUS) * time.Microsecond})
	}
	if p.panicEnd {
		// recoverKind 0: the server keeps graphql.DefaultRecover (prints the value and a stack on stderr,
		// answers "internal system error")
		if f := es.recoverFunc(); f != nil {
			srv.SetRecoverFunc(f)
		}
	}
	var mu sync.Mutex
	var rec []hn
	srv.AroundResponses(func(ctx context.Context, next graphql.ResponseHandler) *graphql.Response {
		r := next(ctx)
		if r != nil {
			b, err := json.Marshal(r)
			if err != nil {
				b = []byte("MARSHAL-ERROR")
			}
			mu.Lock()
			rec = append(rec, hn{b, r.HasNext != nil && *r.HasNext})
			mu.Unlock()
		}
		return r
	})
	state := "ok"
	done := make(chan struct{})
	h := http.HandlerFunc(func(w http.ResponseWriter, r *http.Request) {
		defer close(done)
		defer func() {
			if e := recover(); e != nil {
				mu.Lock()
				state = fmt.Sprintf("panic:%v", e)
				mu.Unlock()
			}
		}()
		if p.cancels() {
			// a middleware that bounds the life of the request: its context ends, the connection does not
			ctx, cancel := context.WithCancel(r.Context())
			defer cancel()
			es.cancel = cancel
			if p.cancelUS > 0 {
				t := time.AfterFunc(time.Duration(p.cancelUS)*time.Microsecond, es.cancelNow)
				defer t.Stop()
			}
			r = r.WithContext(ctx)
		}
		srv.ServeHTTP(w, r)
	})
	ts := httptest.NewUnstartedServer(h)
	ts.Config.ErrorLog = log.New(io.Discard, "", 0)
	ts.Start()
	accept := "text/event-stream"
	if p.kind == "mp" || p.transport == "mp" {
		accept = "multipart/mixed"
	}
	req, _ := http.NewRequest("POST", ts.URL, strings.NewReader(p.body))
	req.Header.Set("Accept", accept)
	req.Header.Set("Content-Type", "application/json")
	tr := &http.Transport{DisableKeepAlives: true, DisableCompression: true}
	cl := &http.Client{Transport: tr, Timeout: 20 * time.Second}
	var res result
	resp, err := cl.Do(req)
	if err != nil {
		res.handler = "client-error:" + err.Error()
	} else {
		res.status = resp.StatusCode
		res.ctype = resp.Header.Get("Content-Type")
		if p.disc >= 0 {
			buf := make([]byte, p.disc)
			n, _ := io.ReadFull(resp.Body, buf)
			res.raw = buf[:n]
		} else {
			res.raw, err = io.ReadAll(resp.Body)
			if err != nil {
				res.handler = "read-error:" + err.Error()
			}
		}
		resp.Body.Close()
	}
	tr.CloseIdleConnections()
	select {
	case <-done:
	case <-time.After(10 * time.Second):
		mu.Lock()
		state = "handler-hang"
		mu.Unlock()
	}
	closed := make(chan struct{})
	go func() { ts.Close(); close(closed) }()
	select {
	case <-closed:
	case <-time.After(10 * time.Second):
		mu.Lock()
		if state == "ok" {
			state = "server-close-hang"
		}
		mu.Unlock()
	}
	res.seen = -1
	if es.cancelled.Load() {
		res.seen = int(es.seenAtCancel.Load())
	}
	mu.Lock()
	res.payloads = rec
	if res.handler == "" {
		res.handler = state
	}
	mu.Unlock()
	if es.raised.Load() {
		es.mu.Lock()
		g := es.expErr
		es.mu.Unlock()
		if g == nil {
			g = gqlerror.Errorf("internal system error") // graphql.DefaultRecover
		}
		b, err := json.Marshal(&graphql.Response{Errors: gqlerror.List{g}})
		if err != nil {
			b = []byte("MARSHAL-ERROR")
		}
		res.fin = b
		if n := es.askedAfter.Load(); n > 0 && res.handler == "ok" {
			res.handler = fmt.Sprintf("handler-asked-again-after-panic:%d", n)
		}
	}
	return res
}

func report(p *plan, res result) string {
	pl := make([]string, 0, len(res.payloads))
	bodies := make([][]byte, 0, len(res.payloads))
	fin := "-"
	if res.fin != nil {
		// what has to be delivered ends with the error response of the panic (it carries no hasNext)
		res.payloads = append(append([]hn(nil), res.payloads...), hn{res.fin, false})
		fin = hx(res.fin)
		if p.kind == "mp" {
			fin += ":0"
		}
	}
	for _, q := range res.payloads {
		s := hx(q.body)
		if p.kind == "mp" {
			if q.hasNext {
				s += ":1"
			} else {
				s += ":0"
			}
		}
		pl = append(pl, s)
		bodies = append(bodies, q.body)
	}
	pls := strings.Join(pl, ",")
	if pls == "" {
		pls = "-"
	}
	join := func(xs []string) string {
		if len(xs) == 0 {
			return "-"
		}
		return strings.Join(xs, ",")
	}
	ctype := res.ctype
	if ctype == "" {
		ctype = "-"
	}
	ctype = strings.ReplaceAll(ctype, "\t", " ")
	cancel := "-"
	if p.cancels() {
		if p.cancelUS > 0 {
			cancel = fmt.Sprintf("t%d:%d:%d", p.cancelUS, p.afterCancel, res.seen)
		} else {
			cancel = fmt.Sprintf("%d:%d:%d", p.cancelAt, p.afterCancel, res.seen)
		}
		if p.kind == "mp" {
			// what the operation produced decides whether the stream is inside the hasNext shape
			p.shape = len(res.payloads) > 0 && !res.payloads[len(res.payloads)-1].hasNext
			for _, q := range res.payloads[:max(len(res.payloads)-1, 0)] {
				p.shape = p.shape && q.hasNext
			}
		}
	}
	switch p.kind {
	case "sse":
		items := parseSSE(res.raw)
		v := sseVerdict(items, bodies, p.disc >= 0, p.kaUS > 0)
		if ctype != "text/event-stream" || res.status != 200 {
			v = "bad-head"
		}
		for _, b := range bodies {
			if !json.Valid(b) || bytes.ContainsAny(b, "\r\n") {
				v = "payload-not-one-line-json"
			}
		}
		return fmt.Sprintf("sse\t%d\t%d\t%d\t%d\t%s\t%s\t%s\t%s\t%s\t%s\t%s\t%s\t%s", p.id, p.kaUS, p.disc, res.status, ctype, pls, hx(res.raw), join(items), v, res.handler, p.desc, fin, cancel)
	case "mp":
		items, batches, v := mpOracle(res.raw, res.ctype, res.payloads, p.disc >= 0)
		if res.status != 200 {
			v = "bad-head"
		}
		bs := make([]string, len(batches))
		for i, b := range batches {
			bs[i] = fmt.Sprint(b)
		}
		shape := 0
		if p.shape {
			shape = 1
		}
		// the boundary a client uses is the one announced in the response header
		bnd := p.boundary
		if _, params, err := mime.ParseMediaType(res.ctype); err == nil && params["boundary"] != "" {
			bnd = params["boundary"]
		}
		return fmt.Sprintf("mp\t%d\t%s\t%d\t%d\t%d\t%s\t%s\t%s\t%s\t%s\t%s\t%s\t%d\t%s\t%s\t%s", p.id, hx([]byte(bnd)), p.timeoutUS, p.disc, res.status, ctype, pls, hx(res.raw), join(items), join(bs), v, res.handler, shape, p.desc, fin, cancel)
	}
	// ns: a request the transport answers without opening a stream: one JSON document
	v := "ok"
	if !json.Valid(res.raw) {
		v = "not-json"
	}
	if !strings.HasPrefix(res.ctype, "application/json") && !strings.HasPrefix(res.ctype, "application/graphql-response+json") {
		v = "bad-content-type"
	}
	return fmt.Sprintf("ns\t%d\t%s\t%d\t%s\t%s\t%s\t%s", p.id, p.transport, res.status, ctype, hx(res.raw), v, p.desc+" "+hx([]byte(p.body)))
}

// corpusPlan: a directed case kept in /verif/corpus/C12/*.json ("plan": {...}); payload contents come
// from the seeded generator, everything that makes the case what it is from the file
type corpusPlan struct {
	Kind       string `json:"kind"` // sse | mp
	N          int    `json:"n"`    // good payloads before the end
	DelayClass int    `json:"delay_class"`
	KaUS       int    `json:"ka_us"`
	TimeoutUS  int    `json:"timeout_us"`
	TailUS     int    `json:"tail_us"`
	Boundary   string `json:"boundary"`
	Panic      bool   `json:"panic"`
	PanicValue int    `json:"panic_value"`
	Recover    int    `json:"recover"`
	Msg        string `json:"msg"`
	Query      string `json:"query"`
	Desc       string `json:"desc"`
	// explicit contents of the good payloads (content-*.json); when present N is their number
	Payloads []corpusPayload `json:"payloads"`
	// server-side cancellation of the request context (client stays connected)
	CancelAt    *int `json:"cancel_at"`    // absent: never; k: just before response k is built
	CancelUS    int  `json:"cancel_us"`    // deadline, microseconds after the request arrived
	AfterCancel int  `json:"after_cancel"` // 0 the operation goes on, 1 returns nil, 2 one last error payload then nil
}

func loadCorpus(dir string, r *rng.R, add func(*plan), nextID func() int) {
	if dir == "" {
		return
	}
	files, _ := filepath.Glob(filepath.Join(dir, "*.json"))
	sort.Strings(files)
	for _, f := range files {
		b, err := os.ReadFile(f)
		if err != nil {
			continue
		}
		var doc struct {
			Plan *corpusPlan `json:"plan"`
		}
		if json.Unmarshal(b, &doc) != nil || doc.Plan == nil {
			continue
		}
		c := doc.Plan
		rr := r.Fork()
		p := &plan{id: nextID(), kind: c.Kind, disc: -1, body: `{"query":"{ x }"}`, shape: true, kaUS: c.KaUS, timeoutUS: c.TimeoutUS,
			tailUS: c.TailUS, boundary: c.Boundary, panicEnd: c.Panic, panicVal: c.PanicValue, recoverKind: c.Recover, panicMsg: c.Msg,
			desc: "corpus:" + strings.TrimSuffix(filepath.Base(f), ".json")}
		if c.Query != "" {
			p.body = `{"query":` + string(mustJSON(c.Query)) + `}`
		}
		if p.kind != "sse" && p.kind != "mp" {
			continue
		}
		p.cancelAt, p.cancelUS, p.afterCancel = -1, c.CancelUS, c.AfterCancel
		if c.CancelAt != nil {
			p.cancelAt = *c.CancelAt
		}
		t, fl := true, false
		curBoundary = ""
		if p.kind == "mp" {
			curBoundary = p.boundary
		}
		if len(c.Payloads) > 0 {
			c.N = len(c.Payloads)
		}
		for i := 0; i < c.N; i++ {
			pl := genPayload(rr, c.DelayClass, p.kind == "mp" && i > 0)
			if len(c.Payloads) > 0 {
				d := pl.delayUS
				pl = c.Payloads[i].toPayload()
				pl.delayUS = d
			}
			if p.kind == "mp" {
				if i < c.N-1 || c.Panic {
					pl.hasNext = &t
				} else {
					pl.hasNext = &fl
				}
			}
			p.payloads = append(p.payloads, pl)
		}
		add(p)
	}
}

func mustJSON(v any) []byte {
	b, _ := json.Marshal(v)
	return b
}

var corpusDir string

func buildPlans(tier string, seed uint64, nSSE, nMP int) []*plan {
	r := rng.New(seed ^ 0xC12C12)
	ns, nm, reps := 400, 400, 4
	if tier == "thorough" {
		ns, nm, reps = 2500, 2500, 25
	}
	if nSSE >= 0 {
		ns = nSSE
		reps = 1 + ns/80
	}
	if nMP >= 0 {
		nm = nMP
	}
	var plans []*plan
	id := 0
	add := func(p *plan) { plans = append(plans, p); id++ }
	for rep := 0; rep < reps; rep++ {
		for d := 1; d <= 19; d++ {
			add(genSSE(r.Fork(), id, d))
		}
		for d := 1; d <= 22; d++ {
			add(genMP(r.Fork(), id, d))
		}
		if rep%4 == 0 {
			// every content class at every place of a response, both transports (content.go)
			for _, kind := range []string{"sse", "mp"} {
				for _, class := range contentClasses {
					for _, place := range contentPlaces {
						add(genContentCase(r.Fork(), id, kind, class, place))
					}
				}
			}
		}
	}
	loadCorpus(corpusDir, r, add, func() int { return id })
	for i := 0; i < ns; i++ {
		add(genSSE(r.Fork(), id, 0))
	}
	for i := 0; i < nm; i++ {
		add(genMP(r.Fork(), id, 0))
	}
	for i := 0; i < 14; i++ {
		add(genNS(r.Fork(), id))
	}
	return plans
}

// wireCase: one exchange of a GENERATED server (built at check time from the current templates) driven over a
// real connection by go/universal/httprun.go with `record`: what the executor handed to the transport
// (json.Marshal taken at that moment) and the bytes the client received.
type wireCase struct {
	ID        int      `json:"id"`
	Kind      string   `json:"kind"` // sse | mp
	KaUS      int      `json:"ka_us"`
	TimeoutUS int      `json:"timeout_us"`
	Status    int      `json:"status"`
	CType     string   `json:"ctype"`
	Produced  []string `json:"produced"` // hex
	BodyHex   string   `json:"body_hex"`
	Hung      bool     `json:"hung"`
	Desc      string   `json:"desc"`
	Cancel    string   `json:"cancel"` // the <cancel> column ("-": the request context was not cancelled)
}

// judge: the oracles of this harness on exchanges recorded elsewhere (stdin: one wireCase per line)
func judge(in io.Reader, out io.Writer) {
	sc := bufio.NewScanner(in)
	sc.Buffer(make([]byte, 1<<20), 1<<28)
	for sc.Scan() {
		line := bytes.TrimSpace(sc.Bytes())
		if len(line) == 0 {
			continue
		}
		var c wireCase
		if err := json.Unmarshal(line, &c); err != nil {
			fmt.Fprintln(os.Stderr, "bad wire case:", err)
			os.Exit(2)
		}
		p := &plan{id: c.ID, kind: c.Kind, desc: c.Desc, kaUS: c.KaUS, timeoutUS: c.TimeoutUS, disc: -1, cancelAt: -1, shape: true}
		res := result{status: c.Status, ctype: c.CType, handler: "ok", seen: -1}
		if c.Hung {
			res.handler = "handler-hang"
		}
		res.raw, _ = hex.DecodeString(c.BodyHex)
		for i, h := range c.Produced {
			b, _ := hex.DecodeString(h)
			var w struct {
				HasNext *bool `json:"hasNext"`
			}
			json.Unmarshal(b, &w)
			hasNext := w.HasNext != nil && *w.HasNext
			res.payloads = append(res.payloads, hn{b, hasNext})
			if hasNext != (i < len(c.Produced)-1) {
				p.shape = false
			}
		}
		if len(c.Produced) == 0 {
			p.shape = false
		}
		l := report(p, res)
		if c.Cancel != "" && c.Cancel != "-" {
			l = l[:len(l)-1] + c.Cancel // the last column of report is "-"
		}
		fmt.Fprintln(out, l)
	}
}

var sourceLine = regexp.MustCompile(`(?m)^\s+(/\S+\.go:\d+)`)

// digest: the interesting part of a crash / race report (first line + gqlgen frames).
func digest(stderr string, marker string) string {
	i := strings.Index(stderr, marker)
	if i < 0 {
		i = 0
	}
	rep := stderr[i:]
	if len(rep) > 6000 {
		rep = rep[:6000]
	}
	first := strings.SplitN(rep, "\n", 2)[0]
	var frames []string
	seen := map[string]bool{}
	for _, m := range sourceLine.FindAllStringSubmatch(rep, -1) {
		f := m[1]
		if strings.Contains(f, "/graphql/handler/transport/") && !seen[f] {
			seen[f] = true
			frames = append(frames, f[strings.Index(f, "/graphql/"):])
		}
	}
	return first + " @ " + strings.Join(frames, " ")
}

// runChild runs the given case ids in a subprocess (a crash of the implementation - e.g. a panic in
// the keep-alive goroutine - kills the whole process). Returns the lines it printed, and a
// synthesized `crash` / `race` line when it died.
func runChild(ids []int, par int, sequentialAnnounce bool) (lines map[int]string, extra []string, culprit int) {
	lines = map[int]string{}
	culprit = -1
	idl := make([]string, len(ids))
	for i, v := range ids {
		idl[i] = fmt.Sprint(v)
	}
	args := append([]string{}, os.Args[1:]...)
	args = append(args, "-child", strings.Join(idl, ","), "-par", fmt.Sprint(par))
	if sequentialAnnounce {
		args = append(args, "-announce")
	}
	ctx, cancel := context.WithTimeout(context.Background(), 10*time.Minute)
	defer cancel()
	cmd := exec.CommandContext(ctx, os.Args[0], args...)
	cmd.Env = append(os.Environ(), "GORACE=halt_on_error=1")
	var so, se bytes.Buffer
	cmd.Stdout, cmd.Stderr = &so, &se
	err := cmd.Run()
	for _, l := range strings.Split(so.String(), "\n") {
		f := strings.SplitN(l, "\t", 3)
		if len(f) == 3 {
			var id int
			fmt.Sscan(f[1], &id)
			lines[id] = l
		}
	}
	if err == nil {
		return
	}
	stderr := se.String()
	last := -1
	if sequentialAnnounce {
		cut := stderr
		if i := strings.Index(stderr, "WARNING: DATA RACE"); i >= 0 {
			cut = stderr[:i]
		} else if i := strings.Index(stderr, "\npanic: "); i >= 0 {
			cut = stderr[:i]
		}
		for _, l := range strings.Split(cut, "\n") {
			if strings.HasPrefix(l, "BEGIN ") {
				fmt.Sscan(strings.Fields(l)[1], &last)
			}
		}
	} else if len(ids) == 1 {
		last = ids[0]
	}
	culprit = last
	kind, marker := "crash", "panic: "
	if strings.Contains(stderr, "WARNING: DATA RACE") {
		kind, marker = "race", "WARNING: DATA RACE"
	} else if ctx.Err() != nil {
		kind, marker = "timeout", ""
	} else if !strings.Contains(stderr, "panic: ") {
		marker = "fatal error: "
	}
	extra = append(extra, fmt.Sprintf("%s\t%d\t%s\t%s", kind, last, hx([]byte(digest(stderr, marker))), hx([]byte(tail(stderr, 3000)))))
	return
}

func tail(s string, n int) string {
	if len(s) > n {
		return s[:n]
	}
	return s
}

func main() {
	tier := flag.String("tier", "quick", "")
	seed := flag.Uint64("seed", 1, "")
	par := flag.Int("par", 6, "")
	nSSE := flag.Int("sse", -1, "number of random sse cases (default by tier)")
	nMP := flag.Int("mp", -1, "number of random mp cases (default by tier)")
	only := flag.String("only", "", "run only these case ids (comma separated)")
	child := flag.String("child", "", "internal: run these case ids in this process")
	seq := flag.Bool("seq", false, "one case at a time, announced on stderr (race attribution)")
	announce := flag.Bool("announce", false, "internal: print BEGIN <id> on stderr before each case")
	flag.StringVar(&corpusDir, "corpus", "", "directory of directed cases (*.json with a \"plan\")")
	judgeMode := flag.Bool("judge", false, "judge recorded exchanges of a generated server (JSON lines on stdin) instead of running cases")
	flag.Parse()
	log.SetOutput(io.Discard) // the transports log decode errors
	if *judgeMode {
		out := bufio.NewWriterSize(os.Stdout, 1<<20)
		defer out.Flush()
		judge(os.Stdin, out)
		return
	}
	plans := buildPlans(*tier, *seed, *nSSE, *nMP)
	out := bufio.NewWriterSize(os.Stdout, 1<<20)
	defer out.Flush()

	if *child != "" {
		var mu sync.Mutex
		sem := make(chan struct{}, *par)
		var wg sync.WaitGroup
		for _, f := range strings.Split(*child, ",") {
			var id int
			fmt.Sscan(f, &id)
			p := plans[id]
			wg.Add(1)
			sem <- struct{}{}
			if *announce {
				fmt.Fprintf(os.Stderr, "BEGIN %d %s %s ka=%dus n=%d\n", p.id, p.kind, p.desc, p.kaUS, len(p.payloads))
			}
			go func(p *plan) {
				defer wg.Done()
				defer func() { <-sem }()
				l := report(p, runCase(p))
				mu.Lock()
				fmt.Fprintln(out, l)
				out.Flush()
				mu.Unlock()
			}(p)
		}
		wg.Wait()
		return
	}

	var ids []int
	if *only != "" {
		for _, f := range strings.Split(*only, ",") {
			var id int
			fmt.Sscan(f, &id)
			ids = append(ids, id)
		}
	} else {
		for _, p := range plans {
			ids = append(ids, p.id)
		}
	}
	all := map[int]string{}
	var extras []string
	batch := 48
	cpar := *par
	if *seq {
		cpar = 1
	}
	var mu sync.Mutex
	var wg sync.WaitGroup
	outer := make(chan struct{}, 2)
	if *seq {
		outer = make(chan struct{}, 6)
	}
	failures := 0
	for i := 0; i < len(ids); i += batch {
		j := i + batch
		if j > len(ids) {
			j = len(ids)
		}
		wg.Add(1)
		outer <- struct{}{}
		go func(chunk []int) {
			defer wg.Done()
			defer func() { <-outer }()
			for len(chunk) > 0 {
				mu.Lock()
				stop := failures >= 8
				mu.Unlock()
				if stop {
					return
				}
				lines, extra, culprit := runChild(chunk, cpar, *seq)
				mu.Lock()
				for k, v := range lines {
					all[k] = v
				}
				mu.Unlock()
				if len(extra) == 0 {
					return
				}
				// the child died: attribute, then go on with what it did not get to
				var rest []int
				for _, id := range chunk {
					if _, ok := lines[id]; !ok && id != culprit {
						rest = append(rest, id)
					}
				}
				if culprit < 0 {
					// parallel child: rerun the unfinished ones one per process
					for _, id := range rest {
						mu.Lock()
						enough := failures >= 8
						mu.Unlock()
						if enough {
							break
						}
						l2, e2, _ := runChild([]int{id}, 1, false)
						mu.Lock()
						for k, v := range l2 {
							all[k] = v
						}
						extras = append(extras, e2...)
						if len(e2) > 0 {
							failures++
						}
						mu.Unlock()
					}
					mu.Lock()
					if failures == 0 {
						extras = append(extras, extra...) // died only under load: keep the report, unattributed
						failures++
					}
					mu.Unlock()
					return
				}
				mu.Lock()
				extras = append(extras, extra...)
				failures++
				mu.Unlock()
				chunk = rest
			}
		}(ids[i:j])
	}
	wg.Wait()
	for _, id := range ids {
		if l, ok := all[id]; ok {
			fmt.Fprintln(out, l)
		}
	}
	for _, l := range extras {
		// attach the plan description of the culprit
		f := strings.SplitN(l, "\t", 3)
		var id int
		fmt.Sscan(f[1], &id)
		d := "unattributed"
		if id >= 0 && id < len(plans) {
			p := plans[id]
			d = fmt.Sprintf("%s %s ka=%dus n=%d tail=%dus", p.kind, p.desc, p.kaUS, len(p.payloads), p.tailUS)
		}
		fmt.Fprintln(out, l+"\t"+d)
	}
}
