package main

import (
	"fmt"
	"strings"

	"verifharness/internal/rng"
)

// Script generation. Abstract symbols are mapped to the wire vocabulary of the subprotocol; every
// valid subscription gets a fresh tag (its operation name), by which resolver events address it.
//
//	I init   Ib init with payload 42   Ir init refused by InitFunc   Io init with payload {}
//	Iu init with payload null   Ik init with payload {"Authorization":"Bearer x"}
//	S<id> start/subscribe (valid)   B<id> start with payload 42   Q<id> syntax error   U<id> user-kind refusal
//	N<id> start without payload     X<id> stop/complete
//	P ping  O pong  T connection_terminate  W a server->client type (data / next)  K connection_ack  Y unknown type
//	G not JSON   A abrupt close   Z close frame   C server cancel   M init timeout wait   ? snapshot
//	H hold the next server-side socket write   R release it
//	e<j> emit  d<j> end  r<j> err  a<j> adderr  p<j> panic      (j-th valid start of the script)
//	a trailing ~ = no settle after the step
type builder struct {
	proto string
	tags  int
	out   []string
}

func (b *builder) wire(sym byte) string {
	gq := b.proto == "gqlws"
	switch sym {
	case 'I':
		return "connection_init"
	case 'S':
		if gq {
			return "start"
		}
		return "subscribe"
	case 'X':
		if gq {
			return "stop"
		}
		return "complete"
	case 'P':
		return "ping"
	case 'O':
		return "pong"
	case 'T':
		return "connection_terminate"
	case 'W':
		if gq {
			return "data"
		}
		return "next"
	case 'K':
		return "connection_ack"
	}
	return "bogus"
}

func (b *builder) add(sym string) {
	race := strings.HasSuffix(sym, "~")
	sym = strings.TrimSuffix(sym, "~")
	id := "-"
	if len(sym) > 1 && sym[0] != 'I' {
		id = sym[1:]
		if id == "_" {
			id = "-"
		}
	}
	var t string
	switch sym[0] {
	case 'I':
		pl := map[string]string{"I": "n", "Ib": "num", "Ir": "rej", "Io": "obj", "Iu": "nul", "Ik": "tok"}[sym]
		t = fmt.Sprintf("m:connection_init:-:%s:0", pl)
	case 'S':
		t = fmt.Sprintf("m:%s:%s:sub:%d", b.wire('S'), id, b.tags)
		b.tags++
	case 'B':
		t = fmt.Sprintf("m:%s:%s:num:0", b.wire('S'), id)
	case 'Q':
		t = fmt.Sprintf("m:%s:%s:badq:0", b.wire('S'), id)
	case 'U':
		t = fmt.Sprintf("m:%s:%s:pq:99", b.wire('S'), id)
	case 'N':
		t = fmt.Sprintf("m:%s:%s:n:0", b.wire('S'), id)
	case 'X':
		t = fmt.Sprintf("m:%s:%s:n:0", b.wire('X'), id)
	case 'P', 'O', 'T', 'K', 'Y':
		t = fmt.Sprintf("m:%s:-:n:0", b.wire(sym[0]))
	case 'W':
		t = fmt.Sprintf("m:%s:1:n:0", b.wire('W'))
	case 'G':
		t = "g"
	case 'A':
		t = "a"
	case 'Z':
		t = "z"
	case 'C':
		t = "sc"
	case 'M':
		t = "it"
	case 'H':
		t = "h"
	case 'R':
		t = "u"
	case '?':
		b.out = append(b.out, "?")
		return
	case 'e', 'd', 'r', 'a', 'p':
		cmd := map[byte]string{'e': "emit", 'd': "end", 'r': "err", 'a': "adderr", 'p': "panic"}[sym[0]]
		t = fmt.Sprintf("r:%s:%s", cmd, sym[1:])
	default:
		panic("unknown symbol " + sym)
	}
	if race {
		t += "~"
	}
	b.out = append(b.out, t)
}

func script(proto, cfg string, syms ...string) string {
	b := &builder{proto: proto}
	for _, s := range syms {
		b.add(s)
	}
	if cfg == "" {
		cfg = "-"
	}
	return proto + " " + cfg + " " + strings.Join(b.out, " ")
}

func words(alpha []string, n int, f func([]string)) {
	cur := make([]string, n)
	var rec func(i int)
	rec = func(i int) {
		if i == n {
			f(cur)
			return
		}
		for _, a := range alpha {
			cur[i] = a
			rec(i + 1)
		}
	}
	rec(0)
}

// withInit replaces the plain init of a symbol sequence by another init variant
func withInit(d []string, init string) []string {
	out := make([]string, len(d))
	for i, x := range d {
		switch x {
		case "I":
			x = init
		case "I~":
			x = init + "~"
		}
		out[i] = x
	}
	return out
}

// the connection_init dimension: payload absent / null / {} / non-empty, crossed with what the InitFunc
// returns (the context it was given / a derived one + an ack payload / a detached one)
var initVariants = []string{"I", "Iu", "Io", "Ik"}
var initFuncCfgs = []string{"", "v", "d"}

// every way an operation started as id 1 can end (or fail to): client stop, server-side end / error / panic,
// connection closed by either side (terminate, server cancel, abrupt, close frame, undecodable frame,
// duplicate id -> 4409), plus results and a stop for another id
var opEnds = []string{"X1", "e0", "d0", "r0", "p0", "T", "C", "A", "Z", "G", "S1", "X2"}

func generate(tier string, seed uint64) []string {
	var out []string
	thorough := tier == "thorough"
	protos := []string{"gqlws", "tws"}
	first := []string{"I", "Ib", "Ir", "Io", "Iu", "Ik", "S1", "B1", "X1", "P", "O", "T", "W", "K", "Y", "G", "A", "Z", "C", "M"}
	for _, p := range protos {
		// ---- the init phase: every first message, alone and followed by an init / a start
		for _, a := range first {
			out = append(out, script(p, "t", a))
			out = append(out, script(p, "", a, "I", "S1"))
			out = append(out, script(p, "r", "C", a, "S1"))
		}
		// ---- exhaustive short conversations after a successful init
		core := []string{"S1", "X1", "e0", "d0", "p0", "T", "C", "S2"}
		wide := []string{"S1", "S2", "B1", "U1", "X1", "X2", "e0", "e1", "d0", "d1", "r0", "a0", "p0", "P", "W", "T", "G", "C", "A"}
		maxCore, maxWide := 4, 2
		if thorough {
			maxCore, maxWide = 5, 3
		}
		for n := 1; n <= maxCore; n++ {
			words(core, n, func(w []string) { out = append(out, script(p, "", append([]string{"I"}, w...)...)) })
		}
		for n := 1; n <= maxWide; n++ {
			words(wide, n, func(w []string) {
				out = append(out, script(p, "", append([]string{"I", "S1"}, w...)...))
			})
		}
		// ---- init payload x InitFunc result x every way an operation ends; a result is requested afterwards
		// (a stopped / closed operation must not deliver it)
		for _, ini := range initVariants {
			for _, ic := range initFuncCfgs {
				maxEnd := 2
				if thorough && ic == "" {
					maxEnd = 3
				}
				for n := 1; n <= maxEnd; n++ {
					words(opEnds, n, func(w []string) {
						out = append(out, script(p, ic, append(append([]string{ini, "S1"}, w...), "e0")...))
					})
				}
				extra := []string{"s"}
				if thorough {
					extra = []string{"s", "k", "op", "r", "sr"}
				}
				for _, x := range extra {
					for _, e := range opEnds {
						out = append(out, script(p, ic+x, ini, "S1", e, "?", "e0", "d0"))
						out = append(out, script(p, ic+x, ini, "S1", "e0~", e+"~", "e0"))
					}
				}
				// two operations: ending one must not touch the other, a close ends both
				for _, x := range []string{"", "s"} {
					for _, d := range [][]string{
						{"S1", "S2", "X1", "?", "e0", "e1", "X2", "?", "e1"},
						{"S1", "S2", "e0", "e1", "X2~", "X1", "?", "e0", "e1"},
						{"S1", "S2", "d0", "?", "e1", "T", "?", "e1"},
						{"S1", "S2", "X1~", "C~", "e1"},
						{"S1", "X1", "S1", "e1", "X1", "?", "e1"},
						{"S1", "e0", "X1~", "S2~", "e0~", "e1", "G"},
					} {
						out = append(out, script(p, ic+x, append([]string{ini}, d...)...))
					}
				}
			}
		}
		// ---- a back-pressured peer: one server-side write (a result, a terminating frame, a tick, the ack) is held
		// inside the socket while the client / another operation / the server does something that writes or
		// closes as well; nothing may be written concurrently, everything queues and comes out afterwards
		held := []string{"e0", "d0", "r0", "p0", "X1", "P"}
		mean := []string{"P", "O", "X1", "X2", "S2", "S1", "B2", "e1", "d1", "T", "C", "G", "W", "A"}
		for _, cfg := range []string{"", "k", "op"} {
			for _, hd := range held {
				for _, m := range mean {
					out = append(out, script(p, cfg, "I", "S1", "S2", "H", hd+"~", m+"~", "R", "?", "e0", "e1", "d0", "d1"))
				}
				if thorough {
					for _, m1 := range mean {
						for _, m2 := range mean {
							out = append(out, script(p, cfg, "I", "S1", "S2", "H", hd+"~", m1+"~", m2+"~", "R", "?", "e0", "e1"))
						}
					}
				}
			}
			out = append(out, script(p, cfg, "H", "I~", "P~", "S1~", "R", "e0", "d0"))
		}
		// ---- directed adversarial shapes
		for _, cfg := range []string{"", "s", "k", "op", "r", "sr", "v", "d", "ds"} {
			dir := [][]string{
				// duplicate id while the first operation is active
				{"I", "S1", "S1", "e0", "e1", "X1", "?", "d0", "d1"},
				{"I", "S1", "e0", "S1~", "e0", "d0"},
				{"I", "S1", "B1", "e0", "d0"},
				{"I", "S1", "U1", "e0", "d0"},
				// id reuse after termination, with and without waiting
				{"I", "S1", "d0", "S1", "e1", "d1"},
				{"I", "S1", "d0~", "S1", "e1", "d1"},
				{"I", "S1", "r0~", "S1~", "e1~", "d1"},
				{"I", "S1", "p0~", "S1", "e1", "X1"},
				{"I", "S1", "X1~", "S1", "e1", "d1"},
				{"I", "B1", "S1", "e0", "d0", "Q1", "U1", "S1", "d1"},
				// stop racing completion, close racing sends
				{"I", "S1", "d0~", "X1"},
				{"I", "S1", "X1~", "d0"},
				{"I", "S1", "e0~", "X1~", "e0~", "d0"},
				{"I", "S1", "e0~", "T"},
				{"I", "S1", "e0~", "C"},
				{"I", "S1", "S2", "e0~", "e1~", "C~", "e0~", "d1"},
				{"I", "S1", "e0~", "A"},
				{"I", "S1", "e0~", "Z"},
				{"I", "S1", "e0~", "G"},
				{"I", "S1", "S2", "e0~", "W~", "e1"},
				{"I", "S1", "S2", "T~", "e0~", "e1"},
				// errors and panics
				{"I", "S1", "a0", "p0"},
				{"I", "S1", "a0", "a0", "d0"},
				{"I", "S1", "e0", "a0", "e0", "r0"},
				{"I", "S1", "p0~", "X1"},
				{"I", "S1", "S2", "p0~", "r1~", "T"},
				// operations that outlive stop / close (stubborn resolvers) and must still be cancelled
				{"I", "S1", "S2", "X1", "?", "T", "?", "d0", "d1"},
				{"I", "S1", "S2", "C", "?", "e0", "d0", "d1"},
				{"I", "S1", "X1", "X1", "e0", "d0"},
				{"I", "S1", "X2", "e0", "d0"},
				{"I", "S1", "X1", "S1", "e0", "e1", "d0", "d1"},
				{"I", "S1", "e0", "X1~", "S1~", "e0~", "e1", "d1", "d0"},
				// burst without any settle
				{"I~", "S1~", "S2~", "X1~", "e0~", "e1~", "T~"},
				{"I~", "S1~", "S1~", "S1~"},
				{"I~", "S1~", "X1~", "S1~", "X1~", "S1~"},
				// messages queued behind a closing one
				{"I", "S1", "T~", "S2~", "e1"},
				{"I", "S1", "S1~", "S2~", "e1~", "e2"},
				{"I", "W~", "S1~", "e0"},
				// before / around init
				{"S1", "I"}, {"I~", "I"}, {"T"}, {"C", "I", "S1", "e0"}, {"M", "I"}, {"Ir", "S1"}, {"Ib~", "S1"},
				{"P", "I"}, {"O~", "I"},
				// empty id, ping/pong chatter, long streams
				{"I", "S_", "e0", "X_", "d0"},
				{"I", "S_", "S_"},
				{"I", "P", "O", "P~", "S1~", "P~", "e0", "d0"},
				{"I", "S1", "e0", "e0", "e0", "e0", "e0", "e0", "e0", "e0", "d0"},
				{"I", "S1", "S2", "S3", "e0~", "e1~", "e2~", "d2~", "d1~", "d0"},
			}
			for _, d := range dir {
				c := cfg
				if d[0] == "M" {
					c += "t"
				}
				out = append(out, script(p, c, d...))
				// the same shape on a connection whose init carried a payload
				if (cfg == "" || cfg == "s") && (d[0] == "I" || d[0] == "I~") {
					out = append(out, script(p, c, withInit(d, "Ik")...))
				}
			}
		}
	}
	// ---- seeded random longer conversations, mostly valid
	r := rng.New(seed ^ 0xC11)
	ri := rng.New(seed ^ 0xC11_1417) // the init dimension draws from its own stream (the conversations stay the same)
	nRandom := 600
	if thorough {
		nRandom = 6000
	}
	for i := 0; i < nRandom; i++ {
		p := protos[r.Below(2)]
		cfg := ""
		if r.Below(4) == 0 {
			if p == "gqlws" {
				cfg += "k"
			} else {
				cfg += []string{"o", "p", "op"}[r.Below(3)]
			}
		}
		if r.Below(5) == 0 {
			cfg += "s"
		}
		if r.Below(5) == 0 {
			cfg += "r"
		}
		var syms []string
		valid := r.Below(10) != 0 // the malformed stream: 10%
		if valid || r.Bool() {
			syms = append(syms, initVariants[ri.Below(len(initVariants))])
		}
		cfg += []string{"", "", "v", "d"}[ri.Below(4)]
		n := 4 + r.Below(9)
		if thorough {
			n += r.Below(8)
		}
		started := 0
		ids := []string{"1", "2", "3"}
		for len(syms) < n {
			var s string
			k := r.Below(100)
			switch {
			case k < 22:
				s = "S" + ids[r.Below(len(ids))]
				started++
			case k < 50 && started > 0:
				s = "e" + fmt.Sprint(r.Below(started))
			case k < 62 && started > 0:
				s = []string{"d", "d", "r", "a", "p"}[r.Below(5)] + fmt.Sprint(r.Below(started))
			case k < 74:
				s = "X" + ids[r.Below(len(ids))]
			case k < 80:
				s = []string{"P", "O"}[r.Below(2)]
			case k < 84:
				s = []string{"B", "Q", "U", "N"}[r.Below(4)] + ids[r.Below(len(ids))]
			case k < 86:
				s = "?"
			case valid:
				continue
			case k < 90:
				s = []string{"T", "C"}[r.Below(2)]
			case k < 94:
				s = []string{"W", "K", "Y", "G", "I"}[r.Below(5)]
			default:
				s = []string{"A", "Z"}[r.Below(2)]
			}
			if s != "?" && r.Below(3) == 0 {
				s += "~"
			}
			syms = append(syms, s)
		}
		if r.Below(3) == 0 {
			syms = append(syms, []string{"T", "C", "A", "Z", "G"}[r.Below(5)])
		}
		out = append(out, script(p, cfg, syms...))
	}
	return out
}
