package main

func generate(tier string, seed uint64) []string { return nil }
