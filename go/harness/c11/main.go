// Harness for C11: drives the REAL websocket transport of /repo (handler.New + transport.Websocket behind
// an httptest.Server, gorilla/websocket client) with scripted client message sequences interleaved
// with resolver events, server-side cancellation and timeouts, and prints for every script the script
// itself and what was observed: the frames the client received (in order), what the controllable
// subscription resolver saw (invocations, context cancellation), the CloseFunc calls, the close code
// seen by the client, and - after a final clean-up - the transport goroutines still alive.
//
// The system is nondeterministic; bin/check hands every line to the Lean driver, which decides whether
// the observed trace is producible by the (proved) model for that script (trace membership).
//
// Script line:   <proto> <cfg> <step> <step> ...
//
//	proto  gqlws | tws                        (graphql-ws | graphql-transport-ws)
//	cfg    letters: k keep-alive ticker, o pong-only ticker, p ping ticker (MissingPongOk), s stubborn resolver
//	       (ignores cancellation), r close reason on the connection context, t InitTimeout configured,
//	       v the InitFunc returns a derived context (context.WithValue) and an ack payload, d the InitFunc returns a
//	       context DETACHED from the request context (context.WithoutCancel + its own cancel, which `sc` fires too);
//	       "-" none
//	step   m:<wire type>:<id>:<payload>:<tag>  client sends a JSON frame   (id "-" = none)
//	           payload: n none | nul (null) | num (42) | obj ({}) | tok ({"Authorization":"Bearer x"}) | rej ({"reject":true})
//	                    | sub (valid subscription, operation S<tag>)
//	                    | badq (syntax error) | pq (valid, refused by an operation parameter mutator with a user-kind error)
//	       g            client sends a frame that is not JSON
//	       a            client closes the TCP connection abruptly      z  client sends a close frame
//	       r:<cmd>:<tag> resolver event for the operation started with tag: emit | end | err (AddSubscriptionError+end)
//	                    | adderr (AddSubscriptionError only) | panic
//	       sc           server cancels the connection context          it  wait for the init timeout
//	       h            back-pressured peer: the NEXT write of the server to the socket blocks inside net.Conn.Write
//	                    (with whatever locks its writer holds) until `u`
//	       u            settle, then let the held write through
//	       ?            settle, then snapshot
//	a step ending in "~" is not followed by a settle (it races with the next step)
//
// Output line:   <script> \t F <frames> \t <snapshots...>
package main

import (
	"bufio"
	"context"
	"encoding/json"
	"errors"
	"flag"
	"fmt"
	"log"
	"net"
	"net/http"
	"net/http/httptest"
	"os"
	"runtime"
	"sort"
	"strconv"
	"strings"
	"sync"
	"sync/atomic"
	"time"

	"github.com/99designs/gqlgen/graphql"
	"github.com/99designs/gqlgen/graphql/handler"
	"github.com/99designs/gqlgen/graphql/handler/transport"
	"github.com/gorilla/websocket"
	"github.com/vektah/gqlparser/v2"
	"github.com/vektah/gqlparser/v2/ast"
	"github.com/vektah/gqlparser/v2/gqlerror"
)

var schema = gqlparser.MustLoadSchema(&ast.Source{Input: `
	type Query { x: Int }
	type Subscription { ev: Int }
`})

const tick = 6 * time.Millisecond
const initTimeout = 40 * time.Millisecond

// ---------------------------------------------------------------- one running operation (resolver side)

type inst struct {
	tag  int
	ctx  context.Context
	cmd  chan string
	fin  chan struct{} // closed when the response handler has returned nil / panicked
	once sync.Once
	seq  int
}

type session struct {
	proto    string
	cfg      string
	mu       sync.Mutex
	insts    map[int]*inst
	execs    []int // tags in order of Exec invocation
	dupExec  bool
	cwrite   bool // a second frame writer was caught while a write was in progress (gorilla's check)
	hpanic   bool // any other panic in a goroutine of the connection that the harness did not ask for
	gate     gate
	over     chan struct{} // closed when the script is over: a resolver still waiting for an event ends
	ctxMiss  bool          // an operation ran under a context without the InitFunc's context value / the init payload sent
	initKind string        // payload kind of the first connection_init of the script ("" = none sent)
	scDone   bool
	dcancel  context.CancelFunc // cancel of the detached context handed out by the InitFunc (cfg d)
	closes   []int              // CloseFunc codes
	frames   []string
	cclose   string // what the client's reader saw at the end: "" (still open) | code | abn
	activity atomic.Int64
	hcancel  context.CancelFunc
}

func (s *session) has(c byte) bool { return strings.IndexByte(s.cfg, c) >= 0 }

// ExecutableSchema whose single subscription is driven through channels.
type es struct{ s *session }

func (e es) Schema() *ast.Schema { return schema }
func (e es) Complexity(ctx context.Context, typeName, fieldName string, childComplexity int, args map[string]any) (int, bool) {
	return 0, false
}

func (e es) Exec(ctx context.Context) graphql.ResponseHandler {
	oc := graphql.GetOperationContext(ctx)
	tag, _ := strconv.Atoi(strings.TrimPrefix(oc.OperationName, "S"))
	in := &inst{tag: tag, ctx: ctx, cmd: make(chan string), fin: make(chan struct{})}
	s := e.s
	s.mu.Lock()
	if _, dup := s.insts[tag]; dup {
		s.dupExec = true
	}
	s.insts[tag] = in
	s.execs = append(s.execs, tag)
	if !s.ctxCarriesInit(ctx) {
		s.ctxMiss = true
	}
	s.mu.Unlock()
	s.activity.Add(1)
	stubborn := s.has('s')
	return func(ctx context.Context) *graphql.Response { return e.again(ctx, in, stubborn) }
}

func (e es) again(ctx context.Context, in *inst, stubborn bool) *graphql.Response {
	s := e.s
	for {
		var done <-chan struct{}
		if !stubborn {
			done = ctx.Done()
		}
		select {
		case c := <-in.cmd:
			s.activity.Add(1)
			switch c {
			case "emit":
				n := in.seq
				in.seq++
				return &graphql.Response{Data: json.RawMessage(fmt.Sprintf(`{"t":%d,"n":%d}`, in.tag, n))}
			case "adderr":
				transport.AddSubscriptionError(ctx, &gqlerror.Error{Message: fmt.Sprintf("E%d", in.tag)})
				continue
			case "err":
				transport.AddSubscriptionError(ctx, &gqlerror.Error{Message: fmt.Sprintf("E%d", in.tag)})
				in.once.Do(func() { close(in.fin) })
				return nil
			case "panic":
				in.once.Do(func() { close(in.fin) })
				panic(fmt.Sprintf("P%d", in.tag))
			default:
				in.once.Do(func() { close(in.fin) })
				return nil
			}
		case <-s.over:
			in.once.Do(func() { close(in.fin) })
			return nil
		case <-done:
			s.activity.Add(1)
			in.once.Do(func() { close(in.fin) })
			return nil
		}
	}
}

type initKey struct{}

// gate: lets the script hold one server-side socket write (a peer that does not read).
type gate struct {
	mu      sync.Mutex
	armed   bool
	release chan struct{}
}

func (g *gate) arm() {
	g.mu.Lock()
	g.armed = true
	g.mu.Unlock()
}

func (g *gate) open() {
	g.mu.Lock()
	g.armed = false
	if g.release != nil {
		close(g.release)
		g.release = nil
	}
	g.mu.Unlock()
}

type gateConn struct {
	net.Conn
	g *gate
}

func (c gateConn) Write(b []byte) (int, error) {
	c.g.mu.Lock()
	var wait chan struct{}
	if c.g.armed {
		c.g.armed = false
		wait = make(chan struct{})
		c.g.release = wait
	}
	c.g.mu.Unlock()
	if wait != nil {
		<-wait
	}
	return c.Conn.Write(b)
}

type gateListener struct {
	net.Listener
	g *gate
}

func (l gateListener) Accept() (net.Conn, error) {
	c, err := l.Listener.Accept()
	if err != nil {
		return c, err
	}
	return gateConn{c, l.g}, nil
}

// notePanic classifies a panic that surfaced in a goroutine of the connection (recovered by the transport's
// operation epilogue or by net/http around the read loop).
func (s *session) notePanic(msg string) {
	s.mu.Lock()
	if strings.Contains(msg, "concurrent write to websocket connection") {
		s.cwrite = true
	} else {
		s.hpanic = true
	}
	s.mu.Unlock()
	s.activity.Add(1)
}

type errLog struct{ s *session }

func (e errLog) Write(p []byte) (int, error) {
	if m := string(p); strings.Contains(m, "panic serving") {
		e.s.notePanic(m)
	}
	return len(p), nil
}

// ctxCarriesInit: the context an operation runs under descends from the context the InitFunc returned and
// carries exactly the init payload the client sent (absent / null -> none).
func (s *session) ctxCarriesInit(ctx context.Context) bool {
	if (s.has('v') || s.has('d')) && ctx.Value(initKey{}) != "iv" {
		return false
	}
	ip := transport.GetInitPayload(ctx)
	switch s.initKind {
	case "tok":
		return ip.Authorization() == "Bearer x" && len(ip) == 1
	case "obj":
		return ip != nil && len(ip) == 0
	case "n", "nul":
		return ip == nil
	}
	return true
}

// operation parameter mutator: refuses operations whose extensions carry "refuse" with a user-kind error
type refuser struct{}

func (refuser) ExtensionName() string                          { return "verif-refuser" }
func (refuser) Validate(schema graphql.ExecutableSchema) error { return nil }
func (refuser) MutateOperationParameters(ctx context.Context, raw *graphql.RawParams) *gqlerror.Error {
	if raw.Extensions["refuse"] != nil {
		return &gqlerror.Error{Message: "refused", Extensions: map[string]any{"code": "VERIF_REFUSED"}}
	}
	return nil
}

// ---------------------------------------------------------------- running one script

// serverCancel: the server side cancels the connection context (the request context and, when the InitFunc
// handed out a detached one, that one too).
func (s *session) serverCancel() {
	s.hcancel()
	s.mu.Lock()
	s.scDone = true
	dc := s.dcancel
	s.mu.Unlock()
	if dc != nil {
		dc()
	}
}

func settle(s *session, q time.Duration) {
	deadline := time.Now().Add(100 * q)
	for {
		a := s.activity.Load()
		time.Sleep(q)
		if s.activity.Load() == a || time.Now().After(deadline) {
			return
		}
	}
}

func payloadFor(kind string, tag string) string {
	switch kind {
	case "num":
		return `42`
	case "obj":
		return `{}`
	case "nul":
		return `null`
	case "tok":
		return `{"Authorization":"Bearer x"}`
	case "rej":
		return `{"reject":true}`
	case "sub":
		return fmt.Sprintf(`{"query":"subscription S%s { ev }","operationName":"S%s"}`, tag, tag)
	case "badq":
		return `{"query":"subscription {"}`
	case "pq":
		return fmt.Sprintf(`{"query":"subscription S%s { ev }","operationName":"S%s","extensions":{"refuse":true}}`, tag, tag)
	}
	return ""
}

func frameString(b []byte) string {
	var f struct {
		Type    string          `json:"type"`
		ID      *string         `json:"id"`
		Payload json.RawMessage `json:"payload"`
	}
	if err := json.Unmarshal(b, &f); err != nil {
		return "unparsable:-:-"
	}
	id := "-"
	if f.ID != nil && *f.ID != "" {
		id = *f.ID
	}
	tag := "-"
	var d struct {
		Data *struct {
			T int `json:"t"`
			N int `json:"n"`
		} `json:"data"`
	}
	if json.Unmarshal(f.Payload, &d) == nil && d.Data != nil {
		tag = fmt.Sprintf("%d.%d", d.Data.T, d.Data.N)
	} else {
		var es []struct {
			Message string `json:"message"`
		}
		if json.Unmarshal(f.Payload, &es) == nil && len(es) > 0 {
			var parts []string
			for _, e := range es {
				if len(e.Message) > 1 && (e.Message[0] == 'E' || e.Message[0] == 'P') {
					if _, err := strconv.Atoi(e.Message[1:]); err == nil {
						parts = append(parts, e.Message)
					}
				}
			}
			if len(parts) > 0 {
				tag = strings.Join(parts, "+")
			}
		}
	}
	return f.Type + ":" + id + ":" + tag
}

func transportGoroutines() int {
	buf := make([]byte, 1<<20)
	n := runtime.Stack(buf, true)
	return strings.Count(string(buf[:n]), "transport.(*wsConnection)") // frames, not goroutines; 0 iff none
}

func runScript(line string, q time.Duration) string {
	toks := strings.Fields(line)
	s := &session{proto: toks[0], cfg: toks[1], insts: map[int]*inst{}, over: make(chan struct{})}
	defer close(s.over)
	for _, t := range toks[2:] {
		if p := strings.Split(strings.TrimSuffix(t, "~"), ":"); len(p) == 5 && p[0] == "m" && p[1] == "connection_init" {
			s.initKind = p[3]
			break
		}
	}
	hctx, hcancel := context.WithCancel(context.Background())
	s.hcancel = hcancel
	if s.has('r') {
		hctx = transport.AppendCloseReason(hctx, "bye")
	}
	srv := handler.New(es{s})
	srv.Use(refuser{})
	srv.SetRecoverFunc(func(ctx context.Context, err any) error {
		if m := fmt.Sprint(err); len(m) < 2 || m[0] != 'P' || strings.Trim(m[1:], "0123456789") != "" {
			s.notePanic(m) // not one of the panics the script asked the resolver for
		}
		return errors.New(fmt.Sprint(err))
	})
	ws := transport.Websocket{
		Upgrader: websocket.Upgrader{CheckOrigin: func(r *http.Request) bool { return true }},
		InitFunc: func(ctx context.Context, p transport.InitPayload) (context.Context, *transport.InitPayload, error) {
			if p["reject"] != nil {
				return ctx, nil, errors.New("rejected")
			}
			if s.has('d') {
				// a context detached from the request: only the transport's own logic (and `sc`) ends it
				dctx, dcancel := context.WithCancel(context.WithValue(context.WithoutCancel(ctx), initKey{}, "iv"))
				s.mu.Lock()
				s.dcancel = dcancel
				if s.scDone {
					dcancel()
				}
				s.mu.Unlock()
				return dctx, nil, nil
			}
			if s.has('v') {
				return context.WithValue(ctx, initKey{}, "iv"), &transport.InitPayload{"ok": true}, nil
			}
			return ctx, nil, nil
		},
		CloseFunc: func(ctx context.Context, code int) {
			s.mu.Lock()
			s.closes = append(s.closes, code)
			s.mu.Unlock()
			s.activity.Add(1)
		},
		ErrorFunc: func(ctx context.Context, err error) {},
	}
	if s.has('k') {
		ws.KeepAlivePingInterval = tick
	}
	if s.has('o') {
		ws.PongOnlyInterval = tick
	}
	if s.has('p') {
		ws.PingPongInterval = tick
		ws.MissingPongOk = true
	}
	if s.has('t') {
		ws.InitTimeout = initTimeout
	}
	srv.AddTransport(ws)
	// the connection context is the harness's own (not net/http's), so that only the transport's
	// own cancellation logic can cancel operations
	hs := httptest.NewUnstartedServer(http.HandlerFunc(func(w http.ResponseWriter, r *http.Request) {
		srv.ServeHTTP(w, r.WithContext(hctx))
	}))
	hs.Listener = gateListener{hs.Listener, &s.gate}
	hs.Config.ErrorLog = log.New(errLog{s}, "", 0)
	hs.Start()
	defer hs.Close()
	defer s.gate.open()
	defer s.serverCancel()

	sub := "graphql-ws"
	if s.proto == "tws" {
		sub = "graphql-transport-ws"
	}
	d := websocket.Dialer{Subprotocols: []string{sub}}
	c, _, err := d.Dial("ws"+strings.TrimPrefix(hs.URL, "http"), nil)
	if err != nil {
		return line + "\tERR dial " + err.Error()
	}
	defer c.Close()
	rdone := make(chan struct{})
	go func() {
		defer close(rdone)
		for {
			_, b, err := c.ReadMessage()
			if err != nil {
				var ce *websocket.CloseError
				s.mu.Lock()
				if errors.As(err, &ce) && ce.Code != websocket.CloseAbnormalClosure {
					s.cclose = strconv.Itoa(ce.Code)
				} else {
					s.cclose = "abn"
				}
				s.mu.Unlock()
				s.activity.Add(1)
				return
			}
			fs := frameString(b)
			s.mu.Lock()
			s.frames = append(s.frames, fs)
			s.mu.Unlock()
			if t := strings.SplitN(fs, ":", 2)[0]; t != "ka" && t != "ping" && !(t == "pong" && s.has('o')) {
				s.activity.Add(1)
			}
		}
	}()

	var snaps []string
	gone := false
	snapshot := func() string {
		s.mu.Lock()
		defer s.mu.Unlock()
		var ex []string
		tags := make([]int, 0, len(s.insts))
		for t := range s.insts {
			tags = append(tags, t)
		}
		sort.Ints(tags)
		for _, t := range tags {
			in := s.insts[t]
			dn, fn := 0, 0
			if in.ctx.Err() != nil {
				dn = 1
			}
			select {
			case <-in.fin:
				fn = 1
			default:
			}
			ex = append(ex, fmt.Sprintf("%d/%d/%d", t, dn, fn))
		}
		var cl []string
		for _, c := range s.closes {
			cl = append(cl, strconv.Itoa(c))
		}
		cc := s.cclose
		if cc == "" {
			cc = "open"
		}
		if gone {
			cc = "gone"
		}
		dup := ""
		if s.dupExec {
			dup = " dupexec"
		}
		if s.ctxMiss {
			dup += " ctxmiss"
		}
		if s.cwrite {
			dup += " cwrite"
		}
		if s.hpanic {
			dup += " hpanic"
		}
		return fmt.Sprintf("S n=%d ops=%s cf=%s cc=%s%s", len(s.frames), strings.Join(ex, ","), strings.Join(cl, ","), cc, dup)
	}

	var outToks []string
	outToks = append(outToks, toks[0], toks[1])
	for _, st := range toks[2:] {
		race := strings.HasSuffix(st, "~")
		st = strings.TrimSuffix(st, "~")
		p := strings.Split(st, ":")
		rec := st
		switch p[0] {
		case "m":
			msg := `{"type":` + strconv.Quote(p[1])
			if p[2] != "-" {
				msg += `,"id":` + strconv.Quote(p[2])
			}
			if pl := payloadFor(p[3], p[4]); pl != "" {
				msg += `,"payload":` + pl
			}
			msg += "}"
			_ = c.WriteMessage(websocket.TextMessage, []byte(msg))
		case "g":
			_ = c.WriteMessage(websocket.TextMessage, []byte(`{"type":`))
		case "a":
			gone = true
			_ = c.UnderlyingConn().Close()
		case "z":
			gone = true
			_ = c.WriteControl(websocket.CloseMessage, websocket.FormatCloseMessage(websocket.CloseNormalClosure, ""), time.Now().Add(time.Second))
		case "r":
			rec = strings.Join(p[:3], ":") // a re-run is fed the recorded form (with :d / :s)
			tag, _ := strconv.Atoi(p[2])
			s.mu.Lock()
			in := s.insts[tag]
			s.mu.Unlock()
			delivered := false
			if in != nil {
				select {
				case in.cmd <- p[1]:
					delivered = true
				case <-in.fin:
				case <-time.After(50 * q):
				}
			}
			if delivered {
				rec += ":d"
			} else {
				rec += ":s"
			}
		case "sc":
			s.serverCancel()
		case "h":
			s.gate.arm()
		case "u":
			settle(s, q)
			s.gate.open()
		case "it":
			time.Sleep(initTimeout + initTimeout/2 + 2*q)
		case "?":
			settle(s, q)
			snaps = append(snaps, snapshot())
			outToks = append(outToks, "?")
			continue
		}
		if race {
			rec += "~"
		} else {
			settle(s, q)
		}
		outToks = append(outToks, rec)
	}
	// ---- final clean-up: release every operation, drop the client, wait for the transport to wind down
	s.gate.open()
	settle(s, q)
	snaps = append(snaps, snapshot())
	gone = true
	_ = c.UnderlyingConn().Close()
	release := func() {
		s.mu.Lock()
		var live []*inst
		for _, in := range s.insts {
			live = append(live, in)
		}
		s.mu.Unlock()
		for _, in := range live {
			select {
			case in.cmd <- "end":
			case <-in.fin:
			case <-time.After(2 * time.Second):
			}
		}
	}
	release()
	deadline := time.Now().Add(3 * time.Second)
	for {
		s.mu.Lock()
		n := len(s.closes)
		s.mu.Unlock()
		if n > 0 || time.Now().After(deadline) {
			break
		}
		time.Sleep(time.Millisecond)
	}
	settle(s, q)
	<-rdone
	// an operation whose start message the (loaded) server got to only now has not been released yet
	release()
	settle(s, q)
	fin := snapshot()
	s.mu.Lock()
	frames := strings.Join(s.frames, " ")
	s.mu.Unlock()
	if frames == "" {
		frames = "-"
	}
	return strings.Join(outToks, " ") + "\tF " + frames + "\t" + strings.Join(snaps, "\t") + "\tZ " + strings.TrimPrefix(fin, "S ")
}

func main() {
	tier := flag.String("tier", "quick", "quick|thorough")
	seed := flag.Uint64("seed", 1, "seed")
	stdin := flag.Bool("stdin", false, "read scripts from stdin instead of generating them")
	qms := flag.Int("q", 5, "settle quiet period in ms")
	par := flag.Int("par", 24, "scripts run in parallel")
	leak := flag.Bool("leakcheck", true, "count transport goroutines at the end")
	list := flag.Bool("list", false, "print the generated scripts and exit")
	progress := flag.String("progress", "", "file receiving 'B <i>' / 'E <i>' per script: after a crash of the process (an unrecovered panic in a transport goroutine) the scripts in flight are known")
	flag.Parse()
	if *list {
		for _, l := range generate(*tier, *seed) {
			fmt.Println(l)
		}
		return
	}
	var prog *os.File
	var progMu sync.Mutex
	if *progress != "" {
		prog, _ = os.Create(*progress)
	}
	mark := func(k string, i int) {
		if prog != nil {
			progMu.Lock()
			fmt.Fprintf(prog, "%s %d\n", k, i)
			progMu.Unlock()
		}
	}
	var scripts []string
	if *stdin {
		sc := bufio.NewScanner(os.Stdin)
		sc.Buffer(make([]byte, 1<<20), 1<<20)
		for sc.Scan() {
			if l := strings.TrimSpace(sc.Text()); l != "" {
				scripts = append(scripts, l)
			}
		}
	} else {
		scripts = generate(*tier, *seed)
	}
	q := time.Duration(*qms) * time.Millisecond
	res := make([]string, len(scripts))
	sem := make(chan struct{}, *par)
	var wg sync.WaitGroup
	for i := range scripts {
		wg.Add(1)
		sem <- struct{}{}
		go func(i int) {
			defer wg.Done()
			defer func() { <-sem }()
			mark("B", i)
			res[i] = runScript(scripts[i], q)
			mark("E", i)
		}(i)
	}
	wg.Wait()
	w := bufio.NewWriterSize(os.Stdout, 1<<20)
	for _, r := range res {
		fmt.Fprintln(w, r)
	}
	if *leak {
		// liveness observation: after every session was wound down no transport goroutine may remain
		n := 0
		for i := 0; i < 300; i++ {
			if n = transportGoroutines(); n == 0 {
				break
			}
			time.Sleep(10 * time.Millisecond)
		}
		fmt.Fprintf(w, "LEAK\t%d\n", n)
		if n > 0 {
			// which goroutines: their stacks go to stderr (the check puts them into the report)
			buf := make([]byte, 1<<22)
			k := runtime.Stack(buf, true)
			for _, g := range strings.Split(string(buf[:k]), "\n\n") {
				if strings.Contains(g, "transport.(*wsConnection)") {
					fmt.Fprintln(os.Stderr, "LEAKED "+g+"\n")
				}
			}
		}
	}
	w.Flush()
}
