// Package rt is the runtime half of the C20 probe servers: it binds every resolver of a federation server
// generated at check time (stubgen's `Stub`) to a plan-driven reflect stub, runs `_entities` cases through the
// REAL generated executor in-process and prints one JSON line per case with the observable outcome.
//
// Stub behaviour (mirrored by lean/Driver/C20.lean so that the model can be run on the same case):
//   - a single entity resolver Find<T>By<K>(ctx, k0, k1, …) renders its key arguments canonically, looks the
//     renderings up in the plan (first argument that has an entry wins) and obeys the entry:
//     value (default) | nil | error | panic, after sleeping `delay` microseconds. A value is a fresh model struct
//     whose Tag is the call itself, e.g. `FindProductBySkuAndOrgID("s1","o1")` - so the response shows which
//     resolver was called with which keys, i.e. which representation an element was resolved from.
//   - a batch resolver FindMany…(ctx, []*Input) makes one entity per input (Tag = call with that one input),
//     nil for inputs whose plan entry is `nil`; the first entry of kind error/panic fails the whole batch; an
//     entry with `op` reshapes the returned slice (drop:<p>, extra, rev, empty) - the adversarial user code of F20.
//   - explicit_requires populators and computed-requires field resolvers receive the representation; they echo
//     it (canonical rendering) into the response, and fail when the representation itself says so (`_pop`).
package rt

import (
	"bufio"
	"context"
	"encoding/json"
	"errors"
	"flag"
	"fmt"
	"os"
	"reflect"
	"runtime"
	"sort"
	"strconv"
	"strings"
	"sync"
	"time"

	"github.com/99designs/gqlgen/graphql"
	"github.com/99designs/gqlgen/graphql/executor"
	"github.com/vektah/gqlparser/v2/ast"
	"github.com/vektah/gqlparser/v2/gqlerror"
)

type Outcome struct {
	Kind  string `json:"kind,omitempty"`  // "" / value | nil | error | panic
	Msg   string `json:"msg,omitempty"`   // error / panic text
	Delay int    `json:"delay,omitempty"` // microseconds slept before returning
	Op    string `json:"op,omitempty"`    // batch resolvers: drop:<p> | extra | rev | empty
}

type Case struct {
	ID    string             `json:"id"`
	Query string             `json:"query"`
	Reps  json.RawMessage    `json:"reps"`
	Plan  map[string]Outcome `json:"plan"`
	// PresentDelay: microseconds the server's ErrorPresenter takes (a presenter doing synchronous work - logging, an
	// error tracker); it runs inside ec.Error, on the goroutine that resolved the failing representation, so it
	// stretches the time between "resolver returned" and "outcome recorded" - a schedule, not a behaviour
	PresentDelay int `json:"presentDelay,omitempty"`
}

type ErrOut struct {
	Msg  string `json:"msg"`
	Path string `json:"path"`
}

type Result struct {
	ID     string          `json:"id"`
	Data   json.RawMessage `json:"data"`
	Errors []ErrOut        `json:"errors"`
	Calls  []string        `json:"calls"`
	Gate   []ErrOut        `json:"gate,omitempty"`
	Crash  string          `json:"crash,omitempty"`
	Hung   bool            `json:"hung,omitempty"`
}

type state struct {
	plan  map[string]Outcome
	mu    sync.Mutex
	calls []string
}

type stateKey struct{}

func getState(ctx context.Context) *state {
	s, _ := ctx.Value(stateKey{}).(*state)
	return s
}

func (s *state) call(c string) {
	s.mu.Lock()
	s.calls = append(s.calls, c)
	s.mu.Unlock()
}

// ---------------------------------------------------------------------------------- canonical renderings

func quote(s string) string {
	var b strings.Builder
	b.WriteByte('"')
	for i := 0; i < len(s); i++ {
		if s[i] == '"' || s[i] == '\\' {
			b.WriteByte('\\')
		}
		b.WriteByte(s[i])
	}
	b.WriteByte('"')
	return b.String()
}

// RenderKey renders a received key argument: strings quoted, ints decimal, nil pointers `nil`, pointers as
// their target, input structs as {Field:value,…} in declaration order.
func RenderKey(v reflect.Value) string {
	switch v.Kind() {
	case reflect.Ptr, reflect.Interface:
		if v.IsNil() {
			return "nil"
		}
		return RenderKey(v.Elem())
	case reflect.String:
		return quote(v.String())
	case reflect.Int, reflect.Int64, reflect.Int32:
		return strconv.FormatInt(v.Int(), 10)
	case reflect.Bool:
		return strconv.FormatBool(v.Bool())
	case reflect.Struct:
		var parts []string
		for i := 0; i < v.NumField(); i++ {
			parts = append(parts, v.Type().Field(i).Name+":"+RenderKey(v.Field(i)))
		}
		return "{" + strings.Join(parts, ",") + "}"
	default:
		return fmt.Sprintf("?%s", v.Kind())
	}
}

// RenderJSON renders a decoded JSON value (as the server received it) with sorted object keys.
func RenderJSON(v any) string {
	switch x := v.(type) {
	case nil:
		return "null"
	case string:
		return quote(x)
	case json.Number:
		return string(x)
	case bool:
		return strconv.FormatBool(x)
	case map[string]any:
		keys := make([]string, 0, len(x))
		for k := range x {
			keys = append(keys, k)
		}
		sort.Strings(keys)
		var parts []string
		for _, k := range keys {
			parts = append(parts, k+":"+RenderJSON(x[k]))
		}
		return "{" + strings.Join(parts, ",") + "}"
	case []any:
		var parts []string
		for _, e := range x {
			parts = append(parts, RenderJSON(e))
		}
		return "[" + strings.Join(parts, ",") + "]"
	default:
		return fmt.Sprintf("?%T", v)
	}
}

// ---------------------------------------------------------------------------------------------- the stubs

var (
	ctxType = reflect.TypeOf((*context.Context)(nil)).Elem()
	errType = reflect.TypeOf((*error)(nil)).Elem()
)

func errVal(err error) reflect.Value {
	if err == nil {
		return reflect.Zero(errType)
	}
	return reflect.ValueOf(&err).Elem()
}

// newEntity builds a value of the resolver's return element type (T or *T) with Tag (or the carrier field) set and every
// pointer-to-struct field allocated (so that nested @requires assignments have a target).
func newEntity(t reflect.Type, tag string) reflect.Value {
	st := t
	if t.Kind() == reflect.Ptr {
		st = t.Elem()
	}
	pv := reflect.New(st)
	sv := pv.Elem()
	for i := 0; i < sv.NumField(); i++ {
		f := sv.Field(i)
		if f.Kind() == reflect.Ptr && f.Type().Elem().Kind() == reflect.Struct {
			f.Set(reflect.New(f.Type().Elem()))
		}
	}
	if f := sv.FieldByName("Tag"); f.IsValid() && f.Kind() == reflect.String {
		f.SetString(tag)
	} else {
		// a type without `tag` (key-only entities): the call goes into its first ID/String field (config.go: Carrier)
		for i := 0; i < sv.NumField(); i++ {
			f := sv.Field(i)
			if f.Kind() == reflect.String {
				f.SetString(tag)
				break
			}
			if f.Kind() == reflect.Ptr && f.Type().Elem().Kind() == reflect.String {
				p := reflect.New(f.Type().Elem())
				p.Elem().SetString(tag)
				f.Set(p)
				break
			}
		}
	}
	if t.Kind() == reflect.Ptr {
		return pv
	}
	return sv
}

func lookup(plan map[string]Outcome, keys []string) Outcome {
	for _, k := range keys {
		if o, ok := plan[k]; ok {
			return o
		}
	}
	return Outcome{}
}

func sleepUs(us int) {
	if us > 0 {
		time.Sleep(time.Duration(us) * time.Microsecond)
	}
}

func single(ft reflect.Type, name string, args []reflect.Value) []reflect.Value {
	ctx := args[0].Interface().(context.Context)
	s := getState(ctx)
	var keys []string
	for _, a := range args[1:] {
		keys = append(keys, RenderKey(a))
	}
	call := name + "(" + strings.Join(keys, ",") + ")"
	s.call(call)
	o := lookup(s.plan, keys)
	sleepUs(o.Delay)
	rt := ft.Out(0)
	switch o.Kind {
	case "error":
		return []reflect.Value{reflect.Zero(rt), errVal(errors.New(o.Msg))}
	case "panic":
		panic(o.Msg)
	case "nil":
		if rt.Kind() == reflect.Ptr {
			return []reflect.Value{reflect.Zero(rt), errVal(nil)}
		}
	}
	return []reflect.Value{newEntity(rt, call), errVal(nil)}
}

func multi(ft reflect.Type, name string, args []reflect.Value) []reflect.Value {
	ctx := args[0].Interface().(context.Context)
	s := getState(ctx)
	in := args[1]
	rt := ft.Out(0) // []*T or []T
	et := rt.Elem()
	var rendered []string
	out := reflect.MakeSlice(rt, 0, in.Len())
	var batch *Outcome
	op := ""
	delay := 0
	for i := 0; i < in.Len(); i++ {
		e := in.Index(i)
		r := RenderKey(e)
		rendered = append(rendered, r)
		var keys []string
		ev := e
		for ev.Kind() == reflect.Ptr && !ev.IsNil() {
			ev = ev.Elem()
		}
		if ev.Kind() == reflect.Struct {
			for j := 0; j < ev.NumField(); j++ {
				keys = append(keys, RenderKey(ev.Field(j)))
			}
		}
		o := lookup(s.plan, keys)
		delay += o.Delay
		if (o.Kind == "error" || o.Kind == "panic") && batch == nil {
			oc := o
			batch = &oc
		}
		if o.Op != "" && op == "" {
			op = o.Op
		}
		if o.Kind == "nil" && et.Kind() == reflect.Ptr {
			out = reflect.Append(out, reflect.Zero(et))
		} else {
			out = reflect.Append(out, newEntity(et, name+"("+r+")"))
		}
	}
	s.call(name + "([" + strings.Join(rendered, ",") + "])")
	sleepUs(delay)
	if batch != nil {
		if batch.Kind == "panic" {
			panic(batch.Msg)
		}
		return []reflect.Value{reflect.Zero(rt), errVal(errors.New(batch.Msg))}
	}
	n := out.Len()
	switch {
	case strings.HasPrefix(op, "drop:"):
		p, _ := strconv.Atoi(op[5:])
		if n > 0 {
			p %= n
			out = reflect.AppendSlice(out.Slice(0, p), out.Slice(p+1, n))
		}
	case op == "extra":
		out = reflect.Append(out, newEntity(et, name+"(extra)"))
	case op == "rev":
		for i, j := 0, n-1; i < j; i, j = i+1, j-1 {
			a, b := out.Index(i).Interface(), out.Index(j).Interface()
			out.Index(i).Set(reflect.ValueOf(b))
			out.Index(j).Set(reflect.ValueOf(a))
		}
	case op == "empty":
		out = reflect.MakeSlice(rt, 0, 0)
	}
	return []reflect.Value{out, errVal(nil)}
}

// popFault reads the fault a representation asks its own requires handling to take: "_pop": "error:<m>" | "panic:<m>"
func popFault(rep map[string]any) (kind, msg string) {
	v, _ := rep["_pop"].(string)
	if i := strings.IndexByte(v, ':'); i > 0 {
		return v[:i], v[i+1:]
	}
	return "", ""
}

// field is the stub of every non-entity resolver (computed_requires turns @requires fields into resolvers
// that receive the representation as their last argument).
func field(ft reflect.Type, obj, name string, args []reflect.Value) []reflect.Value {
	ctx := args[0].Interface().(context.Context)
	s := getState(ctx)
	rt := ft.Out(0)
	zero := []reflect.Value{reflect.Zero(rt), errVal(nil)}
	if len(args) < 3 || args[len(args)-1].Kind() != reflect.Map {
		return zero
	}
	tag := "?"
	if o := args[1]; o.Kind() == reflect.Ptr && !o.IsNil() {
		if f := o.Elem().FieldByName("Tag"); f.IsValid() {
			tag = f.String()
		}
	}
	rep, _ := args[len(args)-1].Interface().(map[string]any)
	text := strings.ToLower(name[:1]) + name[1:] + "(" + tag + "|" + RenderJSON(anyMap(rep)) + ")"
	s.call(obj + "." + text)
	switch k, m := popFault(rep); k {
	case "error":
		return []reflect.Value{reflect.Zero(rt), errVal(errors.New(m))}
	case "panic":
		panic(m)
	}
	switch {
	case rt.Kind() == reflect.String:
		return []reflect.Value{reflect.ValueOf(text).Convert(rt), errVal(nil)}
	case rt.Kind() == reflect.Ptr && rt.Elem().Kind() == reflect.String:
		p := reflect.New(rt.Elem())
		p.Elem().SetString(text)
		return []reflect.Value{p, errVal(nil)}
	}
	return zero
}

func anyMap(m map[string]any) any {
	if m == nil {
		return nil
	}
	return m
}

// Populate is the body of every explicit_requires populator of the probe.
func Populate(ctx context.Context, entity any, reps map[string]any, name string) error {
	s := getState(ctx)
	ev := reflect.ValueOf(entity)
	tag := "nil"
	if ev.Kind() == reflect.Ptr && !ev.IsNil() {
		if f := ev.Elem().FieldByName("Tag"); f.IsValid() {
			tag = f.String()
		}
	}
	echo := RenderJSON(anyMap(reps))
	s.call(name + "(" + tag + "|" + echo + ")")
	switch k, m := popFault(reps); k {
	case "error":
		return errors.New(m)
	case "panic":
		panic(m)
	}
	if ev.Kind() == reflect.Ptr && !ev.IsNil() {
		if f := ev.Elem().FieldByName("ReqEcho"); f.IsValid() && f.Kind() == reflect.Ptr {
			p := reflect.New(f.Type().Elem())
			p.Elem().SetString(echo)
			f.Set(p)
		}
	}
	return nil
}

// Bind fills every func-typed field of stubgen's Stub.
func Bind(stub any) {
	sv := reflect.ValueOf(stub).Elem()
	for i := 0; i < sv.NumField(); i++ {
		rs := sv.Field(i)
		if rs.Kind() != reflect.Struct {
			continue
		}
		obj := strings.TrimSuffix(sv.Type().Field(i).Name, "Resolver")
		for j := 0; j < rs.NumField(); j++ {
			f := rs.Field(j)
			if f.Kind() != reflect.Func {
				continue
			}
			ft := f.Type()
			name := rs.Type().Field(j).Name
			switch {
			case obj == "Entity" && strings.HasPrefix(name, "FindMany"):
				f.Set(reflect.MakeFunc(ft, func(a []reflect.Value) []reflect.Value { return multi(ft, name, a) }))
			case obj == "Entity":
				f.Set(reflect.MakeFunc(ft, func(a []reflect.Value) []reflect.Value { return single(ft, name, a) }))
			default:
				f.Set(reflect.MakeFunc(ft, func(a []reflect.Value) []reflect.Value { return field(ft, obj, name, a) }))
			}
		}
	}
}

// ------------------------------------------------------------------------------------------ running cases

func pathString(p ast.Path) string {
	var parts []string
	for _, e := range p {
		switch x := e.(type) {
		case ast.PathName:
			parts = append(parts, string(x))
		case ast.PathIndex:
			parts = append(parts, strconv.Itoa(int(x)))
		}
	}
	return strings.Join(parts, "/")
}

func errsOut(l gqlerror.List) []ErrOut {
	out := []ErrOut{}
	for _, e := range l {
		out = append(out, ErrOut{Msg: e.Message, Path: pathString(e.Path)})
	}
	sort.Slice(out, func(i, j int) bool {
		if out[i].Path != out[j].Path {
			return out[i].Path < out[j].Path
		}
		return out[i].Msg < out[j].Msg
	})
	return out
}

// panicText classifies a recovered value: user panics keep their text, runtime errors are reduced to a class.
func panicText(r any) string {
	if re, ok := r.(runtime.Error); ok {
		m := re.Error()
		switch {
		case strings.Contains(m, "interface conversion"):
			return "panic: type assertion"
		case strings.Contains(m, "index out of range"):
			return "panic: index out of range"
		case strings.Contains(m, "nil pointer dereference"):
			return "panic: nil dereference"
		}
		return "panic: runtime: " + m
	}
	return "panic: " + fmt.Sprint(r)
}

func RunCase(es graphql.ExecutableSchema, c Case) Result {
	st := &state{plan: c.Plan}
	res := Result{ID: c.ID, Errors: []ErrOut{}, Calls: []string{}}
	ex := executor.New(es)
	ex.SetRecoverFunc(func(ctx context.Context, err any) error { return errors.New(panicText(err)) })
	if c.PresentDelay > 0 {
		ex.SetErrorPresenter(func(ctx context.Context, err error) *gqlerror.Error {
			sleepUs(c.PresentDelay)
			return graphql.DefaultErrorPresenter(ctx, err)
		})
	}
	var vars map[string]any
	dec := json.NewDecoder(strings.NewReader(`{"r":` + string(c.Reps) + `}`))
	dec.UseNumber()
	if err := dec.Decode(&vars); err != nil {
		res.Crash = "bad case: " + err.Error()
		return res
	}
	ctx := context.WithValue(graphql.StartOperationTrace(context.Background()), stateKey{}, st)
	done := make(chan struct{})
	go func() {
		defer close(done)
		defer func() {
			if r := recover(); r != nil {
				res.Crash = fmt.Sprint(r)
			}
		}()
		rc, errs := ex.CreateOperationContext(ctx, &graphql.RawParams{Query: c.Query, Variables: vars})
		if errs != nil {
			res.Gate = errsOut(errs)
			return
		}
		handler, hctx := ex.DispatchOperation(ctx, rc)
		resp := handler(hctx)
		if resp != nil {
			res.Data = resp.Data
			res.Errors = errsOut(resp.Errors)
		}
	}()
	select {
	case <-done:
	case <-time.After(5 * time.Second):
		res.Hung = true
		return res
	}
	st.mu.Lock()
	res.Calls = append(res.Calls, st.calls...)
	st.mu.Unlock()
	sort.Strings(res.Calls)
	if len(res.Data) == 0 {
		res.Data = json.RawMessage("null")
	}
	return res
}

// Main reads one case per line from stdin and writes one result per line.
func Main(stub any, es graphql.ExecutableSchema) {
	flag.Parse()
	Bind(stub)
	out := bufio.NewWriterSize(os.Stdout, 1<<20)
	defer out.Flush()
	enc := json.NewEncoder(out)
	enc.SetEscapeHTML(false)
	sc := bufio.NewScanner(os.Stdin)
	sc.Buffer(make([]byte, 1<<20), 1<<26)
	hung := 0
	for sc.Scan() {
		line := strings.TrimSpace(sc.Text())
		if line == "" {
			continue
		}
		var c Case
		if err := json.Unmarshal([]byte(line), &c); err != nil {
			enc.Encode(Result{Crash: "bad case line: " + err.Error()})
			continue
		}
		r := RunCase(es, c)
		enc.Encode(r)
		if r.Hung {
			// an `_entities` that never answers: a few witnesses are enough, the check reports them
			hung++
			if hung >= 3 {
				out.Flush()
				return
			}
		}
	}
}
