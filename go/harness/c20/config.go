package main

// The entity table of a probe schema, derived here from the schema TEXT (gqlparser's parser only, no
// validation, own field-set parser) - independently of plugin/federation's buildEntities/fieldset.New - so
// that the Lean model is configured by what the schema says, not by what the plugin computed from it.
// Only Go identifier casing (templates.ToGo) is taken from /repo: naming is C17's subject, not C20's.

import (
	"encoding/json"
	"fmt"
	"os"
	"sort"
	"strings"

	"github.com/99designs/gqlgen/codegen/templates"
	"github.com/vektah/gqlparser/v2/ast"
	"github.com/vektah/gqlparser/v2/parser"
)

type KeyFieldJ struct {
	Path    []string `json:"path"`
	Type    string   `json:"type"`    // GraphQL type of the last path segment, e.g. "ID!", "Int"
	DefName string   `json:"defName"` // lowerCamel joined name (the name used in the multi path's error text)
	GoField string   `json:"goField"` // field of the batch resolver's input struct
}

type ResolverJ struct {
	Name   string      `json:"name"`   // findProductBySkuAndOrgID
	GoName string      `json:"goName"` // FindProductBySkuAndOrgID (the Stub field / interface method)
	Keys   []KeyFieldJ `json:"keys"`
}

type EntityJ struct {
	Name      string      `json:"name"`
	Multi     bool        `json:"multi"`
	Resolvers []ResolverJ `json:"resolvers"` // empty: entity without resolver (all fields external)
	Requires  []KeyFieldJ `json:"requires"`  // @requires field-set paths, in field order
	ReqFields []string    `json:"reqFields"` // names of the fields carrying @requires (computed_requires resolvers)
	Fields    []string    `json:"fields"`    // all field names, schema order
	// Carrier is the response field that shows which call an element was resolved by: `tag` when the type has
	// one, else (key-only entities) its first ID/String field - the stubs write the call there, the query selects it
	Carrier string `json:"carrier"`
}

type ConfigJ struct {
	Variant  string    `json:"variant"`
	Version  int       `json:"version"`
	Explicit bool      `json:"explicit"`
	Computed bool      `json:"computed"`
	NoPtr    bool      `json:"noptr"`
	Entities []EntityJ `json:"entities"`
	Query    string    `json:"query"`
}

// parseFieldSet: names separated by blanks, `name { … }` nests. Returns the leaf paths in order.
func parseFieldSet(raw string) [][]string {
	var toks []string
	cur := ""
	flush := func() {
		if cur != "" {
			toks = append(toks, cur)
			cur = ""
		}
	}
	for _, c := range raw {
		switch c {
		case ' ', '\t', '\n', '\r', ',':
			flush()
		case '{', '}':
			flush()
			toks = append(toks, string(c))
		default:
			cur += string(c)
		}
	}
	flush()
	var out [][]string
	var walk func(prefix []string)
	i := 0
	walk = func(prefix []string) {
		for i < len(toks) {
			t := toks[i]
			if t == "}" {
				i++
				return
			}
			i++
			p := append(append([]string{}, prefix...), t)
			if i < len(toks) && toks[i] == "{" {
				i++
				walk(p)
			} else {
				out = append(out, p)
			}
		}
	}
	walk(nil)
	return out
}

func dirArg(d *ast.Directive, name string) *ast.Argument {
	for _, a := range d.Arguments {
		if a.Name == name {
			return a
		}
	}
	return nil
}

func probeSrc(v Variant, probes string) string {
	src, err := os.ReadFile(v.schemaFile(probes))
	if err != nil {
		die(err)
	}
	// + the enumerated key-shape types (shapes.go)
	return string(src) + shapeSchema()
}

func buildConfig(v Variant, probes string) ConfigJ {
	return buildConfigSrc(v, probeSrc(v, probes))
}

// buildConfigSrc derives the entity table of variant v from the schema text src.
func buildConfigSrc(v Variant, src string) ConfigJ {
	doc, perr := parser.ParseSchema(&ast.Source{Name: "schema.graphql", Input: src})
	if perr != nil {
		die(perr)
	}
	types := map[string]*ast.Definition{}
	for _, d := range doc.Definitions {
		types[d.Name] = d
	}
	leaf := func(def *ast.Definition, path []string) *ast.FieldDefinition {
		var f *ast.FieldDefinition
		cur := def
		for _, seg := range path {
			if cur == nil {
				die(fmt.Errorf("bad field path %v on %s", path, def.Name))
			}
			f = cur.Fields.ForName(seg)
			if f == nil {
				die(fmt.Errorf("no field %s on %s (path %v)", seg, cur.Name, path))
			}
			cur = types[f.Type.Name()]
		}
		return f
	}
	goField := func(path []string) string {
		s := ""
		for _, p := range path {
			s += templates.ToGo(p)
		}
		return s
	}
	defName := func(path []string) string {
		s := ""
		for i, p := range path {
			if i == 0 {
				s += templates.ToGoPrivate(p)
			} else {
				s += templates.ToGo(p)
			}
		}
		return s
	}
	cfg := ConfigJ{Variant: v.Name, Version: v.Version, Explicit: v.Explicit, Computed: v.Computed, NoPtr: v.NoPtr, Entities: []EntityJ{}}
	for _, def := range doc.Definitions {
		if def.Kind != ast.Object {
			continue
		}
		var keys []*ast.Directive
		for _, d := range def.Directives {
			if d.Name == "key" {
				keys = append(keys, d)
			}
		}
		if len(keys) == 0 {
			continue
		}
		e := EntityJ{Name: def.Name, Resolvers: []ResolverJ{}, Requires: []KeyFieldJ{}, ReqFields: []string{}}
		if er := def.Directives.ForName("entityResolver"); er != nil {
			if a := dirArg(er, "multi"); a != nil && a.Value.Raw == "true" {
				e.Multi = true
			}
		}
		for _, f := range def.Fields {
			e.Fields = append(e.Fields, f.Name)
		}
		if def.Fields.ForName("tag") != nil {
			e.Carrier = "tag"
		} else {
			for _, f := range def.Fields {
				if n := f.Type.Name(); f.Type.Elem == nil && (n == "ID" || n == "String") {
					e.Carrier = f.Name
					break
				}
			}
		}
		// does the entity get resolvers? (not when every field is external, explicitly or - federation 2,
		// first key non-resolvable - implicitly because it is a field of the first key)
		resolvable := true
		if a := dirArg(keys[0], "resolvable"); a != nil && a.Value.Raw == "false" {
			resolvable = false
		}
		firstKey := map[string]bool{}
		for _, p := range parseFieldSet(dirArg(keys[0], "fields").Value.Raw) {
			firstKey[p[0]] = true
		}
		allExternal := true
		for _, f := range def.Fields {
			implicit := v.Version == 2 && !resolvable && firstKey[f.Name]
			if !implicit && f.Directives.ForName("external") == nil {
				allExternal = false
			}
		}
		if !allExternal {
			for _, k := range keys {
				paths := parseFieldSet(dirArg(k, "fields").Value.Raw)
				r := ResolverJ{}
				var goParts []string
				for _, p := range paths {
					fd := leaf(def, p)
					r.Keys = append(r.Keys, KeyFieldJ{Path: p, Type: fd.Type.String(), DefName: defName(p), GoField: goField(p)})
					g := ""
					for _, seg := range p {
						g += templates.ToGo(seg)
					}
					goParts = append(goParts, g)
				}
				base := def.Name + "By" + strings.Join(goParts, "And")
				if e.Multi {
					r.Name = "findMany" + base + "s"
				} else {
					r.Name = "find" + base
				}
				r.GoName = templates.ToGo(r.Name)
				e.Resolvers = append(e.Resolvers, r)
			}
			for _, f := range def.Fields {
				rd := f.Directives.ForName("requires")
				if rd == nil {
					continue
				}
				e.ReqFields = append(e.ReqFields, f.Name)
				for _, p := range parseFieldSet(dirArg(rd, "fields").Value.Raw) {
					fd := leaf(def, p)
					e.Requires = append(e.Requires, KeyFieldJ{Path: p, Type: fd.Type.String(), DefName: defName(p), GoField: goField(p)})
				}
			}
		}
		cfg.Entities = append(cfg.Entities, e)
	}
	sort.Slice(cfg.Entities, func(i, j int) bool { return cfg.Entities[i].Name < cfg.Entities[j].Name })
	cfg.Query = buildQuery(cfg, types)
	return cfg
}

// buildQuery selects, per entity type, everything the model predicts: tag, reqEcho, the @requires source
// fields (as nested selections) and the fields carrying @requires.
func buildQuery(cfg ConfigJ, types map[string]*ast.Definition) string {
	var b strings.Builder
	b.WriteString("query($r: [_Any!]!) { _entities(representations: $r) { __typename")
	for _, e := range cfg.Entities {
		def := types[e.Name]
		var sels []string
		has := func(n string) bool { return def.Fields.ForName(n) != nil }
		if len(e.Resolvers) == 0 {
			// never resolved; select a key field so the fragment is not empty
			sels = append(sels, def.Fields[0].Name)
		} else {
			if has("tag") {
				sels = append(sels, "tag")
			} else if e.Carrier != "" {
				sels = append(sels, e.Carrier)
			}
			if has("reqEcho") {
				sels = append(sels, "reqEcho")
			}
			seen := map[string]bool{}
			for _, r := range e.Requires {
				// paths of length 1 or 2 only in the probe
				if len(r.Path) == 1 {
					sels = append(sels, r.Path[0])
				} else if !seen[r.Path[0]] {
					seen[r.Path[0]] = true
					var inner []string
					for _, r2 := range e.Requires {
						if len(r2.Path) == 2 && r2.Path[0] == r.Path[0] {
							inner = append(inner, r2.Path[1])
						}
					}
					sels = append(sels, r.Path[0]+" { "+strings.Join(inner, " ")+" }")
				}
			}
			sels = append(sels, e.ReqFields...)
		}
		fmt.Fprintf(&b, " ... on %s { %s }", e.Name, strings.Join(sels, " "))
	}
	b.WriteString(" } }")
	return b.String()
}

func printConfig(v Variant, probes string) {
	enc := json.NewEncoder(os.Stdout)
	enc.SetEscapeHTML(false)
	enc.Encode(buildConfig(v, probes))
}
