// Command c20 is the harness of property C20 (federation `_entities` answers each representation at its own
// index). Modes:
//
//	-mode gen      -variant V -dir D   generate the federation probe server of variant V from /repo's CURRENT
//	                                   templates into D (see gen.go); D/cmd is the runner (package rt) that runs
//	                                   the REAL generated executor in-process, one case per stdin line
//	-mode config   -variant V          print the entity table of the probe schema (types, @key resolvers in
//	                                   directive order with key-field paths and types, multi, @requires fields),
//	                                   derived from the schema text independently of plugin/federation's own
//	                                   computation; it is the configuration the Lean model runs with
//	-mode cases    -variant V -seed S -tier T    print the generated cases (JSON lines) for the runner and the driver
//	-mode table    -seed S -tier T     run the REAL plugin (federation.New … InjectSourcesLate, fieldset.New) in-process: entity tables, field sets
//	-mode variants -tier T             list the variants of the tier
package main

import (
	"flag"
	"fmt"
	"os"
	"path/filepath"
)

func main() {
	mode := flag.String("mode", "", "gen | config | cases | table | variants")
	variant := flag.String("variant", "v2def", "")
	dir := flag.String("dir", "", "output package directory (gen)")
	probes := flag.String("probes", "probes/c20", "probe schema directory")
	seed := flag.Uint64("seed", 1, "")
	tier := flag.String("tier", "quick", "")
	flag.Parse()
	pabs, _ := filepath.Abs(*probes)
	switch *mode {
	case "gen":
		generate(variantByName(*variant), pabs, *dir)
	case "config":
		printConfig(variantByName(*variant), pabs)
	case "cases":
		printCases(variantByName(*variant), pabs, *seed, *tier)
	case "table":
		runTable(pabs, *seed, *tier)
	case "variants":
		n := 5
		if *tier == "thorough" {
			n = len(variants)
		}
		for _, v := range variants[:n] {
			fmt.Println(v.Name)
		}
	default:
		fmt.Fprintln(os.Stderr, "c20: unknown mode")
		os.Exit(2)
	}
}
