package main

// Case generation for the `_entities` probe: seeded, structured, mostly valid representation lists plus a
// malformed stream and directed adversarial shapes (see the class labels). One PRNG (internal/rng).

import (
	"bytes"
	"encoding/json"
	"fmt"
	"os"
	"strconv"

	"verifharness/harness/c20/rt"
	"verifharness/internal/rng"
)

type IsoRef struct {
	Base string `json:"base"` // id of the fault-free case of the family
	J    int    `json:"j"`    // index of the representation whose resolution is made to fail
}

type CaseJ struct {
	ID    string                `json:"id"`
	Class []string              `json:"class"`
	Query string                `json:"query"`
	Reps  []map[string]any      `json:"reps"`
	Plan  map[string]rt.Outcome `json:"plan"`
	Iso   *IsoRef               `json:"iso,omitempty"`
	// microseconds the error presenter sleeps (see rt.Case.PresentDelay); the model has no notion of it: the result
	// must not depend on it
	PresentDelay int `json:"presentDelay,omitempty"`
}

type gen struct {
	r      *rng.R
	cfg    ConfigJ
	serial int
}

func (g *gen) entity(name string) EntityJ {
	for _, e := range g.cfg.Entities {
		if e.Name == name {
			return e
		}
	}
	panic("no entity " + name)
}

func (g *gen) entityOf(m map[string]any) (EntityJ, bool) {
	tn, _ := m["__typename"].(string)
	for _, e := range g.cfg.Entities {
		if e.Name == tn {
			return e, true
		}
	}
	return EntityJ{}, false
}

func (g *gen) next() int { g.serial++; return g.serial }

// keyValue returns a JSON value for a key field of GraphQL type t carrying serial n, and the marker under
// which the stub will look the call up in the plan (the canonical rendering of the unmarshalled argument).
func (g *gen) keyValue(t string, n int, odd bool) (any, string) {
	switch t {
	case "Int!", "Int":
		if odd && g.r.Below(3) == 0 {
			return strconv.Itoa(n), strconv.Itoa(n) // numeric string, unmarshals to the same int
		}
		return n, strconv.Itoa(n)
	default:
		if odd && t != "String" {
			switch g.r.Below(4) {
			case 0:
				return n, strconv.Quote(strconv.Itoa(n)) // number where a string is expected: ID/String accept it
			case 1:
				return n%2 == 0, strconv.Quote(strconv.FormatBool(n%2 == 0))
			}
		}
		s := "k" + strconv.Itoa(n)
		return s, strconv.Quote(s)
	}
}

func setPath(m map[string]any, path []string, v any) {
	for i, seg := range path {
		if i == len(path)-1 {
			m[seg] = v
			return
		}
		sub, ok := m[seg].(map[string]any)
		if !ok {
			sub = map[string]any{}
			m[seg] = sub
		}
		m = sub
	}
}

// rep builds a valid representation of entity e for its resolver number ri; returns the markers of its keys.
func (g *gen) rep(e EntityJ, ri int, odd bool) (map[string]any, []string) {
	m := map[string]any{"__typename": e.Name}
	var markers []string
	if len(e.Resolvers) == 0 {
		m["id"] = "x" + strconv.Itoa(g.next())
		return m, nil
	}
	n := g.next()
	for _, k := range e.Resolvers[ri%len(e.Resolvers)].Keys {
		v, mk := g.keyValue(k.Type, n, odd)
		setPath(m, k.Path, v)
		markers = append(markers, mk)
	}
	g.requires(e, m, 0)
	return m, markers
}

// requires fills the @requires source fields; bad = per-mille chance of a malformed one
func (g *gen) requires(e EntityJ, m map[string]any, bad int) {
	for _, rq := range e.Requires {
		roll := g.r.Below(1000)
		switch {
		case roll < bad/2:
			// the parent of a nested path is not an object / a scalar has the wrong shape
			if len(rq.Path) > 1 {
				m[rq.Path[0]] = g.r.Below(9)
			} else {
				setPath(m, rq.Path, map[string]any{"x": 1})
			}
		case roll < bad:
			if rq.Type == "Int" || rq.Type == "Int!" {
				setPath(m, rq.Path, "zz")
			} else {
				setPath(m, rq.Path, []any{1})
			}
		case roll < bad+120 && len(rq.Path) == 1:
			// left out: reads as nil
		case roll < bad+200:
			setPath(m, rq.Path, nil)
		default:
			if rq.Type == "Int" || rq.Type == "Int!" {
				setPath(m, rq.Path, g.r.Below(50))
			} else {
				setPath(m, rq.Path, "r"+strconv.Itoa(g.r.Below(50)))
			}
		}
	}
}

// mutate damages a representation in one of the ways the property lists
func (g *gen) mutate(e EntityJ, m map[string]any) string {
	var keyPaths [][]string
	for _, r := range e.Resolvers {
		for _, k := range r.Keys {
			keyPaths = append(keyPaths, k.Path)
		}
	}
	pick := func() []string { return keyPaths[g.r.Below(len(keyPaths))] }
	switch g.r.Below(12) {
	case 0:
		delete(m, "__typename")
		return "no-typename"
	case 1:
		m["__typename"] = []any{5, nil, true, map[string]any{}}[g.r.Below(4)]
		return "typename-not-string"
	case 2:
		m["__typename"] = []string{"Nope", "Org", "Query", "_Entity", ""}[g.r.Below(5)]
		return "unknown-type"
	case 3:
		if len(keyPaths) > 0 {
			p := pick()
			delete(m, p[0])
			return "key-missing"
		}
	case 4:
		if len(keyPaths) > 0 {
			setPath(m, pick(), nil)
			return "key-null"
		}
	case 5:
		if len(keyPaths) > 0 {
			p := pick()
			if len(p) > 1 {
				m[p[0]] = []any{"str", 7, nil, []any{}}[g.r.Below(4)]
				return "nested-key-not-map"
			}
			setPath(m, p, map[string]any{"x": 1})
			return "key-is-object"
		}
	case 6:
		if len(keyPaths) > 0 {
			setPath(m, pick(), []any{1, 2})
			return "key-is-array"
		}
	case 7:
		// several keys present at once: add the fields of every resolver
		n := g.next()
		for _, r := range e.Resolvers {
			for _, k := range r.Keys {
				v, _ := g.keyValue(k.Type, n, false)
				if _, ok := m[k.Path[0]]; !ok {
					setPath(m, k.Path, v)
				}
			}
		}
		return "several-keys"
	case 8:
		for _, r := range e.Resolvers {
			for _, k := range r.Keys {
				if k.Type == "Int!" {
					if _, ok := m[k.Path[0]]; ok {
						setPath(m, k.Path, []any{"abc", true, "x9"}[g.r.Below(3)])
						return "int-key-bad"
					}
				}
			}
		}
	case 9:
		g.requires(e, m, 700)
		return "requires-bad"
	case 10:
		if len(e.Requires) > 0 {
			m["_pop"] = []string{"error:popE", "panic:popP"}[g.r.Below(2)] + strconv.Itoa(g.next())
			return "requires-handler-fault"
		}
	case 11:
		// all keys null
		for _, p := range keyPaths {
			if _, ok := m[p[0]]; ok {
				setPath(m, p, nil)
			}
		}
		return "all-keys-null"
	}
	return ""
}

func (g *gen) fault(n int) rt.Outcome {
	switch g.r.Below(3) {
	case 0:
		return rt.Outcome{Kind: "error", Msg: "E" + strconv.Itoa(n)}
	case 1:
		return rt.Outcome{Kind: "panic", Msg: "P" + strconv.Itoa(n)}
	default:
		return rt.Outcome{Kind: "nil"}
	}
}

// the entity types of the probe schema, by dispatch mode (filled from the configuration by setTypes): every
// entity type the schema declares takes part in every generator - which of them HAVE a resolver is a fact of
// the schema (key-only entities, `resolvable:`, @external), not something a generator may assume
var allTypes, singleTypes, multiTypes []string

func setTypes(cfg ConfigJ) {
	allTypes, singleTypes, multiTypes = nil, nil, nil
	for _, e := range cfg.Entities {
		allTypes = append(allTypes, e.Name)
		switch {
		case len(e.Resolvers) == 0:
		case e.Multi:
			multiTypes = append(multiTypes, e.Name)
		default:
			singleTypes = append(singleTypes, e.Name)
		}
	}
}

type built struct {
	reps    []map[string]any
	markers [][]string
	classes map[string]bool
}

// list builds n representations drawn from `types`; mut = per-mille of damaged ones
func (g *gen) list(n int, types []string, mut int, sameKeyPerType bool) built {
	b := built{classes: map[string]bool{}}
	keyOf := map[string]int{}
	if g.r.Bool() {
		// half of the lists over the hand-written probe types only (several keys, flat + nested @requires, nullable
		// keys, key-only types): the enumerated key-shape types (shapes.go) are many and must not thin them out
		var core []string
		for _, t := range types {
			if !isShapeType(t) {
				core = append(core, t)
			}
		}
		if len(core) > 0 {
			types = core
		}
	}
	if len(types) > 6 && g.r.Below(3) != 0 {
		// a few types per list: the schema has many entity types, a group should still have several members
		sub := make([]string, 0, 5)
		for k := 2 + g.r.Below(4); k > 0; k-- {
			sub = append(sub, types[g.r.Below(len(types))])
		}
		types = sub
	}
	for i := 0; i < n; i++ {
		e := g.entity(types[g.r.Below(len(types))])
		ri := 0
		if len(e.Resolvers) > 0 {
			ri = g.r.Below(len(e.Resolvers))
		}
		if sameKeyPerType {
			if k, ok := keyOf[e.Name]; ok {
				ri = k
			} else {
				keyOf[e.Name] = ri
			}
		}
		m, mk := g.rep(e, ri, g.r.Below(6) == 0)
		if g.r.Below(1000) < mut {
			if c := g.mutate(e, m); c != "" {
				b.classes[c] = true
			}
		}
		b.reps = append(b.reps, m)
		b.markers = append(b.markers, mk)
	}
	return b
}

// isShapeType: an entity type enumerated by shapes.go
func isShapeType(t string) bool {
	for _, sp := range shapeSpecs() {
		if sp.Name == t {
			return true
		}
	}
	return false
}

// ensureMaps makes m[path[0]][path[1]]… objects (keeping the ones that are there)
func ensureMaps(m map[string]any, path []string) {
	for _, seg := range path {
		sub, ok := m[seg].(map[string]any)
		if !ok {
			sub = map[string]any{}
			m[seg] = sub
		}
		m = sub
	}
}

func gcd(a, b int) int {
	for b != 0 {
		a, b = b, a%b
	}
	return a
}

// stateCap bounds the key-state product of one entity type (set from the tier)
var stateCap = 240

func copyRep(m map[string]any) map[string]any {
	b, _ := json.Marshal(m)
	var out map[string]any
	d := json.NewDecoder(bytes.NewReader(b))
	d.UseNumber()
	d.Decode(&out)
	return out
}

func classList(m map[string]bool, extra ...string) []string {
	out := append([]string{}, extra...)
	for _, c := range []string{"no-typename", "typename-not-string", "unknown-type", "key-missing", "key-null",
		"nested-key-not-map", "key-is-object", "key-is-array", "several-keys", "int-key-bad", "requires-bad",
		"requires-handler-fault", "all-keys-null"} {
		if m[c] {
			out = append(out, c)
		}
	}
	return out
}

func printCases(v Variant, probes string, seed uint64, tier string) {
	cfg := buildConfig(v, probes)
	setTypes(cfg)
	g := &gen{r: rng.New(seed ^ 0xC20C20), cfg: cfg}
	enc := json.NewEncoder(os.Stdout)
	enc.SetEscapeHTML(false)
	scale := 1
	if tier == "thorough" {
		scale = 8
		stateCap = 2400
	}
	emit := func(c CaseJ) {
		c.Query = cfg.Query
		if c.Plan == nil {
			c.Plan = map[string]rt.Outcome{}
		}
		if c.Reps == nil {
			c.Reps = []map[string]any{}
		}
		enc.Encode(c)
	}
	id := 0
	nid := func(p string) string { id++; return fmt.Sprintf("%s-%s%d", v.Name, p, id) }

	// 0. fixed directed cases
	emit(CaseJ{ID: nid("empty"), Class: []string{"empty-list"}})
	for _, t := range allTypes {
		m, _ := g.rep(g.entity(t), 0, false)
		emit(CaseJ{ID: nid("one"), Class: []string{"one:" + t}, Reps: []map[string]any{m}})
	}

	// 1. random mixed lists, interleaved types, moderate damage, random faults and delays
	for i := 0; i < 120*scale; i++ {
		n := g.r.Below(13)
		b := g.list(n, allTypes, 250, g.r.Bool())
		plan := map[string]rt.Outcome{}
		classes := []string{"mixed"}
		for j, mk := range b.markers {
			if len(mk) > 0 && g.r.Below(6) == 0 {
				plan[mk[g.r.Below(len(mk))]] = g.fault(j)
				classes = append(classes, "user-fault")
			}
		}
		if i%5 == 0 {
			for _, mk := range b.markers {
				if len(mk) > 0 {
					o := plan[mk[0]]
					o.Delay = g.r.Below(400)
					plan[mk[0]] = o
				}
			}
			classes = append(classes, "random-delays")
		}
		emit(CaseJ{ID: nid("mix"), Class: classList(b.classes, classes...), Reps: b.reps, Plan: plan})
	}

	// 2. duplicates: the same representation several times, interleaved with others
	for i := 0; i < 25*scale; i++ {
		b := g.list(2+g.r.Below(4), allTypes, 100, true)
		n := len(b.reps)
		for k := 0; k < 1+g.r.Below(5); k++ {
			j := g.r.Below(n)
			b.reps = append(b.reps, copyRep(b.reps[j]))
			b.markers = append(b.markers, b.markers[j])
		}
		// shuffle
		for k := len(b.reps) - 1; k > 0; k-- {
			j := g.r.Below(k + 1)
			b.reps[k], b.reps[j] = b.reps[j], b.reps[k]
			b.markers[k], b.markers[j] = b.markers[j], b.markers[k]
		}
		if len(b.reps) > 12 {
			b.reps, b.markers = b.reps[:12], b.markers[:12]
		}
		plan := map[string]rt.Outcome{}
		if g.r.Below(3) == 0 {
			j := g.r.Below(len(b.reps))
			if len(b.markers[j]) > 0 {
				plan[b.markers[j][0]] = g.fault(j)
			}
		}
		emit(CaseJ{ID: nid("dup"), Class: classList(b.classes, "duplicates"), Reps: b.reps, Plan: plan})
	}

	// 3. isolation families: a fault-free base list and the same list with one representation failing
	for i := 0; i < 12*scale; i++ {
		n := 2 + g.r.Below(7)
		types := allTypes
		if i%2 == 0 {
			types = singleTypes
		}
		b := g.list(n, types, 120, true)
		base := nid("iso")
		emit(CaseJ{ID: base, Class: classList(b.classes, "iso-base"), Reps: b.reps})
		for j := 0; j < n; j++ {
			if len(b.markers[j]) == 0 {
				continue
			}
			for _, kind := range []string{"error", "panic", "nil"} {
				plan := map[string]rt.Outcome{b.markers[j][0]: {Kind: kind, Msg: "F" + strconv.Itoa(j)}}
				emit(CaseJ{ID: fmt.Sprintf("%s-f%d-%s", base, j, kind), Class: []string{"iso-fault", "user-fault"},
					Reps: b.reps, Plan: plan, Iso: &IsoRef{Base: base, J: j}})
			}
			// a fault of the generated code's own making: this representation's requires are malformed
			if e, ok := g.entityOf(b.reps[j]); ok && len(e.Requires) > 0 {
				reps := make([]map[string]any, n)
				for k := range reps {
					reps[k] = b.reps[k]
				}
				reps[j] = copyRep(b.reps[j])
				g.requires(e, reps[j], 1000)
				emit(CaseJ{ID: fmt.Sprintf("%s-f%d-req", base, j), Class: []string{"iso-fault", "requires-bad"},
					Reps: reps, Iso: &IsoRef{Base: base, J: j}})
			}
		}
	}

	// 4. forced completion orders: reverse (first representation finishes last), staircase, one straggler
	for i := 0; i < 18*scale; i++ {
		n := 3 + g.r.Below(10)
		types := allTypes
		if i%3 == 0 {
			types = singleTypes
		}
		b := g.list(n, types, 80, true)
		plan := map[string]rt.Outcome{}
		shape := []string{"reverse", "forward", "straggler", "alternate"}[i%4]
		for j, mk := range b.markers {
			if len(mk) == 0 {
				continue
			}
			d := 0
			switch shape {
			case "reverse":
				d = (n - j) * 250
			case "forward":
				d = (j + 1) * 250
			case "straggler":
				if j == 0 {
					d = 3000
				}
			case "alternate":
				if j%2 == 0 {
					d = 1200
				}
			}
			o := rt.Outcome{Delay: d}
			if g.r.Below(8) == 0 {
				o = g.fault(j)
				o.Delay = d
			}
			plan[mk[0]] = o
		}
		emit(CaseJ{ID: nid("ord"), Class: classList(b.classes, "forced-order:"+shape), Reps: b.reps, Plan: plan})
	}

	// 5. batch (multi) mode, adversarial: mixed keys in one group, reshaped result slices, nil elements,
	//    a malformed member in the middle, a malformed first member
	for i := 0; i < 40*scale; i++ {
		t := multiTypes[g.r.Below(len(multiTypes))]
		e := g.entity(t)
		n := 1 + g.r.Below(6)
		var reps []map[string]any
		var markers [][]string
		shape := []string{"mixed-keys", "op", "nil-element", "bad-member", "bad-first", "plain", "user-fault"}[i%7]
		for j := 0; j < n; j++ {
			ri := 0
			if shape == "mixed-keys" {
				ri = g.r.Below(len(e.Resolvers))
			}
			m, mk := g.rep(e, ri, false)
			reps = append(reps, m)
			markers = append(markers, mk)
		}
		plan := map[string]rt.Outcome{}
		classes := []string{"multi:" + shape}
		switch shape {
		case "op":
			op := []string{"drop:0", "drop:1", "drop:7", "extra", "rev", "empty"}[g.r.Below(6)]
			plan[markers[g.r.Below(n)][0]] = rt.Outcome{Op: op}
			classes = append(classes, "multi-op:"+op)
		case "nil-element":
			plan[markers[g.r.Below(n)][0]] = rt.Outcome{Kind: "nil"}
		case "bad-member":
			j := g.r.Below(n)
			if c := g.mutate(e, reps[j]); c != "" {
				classes = append(classes, c)
			}
		case "bad-first":
			if c := g.mutate(e, reps[0]); c != "" {
				classes = append(classes, c)
			}
		case "user-fault":
			plan[markers[g.r.Below(n)][0]] = g.fault(i)
		}
		// interleave with a few other representations
		if g.r.Bool() {
			o := g.list(1+g.r.Below(3), singleTypes, 0, true)
			for k, m := range o.reps {
				pos := g.r.Below(len(reps) + 1)
				reps = append(reps[:pos], append([]map[string]any{m}, reps[pos:]...)...)
				markers = append(markers[:pos], append([][]string{o.markers[k]}, markers[pos:]...)...)
			}
		}
		emit(CaseJ{ID: nid("multi"), Class: classes, Reps: reps, Plan: plan})
	}

	// 7. key-state product: for every entity, every combination of states of its key fields
	//    (value / null / missing; nested: leaf null, leaf missing, parent missing, parent null, parent not a map)
	//    - single-mode types packed five to a list, batch types alone and behind a valid first member
	var pack []map[string]any
	flush := func() {
		if len(pack) > 0 {
			emit(CaseJ{ID: nid("keys"), Class: []string{"key-state-product"}, Reps: pack})
			pack = nil
		}
	}
	for _, e := range cfg.Entities {
		if len(e.Resolvers) == 0 {
			continue
		}
		var paths [][]string
		var types []string
		seen := map[string]bool{}
		for _, r := range e.Resolvers {
			for _, k := range r.Keys {
				id := fmt.Sprint(k.Path)
				if !seen[id] {
					seen[id] = true
					paths = append(paths, k.Path)
					types = append(types, k.Type)
				}
			}
		}
		// states of a key field with a path of L segments (3L of them): 0 value, 1 leaf null, 2.. segment
		// L-1, L-2, .., 0 missing (everything above it present), then for every parent segment 0..L-2: null, not a map
		nstates := make([]int, len(paths))
		total := 1
		for i, p := range paths {
			nstates[i] = 3 * len(p)
			total *= nstates[i]
		}
		// the whole product when it is small; else an evenly strided sample of it (code 0 = everything valid first)
		count, stride := total, 1
		if total > stateCap {
			count = stateCap
			stride = 7919
			for gcd(stride, total) != 1 {
				stride++
			}
		}
		for it := 0; it < count; it++ {
			code := (it * stride) % total
			m := map[string]any{"__typename": e.Name}
			c := code
			n := g.next()
			for i, p := range paths {
				stt := c % nstates[i]
				c /= nstates[i]
				v, _ := g.keyValue(types[i], n, false)
				L := len(p)
				switch {
				case stt == 0:
					setPath(m, p, v)
				case stt == 1:
					setPath(m, p, nil)
				case stt < L+2:
					d := L - 1 - (stt - 2) // this segment is missing, its parents are objects
					ensureMaps(m, p[:d])
				default:
					j := stt - (L + 2)
					var bad any
					if j%2 == 1 {
						bad = 7
					}
					setPath(m, p[:j/2+1], bad)
				}
			}
			g.requires(e, m, 0)
			if e.Multi {
				emit(CaseJ{ID: nid("keys"), Class: []string{"key-state-product", "multi:alone"}, Reps: []map[string]any{m}})
				if code%3 == 0 {
					first, _ := g.rep(e, code%len(e.Resolvers), false)
					emit(CaseJ{ID: nid("keys"), Class: []string{"key-state-product", "multi:behind-valid-first"},
						Reps: []map[string]any{first, m}})
				}
			} else {
				pack = append(pack, m)
				if len(pack) == 5 {
					flush()
				}
			}
		}
		flush()
	}

	// 9. key shapes: for every entity type with a nested key component or several @keys, lists in which its
	//    representations carry exactly the fields of ONE of its keys (each key in turn), interleaved with another
	//    type; the same with one member failing; every key at once (the first @key in directive order answers);
	//    single mode: one representation per key in one list
	for _, e := range cfg.Entities {
		if len(e.Resolvers) == 0 {
			continue
		}
		nested := false
		for _, r := range e.Resolvers {
			for _, k := range r.Keys {
				nested = nested || len(k.Path) > 1
			}
		}
		if !nested && len(e.Resolvers) < 2 {
			continue
		}
		other := func() (map[string]any, []string) {
			o := g.entity(singleTypes[g.r.Below(len(singleTypes))])
			return g.rep(o, g.r.Below(len(o.Resolvers)), false)
		}
		for ri := range e.Resolvers {
			var reps []map[string]any
			var markers [][]string
			var own []int
			for j := 2 + g.r.Below(2); j > 0; j-- {
				m, mk := g.rep(e, ri, false)
				own = append(own, len(reps))
				reps, markers = append(reps, m), append(markers, mk)
				if g.r.Below(4) != 0 {
					m, mk = other()
					reps, markers = append(reps, m), append(markers, mk)
				}
			}
			cl := fmt.Sprintf("key-shape:key-%d-of-%d", ri+1, len(e.Resolvers))
			emit(CaseJ{ID: nid("shape"), Class: []string{"key-shape", cl}, Reps: reps})
			j := own[1]
			emit(CaseJ{ID: nid("shape"), Class: []string{"key-shape", cl, "user-fault"}, Reps: reps,
				Plan: map[string]rt.Outcome{markers[j][0]: {Kind: []string{"error", "panic"}[g.r.Below(2)], Msg: "F" + strconv.Itoa(j)}}})
		}
		if len(e.Resolvers) > 1 {
			all := map[string]any{"__typename": e.Name}
			n := g.next()
			for _, r := range e.Resolvers {
				for _, k := range r.Keys {
					v, _ := g.keyValue(k.Type, n, false)
					setPath(all, k.Path, v)
				}
			}
			g.requires(e, all, 0)
			o1, _ := other()
			emit(CaseJ{ID: nid("shape"), Class: []string{"key-shape", "key-shape:every-key"}, Reps: []map[string]any{o1, all, copyRep(all)}})
			if !e.Multi {
				var reps []map[string]any
				for ri := len(e.Resolvers) - 1; ri >= 0; ri-- {
					m, _ := g.rep(e, ri, false)
					reps = append(reps, m)
					if ri%2 == 1 {
						o, _ := other()
						reps = append(reps, o)
					}
				}
				reps = append(reps, all)
				emit(CaseJ{ID: nid("shape"), Class: []string{"key-shape", "key-shape:one-key-each"}, Reps: reps})
			}
		}
	}

	// 10. @requires states: for every entity with @requires, every required field in turn unusable (wrong JSON type,
	//     object for a scalar, null, left out, parent of a nested one not an object) while ALL the others are fine -
	//     the failure of one required field must not be lost behind the fields after it
	pack = nil
	for _, e := range cfg.Entities {
		if len(e.Resolvers) == 0 || len(e.Requires) == 0 {
			continue
		}
		for k, bad := range e.Requires {
			kinds := []string{"type", "object", "null", "missing"}
			if len(bad.Path) > 1 {
				kinds = append(kinds, "parent")
			}
			for ki, kind := range kinds {
				m, _ := g.rep(e, (k+ki)%len(e.Resolvers), false)
				for _, rq := range e.Requires {
					if rq.Type == "Int" || rq.Type == "Int!" {
						setPath(m, rq.Path, 10+g.r.Below(40))
					} else {
						setPath(m, rq.Path, "r"+strconv.Itoa(g.r.Below(50)))
					}
				}
				switch kind {
				case "type":
					if bad.Type == "Int" || bad.Type == "Int!" {
						setPath(m, bad.Path, "zz")
					} else {
						setPath(m, bad.Path, []any{1})
					}
				case "object":
					setPath(m, bad.Path, map[string]any{"x": 1})
				case "null":
					setPath(m, bad.Path, nil)
				case "missing":
					ensureMaps(m, bad.Path[:len(bad.Path)-1])
					cur := m
					for _, seg := range bad.Path[:len(bad.Path)-1] {
						cur = cur[seg].(map[string]any)
					}
					delete(cur, bad.Path[len(bad.Path)-1])
				case "parent":
					m[bad.Path[0]] = 7
				}
				cl := []string{"requires-state", fmt.Sprintf("requires-state:%s@%d/%d", kind, k+1, len(e.Requires))}
				if e.Multi {
					emit(CaseJ{ID: nid("req"), Class: append(cl, "multi:alone"), Reps: []map[string]any{m}})
					first, _ := g.rep(e, (k+ki)%len(e.Resolvers), false)
					emit(CaseJ{ID: nid("req"), Class: append(cl, "multi:behind-valid-first"), Reps: []map[string]any{first, m}})
				} else {
					pack = append(pack, m)
					if len(pack) == 4 {
						o := g.entity(singleTypes[g.r.Below(len(singleTypes))])
						om, _ := g.rep(o, 0, false)
						pack = append(pack, om)
						emit(CaseJ{ID: nid("req"), Class: cl, Reps: pack})
						pack = nil
					}
				}
			}
		}
	}
	if len(pack) > 0 {
		emit(CaseJ{ID: nid("req"), Class: []string{"requires-state"}, Reps: pack})
		pack = nil
	}

	// 8. slow error presenter: the goroutine that resolved a failing representation is still inside ec.Error when
	//    every other one has finished - the response must wait for it (null WITH its error), whatever fails:
	//    the user's resolver (error / panic), the key selection, the key's unmarshalling, a missing __typename
	for i := 0; i < 8*scale; i++ {
		n := 2 + g.r.Below(5)
		types := singleTypes
		if i%4 == 3 {
			types = allTypes
		}
		b := g.list(n, types, 0, true)
		plan := map[string]rt.Outcome{}
		classes := []string{"slow-error-presenter"}
		nf := 1 + g.r.Below(2)
		for k := 0; k < nf; k++ {
			j := g.r.Below(n)
			e, _ := g.entityOf(b.reps[j])
			if i%2 == 0 && len(b.markers[j]) > 0 {
				plan[b.markers[j][0]] = rt.Outcome{Kind: []string{"error", "panic"}[g.r.Below(2)], Msg: "F" + strconv.Itoa(j)}
				classes = append(classes, "user-fault")
			} else if c := g.mutate(e, b.reps[j]); c != "" {
				b.classes[c] = true
			}
		}
		emit(CaseJ{ID: nid("slowerr"), Class: classList(b.classes, classes...), Reps: b.reps, Plan: plan,
			PresentDelay: 1500 + g.r.Below(2500)})
	}

	// 6. malformed stream: heavy damage everywhere
	for i := 0; i < 40*scale; i++ {
		b := g.list(1+g.r.Below(12), allTypes, 850, false)
		emit(CaseJ{ID: nid("bad"), Class: classList(b.classes, "malformed"), Reps: b.reps})
	}
}
