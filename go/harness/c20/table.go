package main

// -mode table: the REAL plugin code run in-process on the probe schema
//   * federation.New + InjectSourcesEarly + InjectSourcesLate (buildEntities / buildResolvers / buildKeyFields /
//     buildRequires / isMultiEntity / allFieldsAreExternal, fieldset.New, Field.FieldDefinition, ToGo…) produce the
//     plugin's own entity table; it is printed next to the table this harness derives from the schema text
//     (config.go) - the Lean model is configured by the latter, the check compares the two;
//   * fieldset.New on generated field-set strings (random well-formed trees printed with random blanks, with
//     and without arguments) next to the leaf paths of the tree that was printed.

import (
	"encoding/json"
	"fmt"
	"os"
	"sort"
	"strings"

	"github.com/99designs/gqlgen/codegen/config"
	"github.com/99designs/gqlgen/plugin/federation"
	"github.com/99designs/gqlgen/plugin/federation/fieldset"
	"github.com/vektah/gqlparser/v2"
	"github.com/vektah/gqlparser/v2/ast"
	"github.com/vektah/gqlparser/v2/parser"

	"verifharness/internal/rng"
)

type TableRow struct {
	Kind    string    `json:"kind"` // table | schema | fieldset
	Version int       `json:"version,omitempty"`
	Schema  string    `json:"schema,omitempty"` // kind schema: the generated schema text
	Facts   []EntFact `json:"facts,omitempty"`  // kind schema: what the text says about each entity type (for the direct Spec)
	Variant string    `json:"variant,omitempty"`
	Real    []EntityJ `json:"real,omitempty"`
	Derived []EntityJ `json:"derived,omitempty"`
	Raw     string    `json:"raw,omitempty"`
	Out     [][]string `json:"out,omitempty"`
	Want    [][]string `json:"want,omitempty"`
	Panic   string    `json:"panic,omitempty"`
}

func realTable(v Variant, src string) (ents []EntityJ, err error) {
	defer func() {
		if r := recover(); r != nil {
			err = fmt.Errorf("plugin panicked: %v", r)
		}
	}()
	cfg := config.DefaultConfig()
	cfg.Federation.Version = v.Version
	f, ferr := federation.New(v.Version, cfg)
	if ferr != nil {
		return nil, ferr
	}
	early, _ := f.InjectSourcesEarly()
	sources := append([]*ast.Source{}, early...)
	sources = append(sources, &ast.Source{Name: "schema.graphql", Input: src})
	schema, gerr := gqlparser.LoadSchema(sources...)
	if gerr != nil {
		return nil, gerr
	}
	if _, lerr := f.InjectSourcesLate(schema); lerr != nil {
		return nil, lerr
	}
	for _, e := range f.Entities {
		ej := EntityJ{Name: e.Name, Multi: e.Multi, Resolvers: []ResolverJ{}, Requires: []KeyFieldJ{}}
		for _, r := range e.Resolvers {
			rj := ResolverJ{Name: r.ResolverName}
			for _, k := range r.KeyFields {
				rj.Keys = append(rj.Keys, KeyFieldJ{Path: []string(k.Field), Type: k.Definition.Type.String(), DefName: k.Definition.Name, GoField: k.Field.ToGo()})
			}
			ej.Resolvers = append(ej.Resolvers, rj)
		}
		for _, rq := range e.Requires {
			ej.Requires = append(ej.Requires, KeyFieldJ{Path: []string(rq.Field)})
		}
		ents = append(ents, ej)
	}
	return ents, nil
}

// ---- random field sets

type fsNode struct {
	name string
	args bool
	kids []fsNode
}

func genTree(r *rng.R, depth int) []fsNode {
	n := 1 + r.Below(3)
	var out []fsNode
	for i := 0; i < n; i++ {
		nd := fsNode{name: string(rune('a'+r.Below(6))) + []string{"", "x", "Id", "_1"}[r.Below(4)]}
		if depth < 3 && r.Below(3) == 0 {
			nd.kids = genTree(r, depth+1)
			nd.args = r.Below(6) == 0
		}
		out = append(out, nd)
	}
	return out
}

func blanks(r *rng.R, min int) string {
	return strings.Repeat(" ", min+r.Below(3)) + []string{"", "", "", "\t", "\n"}[r.Below(5)]
}

func printTree(r *rng.R, t []fsNode) string {
	var b strings.Builder
	for i, nd := range t {
		if i > 0 {
			b.WriteString(blanks(r, 1))
		}
		b.WriteString(nd.name)
		if nd.kids != nil {
			if nd.args {
				b.WriteString("(first: 3)")
			}
			b.WriteString(blanks(r, 0) + "{" + blanks(r, 0) + printTree(r, nd.kids) + blanks(r, 0) + "}")
		}
	}
	return b.String()
}

func treePaths(t []fsNode, prefix []string) [][]string {
	var out [][]string
	for _, nd := range t {
		p := append(append([]string{}, prefix...), nd.name)
		if nd.kids != nil {
			out = append(out, treePaths(nd.kids, p)...)
		} else {
			out = append(out, p)
		}
	}
	return out
}

func runTable(probes string, seed uint64, tier string) {
	enc := json.NewEncoder(os.Stdout)
	enc.SetEscapeHTML(false)
	for _, v := range variants {
		real, err := realTable(v, probeSrc(v, probes))
		row := TableRow{Kind: "table", Variant: v.Name, Real: real, Derived: buildConfig(v, probes).Entities}
		if err != nil {
			row.Panic = err.Error()
		}
		enc.Encode(row)
	}
	// the schema-shape dimension: which entity types get resolvers at all (and which) is decided by the plugin from
	// @key(resolvable:), @external, the federation version and the key field sets - directed shapes, then random ones
	rs := rng.New(seed ^ 0x5C4E3A)
	ns := 160
	if tier == "thorough" {
		ns = 2500
	}
	emitSchema := func(version int, src string) {
		v := Variant{Name: fmt.Sprintf("schema-v%d", version), Version: version}
		real, err := realTable(v, src)
		row := TableRow{Kind: "schema", Variant: v.Name, Version: version, Schema: src, Real: real,
			Derived: buildConfigSrc(v, src).Entities, Facts: schemaFacts(src)}
		if err != nil {
			row.Panic = err.Error()
		}
		enc.Encode(row)
	}
	for _, version := range []int{1, 2} {
		for _, src := range directedSchemas(version) {
			emitSchema(version, src)
		}
	}
	for i := 0; i < ns; i++ {
		version := 1 + i%2
		emitSchema(version, genSchema(rs, version))
	}
	r := rng.New(seed ^ 0xF5E7)
	n := 400
	if tier == "thorough" {
		n = 5000
	}
	fixed := []string{"id", "a b", "a { b }", "a b { c d } e", "hello { name } foo   ", "world{ foo }", "a { b { c } d } e { f }",
		"a(x: 1) { b }", "  a  ", "a\n{\nb\n}", "x { y { z { w } } }"}
	want := map[string][][]string{"id": {{"id"}}, "a b": {{"a"}, {"b"}}, "a { b }": {{"a", "b"}},
		"a b { c d } e": {{"a"}, {"b", "c"}, {"b", "d"}, {"e"}}, "hello { name } foo   ": {{"hello", "name"}, {"foo"}},
		"world{ foo }": {{"world", "foo"}}, "a { b { c } d } e { f }": {{"a", "b", "c"}, {"a", "d"}, {"e", "f"}},
		"a(x: 1) { b }": {{"a", "b"}}, "  a  ": {{"a"}}, "a\n{\nb\n}": {{"a", "b"}}, "x { y { z { w } } }": {{"x", "y", "z", "w"}}}
	one := func(raw string, w [][]string) {
		row := TableRow{Kind: "fieldset", Raw: raw, Want: w}
		func() {
			defer func() {
				if p := recover(); p != nil {
					row.Panic = fmt.Sprint(p)
				}
			}()
			for _, f := range fieldset.New(raw, nil) {
				row.Out = append(row.Out, []string(f))
			}
		}()
		enc.Encode(row)
	}
	for _, raw := range fixed {
		one(raw, want[raw])
	}
	for i := 0; i < n; i++ {
		t := genTree(r, 0)
		one(printTree(r, t), treePaths(t, nil))
	}
}

// ---- generated entity schemas (the schema-shape dimension of the "configurations" quantifier)

// EntFact is what the schema TEXT says about one entity type, in the terms of the direct Spec: an entity type
// that is resolvable (no @key says `resolvable: false`) and has a field of its own (not @external) must have one
// entity resolver per @key - otherwise every representation of it is answered null, "unknown type"; a type whose
// fields are all explicitly @external has none.
type EntFact struct {
	Name             string `json:"name"`
	Keys             int    `json:"keys"`
	AnyResolvableOff bool   `json:"anyResolvableOff"` // some @key carries resolvable: false
	ResolvableArgs   int    `json:"resolvableArgs"`   // @key directives with an explicit resolvable: argument
	OwnField         bool   `json:"ownField"`         // some field without @external
	KeyOnly          bool   `json:"keyOnly"`          // every field is a (top-level) field of the first @key
}

func schemaFacts(src string) []EntFact {
	doc, perr := parser.ParseSchema(&ast.Source{Name: "schema.graphql", Input: src})
	if perr != nil {
		die(perr)
	}
	var out []EntFact
	for _, def := range doc.Definitions {
		if def.Kind != ast.Object {
			continue
		}
		f := EntFact{Name: def.Name, KeyOnly: true}
		first := map[string]bool{}
		for _, d := range def.Directives {
			if d.Name != "key" {
				continue
			}
			f.Keys++
			if a := dirArg(d, "resolvable"); a != nil {
				f.ResolvableArgs++
				if a.Value.Raw == "false" {
					f.AnyResolvableOff = true
				}
			}
			if f.Keys == 1 {
				for _, p := range parseFieldSet(dirArg(d, "fields").Value.Raw) {
					first[p[0]] = true
				}
			}
		}
		if f.Keys == 0 {
			continue
		}
		for _, fd := range def.Fields {
			if fd.Directives.ForName("external") == nil {
				f.OwnField = true
			}
			if !first[fd.Name] {
				f.KeyOnly = false
			}
		}
		out = append(out, f)
	}
	sort.Slice(out, func(i, j int) bool { return out[i].Name < out[j].Name })
	return out
}

const schemaHead = "directive @entityResolver(multi: Boolean) on OBJECT\n\ntype Query {\n  ping: String\n}\n\ntype Org {\n  id: ID!\n  name: String\n}\n"

type gField struct {
	name, typ string
	nested    bool // selected as `name { id }` in a key
}

var keyPool = []gField{{"id", "ID!", false}, {"code", "String", false}, {"num", "Int!", false}, {"sku", "String!", false}, {"org", "Org!", true}}
var extraPool = []gField{{"tag", "String!", false}, {"note", "String", false}, {"weight", "Int", false}}

func keyArgsText(r *rng.R, fields string, resolvable string) string {
	f := fmt.Sprintf("fields: %q", fields)
	switch {
	case resolvable == "":
		return f
	case r != nil && r.Below(3) == 0:
		return "resolvable: " + resolvable + ", " + f
	default:
		return f + ", resolvable: " + resolvable
	}
}

// genSchema prints 1-4 entity types: 1-3 @key directives over a subset of the key-capable fields (flat and
// nested), each - federation 2 - without `resolvable:`, with `resolvable: true` or `resolvable: false` (either
// argument order); every field @external or not; 0-2 fields outside the keys; single or batch resolvers; a
// @requires field when an external scalar exists.
func genSchema(r *rng.R, version int) string {
	var b strings.Builder
	b.WriteString(schemaHead)
	n := 1 + r.Below(4)
	for t := 0; t < n; t++ {
		// key-capable fields of this type
		var kf []gField
		for _, f := range keyPool {
			if r.Below(2) == 0 {
				kf = append(kf, f)
			}
		}
		if len(kf) == 0 {
			kf = append(kf, keyPool[r.Below(len(keyPool))])
		}
		nk := 1 + r.Below(3)
		seenKey := map[string]bool{}
		var keys []string
		for k := 0; k < nk; k++ {
			var parts []string
			for _, f := range kf {
				if r.Below(2) == 0 {
					if f.nested {
						parts = append(parts, f.name+" { id }")
					} else {
						parts = append(parts, f.name)
					}
				}
			}
			if len(parts) == 0 {
				f := kf[r.Below(len(kf))]
				if f.nested {
					parts = []string{f.name + " { id }"}
				} else {
					parts = []string{f.name}
				}
			}
			fs := strings.Join(parts, " ")
			if seenKey[fs] {
				continue
			}
			seenKey[fs] = true
			res := ""
			if version == 2 {
				res = []string{"", "", "true", "false"}[r.Below(4)]
			}
			keys = append(keys, "@key("+keyArgsText(r, fs, res)+")")
		}
		// how external the type is: 0 nothing, 1 random fields, 2 every key-capable field, 3 everything
		extMode := []int{0, 0, 1, 1, 2, 3}[r.Below(6)]
		var extras []gField
		switch r.Below(4) {
		case 0:
		case 1, 2:
			extras = append(extras, extraPool[r.Below(len(extraPool))])
		default:
			extras = append(extras, extraPool[0], extraPool[1+r.Below(2)])
		}
		fmt.Fprintf(&b, "\ntype E%d %s", t, strings.Join(keys, " "))
		if r.Below(4) == 0 {
			b.WriteString(" @entityResolver(multi: true)")
		}
		b.WriteString(" {\n")
		extScalar := ""
		line := func(f gField, isKey bool) {
			ext := false
			switch extMode {
			case 1:
				ext = r.Below(3) == 0
			case 2:
				ext = isKey
			case 3:
				ext = true
			}
			if ext {
				fmt.Fprintf(&b, "  %s: %s @external\n", f.name, f.typ)
				if !isKey && !f.nested && extScalar == "" {
					extScalar = f.name
				}
			} else {
				fmt.Fprintf(&b, "  %s: %s\n", f.name, f.typ)
			}
		}
		for _, f := range kf {
			line(f, true)
		}
		for _, f := range extras {
			line(f, false)
		}
		if extScalar != "" && extMode != 3 && r.Below(2) == 0 {
			fmt.Fprintf(&b, "  derived: String @requires(fields: %q)\n", extScalar)
		}
		b.WriteString("}\n")
	}
	return b.String()
}

// directedSchemas: the corners of the same dimension, one type each, kept fixed.
func directedSchemas(version int) []string {
	ty := func(name, dirs, body string) string {
		return "\ntype " + name + " " + dirs + " {\n" + body + "}\n"
	}
	s := schemaHead +
		ty("KeyOnly", `@key(fields: "id")`, "  id: ID!\n") +
		ty("KeyOnlyTwo", `@key(fields: "id sku") @key(fields: "sku")`, "  id: ID!\n  sku: String!\n") +
		ty("KeyOnlyNested", `@key(fields: "org { id }")`, "  org: Org!\n") +
		ty("KeyOnlyMulti", `@key(fields: "id") @entityResolver(multi: true)`, "  id: ID!\n") +
		ty("KeyPlusOwn", `@key(fields: "id")`, "  id: ID!\n  tag: String!\n") +
		ty("ExtKeyOwn", `@key(fields: "id")`, "  id: ID! @external\n  tag: String!\n") +
		ty("AllExt", `@key(fields: "id")`, "  id: ID! @external\n  note: String @external\n")
	out := []string{s}
	if version == 2 {
		out = append(out, schemaHead+
			ty("KeyOnlyOn", `@key(fields: "id", resolvable: true)`, "  id: ID!\n")+
			ty("KeyOnlyOnRev", `@key(resolvable: true, fields: "id")`, "  id: ID!\n")+
			ty("KeyOnlyOff", `@key(fields: "id", resolvable: false)`, "  id: ID!\n")+
			ty("OffPlusOwn", `@key(fields: "id", resolvable: false)`, "  id: ID!\n  tag: String!\n")+
			ty("OffThenOn", `@key(fields: "id", resolvable: false) @key(fields: "sku")`, "  id: ID!\n  sku: String!\n")+
			ty("OnThenOff", `@key(fields: "id") @key(fields: "sku", resolvable: false)`, "  id: ID!\n  sku: String!\n")+
			ty("OffExtRest", `@key(fields: "id", resolvable: false)`, "  id: ID!\n  note: String @external\n"))
	}
	return out
}
