package main

// -mode table: the REAL plugin code run in-process on the probe schema
//   * federation.New + InjectSourcesEarly + InjectSourcesLate (buildEntities / buildResolvers / buildKeyFields /
//     buildRequires / isMultiEntity / allFieldsAreExternal, fieldset.New, Field.FieldDefinition, ToGo…) produce the
//     plugin's own entity table; it is printed next to the table this harness derives from the schema text
//     (config.go) - the Lean model is configured by the latter, the check compares the two;
//   * fieldset.New on generated field-set strings (random well-formed trees printed with random blanks, with
//     and without arguments) next to the leaf paths of the tree that was printed.

import (
	"encoding/json"
	"fmt"
	"os"
	"strings"

	"github.com/99designs/gqlgen/codegen/config"
	"github.com/99designs/gqlgen/plugin/federation"
	"github.com/99designs/gqlgen/plugin/federation/fieldset"
	"github.com/vektah/gqlparser/v2"
	"github.com/vektah/gqlparser/v2/ast"

	"verifharness/internal/rng"
)

type TableRow struct {
	Kind    string    `json:"kind"` // table | fieldset
	Variant string    `json:"variant,omitempty"`
	Real    []EntityJ `json:"real,omitempty"`
	Derived []EntityJ `json:"derived,omitempty"`
	Raw     string    `json:"raw,omitempty"`
	Out     [][]string `json:"out,omitempty"`
	Want    [][]string `json:"want,omitempty"`
	Panic   string    `json:"panic,omitempty"`
}

func realTable(v Variant, probes string) (ents []EntityJ, err error) {
	defer func() {
		if r := recover(); r != nil {
			err = fmt.Errorf("plugin panicked: %v", r)
		}
	}()
	src, rerr := os.ReadFile(v.schemaFile(probes))
	if rerr != nil {
		return nil, rerr
	}
	cfg := config.DefaultConfig()
	cfg.Federation.Version = v.Version
	f, ferr := federation.New(v.Version, cfg)
	if ferr != nil {
		return nil, ferr
	}
	early, _ := f.InjectSourcesEarly()
	sources := append([]*ast.Source{}, early...)
	sources = append(sources, &ast.Source{Name: "schema.graphql", Input: string(src)})
	schema, gerr := gqlparser.LoadSchema(sources...)
	if gerr != nil {
		return nil, gerr
	}
	if _, lerr := f.InjectSourcesLate(schema); lerr != nil {
		return nil, lerr
	}
	for _, e := range f.Entities {
		ej := EntityJ{Name: e.Name, Multi: e.Multi, Resolvers: []ResolverJ{}, Requires: []KeyFieldJ{}}
		for _, r := range e.Resolvers {
			rj := ResolverJ{Name: r.ResolverName}
			for _, k := range r.KeyFields {
				rj.Keys = append(rj.Keys, KeyFieldJ{Path: []string(k.Field), Type: k.Definition.Type.String(), DefName: k.Definition.Name, GoField: k.Field.ToGo()})
			}
			ej.Resolvers = append(ej.Resolvers, rj)
		}
		for _, rq := range e.Requires {
			ej.Requires = append(ej.Requires, KeyFieldJ{Path: []string(rq.Field)})
		}
		ents = append(ents, ej)
	}
	return ents, nil
}

// ---- random field sets

type fsNode struct {
	name string
	args bool
	kids []fsNode
}

func genTree(r *rng.R, depth int) []fsNode {
	n := 1 + r.Below(3)
	var out []fsNode
	for i := 0; i < n; i++ {
		nd := fsNode{name: string(rune('a'+r.Below(6))) + []string{"", "x", "Id", "_1"}[r.Below(4)]}
		if depth < 3 && r.Below(3) == 0 {
			nd.kids = genTree(r, depth+1)
			nd.args = r.Below(6) == 0
		}
		out = append(out, nd)
	}
	return out
}

func blanks(r *rng.R, min int) string {
	return strings.Repeat(" ", min+r.Below(3)) + []string{"", "", "", "\t", "\n"}[r.Below(5)]
}

func printTree(r *rng.R, t []fsNode) string {
	var b strings.Builder
	for i, nd := range t {
		if i > 0 {
			b.WriteString(blanks(r, 1))
		}
		b.WriteString(nd.name)
		if nd.kids != nil {
			if nd.args {
				b.WriteString("(first: 3)")
			}
			b.WriteString(blanks(r, 0) + "{" + blanks(r, 0) + printTree(r, nd.kids) + blanks(r, 0) + "}")
		}
	}
	return b.String()
}

func treePaths(t []fsNode, prefix []string) [][]string {
	var out [][]string
	for _, nd := range t {
		p := append(append([]string{}, prefix...), nd.name)
		if nd.kids != nil {
			out = append(out, treePaths(nd.kids, p)...)
		} else {
			out = append(out, p)
		}
	}
	return out
}

func runTable(probes string, seed uint64, tier string) {
	enc := json.NewEncoder(os.Stdout)
	enc.SetEscapeHTML(false)
	for _, v := range variants {
		real, err := realTable(v, probes)
		row := TableRow{Kind: "table", Variant: v.Name, Real: real, Derived: buildConfig(v, probes).Entities}
		if err != nil {
			row.Panic = err.Error()
		}
		enc.Encode(row)
	}
	r := rng.New(seed ^ 0xF5E7)
	n := 400
	if tier == "thorough" {
		n = 5000
	}
	fixed := []string{"id", "a b", "a { b }", "a b { c d } e", "hello { name } foo   ", "world{ foo }", "a { b { c } d } e { f }",
		"a(x: 1) { b }", "  a  ", "a\n{\nb\n}", "x { y { z { w } } }"}
	want := map[string][][]string{"id": {{"id"}}, "a b": {{"a"}, {"b"}}, "a { b }": {{"a", "b"}},
		"a b { c d } e": {{"a"}, {"b", "c"}, {"b", "d"}, {"e"}}, "hello { name } foo   ": {{"hello", "name"}, {"foo"}},
		"world{ foo }": {{"world", "foo"}}, "a { b { c } d } e { f }": {{"a", "b", "c"}, {"a", "d"}, {"e", "f"}},
		"a(x: 1) { b }": {{"a", "b"}}, "  a  ": {{"a"}}, "a\n{\nb\n}": {{"a", "b"}}, "x { y { z { w } } }": {{"x", "y", "z", "w"}}}
	one := func(raw string, w [][]string) {
		row := TableRow{Kind: "fieldset", Raw: raw, Want: w}
		func() {
			defer func() {
				if p := recover(); p != nil {
					row.Panic = fmt.Sprint(p)
				}
			}()
			for _, f := range fieldset.New(raw, nil) {
				row.Out = append(row.Out, []string(f))
			}
		}()
		enc.Encode(row)
	}
	for _, raw := range fixed {
		one(raw, want[raw])
	}
	for i := 0; i < n; i++ {
		t := genTree(r, 0)
		one(printTree(r, t), treePaths(t, nil))
	}
}
