// @http histories: the same request tokens carried over HTTP through handler.Server and the REAL POST
// (application/json, pooled *graphql.RawParams) and GET transports, with
//
//   - transport-level faults in the history (token !/b/<fault>: a POST body the transport cannot decode),
//   - pairs of requests IN FLIGHT AT ONCE (shape suffixes ~p1 ~p2 / ~q1 ~q2 on two adjacent tokens): an
//     ordinary OperationParameterMutator registered in front of the APQ extension holds both requests
//     between "transport has decoded the request" and "APQ runs"; token order = the order in which the two
//     are let through APQ one after the other (the linearisation the sequential model is run on), p = they
//     were decoded in that order, q = in the opposite order.
//
// Per request the harness observes, attributed through the request's context: the cache calls made on behalf
// of that request, rawParams.Query as APQ left it (a second mutator registered behind APQ), which document
// Exec was invoked on, and the HTTP answer. The process runs on one P with the collector off and two
// collections before every history, so that what sync.Pool hands out depends on the history alone.
package main

import (
	"context"
	"encoding/hex"
	"encoding/json"
	"fmt"
	"io"
	"net/http"
	"net/http/httptest"
	"net/url"
	"runtime"
	"strings"
	"sync"
	"time"

	"github.com/99designs/gqlgen/graphql"
	"github.com/99designs/gqlgen/graphql/handler"
	"github.com/99designs/gqlgen/graphql/handler/extension"
	"github.com/99designs/gqlgen/graphql/handler/transport"
	"github.com/vektah/gqlparser/v2/ast"
	"github.com/vektah/gqlparser/v2/gqlerror"
	"verifharness/internal/rng"
)

type recKey struct{}

// reqRec: everything observed on behalf of one HTTP request
type reqRec struct {
	mu       sync.Mutex
	ops      []string
	post     *string // rawParams.Query behind the APQ extension (nil: the chain was cut before)
	executed []executed
	gated    bool
	arrived  chan struct{}
	release  chan struct{}
	done     chan struct{}
	status   int
	body     []byte
}

func recOf(ctx context.Context) *reqRec {
	r, _ := ctx.Value(recKey{}).(*reqRec)
	return r
}

var orphanOps int // cache calls / executions that could not be attributed to a request

// hRecCache records per request; the inner (real) cache is not safe for concurrent use (MapCache is a map)
type hRecCache struct {
	mu    sync.Mutex
	inner graphql.Cache[string]
}

func (c *hRecCache) Get(ctx context.Context, key string) (string, bool) {
	c.mu.Lock()
	v, ok := c.inner.Get(ctx, key)
	c.mu.Unlock()
	op := "G" + halias(key) + ":miss"
	if ok {
		op = "G" + halias(key) + ":" + tid(v)
	}
	if r := recOf(ctx); r != nil {
		r.mu.Lock()
		r.ops = append(r.ops, op)
		r.mu.Unlock()
	} else {
		orphanOps++
	}
	return v, ok
}

func (c *hRecCache) Add(ctx context.Context, key, value string) {
	if r := recOf(ctx); r != nil {
		r.mu.Lock()
		r.ops = append(r.ops, "A"+halias(key)+":"+tid(value))
		r.mu.Unlock()
	} else {
		orphanOps++
	}
	c.mu.Lock()
	c.inner.Add(ctx, key, value)
	c.mu.Unlock()
}

type hES struct{}

func (hES) Schema() *ast.Schema { return schema }
func (hES) Complexity(ctx context.Context, typeName, fieldName string, childComplexity int, args map[string]any) (int, bool) {
	return 0, false
}
func (hES) Exec(ctx context.Context) graphql.ResponseHandler {
	if r := recOf(ctx); r != nil {
		r.mu.Lock()
		r.executed = append(r.executed, seenByExec(graphql.GetOperationContext(ctx)))
		r.mu.Unlock()
	} else {
		orphanOps++
	}
	return graphql.OneShot(&graphql.Response{Data: json.RawMessage(`{}`)})
}

// gate: in front of APQ; holds a gated request until released
type gate struct{}

func (gate) ExtensionName() string                          { return "verif-gate" }
func (gate) Validate(schema graphql.ExecutableSchema) error { return nil }
func (gate) MutateOperationParameters(ctx context.Context, p *graphql.RawParams) *gqlerror.Error {
	if r := recOf(ctx); r != nil && r.gated {
		close(r.arrived)
		<-r.release
	}
	return nil
}

// tap: behind APQ; records what APQ left in rawParams.Query
type tap struct{}

func (tap) ExtensionName() string                          { return "verif-tap" }
func (tap) Validate(schema graphql.ExecutableSchema) error { return nil }
func (tap) MutateOperationParameters(ctx context.Context, p *graphql.RawParams) *gqlerror.Error {
	if r := recOf(ctx); r != nil {
		q := p.Query
		r.mu.Lock()
		r.post = &q
		r.mu.Unlock()
	}
	return nil
}

type httpEnv struct {
	srv   *handler.Server
	inner graphql.Cache[string]
}

func newHTTPEnv(kind string) *httpEnv {
	_, qc, _ := baseKind(kind)
	e := &httpEnv{inner: newCache(kind)}
	e.srv = handler.New(hES{})
	e.srv.AddTransport(transport.POST{})
	e.srv.AddTransport(transport.GET{})
	if qc {
		e.srv.SetQueryCache(newDocCache(kind))
	}
	e.srv.Use(gate{})
	e.srv.Use(extension.AutomaticPersistedQuery{Cache: &hRecCache{inner: e.inner}})
	e.srv.Use(tap{})
	return e
}

// faultBody: POST bodies the transport cannot decode
func faultBody(kind string) (string, error) {
	pq := `{"persistedQuery":{"version":1,"sha256Hash":"` + texts[0].sha + `"}}`
	switch kind {
	case "trunc":
		return `{"query": "{a}`, nil
	case "nul":
		return `nul`, nil
	case "null":
		return `null`, nil
	case "empty":
		return ``, nil
	case "array":
		return `[{"query":"{a}"}]`, nil
	case "partial": // extensions and query are decoded into the params before the decoder fails
		return `{"extensions":` + pq + `,"query":"{b}","variables":7}`, nil
	case "qnum":
		return `{"extensions":` + pq + `,"query":1}`, nil
	}
	return "", fmt.Errorf("fault %q", kind)
}

var faultKinds = []string{"trunc", "nul", "null", "empty", "array", "partial", "qnum"}

func (r req) httpRequest() (*http.Request, error) {
	if r.ext == 'b' {
		b, err := faultBody(r.shape)
		if err != nil {
			return nil, err
		}
		hr := httptest.NewRequest("POST", "/graphql", strings.NewReader(b))
		hr.Header.Set("Content-Type", "application/json")
		return hr, nil
	}
	p, err := r.params()
	if err != nil {
		return nil, err
	}
	if r.get {
		v := url.Values{}
		if p.Query != "" {
			v.Set("query", p.Query)
		}
		if p.OperationName != "" {
			v.Set("operationName", p.OperationName)
		}
		if p.Extensions != nil {
			b, err := json.Marshal(p.Extensions)
			if err != nil {
				return nil, err
			}
			v.Set("extensions", string(b))
		}
		return httptest.NewRequest("GET", "/graphql?"+v.Encode(), nil), nil
	}
	m := map[string]any{}
	if p.Query != "" {
		m["query"] = p.Query
	}
	if p.OperationName != "" {
		m["operationName"] = p.OperationName
	}
	if p.Extensions != nil {
		m["extensions"] = p.Extensions
	}
	b, err := json.Marshal(m)
	if err != nil {
		return nil, err
	}
	hr := httptest.NewRequest("POST", "/graphql", strings.NewReader(string(b)))
	hr.Header.Set("Content-Type", "application/json")
	return hr, nil
}

// start serves the request on its own goroutine
func (e *httpEnv) start(r req, gated bool) (*reqRec, error) {
	hr, err := r.httpRequest()
	if err != nil {
		return nil, err
	}
	rec := &reqRec{gated: gated, arrived: make(chan struct{}), release: make(chan struct{}), done: make(chan struct{})}
	hr = hr.WithContext(context.WithValue(hr.Context(), recKey{}, rec))
	go func() {
		defer close(rec.done)
		w := httptest.NewRecorder()
		func() {
			defer func() {
				if x := recover(); x != nil {
					w.Code = 599
					w.Body.WriteString(fmt.Sprintf("panic:%v", x))
				}
			}()
			e.srv.ServeHTTP(w, hr)
		}()
		rec.status = w.Code
		rec.body, _ = io.ReadAll(w.Body)
	}()
	return rec, nil
}

// waitAtGate: the request has reached the gate, or finished without reaching it
func waitAtGate(rec *reqRec) {
	select {
	case <-rec.arrived:
	case <-rec.done:
	case <-time.After(20 * time.Second):
	}
}

func finish(rec *reqRec) {
	if rec.gated {
		close(rec.release)
	}
	select {
	case <-rec.done:
	case <-time.After(20 * time.Second):
		rec.status = 598
	}
}

func (rec *reqRec) observed(r req) string {
	rec.mu.Lock()
	defer rec.mu.Unlock()
	var resp struct {
		Errors []struct {
			Message    string         `json:"message"`
			Extensions map[string]any `json:"extensions"`
		} `json:"errors"`
	}
	_ = json.Unmarshal(rec.body, &resp)
	msg, code := "", ""
	if len(resp.Errors) > 0 {
		msg = resp.Errors[0].Message
		code, _ = resp.Errors[0].Extensions["code"].(string)
	}
	class := ""
	switch {
	case rec.status >= 598:
		class = fmt.Sprintf("crash:%d:%s", rec.status, hex.EncodeToString(rec.body))
	case r.ext == 'b':
		class = "bad"
		if rec.status != http.StatusBadRequest || !strings.HasPrefix(msg, "json request body could not be decoded") {
			class = fmt.Sprintf("bad!status=%d", rec.status)
		}
	case msg == "invalid APQ extension data":
		class = "inv"
	case msg == "unsupported APQ version":
		class = "ver"
	case msg == "PersistedQueryNotFound":
		class = "nf"
		if code != "PERSISTED_QUERY_NOT_FOUND" {
			class = "nf!code=" + code
		}
	case msg == "provided APQ hash does not match query":
		class = "mm"
	case rec.post != nil:
		class = "run:" + tid(*rec.post)
	default:
		class = "err:" + hex.EncodeToString([]byte(msg))
	}
	x := "-"
	if len(rec.executed) == 1 {
		post := ""
		if rec.post != nil {
			post = *rec.post
		}
		var docOK bool
		x, docOK = rec.executed[0].unit(post)
		if rec.executed[0].raw != post && strings.HasPrefix(class, "run:") {
			class += "!raw=" + tid(rec.executed[0].raw) // OperationContext.RawQuery is not the text APQ left
		}
		if !docOK {
			class += rec.executed[0].docMark()
		}
	} else if len(rec.executed) > 1 {
		x = "multi"
	}
	ops := "-"
	if len(rec.ops) > 0 {
		ops = strings.Join(rec.ops, ",")
	}
	return class + "|x:" + x + "|" + ops
}

func runHTTPHistory(kind string, h []req) string {
	// what sync.Pool holds must not depend on earlier histories: two collections empty it (victim cache)
	runtime.GC()
	runtime.GC()
	e := newHTTPEnv(kind)
	toks := make([]string, len(h))
	obs := make([]string, len(h))
	for i := range h {
		toks[i] = h[i].token()
	}
	one := func(i int) {
		rec, err := e.start(h[i], false)
		if err != nil {
			obs[i] = "harness-error:" + hex.EncodeToString([]byte(err.Error()))
			return
		}
		finish(rec)
		obs[i] = rec.observed(h[i])
	}
	for i := 0; i < len(h); i++ {
		pair := i+1 < len(h) && ((h[i].par == "p1" && h[i+1].par == "p2") || (h[i].par == "q1" && h[i+1].par == "q2"))
		if !pair {
			one(i) // a lone marker is an ordinary sequential request
			continue
		}
		first, second := i, i+1 // decode order
		if h[i].par == "q1" {
			first, second = i+1, i
		}
		recs := map[int]*reqRec{}
		var err error
		if recs[first], err = e.start(h[first], true); err == nil {
			waitAtGate(recs[first])
			recs[second], err = e.start(h[second], true)
			if err == nil {
				waitAtGate(recs[second])
			}
		}
		if err != nil {
			obs[i], obs[i+1] = "harness-error:"+hex.EncodeToString([]byte(err.Error())), "harness-error:"
			if recs[first] != nil {
				finish(recs[first])
			}
			i++
			continue
		}
		// let them through APQ one after the other, in token order
		finish(recs[i])
		finish(recs[i+1])
		obs[i], obs[i+1] = recs[i].observed(h[i]), recs[i+1].observed(h[i+1])
		i++
	}
	var cont []string
	n := 0
	for _, k := range candidates(h) {
		if v, ok := e.inner.Get(context.Background(), k); ok {
			cont = append(cont, halias(k)+">"+tid(v))
			n++
		}
	}
	if m, ok := e.inner.(graphql.MapCache[string]); ok && len(m) != n {
		cont = append(cont, fmt.Sprintf("!extra-keys=%d", len(m)-n))
	}
	if orphanOps > 0 {
		cont = append(cont, fmt.Sprintf("!unattributed=%d", orphanOps))
		orphanOps = 0
	}
	cs := "-"
	if len(cont) > 0 {
		cs = strings.Join(cont, " ")
	}
	ts, os_ := "-", "-"
	if len(h) > 0 {
		ts, os_ = strings.Join(toks, " "), strings.Join(obs, " ")
	}
	return "run\t" + kind + "\t" + ts + "\t" + os_ + "\t" + cs + "\n"
}

// ---------------------------------------------------------------- generators for @http histories

// the request kinds of the small exhaustive alphabet: 2 texts x {text+hash, hash only, text+other's hash} + a fault
func halpha(i int) req {
	if i == 6 {
		return req{q: -1, ext: 'b', shape: "trunc"}
	}
	t := i % 2
	switch i / 2 {
	case 0:
		return req{q: t, ext: 'd', ver: 1, hash: texts[t].sha, shape: "f64"}
	case 1:
		return req{q: -1, ext: 'd', ver: 1, hash: texts[t].sha, shape: "f64"}
	default:
		return req{q: t, ext: 'd', ver: 1, hash: texts[1-t].sha, shape: "f64"}
	}
}

const nHAlpha = 7

// the operation alphabet over HTTP: text 18 = [A B C] registered / resolved under different operation names
func hopalpha(i int) req {
	switch i {
	case 0:
		return req{q: 18, ext: 'd', ver: 1, hash: texts[18].sha, shape: "f64", op: "A"}
	case 1:
		return req{q: 18, ext: 'd', ver: 1, hash: texts[18].sha, shape: "f64", op: "C"}
	case 2:
		return req{q: -1, ext: 'd', ver: 1, hash: texts[18].sha, shape: "f64", op: "A"}
	case 3:
		return req{q: -1, ext: 'd', ver: 1, hash: texts[18].sha, shape: "f64", op: "B"}
	case 4:
		return req{q: -1, ext: 'd', ver: 1, hash: texts[18].sha, shape: "f64", op: "B", get: true}
	case 5:
		return req{q: -1, ext: 'd', ver: 1, hash: texts[18].sha, shape: "f64"}
	}
	return req{q: 19, ext: 'd', ver: 1, hash: texts[19].sha, shape: "f64", op: "A"}
}

var halphaFn = halpha

// markings: every way to make at most one adjacent pair of the history concurrent, in both decode orders
func markings(h []req, f func([]req)) {
	f(h)
	for i := 0; i+1 < len(h); i++ {
		for _, m := range []string{"p", "q"} {
			g := append([]req{}, h...)
			g[i].par, g[i+1].par = m+"1", m+"2"
			f(g)
		}
	}
}

// httpExhaustive: all histories of length L over halpha x all markings; stride/offset sample them (1,0 = all)
func httpExhaustive(w io.Writer, kind string, L int, stride, offset uint64) {
	idx := make([]int, L)
	n := uint64(0)
	for {
		h := make([]req, L)
		for i, x := range idx {
			h[i] = halphaFn(x)
		}
		markings(h, func(g []req) {
			if n%stride == offset%stride {
				io.WriteString(w, runHTTPHistory(kind, g))
			}
			n++
		})
		k := L - 1
		for k >= 0 {
			idx[k]++
			if idx[k] < nHAlpha {
				break
			}
			idx[k] = 0
			k--
		}
		if k < 0 {
			return
		}
	}
}

// shapes whose class (absent / malformed / decoded v h) is the same after a round trip through JSON with
// UseNumber as when handed to the executor directly (a float64 1.5 becomes json.Number "1.5": malformed; a
// JSON number for sha256Hash becomes a json.Number, which mapstructure stores as a string)
func httpSafe(r req) bool {
	return r.shape != "frac" && r.shape != "shanum"
}

func httpRandom(w io.Writer, r *rng.R, n int) {
	kinds := []string{"map@http", "lru1@http", "lru2@http", "lru2+q@http", "map+q@http", "lru3@http", "no@http"}
	opKinds := []string{"map+q@http", "lru2+q@http", "lru3+q1@http", "map+q2@http"}
	for i := 0; i < n; i++ {
		kind := kinds[r.Below(len(kinds))]
		pool := prefixPool(2 + r.Below(4))
		L := 3 + r.Below(12)
		if r.Below(3) == 0 { // operation-heavy
			kind = opKinds[r.Below(len(opKinds))]
			pool = opPool(r)
		}
		h := make([]req, L)
		for j := range h {
			switch c := r.Below(100); {
			case c < 12:
				h[j] = req{q: -1, ext: 'b', shape: faultKinds[r.Below(len(faultKinds))]}
			default:
				for {
					h[j] = randReq(r, pool)
					if httpSafe(h[j]) {
						break
					}
				}
				h[j].get = r.Below(5) == 0
			}
		}
		for j := 0; j+1 < L; j++ {
			if r.Below(3) == 0 {
				m := "p"
				if r.Bool() {
					m = "q"
				}
				h[j].par, h[j+1].par = m+"1", m+"2"
				j++
			}
		}
		io.WriteString(w, runHTTPHistory(kind, h))
	}
}
