// Harness for C15: drives the REAL extension.AutomaticPersistedQuery through graphql/executor with a
// mock ExecutableSchema that records which query text Exec was invoked on, and a recording cache
// wrapped around the REAL graphql.MapCache / graphql.NoCache / lru.New(n). Histories are generated as
// abstract request tokens (exhaustive short histories, seeded random long ones, directed adversarial
// ones), concretised into graphql.RawParams, run in process, and one TSV line per history is printed:
//
//	tab  <id> <hex text> <sha256 hex> <valid 0/1>
//	run  <cache> <req tokens> <observed tokens> <final cache contents>
//
// request token   <q>/<ext>/<shape>[^<operationName>]   q = text id | "-" (empty query)
//
//	ext = a (absent) | m (malformed) | <version>,<hash>   hash = #<id> (sha of text id) | =<hex of literal>
//	shape = which concrete Go/JSON value is put into extensions.persistedQuery
//
// observed token  <class>|x:<executed text id[.operation index] or ->|<cache calls>   class = run:<q> inv ver nf mm
// (the operation index is printed for texts with more than one operation)
// bin/check pipes `tab`/`run <cache> <reqs>` to the Lean driver, which prints the model's
// observed tokens and final contents for the same history.
package main

import (
	"bufio"
	"context"
	"crypto/sha256"
	"encoding/hex"
	"encoding/json"
	"flag"
	"fmt"
	"hash/adler32"
	"hash/crc32"
	"hash/fnv"
	"io"
	"os"
	"runtime"
	"runtime/debug"
	"strconv"
	"strings"
	"sync"

	"github.com/99designs/gqlgen/graphql"
	"github.com/99designs/gqlgen/graphql/executor"
	"github.com/99designs/gqlgen/graphql/handler/extension"
	"github.com/99designs/gqlgen/graphql/handler/lru"
	"github.com/vektah/gqlparser/v2"
	"github.com/vektah/gqlparser/v2/ast"
	"github.com/vektah/gqlparser/v2/parser"
	"verifharness/internal/rng"
)

// ---------------------------------------------------------------- text table

type text struct {
	s     string
	sha   string
	valid bool
	fam   int    // layout family (0 = none): members differ only in whitespace / ignored tokens / letter case
	sig   string // signature of the parsed document (every operation: name, first selection), "" = does not parse
	ops   []string // signature of every operation of a fresh parse, in source order
	names []string // their names ("" anonymous)
}

var texts = []text{
	{s: "{a}", valid: true, fam: 1},
	{s: "{b}", valid: true},
	{s: "{c}", valid: true},
	{s: "{", valid: false},                      // parse error
	{s: "{zz}", valid: false},                   // validation error
	{s: " { a }", valid: true, fam: 1},          // same meaning as text 0, different text and hash
	{s: "fragment F on Query{a}", valid: false}, // parses, no operation
	// layout family of `{ a }`: the same document as bytes that differ only in ignored tokens. Text 7 is the
	// whitespace-squeezed form (single blanks, no leading/trailing blank) of 5, 8, 9, 10; every member has its
	// own SHA-256, and a member sent with a sibling's hash is a mismatch like any other
	{s: "{ a }", valid: true, fam: 1},
	{s: "{  a  }", valid: true, fam: 1},
	{s: "{\ta\n}", valid: true, fam: 1},
	{s: "{ a }\n", valid: true, fam: 1},
	{s: "{ a, }", valid: true, fam: 1},
	{s: "{ a } # c", valid: true, fam: 1},
	{s: "\ufeff{ a }", valid: true, fam: 1},
	{s: "{ A }", valid: false, fam: 1}, // case-folds to 7; no such field
	// two documents with DIFFERENT meaning that differ only in the blanks inside a string literal
	{s: `{ echo(s: "x y") }`, valid: true, fam: 2},
	{s: `{ echo(s: "x  y") }`, valid: true, fam: 2},
	{s: "{ echo(s: \"x y\") }\r\n", valid: true, fam: 2},
	// texts with SEVERAL operations (the request's operationName selects one) and named single operations. The
	// bodies differ from text to text (aliases), so that an operation executed out of another text's document
	// is recognised.
	{s: "query A { a } query B { b } query C { c }", valid: true, fam: 3},                    // 18
	{s: "query B { x: b } query A { y: a }", valid: true},                                   // 19 same names, other order
	{s: "query A { z: a }", valid: true},                                                    // 20 one named operation
	{s: "query A { ...F } query B { w: b ...F } fragment F on Query { c }", valid: true},    // 21 shared fragment
	{s: "query A { a } query A { b }", valid: false},                                        // 22 duplicate name: rejected
	{s: "{ a } query B { b }", valid: false},                                                // 23 anonymous + named: rejected
	{s: "query A { u: a } query B { u: b } query C { u: c } query D { u: echo(s: \"d\") }", valid: true}, // 24
	{s: "query  A { a }  query B { b } query C { c }", valid: true, fam: 3},                 // 25 layout sibling of 18
}

// multiOp: ids of the texts above (operation dimension of the generators)
var multiOp = []int{18, 19, 20, 21, 22, 23, 24, 25}

// nStatic: texts below this index are fixed; weak-key collision pairs found at start-up are appended.
var nStatic int

var textID = map[string]int{}
var shaID = map[string]int{}

func sha(s string) string {
	b := sha256.Sum256([]byte(s))
	return hex.EncodeToString(b[:])
}

func init() {
	nStatic = len(texts)
	for i := range texts {
		indexText(i)
	}
}

func indexText(i int) {
	texts[i].sha = sha(texts[i].s)
	textID[texts[i].s] = i
	shaID[texts[i].sha] = i
	// the independent oracle: a FRESH parse of the text (gqlparser), never a document the executor has held
	if doc, err := parser.ParseQuery(&ast.Source{Input: texts[i].s}); err == nil {
		texts[i].sig = docSig(doc)
		texts[i].ops, texts[i].names = nil, nil
		for _, o := range doc.Operations {
			texts[i].ops = append(texts[i].ops, opSig(o))
			texts[i].names = append(texts[i].names, o.Name)
		}
	}
	for _, o := range texts[i].ops {
		if _, ok := sigID[o]; !ok {
			sigID[o] = i
		}
	}
}

// sigID: operation signature -> first text of the table that has such an operation
var sigID = map[string]int{}

// opSig identifies WHICH operation is being executed independently of OperationContext.RawQuery and of the
// operation's position: its name and its first selection (field: alias, name, first argument).
func opSig(o *ast.OperationDefinition) string {
	if o == nil {
		return "<nil>"
	}
	s := o.Name + "="
	if len(o.SelectionSet) == 0 {
		return s
	}
	switch f := o.SelectionSet[0].(type) {
	case *ast.Field:
		s += f.Alias + ":" + f.Name
		if len(f.Arguments) > 0 && f.Arguments[0].Value != nil {
			s += "(" + f.Arguments[0].Value.Raw + ")"
		}
	case *ast.FragmentSpread:
		s += "..." + f.Name
	default:
		s += "...on"
	}
	return s
}

// docSig: the signatures of all operations of a document, in order
func docSig(doc *ast.QueryDocument) string {
	if doc == nil || len(doc.Operations) == 0 {
		return ""
	}
	var l []string
	for _, o := range doc.Operations {
		l = append(l, opSig(o))
	}
	return strings.Join(l, ";")
}

// executed: what Exec saw - the OperationContext's RawQuery, the signature of the operation it is to run, the
// signature of the document that operation came with, and whether the operation is one of that document's
type executed struct {
	raw, op, doc string
	inDoc        bool
}

func seenByExec(opCtx *graphql.OperationContext) executed {
	x := executed{raw: opCtx.RawQuery, op: opSig(opCtx.Operation), doc: docSig(opCtx.Doc)}
	if opCtx.Doc != nil {
		for _, o := range opCtx.Doc.Operations {
			if o == opCtx.Operation {
				x.inDoc = true
			}
		}
	}
	return x
}

func opIndex(i int, sig string) int {
	for k, o := range texts[i].ops {
		if o == sig {
			return k
		}
	}
	return -1
}

func unitName(i, k int) string {
	if len(texts[i].ops) > 1 {
		return strconv.Itoa(i) + "." + strconv.Itoa(k)
	}
	return strconv.Itoa(i)
}

// unit names the (text, operation) Exec was invoked on: operation k of the text APQ left in rawParams.Query
// (`post`) when the executed operation is one of that text's; else the first text of the table with such an
// operation (so that an operation executed out of another text's document is visible to the Spec); else a
// marker. docOK: the document the operation came with is the document a fresh parse of that text gives.
func (x executed) unit(post string) (name string, docOK bool) {
	if i, ok := textID[post]; ok {
		if k := opIndex(i, x.op); k >= 0 {
			return unitName(i, k), x.inDoc && x.doc == texts[i].sig
		}
	}
	if i, ok := sigID[x.op]; ok {
		return unitName(i, opIndex(i, x.op)), false
	}
	return "?" + hex.EncodeToString([]byte("op:"+x.op)), false
}

// docMark: class suffix for an executed operation whose document is not the fresh document of the text
func (x executed) docMark() string {
	return "!doc=" + hex.EncodeToString([]byte(x.doc))
}

func tid(s string) string {
	if s == "" {
		return "-"
	}
	if i, ok := textID[s]; ok {
		return strconv.Itoa(i)
	}
	return "?" + hex.EncodeToString([]byte(s))
}

func halias(h string) string {
	if i, ok := shaID[h]; ok {
		return "#" + strconv.Itoa(i)
	}
	return "=" + hex.EncodeToString([]byte(h))
}

// ---------------------------------------------------------------- mock schema + recording cache

var schema = gqlparser.MustLoadSchema(&ast.Source{Input: "type Query { a: String b: String c: String echo(s: String): String }"})

type mockES struct{ executed []executed }

func (m *mockES) Schema() *ast.Schema { return schema }
func (m *mockES) Complexity(ctx context.Context, typeName, fieldName string, childComplexity int, args map[string]any) (int, bool) {
	return 0, false
}
func (m *mockES) Exec(ctx context.Context) graphql.ResponseHandler {
	m.executed = append(m.executed, seenByExec(graphql.GetOperationContext(ctx)))
	return graphql.OneShot(&graphql.Response{Data: json.RawMessage(`{}`)})
}

type recCache struct {
	inner graphql.Cache[string]
	ops   []string
}

func (c *recCache) Get(ctx context.Context, key string) (string, bool) {
	v, ok := c.inner.Get(ctx, key)
	if ok {
		c.ops = append(c.ops, "G"+halias(key)+":"+tid(v))
	} else {
		c.ops = append(c.ops, "G"+halias(key)+":miss")
	}
	return v, ok
}

func (c *recCache) Add(ctx context.Context, key, value string) {
	c.ops = append(c.ops, "A"+halias(key)+":"+tid(value))
	c.inner.Add(ctx, key, value)
}

type env struct {
	es  *mockES
	rec *recCache
	ex  *executor.Executor
}

func newEnv() *env {
	e := &env{es: &mockES{}, rec: &recCache{}}
	e.ex = executor.New(e.es)
	e.ex.Use(extension.AutomaticPersistedQuery{Cache: e.rec})
	return e
}

// cache kind grammar: <map|no|lruN>[+q[M]][@http]   +q = a parsed-document cache is configured on the executor
// (+q: graphql.MapCache, +q<M>: lru.New(M)), @http = the history is run through handler.Server and its POST / GET
// transports (http.go)
func baseKind(kind string) (base string, qcache, http bool) {
	if strings.HasSuffix(kind, "@http") {
		http = true
		kind = strings.TrimSuffix(kind, "@http")
	}
	if i := strings.Index(kind, "+q"); i >= 0 {
		qcache = true
		kind = kind[:i]
	}
	return kind, qcache, http
}

// newDocCache: the parsed-document cache of a cache kind (REAL implementations)
func newDocCache(kind string) graphql.Cache[*ast.QueryDocument] {
	kind = strings.TrimSuffix(kind, "@http")
	i := strings.Index(kind, "+q")
	if i < 0 {
		return graphql.NoCache[*ast.QueryDocument]{}
	}
	if n, err := strconv.Atoi(kind[i+2:]); err == nil {
		return lru.New[*ast.QueryDocument](n)
	}
	return graphql.MapCache[*ast.QueryDocument]{}
}

func newCache(kind string) graphql.Cache[string] {
	kind, _, _ = baseKind(kind)
	switch {
	case kind == "map":
		return graphql.MapCache[string]{}
	case kind == "no":
		return graphql.NoCache[string]{}
	case strings.HasPrefix(kind, "lru"):
		n, _ := strconv.Atoi(kind[3:])
		return lru.New[string](n)
	}
	panic("cache kind " + kind)
}

// ---------------------------------------------------------------- request tokens

type req struct {
	q     int  // text id, -1 = empty
	ext   byte // 'a' 'm' 'd'; 'b' = a body the transport cannot decode (token !/b/<fault>), @http histories only
	ver   int64
	hash  string // concrete hash string (for 'd')
	shape string
	// @http histories only
	op  string // operationName (shape suffix ^<name>)
	get bool   // carried by the GET transport (shape suffix @g); default POST application/json
	par string // "" | p1 p2 | q1 q2: member of a pair of requests in flight at once (shape suffix ~p1 …)
}

func (r req) suffix() string {
	s := ""
	if r.op != "" {
		s += "^" + r.op
	}
	if r.get {
		s += "@g"
	}
	if r.par != "" {
		s += "~" + r.par
	}
	return s
}

func (r req) token() string {
	q := "-"
	if r.q >= 0 {
		q = strconv.Itoa(r.q)
	}
	switch r.ext {
	case 'a':
		return q + "/a/" + r.shape + r.suffix()
	case 'm':
		return q + "/m/" + r.shape + r.suffix()
	case 'b':
		return "!/b/" + r.shape + r.suffix()
	}
	return fmt.Sprintf("%s/%d,%s/%s", q, r.ver, halias(r.hash), r.shape+r.suffix())
}

func parseToken(tok string) (req, error) {
	p := strings.Split(tok, "/")
	if len(p) != 3 {
		return req{}, fmt.Errorf("bad token %q", tok)
	}
	r := req{q: -1, shape: p[2]}
	if i := strings.Index(r.shape, "~"); i >= 0 {
		r.par = r.shape[i+1:]
		r.shape = r.shape[:i]
		switch r.par {
		case "p1", "p2", "q1", "q2":
		default:
			return r, fmt.Errorf("bad pair marker in %q", tok)
		}
	}
	if strings.HasSuffix(r.shape, "@g") {
		r.get = true
		r.shape = strings.TrimSuffix(r.shape, "@g")
	}
	if i := strings.Index(r.shape, "^"); i >= 0 {
		r.op = r.shape[i+1:]
		r.shape = r.shape[:i]
	}
	if p[0] == "!" {
		if p[1] != "b" {
			return r, fmt.Errorf("bad fault token %q", tok)
		}
		r.ext = 'b'
		return r, nil
	}
	if p[0] != "-" {
		n, err := strconv.Atoi(p[0])
		if err != nil || n < 0 || n >= len(texts) {
			return r, fmt.Errorf("bad text id in %q", tok)
		}
		r.q = n
	}
	switch p[1] {
	case "a":
		r.ext = 'a'
	case "m":
		r.ext = 'm'
	default:
		r.ext = 'd'
		vh := strings.SplitN(p[1], ",", 2)
		if len(vh) != 2 {
			return r, fmt.Errorf("bad ext in %q", tok)
		}
		v, err := strconv.ParseInt(vh[0], 10, 64)
		if err != nil {
			return r, err
		}
		r.ver = v
		if strings.HasPrefix(vh[1], "#") {
			n, err := strconv.Atoi(vh[1][1:])
			if err != nil || n < 0 || n >= len(texts) {
				return r, fmt.Errorf("bad hash ref in %q", tok)
			}
			r.hash = texts[n].sha
		} else if strings.HasPrefix(vh[1], "=") {
			b, err := hex.DecodeString(vh[1][1:])
			if err != nil {
				return r, err
			}
			r.hash = string(b)
		} else {
			return r, fmt.Errorf("bad hash in %q", tok)
		}
	}
	return r, nil
}

// concretise builds the RawParams a transport would hand to the executor. The abstract class of every
// shape (absent / malformed / decoded v h) is this harness's model of mapstructure.Decode (library).
func (r req) params() (*graphql.RawParams, error) {
	p := &graphql.RawParams{OperationName: r.op}
	if r.q >= 0 {
		p.Query = texts[r.q].s
	}
	var pq any
	switch r.ext {
	case 'a':
		switch r.shape {
		case "missing":
			return p, nil
		case "nilval":
			p.Extensions = map[string]any{"persistedQuery": nil}
		case "otherkey":
			p.Extensions = map[string]any{"other": map[string]any{"version": 1.0, "sha256Hash": texts[0].sha}}
		default:
			return nil, fmt.Errorf("shape %q for absent", r.shape)
		}
		return p, nil
	case 'm':
		switch r.shape {
		case "string":
			pq = "not-a-map"
		case "list":
			pq = []any{1.0, texts[0].sha}
		case "shanum":
			pq = map[string]any{"version": 1.0, "sha256Hash": 123.0}
		case "verstr":
			pq = map[string]any{"version": "1", "sha256Hash": texts[0].sha}
		case "jnfrac":
			pq = map[string]any{"version": json.Number("1.5"), "sha256Hash": texts[0].sha}
		case "verbool":
			pq = map[string]any{"version": true, "sha256Hash": texts[0].sha}
		default:
			return nil, fmt.Errorf("shape %q for malformed", r.shape)
		}
	case 'd':
		m := map[string]any{"version": float64(r.ver), "sha256Hash": r.hash}
		switch r.shape {
		case "f64":
		case "jn":
			m["version"] = json.Number(strconv.FormatInt(r.ver, 10))
		case "int":
			m["version"] = int(r.ver)
		case "extra":
			m["foo"] = "bar"
		case "frac":
			if r.ver < 0 {
				return nil, fmt.Errorf("frac needs version >= 0")
			}
			m["version"] = float64(r.ver) + 0.5
		case "nover", "vernil", "nosha", "shanil", "empty":
			if (r.shape == "nover" || r.shape == "vernil" || r.shape == "empty") && r.ver != 0 {
				return nil, fmt.Errorf("%s needs version 0", r.shape)
			}
			if (r.shape == "nosha" || r.shape == "shanil" || r.shape == "empty") && r.hash != "" {
				return nil, fmt.Errorf("%s needs empty hash", r.shape)
			}
			switch r.shape {
			case "nover":
				delete(m, "version")
			case "vernil":
				m["version"] = nil
			case "nosha":
				delete(m, "sha256Hash")
			case "shanil":
				m["sha256Hash"] = nil
			case "empty":
				m = map[string]any{}
			}
		default:
			return nil, fmt.Errorf("shape %q for decoded", r.shape)
		}
		pq = m
	}
	p.Extensions = map[string]any{"persistedQuery": pq}
	return p, nil
}

// ---------------------------------------------------------------- running a history on the real code

func (e *env) do(r req) (tok string) {
	p, err := r.params()
	if err != nil {
		return "harness-error:" + err.Error()
	}
	e.rec.ops = e.rec.ops[:0]
	e.es.executed = e.es.executed[:0]
	class := ""
	func() {
		defer func() {
			if x := recover(); x != nil {
				class = "panic:" + strings.NewReplacer(" ", "_", "\t", "_", "|", "_", "\n", "_").Replace(fmt.Sprint(x))
			}
		}()
		ctx := graphql.StartOperationTrace(context.Background())
		opCtx, errs := e.ex.CreateOperationContext(ctx, p)
		if len(errs) == 0 {
			h, ctx2 := e.ex.DispatchOperation(ctx, opCtx)
			resp := h(ctx2)
			_ = resp
			class = "run:" + tid(p.Query)
			if opCtx.RawQuery != p.Query {
				class += "!raw=" + tid(opCtx.RawQuery)
			}
			return
		}
		msg := errs[0].Message
		code, _ := errs[0].Extensions["code"].(string)
		switch msg {
		case "invalid APQ extension data":
			class = "inv"
		case "unsupported APQ version":
			class = "ver"
		case "PersistedQueryNotFound":
			class = "nf"
			if code != "PERSISTED_QUERY_NOT_FOUND" {
				class = "nf!code=" + code
			}
		case "provided APQ hash does not match query":
			class = "mm"
		default:
			// parse / validation / no-operation rejection by the executor of the text APQ let through
			class = "run:" + tid(p.Query)
			if opCtx.RawQuery != p.Query {
				class = "err:" + hex.EncodeToString([]byte(msg))
			}
		}
	}()
	x := "-"
	if len(e.es.executed) == 1 {
		var docOK bool
		if x, docOK = e.es.executed[0].unit(p.Query); !docOK {
			class += e.es.executed[0].docMark()
		}
	} else if len(e.es.executed) > 1 {
		x = "multi"
	}
	ops := "-"
	if len(e.rec.ops) > 0 {
		ops = strings.Join(e.rec.ops, ",")
	}
	return class + "|x:" + x + "|" + ops
}

func candidates(h []req) []string {
	var c []string
	seen := map[string]bool{}
	for _, t := range texts {
		c = append(c, t.sha)
		seen[t.sha] = true
	}
	for _, r := range h {
		if r.ext == 'd' && !seen[r.hash] {
			seen[r.hash] = true
			c = append(c, r.hash)
		}
	}
	return c
}

func (e *env) runHistory(kind string, h []req) string {
	_, qc, viaHTTP := baseKind(kind)
	if viaHTTP {
		return runHTTPHistory(kind, h)
	}
	inner := newCache(kind)
	e.rec.inner = inner
	_ = qc
	e.ex.SetQueryCache(newDocCache(kind))
	toks := make([]string, len(h))
	obs := make([]string, len(h))
	for i, r := range h {
		toks[i] = r.token()
		obs[i] = e.do(r)
	}
	var cont []string
	n := 0
	for _, k := range candidates(h) {
		if v, ok := inner.Get(context.Background(), k); ok {
			cont = append(cont, halias(k)+">"+tid(v))
			n++
		}
	}
	if m, ok := inner.(graphql.MapCache[string]); ok && len(m) != n {
		cont = append(cont, fmt.Sprintf("!extra-keys=%d", len(m)-n))
	}
	cs := "-"
	if len(cont) > 0 {
		cs = strings.Join(cont, " ")
	}
	ts, os_ := "-", "-"
	if len(h) > 0 {
		ts, os_ = strings.Join(toks, " "), strings.Join(obs, " ")
	}
	return "run\t" + kind + "\t" + ts + "\t" + os_ + "\t" + cs + "\n"
}

// ---------------------------------------------------------------- generators

// the 18 request kinds of the exhaustive alphabet: 3 texts x 6 kinds
func alpha(i int) req {
	t := i % 3
	switch i / 3 {
	case 0:
		return req{q: t, ext: 'a', shape: "missing"}
	case 1:
		return req{q: t, ext: 'd', ver: 1, hash: texts[t].sha, shape: "f64"}
	case 2:
		return req{q: t, ext: 'd', ver: 1, hash: texts[(t+1)%3].sha, shape: "f64"}
	case 3:
		return req{q: -1, ext: 'd', ver: 1, hash: texts[t].sha, shape: "f64"}
	case 4:
		return req{q: t, ext: 'm', shape: "string"}
	default:
		return req{q: t, ext: 'd', ver: 2, hash: texts[t].sha, shape: "f64"}
	}
}

const nAlpha = 18

// the 16 request kinds of the OPERATION alphabet (-mode exhop): which operation of a registered text runs must
// not depend on what was selected before. Text 18 = [A B C], 19 = [B A] (other bodies), 20 = [A] alone.
func alphaOp(i int) req {
	names := []string{"A", "B", "C", ""}
	switch {
	case i < 4:
		return req{q: 18, ext: 'd', ver: 1, hash: texts[18].sha, shape: "f64", op: names[i]}
	case i < 8:
		return req{q: -1, ext: 'd', ver: 1, hash: texts[18].sha, shape: "f64", op: names[i-4]}
	case i < 10:
		return req{q: 19, ext: 'd', ver: 1, hash: texts[19].sha, shape: "f64", op: names[i-8]}
	case i < 12:
		return req{q: -1, ext: 'd', ver: 1, hash: texts[19].sha, shape: "f64", op: names[i-10]}
	case i < 14:
		return req{q: 18, ext: 'a', shape: "missing", op: names[(i-12)*2]}
	case i == 14:
		return req{q: 20, ext: 'd', ver: 1, hash: texts[20].sha, shape: "f64"}
	default:
		return req{q: -1, ext: 'd', ver: 1, hash: texts[20].sha, shape: "f64", op: "B"}
	}
}

const nAlphaOp = 16

// the alphabet -mode exh / exhop enumerates
var alphaFn, alphaN = alpha, nAlpha

// exhaustive: all histories over the alphabet of length exactly L that start with the fixed `prefix`
// (alphabet indices). The first free position is sharded over goroutines; output order is deterministic.
func exhaustive(w *bufio.Writer, kind string, L int, prefix []int) {
	free := L - len(prefix)
	if free <= 0 {
		h := make([]req, 0, L)
		for _, x := range prefix[:L] {
			h = append(h, alphaFn(x))
		}
		w.WriteString(newEnv().runHistory(kind, h))
		return
	}
	outs := make([][]byte, alphaN)
	var wg sync.WaitGroup
	sem := make(chan struct{}, runtime.NumCPU())
	for s := 0; s < alphaN; s++ {
		wg.Add(1)
		go func(s int) {
			defer wg.Done()
			sem <- struct{}{}
			defer func() { <-sem }()
			e := newEnv()
			var sb strings.Builder
			idx := make([]int, L)
			copy(idx, prefix)
			p0 := len(prefix)
			idx[p0] = s
			h := make([]req, L)
			for {
				for i, x := range idx {
					h[i] = alphaFn(x)
				}
				sb.WriteString(e.runHistory(kind, h))
				// increment positions p0+1..L-1
				k := L - 1
				for k > p0 {
					idx[k]++
					if idx[k] < alphaN {
						break
					}
					idx[k] = 0
					k--
				}
				if k <= p0 {
					break
				}
			}
			outs[s] = []byte(sb.String())
		}(s)
	}
	wg.Wait()
	for _, o := range outs {
		w.Write(o)
	}
}

var absShapes = []string{"missing", "nilval", "otherkey"}
var malShapes = []string{"string", "list", "shanum", "verstr", "jnfrac", "verbool"}
var decShapes = []string{"f64", "f64", "jn", "jn", "int", "extra"}

func literalHashes(own string) []string {
	return []string{strings.ToUpper(own), own + " ", own[:8], "", "deadbeef", "0" + own[1:], own + "00"}
}

// randReq: one request about a text of `pool` (text ids), with an operationName fitting that text most of the time
func randReq(r *rng.R, pool []int) req {
	t := pool[r.Below(len(pool))]
	q := randReqOn(r, pool, t)
	if q.ext == 'b' {
		return q
	}
	names := texts[t].names
	named := len(names) > 1 || (len(names) == 1 && names[0] != "")
	switch c := r.Below(100); {
	case named && c < 72:
		q.op = names[r.Below(len(names))]
	case named && c < 82:
		q.op = []string{"A", "B", "C", "D", "Z"}[r.Below(5)]
	case !named && c < 6:
		q.op = []string{"A", "B"}[r.Below(2)]
	}
	return q
}

func randReqOn(r *rng.R, pool []int, t int) req {
	own := texts[t].sha
	shape := decShapes[r.Below(len(decShapes))]
	switch c := r.Below(100); {
	case c < 24: // register
		return req{q: t, ext: 'd', ver: 1, hash: own, shape: shape}
	case c < 54: // hash only
		return req{q: -1, ext: 'd', ver: 1, hash: own, shape: shape}
	case c < 62: // text only
		return req{q: t, ext: 'a', shape: absShapes[r.Below(len(absShapes))]}
	case c < 67: // text with another text's hash
		return req{q: t, ext: 'd', ver: 1, hash: texts[pool[r.Below(len(pool))]].sha, shape: shape}
	case c < 72: // text with the hash of a layout sibling (same document up to whitespace / ignored tokens / case)
		if sib := siblings(t, pool); len(sib) > 0 {
			return req{q: t, ext: 'd', ver: 1, hash: texts[sib[r.Below(len(sib))]].sha, shape: shape}
		}
		return req{q: t, ext: 'd', ver: 1, hash: texts[pool[r.Below(len(pool))]].sha, shape: shape}
	case c < 78: // text with a near-miss / garbage hash
		l := literalHashes(own)
		return req{q: t, ext: 'd', ver: 1, hash: l[r.Below(len(l))], shape: shape}
	case c < 82: // hash only with a near-miss / garbage hash
		l := literalHashes(own)
		return req{q: -1, ext: 'd', ver: 1, hash: l[r.Below(len(l))], shape: shape}
	case c < 86: // malformed
		q := t
		if r.Bool() {
			q = -1
		}
		return req{q: q, ext: 'm', shape: malShapes[r.Below(len(malShapes))]}
	case c < 91: // wrong version, with or without text
		q := t
		if r.Bool() {
			q = -1
		}
		v := []int64{0, 2, -1, 10, 1 << 40}[r.Below(5)]
		return req{q: q, ext: 'd', ver: v, hash: own, shape: shape}
	case c < 93: // fractional version truncates to the integer part
		q := t
		if r.Bool() {
			q = -1
		}
		return req{q: q, ext: 'd', ver: int64(r.Below(3)), hash: own, shape: "frac"}
	case c < 95: // missing / nil keys
		q := t
		if r.Bool() {
			q = -1
		}
		switch r.Below(5) {
		case 0:
			return req{q: q, ext: 'd', ver: 0, hash: own, shape: "nover"}
		case 1:
			return req{q: q, ext: 'd', ver: 0, hash: own, shape: "vernil"}
		case 2:
			return req{q: q, ext: 'd', ver: 1, hash: "", shape: "nosha"}
		case 3:
			return req{q: q, ext: 'd', ver: 1, hash: "", shape: "shanil"}
		default:
			return req{q: q, ext: 'd', ver: 0, hash: "", shape: "empty"}
		}
	case c < 97: // nothing at all
		return req{q: -1, ext: 'a', shape: absShapes[r.Below(len(absShapes))]}
	default: // hash-only for the sha of the empty string
		return req{q: -1, ext: 'd', ver: 1, hash: sha(""), shape: shape}
	}
}

// siblings: the other members of t's layout family in the pool
func siblings(t int, pool []int) []int {
	var l []int
	if texts[t].fam == 0 {
		return nil
	}
	for _, i := range pool {
		if i != t && i < nStatic && texts[i].fam == texts[t].fam {
			l = append(l, i)
		}
	}
	return l
}

// nSingle: the texts below this index have exactly one anonymous operation or none
const nSingle = 18

func prefixPool(n int) []int {
	p := make([]int, n)
	for i := range p {
		p[i] = i
	}
	return p
}

// opPool: 2-4 of the texts with several / named operations, and text 0
func opPool(r *rng.R) []int {
	p := []int{0}
	for n := 2 + r.Below(3); n > 0; n-- {
		p = append(p, multiOp[r.Below(len(multiOp))])
	}
	if r.Bool() {
		p = append(p, 18) // the three-operation text most of the time
	}
	return p
}

func random(w *bufio.Writer, r *rng.R, n int) {
	kinds := []string{"lru1", "lru2", "lru3", "lru2+q", "lru1", "map", "lru4", "no", "map+q", "lru3+q"}
	// operation-heavy histories (one in three): texts with several operations, a document cache most of the time
	opKinds := []string{"map+q", "lru2+q", "lru3+q1", "map+q2", "lru4+q", "lru2", "map+q3", "lru1+q"}
	e := newEnv()
	for i := 0; i < n; i++ {
		kind := kinds[r.Below(len(kinds))]
		pool := prefixPool(3 + r.Below(nSingle-2))
		L := 8 + r.Below(40)
		if r.Below(3) == 0 {
			kind = opKinds[r.Below(len(opKinds))]
			pool = opPool(r)
			L = 4 + r.Below(28)
		}
		h := make([]req, L)
		for j := range h {
			h[j] = randReq(r, pool)
		}
		w.WriteString(e.runHistory(kind, h))
	}
}

// directed adversarial histories (abstract tokens; see parseToken)
var directed = []string{
	// rebind attempts: register 0, then send text 1 with 0's hash, then resolve 0
	"map|0/1,#0/f64 1/1,#0/f64 -/1,#0/f64",
	"lru1|0/1,#0/f64 1/1,#0/f64 -/1,#0/f64",
	// rebind before registration
	"map|1/1,#0/f64 -/1,#0/f64 0/1,#0/f64 -/1,#0/f64",
	// eviction then lookup: lru1 holds only the last registration
	"lru1|0/1,#0/f64 1/1,#1/f64 -/1,#0/f64 -/1,#1/f64",
	// Get refreshes recency: 0,1 registered; get 0; add 2 evicts 1 (not 0)
	"lru2|0/1,#0/f64 1/1,#1/f64 -/1,#0/f64 2/1,#2/f64 -/1,#0/f64 -/1,#1/f64 -/1,#2/f64",
	// re-Add refreshes recency and does not evict
	"lru2|0/1,#0/f64 1/1,#1/f64 0/1,#0/f64 2/1,#2/f64 -/1,#0/f64 -/1,#1/f64 -/1,#2/f64",
	// a miss does not touch recency
	"lru2|0/1,#0/f64 1/1,#1/f64 -/1,#2/f64 2/1,#2/f64 -/1,#0/f64 -/1,#1/f64",
	// case / whitespace / truncation variants of the right hash must not register or resolve
	"map|0/1,=" + hex.EncodeToString([]byte(strings.ToUpper(sha("{a}")))) + "/f64 -/1,#0/f64 -/1,=" + hex.EncodeToString([]byte(strings.ToUpper(sha("{a}")))) + "/f64",
	"map|0/1,#0/f64 -/1,=" + hex.EncodeToString([]byte(strings.ToUpper(sha("{a}")))) + "/f64 -/1,=" + hex.EncodeToString([]byte(sha("{a}")+" ")) + "/f64 -/1,=" + hex.EncodeToString([]byte(sha("{a}")[:8])) + "/f64",
	"map|0/1,=" + hex.EncodeToString([]byte(sha("{a}")[:8])) + "/f64 0/1,=/nosha -/1,=/nosha -/1,=/shanil",
	// hash of the empty string, empty query
	"map|-/1,=" + hex.EncodeToString([]byte(sha(""))) + "/f64 -/a/missing -/1,=/nosha",
	// invalid texts are registered (APQ runs before parsing) and resolve to themselves
	"map|3/1,#3/f64 -/1,#3/f64 4/1,#4/jn -/1,#4/jn 6/1,#6/f64 -/1,#6/f64",
	// wrong version / malformed never register nor resolve
	"map|0/2,#0/f64 -/1,#0/f64 0/m/string -/1,#0/f64 0/0,#0/nover -/1,#0/f64 0/1,#0/f64 -/2,#0/f64 -/m/verstr -/0,#0/vernil",
	// fractional float version truncates to 1 (mapstructure), json.Number 1.5 is malformed
	"map|0/1,#0/frac -/1,#0/frac 1/0,#1/frac 1/m/jnfrac",
	// NoCache: nothing is ever found
	"no|0/1,#0/f64 -/1,#0/f64 0/1,#1/f64",
	// whitespace variant is a different text with a different hash
	"map|0/1,#0/f64 5/1,#0/f64 5/1,#5/f64 -/1,#0/f64 -/1,#5/f64",
	"lru1|5/1,#5/f64 0/1,#5/f64 -/1,#5/f64 0/1,#0/f64 -/1,#5/f64",
	// --- operationName: which operation of the registered text runs does not depend on what ran before
	// B then A; A, B, A; C, A, B - hash only
	"map+q|18/1,#18/f64^B -/1,#18/f64^A",
	"map+q|18/1,#18/f64^A -/1,#18/f64^B -/1,#18/f64^A",
	"lru2+q2|18/1,#18/f64^C -/1,#18/f64^A -/1,#18/f64^B -/1,#18/f64^C",
	// the same with the text sent again each time, and with a text-only request in between
	"map+q|18/1,#18/f64^C 18/1,#18/f64^B 18/1,#18/f64^A 18/a/missing^C -/1,#18/f64^A",
	// no name with several operations, a name the text does not have, a name only ANOTHER registered text has
	"map+q|18/1,#18/f64^B -/1,#18/f64 -/1,#18/f64^Z 24/1,#24/f64^D -/1,#18/f64^D -/1,#24/f64^D -/1,#24/f64^A",
	// two texts with the same operation names in another order, interleaved
	"map+q|18/1,#18/f64^B 19/1,#19/f64^A -/1,#18/f64^A -/1,#19/f64^B -/1,#18/f64^C -/1,#19/f64^A",
	// a single named operation: selected by its name or by no name
	"lru1+q1|20/1,#20/f64^A -/1,#20/f64 -/1,#20/f64^B -/1,#20/f64^A",
	// operations sharing a fragment
	"map+q|21/1,#21/f64^B -/1,#21/f64^A -/1,#21/f64^B",
	// rejected multi-operation texts are registered (APQ runs before parsing) and never execute
	"map+q|22/1,#22/f64^A -/1,#22/f64^A 23/1,#23/f64^B -/1,#23/f64^B -/1,#23/f64",
	// a layout sibling of the three-operation text sent with its hash is a mismatch
	"map+q|18/1,#18/f64^B 25/1,#18/f64^A -/1,#18/f64^A 25/1,#25/f64^C -/1,#25/f64^A",
	// document cache of one entry: the document is evicted and parsed again in between
	"map+q1|18/1,#18/f64^C 24/1,#24/f64^D -/1,#18/f64^A -/1,#24/f64^A -/1,#18/f64^B",
	// without a document cache
	"map|18/1,#18/f64^B -/1,#18/f64^A -/1,#18/f64^C",
	// absent via nil value / other key: runs the text, touches no cache
	"map|0/a/nilval 0/a/otherkey -/a/nilval -/1,#0/extra 0/1,#0/extra -/1,#0/int",
}

func runDirected(w *bufio.Writer) error {
	e := newEnv()
	for _, d := range directed {
		if err := runSpec(w, e, d); err != nil {
			return err
		}
	}
	return nil
}

// runCorpus: the directed histories kept in corpus/C15/histories.txt (`<cache kind>|<tokens>`, // comments);
// http selects the @http ones, otherwise the ones handed to the executor directly
func runCorpus(w *bufio.Writer, path string, http bool) error {
	if path == "" {
		return nil
	}
	b, err := os.ReadFile(path)
	if err != nil {
		return err
	}
	e := newEnv()
	for _, l := range strings.Split(string(b), "\n") {
		l = strings.TrimSpace(l)
		if l == "" || strings.HasPrefix(l, "//") {
			continue
		}
		kv := strings.SplitN(l, "|", 2)
		if _, _, h := baseKind(kv[0]); h != http {
			continue
		}
		if err := runSpec(w, e, l); err != nil {
			return fmt.Errorf("%s: %v", path, err)
		}
	}
	return nil
}

// ---------------------------------------------------------------- weak-key collisions
//
// Pairs of valid texts whose SHA-256 hex strings - the cache KEYS - agree under a lossy transformation a cache
// might apply to its keys: common 32-bit string digests and 32-bit truncations. Found by birthday search over
// the alias texts `{ k<i>: a }` (about 10^5 candidates per digest), appended to the text table.

type weakDigest struct {
	name string
	f    func(string) uint32
}

var weakDigests = []weakDigest{
	{"fnv32a", func(s string) uint32 { h := fnv.New32a(); h.Write([]byte(s)); return h.Sum32() }},
	{"fnv32", func(s string) uint32 { h := fnv.New32(); h.Write([]byte(s)); return h.Sum32() }},
	{"crc32", func(s string) uint32 { return crc32.ChecksumIEEE([]byte(s)) }},
	{"adler32", func(s string) uint32 { return adler32.Checksum([]byte(s)) }},
	{"prefix8", func(s string) uint32 { n, _ := strconv.ParseUint(s[:8], 16, 32); return uint32(n) }},
	{"suffix8", func(s string) uint32 { n, _ := strconv.ParseUint(s[len(s)-8:], 16, 32); return uint32(n) }},
}

var weakPairs [][2]int // text ids
var weakNames []string

func findWeakPairs() {
	if weakPairs != nil {
		return
	}
	seen := make([]map[uint32]int32, len(weakDigests))
	for i := range seen {
		seen[i] = map[uint32]int32{}
	}
	found := make([][2]int32, len(weakDigests))
	missing := len(weakDigests)
	for i := int32(0); missing > 0 && i < 3000000; i++ {
		h := sha("{ k" + strconv.Itoa(int(i)) + ": a }")
		for d := range weakDigests {
			if found[d][1] != 0 {
				continue
			}
			k := weakDigests[d].f(h)
			if j, ok := seen[d][k]; ok {
				found[d] = [2]int32{j, i}
				missing--
				seen[d] = nil
			} else {
				seen[d][k] = i
			}
		}
	}
	for d := range weakDigests {
		if found[d][1] == 0 {
			continue
		}
		var ids [2]int
		for k := 0; k < 2; k++ {
			s := "{ k" + strconv.Itoa(int(found[d][k])) + ": a }"
			id, ok := textID[s]
			if !ok {
				texts = append(texts, text{s: s, valid: true})
				id = len(texts) - 1
				indexText(id)
			}
			ids[k] = id
		}
		weakPairs = append(weakPairs, ids)
		weakNames = append(weakNames, weakDigests[d].name)
	}
}

// weakHistories: register both texts of a pair, resolve both; resolve a hash whose partner alone was registered
func weakHistories(kinds []string) []string {
	var l []string
	for _, p := range weakPairs {
		a, b := strconv.Itoa(p[0]), strconv.Itoa(p[1])
		for _, k := range kinds {
			sfx := "f64"
			l = append(l,
				fmt.Sprintf("%s|%s/1,#%s/%s %s/1,#%s/%s -/1,#%s/%s -/1,#%s/%s", k, a, a, sfx, b, b, sfx, a, sfx, b, sfx),
				fmt.Sprintf("%s|%s/1,#%s/%s -/1,#%s/%s %s/1,#%s/%s -/1,#%s/%s", k, b, b, sfx, a, sfx, a, b, sfx, a, sfx))
		}
	}
	return l
}

func runWeak(w *bufio.Writer, kinds []string) error {
	e := newEnv()
	for _, d := range weakHistories(kinds) {
		if err := runSpec(w, e, d); err != nil {
			return err
		}
	}
	return nil
}

func runSpec(w *bufio.Writer, e *env, d string) error {
	kv := strings.SplitN(d, "|", 2)
	if len(kv) != 2 {
		return fmt.Errorf("bad history spec %q", d)
	}
	var h []req
	for _, t := range strings.Fields(kv[1]) {
		r, err := parseToken(t)
		if err != nil {
			return err
		}
		h = append(h, r)
	}
	w.WriteString(e.runHistory(kv[0], h))
	if concrete {
		// the concrete requests, for a human reading a replay file
		var l []map[string]any
		_, _, viaHTTP := baseKind(kv[0])
		for _, r := range h {
			if r.ext == 'b' {
				b, _ := faultBody(r.shape)
				l = append(l, map[string]any{"http": "POST application/json", "body": b})
				continue
			}
			if p, err := r.params(); err == nil {
				m := map[string]any{"query": p.Query, "extensions": p.Extensions}
				if p.OperationName != "" {
					m["operationName"] = p.OperationName
				}
				if viaHTTP {
					m["http"] = "POST application/json"
					if r.get {
						m["http"] = "GET"
					}
					if hr, err := r.httpRequest(); err == nil && !r.get {
						b, _ := io.ReadAll(hr.Body)
						m["body"] = string(b)
					} else if err == nil {
						m["url"] = hr.URL.String()
					}
					if r.par != "" {
						m["in_flight_at_once"] = map[string]string{
							"p1": "with the next request; decoded first, passes APQ first",
							"p2": "with the previous request; decoded second, passes APQ second",
							"q1": "with the next request; decoded second, passes APQ first",
							"q2": "with the previous request; decoded first, passes APQ second"}[r.par]
					}
				}
				l = append(l, m)
			}
		}
		b, _ := json.Marshal(l)
		w.WriteString("json\t" + string(b) + "\n")
	}
	return nil
}

var concrete bool

func main() {
	tier := flag.String("tier", "quick", "quick|thorough")
	seed := flag.Uint64("seed", 1, "seed")
	mode := flag.String("mode", "all", "all|tab|directed|random|exh|exhop|http|weak")
	kind := flag.String("cache", "map", "cache kind for -mode exh")
	L := flag.Int("len", 4, "history length for -mode exh")
	prefix := flag.String("prefix", "", "exh: comma-separated alphabet indices the histories start with")
	n := flag.Int("n", 0, "number of random histories (0 = tier default)")
	replay := flag.String("replay", "", "run one history spec `<cache>|<tokens>` and exit")
	corpus := flag.String("corpus", "", "corpus/C15/histories.txt")
	flag.Parse()
	w := bufio.NewWriterSize(os.Stdout, 1<<20)
	defer w.Flush()
	if *mode == "http" || strings.Contains(strings.SplitN(*replay, "|", 2)[0], "@http") {
		// one P = one sync.Pool shard, no collections except the two before each history (http.go)
		runtime.GOMAXPROCS(1)
		debug.SetGCPercent(-1)
	}
	if *replay != "" || *mode == "all" || *mode == "http" || *mode == "weak" {
		findWeakPairs()
	}
	for i, t := range texts {
		v := 0
		if t.valid {
			v = 1
		}
		ops := "-"
		if len(t.names) > 0 {
			l := make([]string, len(t.names))
			for k, n := range t.names {
				if l[k] = n; n == "" {
					l[k] = "_"
				}
			}
			ops = strings.Join(l, ",")
		}
		fmt.Fprintf(w, "tab\t%d\t%s\t%s\t%d\t%s\n", i, hex.EncodeToString([]byte(t.s)), t.sha, v, ops)
	}
	if *replay != "" {
		concrete = true
		if err := runSpec(w, newEnv(), *replay); err != nil {
			w.Flush()
			fmt.Fprintln(os.Stderr, err)
			os.Exit(2)
		}
		return
	}
	r := rng.New(*seed ^ 0xC15C15)
	switch *mode {
	case "tab":
	case "directed":
		if err := runDirected(w); err != nil {
			w.Flush()
			fmt.Fprintln(os.Stderr, err)
			os.Exit(2)
		}
	case "random":
		k := *n
		if k == 0 {
			k = 6000
			if *tier == "thorough" {
				k = 60000
			}
		}
		random(w, r, k)
	case "exh", "exhop":
		if *mode == "exhop" {
			alphaFn, alphaN = alphaOp, nAlphaOp
		}
		var pre []int
		for _, x := range strings.Split(*prefix, ",") {
			if x == "" {
				continue
			}
			n, err := strconv.Atoi(x)
			if err != nil || n < 0 || n >= alphaN {
				fmt.Fprintln(os.Stderr, "bad -prefix")
				os.Exit(2)
			}
			pre = append(pre, n)
		}
		exhaustive(w, *kind, *L, pre)
	case "weak":
		if err := runWeak(w, []string{"map", "lru2", "lru4", "lru2+q"}); err != nil {
			w.Flush()
			fmt.Fprintln(os.Stderr, err)
			os.Exit(2)
		}
	case "http":
		// histories carried over HTTP (POST with pooled params, GET), with undecodable bodies and pairs of
		// requests in flight at once
		err := runCorpus(w, *corpus, true)
		if err == nil {
			err = runWeak(w, []string{"lru2@http"})
		}
		if err != nil {
			w.Flush()
			fmt.Fprintln(os.Stderr, err)
			os.Exit(2)
		}
		for l := 0; l <= 3; l++ {
			httpExhaustive(w, "map@http", l, 1, 0)
		}
		httpExhaustive(w, "lru1+q@http", 3, 1, 0)
		if *tier == "thorough" {
			httpExhaustive(w, "map@http", 4, 1, 0)
			httpExhaustive(w, "lru1+q@http", 4, 1, 0)
		} else {
			httpExhaustive(w, "map+q@http", 4, 8, *seed)
		}
		halphaFn = hopalpha
		for l := 2; l <= 3; l++ {
			httpExhaustive(w, "map+q@http", l, 1, 0)
		}
		if *tier == "thorough" {
			httpExhaustive(w, "lru1+q1@http", 4, 1, 0)
		}
		halphaFn = halpha
		k := *n
		if k == 0 {
			k = 1500
			if *tier == "thorough" {
				k = 20000
			}
		}
		httpRandom(w, r.Fork(), k)
	case "all":
		err := runDirected(w)
		if err == nil {
			err = runCorpus(w, *corpus, false)
		}
		if err == nil {
			err = runWeak(w, []string{"map", "lru2", "lru4", "lru2+q"})
		}
		if err != nil {
			w.Flush()
			fmt.Fprintln(os.Stderr, err)
			os.Exit(2)
		}
		k := *n
		if k == 0 {
			k = 6000
			if *tier == "thorough" {
				k = 60000
			}
		}
		random(w, r, k)
		for l := 0; l <= 3; l++ {
			for _, c := range []string{"map", "lru1", "lru2", "lru3", "no", "map+q"} {
				exhaustive(w, c, l, nil)
			}
		}
		alphaFn, alphaN = alphaOp, nAlphaOp
		for l := 1; l <= 3; l++ {
			for _, c := range []string{"map+q", "lru1+q1", "map", "lru2+q2"} {
				exhaustive(w, c, l, nil)
			}
		}
	}
}
