package main

// Round 6: the REQUEST ENVELOPE as a carrier of state from one operation to the next one on the same
// connection / server. A payload (websocket `subscribe` / `start`, or an HTTP body) is decoded into a
// graphql.RawParams, every field of which has a JSON tag: query, operationName, variables, extensions AND headers.
// encoding/json matches member names case-insensitively and MERGES an object into a map that is already there.
// The response to an operation must be a function of its own payload and of the connection's init data (the
// upgrade request) only - so after an operation whose payload carried any of these members (or members nobody
// knows), an operation that does not carry them must be answered as on a fresh server and connection.
//
// The probe's resolvers expose everything the operation context holds: `op` (OperationName), `vars` (Variables),
// `ext` (Extensions), `hdr` (one header), `hdrs` (ALL headers, showHdrs), `raw` (RawQuery); `tick` echoes the same.
//
// Second dimension of this file: query texts that differ from an earlier text in LETTER CASE only (GraphQL is case
// sensitive; whatever keys a store by the query text must not fold it) - the case family of the catalogue.

import (
	"fmt"
	"net/http"
	"sort"
	"strings"
)

// showHdrs: every header an operation context holds. The only member that differs between two connections made
// by the same client code is the websocket handshake nonce, whose value is not shown.
func showHdrs(h http.Header) string {
	if h == nil {
		return "-"
	}
	var ks []string
	for k := range h {
		ks = append(ks, k)
	}
	sort.Strings(ks)
	var parts []string
	for _, k := range ks {
		if k == "Sec-Websocket-Key" {
			parts = append(parts, k+"=*")
			continue
		}
		parts = append(parts, k+"="+strings.Join(h[k], "|"))
	}
	return strings.Join(parts, ";")
}

// ---------------------------------------------------------------- envelope members

// envCarriers: member texts a payload may carry besides query / operationName / variables. `where` says whether
// they are written before or after the `query` member (json decodes members in document order).
type envCarrier struct {
	tag     string
	members string // JSON members, comma separated, without braces
	// bad: the payload does not decode: the operation is refused ("invalid json") whatever its text is;
	// alters: the members may replace the operation's OWN name / variables (case-insensitive member names)
	bad, alters bool
}

var envCarriers = []envCarrier{
	{"headers-new", `"headers":{"X-Tenant":["acme"]}`, false, false},
	{"headers-echo", `"headers":{"X-Echo":["injected"]}`, false, false},
	{"headers-two-values", `"headers":{"X-Echo":["a","b"],"Authorization":["Bearer t"]}`, false, false},
	{"headers-noncanonical-key", `"headers":{"x-echo":["lower"]}`, false, false},
	{"headers-overwrite-upgrade", `"headers":{"User-Agent":["injected-agent"],"Origin":["http://evil.test"]}`, false, false},
	{"headers-empty-list", `"headers":{"X-Echo":[]}`, false, false},
	{"headers-empty", `"headers":{}`, false, false},
	{"headers-null", `"headers":null`, false, false},
	{"headers-member-null", `"headers":{"X-Echo":null}`, false, false},
	{"headers-capitalised-name", `"Headers":{"X-Echo":["cap"]}`, false, false},
	{"headers-upper-name", `"HEADERS":{"X-Upper":["u"]}`, false, false},
	{"headers-twice", `"headers":{"X-One":["1"]},"headers":{"X-Two":["2"]}`, false, false},
	{"headers-wrong-type", `"headers":{"X-Echo":"not-a-list"}`, true, false},
	{"headers-partly-wrong", `"headers":{"X-Good":["g"],"X-Bad":7}`, true, false},
	{"extensions", `"extensions":{"tenant":"acme","n":[1,2]}`, false, false},
	{"extensions-null", `"extensions":null`, false, false},
	{"extensions-capitalised", `"Extensions":{"tenant":"cap"}`, false, false},
	{"variables-capitalised", `"Variables":{"s":"leak","n":9}`, false, true},
	{"operationname-lower", `"operationname":"B"`, false, true},
	{"unknown-members", `"tenant":"acme","id":"zz","payload":{"query":"{ k }"},"type":"complete"`, false, false},
	{"unknown-and-headers", `"x":1,"headers":{"X-Echo":["mixed"]},"y":[{}]`, false, false},
}

// envReaders: operations whose answers show what the operation context holds, without carrying any of it themselves
const qEnv = "{ op vars ext hdr hdrs raw }"
const qEnvQ = "query Q($s: String, $n: Int = 7) { arg(s: $s, n: $n) vars ext hdrs op }"

func envPayload(text, op string, vars []kvp, extra string, before bool) string {
	var ms []string
	if extra != "" && before {
		ms = append(ms, extra)
	}
	ms = append(ms, `"query":`+canon(text))
	if op != "" {
		ms = append(ms, `"operationName":`+canon(op))
	}
	if vars != nil {
		ms = append(ms, `"variables":`+kvJSON(vars))
	}
	if extra != "" && !before {
		ms = append(ms, extra)
	}
	return "{" + strings.Join(ms, ",") + "}"
}

// envSub: a gated subscription (its ticks echo name, variables, extensions and headers) whose payload carries extra
func envSub(id string, k, ticks int, extra string, before bool) wsOp {
	g := fmt.Sprintf("g%d", k)
	return wsOp{ID: id, Kind: "sub", Ticks: ticks, Gate: g, Payload: envPayload(qSub, "T", []kvp{{"n", fmt.Sprint(ticks)}, {"g", canon(g)}}, extra, before)}
}

func envCarrierSub(c envCarrier, before bool) wsOp {
	o := envSub("c", 1, 2, c.members, before)
	if c.bad { // refused before anything runs: it ends by itself
		o = oneOp("c", o.Payload)
	}
	if c.alters { // a gated subscription must keep its own variables: a query instead
		o = oneOp("c", envPayload(qEnvQ, "Q", []kvp{{"s", `"own"`}}, c.members, before))
	}
	return o
}

// directedEnvSessions: for every carrier x both sub-protocols
//   - carrier, then readers (one-shot and a subscription) that carry nothing, then the carrier's text again without
//     the member, then another carrier, then a reader;
//   - the carrier is a RUNNING subscription when the readers arrive.
func directedEnvSessions() []*wsSession {
	var ss []*wsSession
	ev := func(k string, op int) wsEv { return wsEv{k, op} }
	for ci, c := range envCarriers {
		for pi, proto := range []string{"graphql-transport-ws", "graphql-ws"} {
			before := (ci+pi)%2 == 0
			next := envCarriers[(ci+1)%len(envCarriers)]
			ss = append(ss,
				&wsSession{Proto: proto, Ops: []wsOp{
					oneOp("c", envPayload(qEnv, "", nil, c.members, before)),
					oneOp("r", envPayload(qEnv, "", nil, "", false)),
					subOp("s", 2, 1, "T"),
					oneOp("c", envPayload(qEnvQ, "Q", []kvp{{"s", `"own"`}}, next.members, !before)),
					oneOp("r2", envPayload(qEnvQ, "", nil, "", false)),
					oneOp("r3", wsPayload(qAB, "A", nil)),
				}, Evs: []wsEv{ev("start", 0), ev("start", 1), ev("start", 2), ev("step", 2), ev("start", 3), ev("start", 4), ev("start", 5)}},
				&wsSession{Proto: proto, Ops: []wsOp{
					oneOp("r0", envPayload(qEnv, "", nil, "", false)),
					envCarrierSub(c, before),
					oneOp("r", envPayload(qEnv, "", nil, "", false)),
					subOp("s", 3, 1, "U"),
					oneOp("r2", envPayload(qEnvQ, "Q", []kvp{{"n", `1`}}, "", false)),
				}, Evs: []wsEv{ev("start", 0), ev("start", 1), ev("start", 2), ev("step", 1), ev("start", 3), ev("step", 1), ev("step", 3), ev("start", 4)}})
		}
	}
	for _, s := range ss {
		wsPre(s)
	}
	return ss
}

// envDecorate: generator dimension of the random websocket sessions - the payload of an operation gets members
// of a carrier (before or after its own members)
func envDecorate(g *gen, payload string, allowBad bool) string {
	if !strings.HasPrefix(payload, `{"query":`) {
		return payload
	}
	c := envCarriers[g.pick(len(envCarriers))]
	if (c.bad || c.alters) && !allowBad {
		c = envCarriers[0]
	}
	if g.chance(50) {
		return "{" + c.members + "," + payload[1:]
	}
	return payload[:len(payload)-1] + "," + c.members + "}"
}

// envReaderPayload: a one-shot operation that shows the whole operation context
func envReaderPayload(g *gen) string {
	switch g.pick(3) {
	case 0:
		return envPayload(qEnvQ, "Q", varSets[1+g.pick(2)], "", false)
	case 1:
		return envPayload(qEnvQ, "", nil, "", false)
	}
	return envPayload(qEnv, "", nil, "", false)
}

// ---------------------------------------------------------------- the case family of query texts

var envFirst, caseFirst, caseEnd int // catalogue[envFirst:caseFirst] readers; catalogue[caseFirst:caseEnd] twins (2k, 2k+1)

var caseTwins = [][2]qtext{
	{{`{ arg(s: "Hello World") op }`, nil, nil}, {`{ arg(s: "hello world") op }`, nil, nil}},
	{{`{ N: op vars }`, nil, nil}, {`{ n: op vars }`, nil, nil}},
	{{`query Q { op k }`, []string{"Q", "q"}, nil}, {`query q { op k }`, []string{"Q", "q"}, nil}},
	{{`query C($s: String = "Ab") { arg(s: $s) raw }`, []string{"C"}, nil}, {`query C($s: String = "ab") { arg(s: $s) raw }`, []string{"C"}, nil}},
	{{`{ pick(c: RED, ids: [1]) }`, nil, nil}, {`{ pick(c: red, ids: [1]) }`, nil, nil}}, // the twin is invalid
	{{`{ node { ID: id op } }`, nil, nil}, {`{ node { id: id op } }`, nil, nil}},
	{{`{ k op }`, nil, nil}, {`{ K op }`, nil, nil}}, // the twin is invalid
	{{`query Q($s: String) { arg(s: $s) }`, []string{"Q"}, nil}, {`query Q($S: String) { arg(s: $S) }`, []string{"Q"}, nil}},
	{{`{ ...F } fragment F on Query { op k }`, nil, nil}, {`{ ...f } fragment f on Query { op k }`, nil, nil}},
}

func initEnvelope() {
	envFirst = len(catalogue)
	catalogue = append(catalogue, qtext{qEnv, nil, nil}, qtext{qEnvQ, []string{"Q"}, nil})
	caseFirst = len(catalogue)
	for _, p := range caseTwins {
		catalogue = append(catalogue, p[0], p[1])
	}
	caseEnd = len(catalogue)
}

// caseTwin: the text that differs from catalogue[i] in letter case only
func caseTwin(i int) int { return caseFirst + ((i - caseFirst) ^ 1) }

// directedCaseHistories: one history per pair (so that the pairs meet every cache configuration): the text, its
// twin, the text again, the twin over GET; with and without the operation name / variables of the other one
func directedCaseHistories() []history {
	var hs []history
	for k, p := range caseTwins {
		a, b := p[0].text, p[1].text
		reqs := []*rq{post(M("query", S(a))), post(M("query", S(b))), post(M("query", S(a))), get(b, "", nil, nil), post(M("query", S(b)))}
		if len(p[0].ops) > 1 {
			reqs = append(reqs,
				post(M("query", S(a)), M("operationName", S(p[0].ops[0]))),
				post(M("query", S(b)), M("operationName", S(p[0].ops[1]))),
				post(M("query", S(b)), M("operationName", S(p[0].ops[0]))),
				post(M("query", S(a)), M("operationName", S(p[0].ops[1]))))
		}
		hs = append(hs, history{name: fmt.Sprintf("case-twins-%d", k), reqs: reqs})
		// the twin first
		hs = append(hs, history{name: fmt.Sprintf("case-twins-rev-%d", k), reqs: []*rq{
			post(M("query", S(b)), M("variables", O(kvp{"s", `"V"`}))), post(M("query", S(a)), M("variables", O(kvp{"s", `"V"`}))), get(a, "", nil, nil), post(M("query", S(b)))}})
	}
	// what the operation context holds, over HTTP: every member of the envelope present, then absent
	hs = append(hs, history{name: "envelope-all-members", reqs: []*rq{
		postH(hdr("X-Echo", "first", "X-Tenant", "acme"), M("query", S(qEnvQ)), M("operationName", S("Q")), M("variables", O(kvp{"s", `"x"`})), M("extensions", O(kvp{"tenant", `"acme"`})), M("headers", O(kvp{"X-Injected", `["i"]`}))),
		post(M("query", S(qEnvQ))),
		post(M("query", S(qEnv)), M("headers", O(kvp{"X-Echo", `["injected"]`}, kvp{"Content-Type", `["text/plain"]`}))),
		post(M("query", S(qEnv))),
		get(qEnv, "", nil, nil),
		post(M("Headers", O(kvp{"X-Cap", `["c"]`})), M("query", S(qEnv))),
		post(M("query", S(qEnv)))}})
	return hs
}
