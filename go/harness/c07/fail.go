package main

// Round 5: FAILURE OUTCOMES as carriers of state between requests.
//
// Resolvers of the probe schema that panic or fail - at different response paths (aliases, list indices, nested
// objects), recovered and reported per field exactly as generated code does (`ec.Error(ctx, ec.Recover(ctx, r))`,
// `ec.Error(ctx, err)` under a field context of their own) - on servers with the DEFAULT recover func and error
// presenter as well as custom ones. The error values such a failure produces (`*gqlerror.Error`) are annotated by
// the library per request (ErrorOnPath fills in the path, presenters edit extensions): whatever produces them must
// produce a new one per failure.
//
// The state involved may be global to the PROCESS (a package-level value), which a fresh-server oracle built in the
// same process shares. So besides the fresh-server oracle every response is compared with the errors the request's
// OWN failing resolvers raised: every failure is logged - out of band, through the context of the http.Request -
// with the response path the harness's own walk of the selection set arrived at (aliases / list indices handed down
// the recursion, independent of graphql.GetPath), and the `errors` of the response must be exactly the logged
// failures, in order, each with its own path, the message the configured recover func / presenter gives it, and
// nothing else.

import (
	"context"
	"encoding/json"
	"errors"
	"fmt"
	"strconv"
	"strings"
	"sync"

	"github.com/99designs/gqlgen/graphql"
	"github.com/vektah/gqlparser/v2/ast"
	"github.com/vektah/gqlparser/v2/gqlerror"
)

// ---------------------------------------------------------------- recover func / error presenter configurations

// "d" = nothing configured: graphql.DefaultRecover and graphql.DefaultErrorPresenter
var errCfgNames = []string{"d", "rf-msg", "rf-gql", "ep-code", "ep-copy", "rf-msg+ep-code", "rf-gql+ep-copy", "ep-code+rf-default"}

func splitOpts(opts string) (hdr, errCfg string) {
	hdr, errCfg, _ = strings.Cut(opts, "/")
	if hdr == "" {
		hdr = "none"
	}
	if errCfg == "" {
		errCfg = "d"
	}
	return
}

func (s *server) applyErrCfg(name string) {
	for _, part := range strings.Split(name, "+") {
		switch part {
		case "d", "":
		case "rf-default": // the default one, configured explicitly
			s.h.SetRecoverFunc(graphql.DefaultRecover)
		case "rf-msg": // a plain error that tells the panic value
			s.h.SetRecoverFunc(func(ctx context.Context, err any) error { return fmt.Errorf("recovered: %v", err) })
		case "rf-gql": // a new *gqlerror.Error per panic, without a path
			s.h.SetRecoverFunc(func(ctx context.Context, err any) error {
				return &gqlerror.Error{Message: "recovered", Extensions: map[string]any{"panic": fmt.Sprint(err)}}
			})
		case "ep-code": // built on the default presenter, edits the error in place (as the documentation shows)
			s.h.SetErrorPresenter(func(ctx context.Context, err error) *gqlerror.Error {
				e := graphql.DefaultErrorPresenter(ctx, err)
				if e.Extensions == nil {
					e.Extensions = map[string]any{}
				}
				e.Extensions["code"] = "PRESENTED"
				return e
			})
		case "ep-copy": // a new error per presentation, path taken from the context by the presenter itself
			s.h.SetErrorPresenter(func(ctx context.Context, err error) *gqlerror.Error {
				e := graphql.DefaultErrorPresenter(ctx, err)
				return &gqlerror.Error{Message: "presented: " + e.Message, Path: graphql.GetPath(ctx)}
			})
		default:
			if !s.applyMwCfg(part) { // mutate.go: middleware that writes into what gqlgen hands it
				panic("unknown error configuration " + name)
			}
		}
	}
}

// ---------------------------------------------------------------- the out-of-band log of a request's own failures

type failEvent struct {
	path   []any
	how, m string
}

type failLog struct {
	mu      sync.Mutex
	evs     []failEvent
	escaped string // panic value of a panic without field-level recover ("" = none)
}

type failKey struct{}

func failLogOf(ctx context.Context) *failLog {
	fl, _ := ctx.Value(failKey{}).(*failLog)
	return fl
}

func intArg(args map[string]any, name string, def int) int {
	if v, ok := args[name]; ok && v != nil {
		if k, err := strconv.Atoi(fmt.Sprint(v)); err == nil {
			return k
		}
	}
	return def
}

var failHows = []string{"panic", "err", "gqlerr", "ext", "list", "pathed", "wrapped", "errorf", "panic-err"}

// failField: `fail(how:, m:, at:)`. With `at`, only the element of the innermost enclosing list that has this index
// fails (so one text fails at different paths under different variables). The field is nullable: the failure nulls
// it and nothing else.
func failField(ctx context.Context, opCtx *graphql.OperationContext, f graphql.CollectedField, fp []any) (ret graphql.Marshaler) {
	args := f.ArgumentMap(opCtx.Variables)
	how, _ := args["how"].(string)
	m, _ := args["m"].(string)
	if at, ok := args["at"]; ok && at != nil {
		idx := -1
		for _, e := range fp {
			if k, ok := e.(int); ok {
				idx = k
			}
		}
		if idx != intArg(args, "at", -2) {
			return graphql.MarshalString("fine")
		}
	}
	known := false
	for _, h := range failHows {
		known = known || h == how
	}
	if !known {
		return graphql.MarshalString("fine:" + how)
	}
	if fl := failLogOf(ctx); fl != nil {
		fl.mu.Lock()
		fl.evs = append(fl.evs, failEvent{fp, how, m})
		fl.mu.Unlock()
	}
	// as codegen/field.gotpl: `defer func() { if r := recover(); r != nil { ec.Error(ctx, ec.Recover(ctx, r)); ret = graphql.Null } }()`
	defer func() {
		if r := recover(); r != nil {
			opCtx.Error(ctx, opCtx.Recover(ctx, r))
			ret = graphql.Null
		}
	}()
	var err error
	switch how {
	case "panic":
		panic("boom " + m)
	case "panic-err":
		panic(errors.New("boom " + m))
	case "err":
		err = errors.New(m)
	case "gqlerr":
		err = &gqlerror.Error{Message: m}
	case "ext":
		err = &gqlerror.Error{Message: m, Extensions: map[string]any{"code": "E_" + m, "n": 1}}
	case "list":
		err = gqlerror.List{{Message: m + "/1"}, {Message: m + "/2"}}
	case "pathed":
		err = &gqlerror.Error{Message: m, Path: ast.Path{ast.PathName("custom"), ast.PathIndex(7)}}
	case "wrapped":
		err = fmt.Errorf("wrap: %w", &gqlerror.Error{Message: m})
	case "errorf":
		graphql.AddErrorf(ctx, "f:%s", m)
		return graphql.Null
	}
	opCtx.Error(ctx, err) // `ec.Error(ctx, err); return graphql.Null`
	return graphql.Null
}

// escapeField: a panic no field recovers (generated code with omit_panic_handler, a panic in a marshaller)
func escapeField(ctx context.Context, opCtx *graphql.OperationContext, f graphql.CollectedField) {
	m, _ := f.ArgumentMap(opCtx.Variables)["m"].(string)
	if fl := failLogOf(ctx); fl != nil {
		fl.mu.Lock()
		fl.escaped = "escaped " + m
		fl.mu.Unlock()
	}
	panic("escaped " + m)
}

// ---------------------------------------------------------------- what the errors of the response have to be

func astPath(p []any) ast.Path {
	var out ast.Path
	for _, e := range p {
		switch x := e.(type) {
		case string:
			out = append(out, ast.PathName(x))
		case int:
			out = append(out, ast.PathIndex(x))
		}
	}
	return out
}

// recovered: what the configured recover func + ErrorOnPath make of a panic value at path p
func recovered(errCfg string, val string, p ast.Path) *gqlerror.Error {
	switch {
	case strings.Contains(errCfg, "rf-msg"):
		return &gqlerror.Error{Message: "recovered: " + val, Path: p}
	case strings.Contains(errCfg, "rf-gql"):
		return &gqlerror.Error{Message: "recovered", Path: p, Extensions: map[string]any{"panic": val}}
	}
	return &gqlerror.Error{Message: "internal system error", Path: p}
}

func presented(errCfg string, e *gqlerror.Error, ctxPath ast.Path) *gqlerror.Error {
	switch {
	case strings.Contains(errCfg, "ep-code"):
		if e.Extensions == nil {
			e.Extensions = map[string]any{}
		}
		e.Extensions["code"] = "PRESENTED"
	case strings.Contains(errCfg, "ep-copy"):
		return &gqlerror.Error{Message: "presented: " + e.Message, Path: ctxPath}
	}
	return e
}

// expectedErrors: the `errors` member the request's own failures give, computed from the log alone
func expectedErrors(errCfg string, fl *failLog) gqlerror.List {
	if fl.escaped != "" {
		// handler.Server.ServeHTTP: errorPresenter(r.Context(), recoverFunc(r.Context(), value)) - no path anywhere
		return gqlerror.List{presented(errCfg, recovered(errCfg, fl.escaped, nil), nil)}
	}
	out := gqlerror.List{}
	for _, ev := range fl.evs {
		p := astPath(ev.path)
		var es []*gqlerror.Error
		switch ev.how {
		case "panic", "panic-err":
			es = append(es, recovered(errCfg, "boom "+ev.m, p))
		case "err", "gqlerr", "wrapped":
			es = append(es, &gqlerror.Error{Message: ev.m, Path: p})
		case "ext":
			es = append(es, &gqlerror.Error{Message: ev.m, Path: p, Extensions: map[string]any{"code": "E_" + ev.m, "n": 1}})
		case "list":
			es = append(es, &gqlerror.Error{Message: ev.m + "/1", Path: p}, &gqlerror.Error{Message: ev.m + "/2", Path: p})
		case "pathed":
			es = append(es, &gqlerror.Error{Message: ev.m, Path: ast.Path{ast.PathName("custom"), ast.PathIndex(7)}})
		case "errorf":
			es = append(es, &gqlerror.Error{Message: "f:" + ev.m, Path: p})
		}
		for _, e := range es {
			out = append(out, presented(errCfg, e, p))
		}
	}
	return out
}

func canonJSON(raw []byte) string {
	var v any
	if err := json.Unmarshal(raw, &v); err != nil {
		return "!" + string(raw)
	}
	return canon(v)
}

// ownErrorsCheck: "" if the errors of the response body are exactly the request's own failures, otherwise the body
// the response should have had (the response's data and extensions with the expected errors)
func ownErrorsCheck(errCfg string, fl *failLog, body string) string {
	if fl == nil || (len(fl.evs) == 0 && fl.escaped == "") {
		return ""
	}
	want := expectedErrors(errCfg, fl)
	wantJSON, _ := json.Marshal(want)
	var got struct {
		Errors     json.RawMessage `json:"errors"`
		Data       json.RawMessage `json:"data"`
		Extensions json.RawMessage `json:"extensions"`
	}
	if err := json.Unmarshal([]byte(body), &got); err == nil && canonJSON(got.Errors) == canonJSON(wantJSON) {
		return ""
	}
	if got.Data == nil {
		got.Data = json.RawMessage("null")
	}
	exp := `{"errors":` + string(wantJSON) + `,"data":` + string(got.Data)
	if got.Extensions != nil {
		exp += `,"extensions":` + string(got.Extensions)
	}
	return exp + "}"
}

// ---------------------------------------------------------------- the failure family of query texts

var failFirst, failEnd int // catalogue[failFirst:failEnd]
var failVarFirst int       // varSets[failVarFirst:]

var failTexts = []string{
	"{ a: fail }",
	"{ b: fail }",
	"{ fail }",
	"{ k a: fail op }",
	"query E($h: String = \"panic\", $m: String) { x: fail(how: $h, m: $m) k }",
	"query E($h: String = \"err\", $m: String = \"mm\") { k y: fail(how: $h, m: $m) }",
	"query E($i: Int) { nodes { id fail(at: $i) } }",
	"query E($i: Int = 1, $h: String) { nodes(n: 4) { id child { deep: fail(how: $h, at: $i) } } k }",
	"query E($i: Int, $h: String) { l: nodes(n: 2) { f: fail(how: $h, at: $i) } nodes { g: fail(how: $h, at: $i) } }",
	"{ node { id fail } }",
	"{ node { id n: fail(how: \"gqlerr\", m: \"in node\") } }",
	"{ node { child { child { z: fail(how: \"err\", m: \"deep\") } } } }",
	"query E($a: Boolean = false) { p: fail @include(if: $a) q: fail @skip(if: $a) }",
	"query E($a: Boolean = false, $h: String) { node { p: fail(how: $h) @include(if: $a) } node { q: fail(how: $h) @skip(if: $a) } }",
	"{ a: fail(how: \"err\", m: \"1\") b: fail c: fail(how: \"list\", m: \"L\") k }",
	"{ first: fail(how: \"pathed\", m: \"own path\") second: fail }",
	"{ w: fail(how: \"wrapped\", m: \"inner\") e: fail(how: \"ext\", m: \"X\") f: fail(how: \"errorf\", m: \"F\") }",
	"{ op esc: escape }",
	"query E($m: String) { a: fail(how: \"err\") escape(m: $m) }",
	"{ things { ... on Node { t: fail } } }",
	"query E($h: String) { node { id } nodes(n: 2) { op child { child { id c: fail(how: $h) } } } }",
}

var failVars = [][]kvp{
	{{"h", `"panic"`}},
	{{"h", `"err"`}, {"m", `"from vars"`}},
	{{"h", `"gqlerr"`}},
	{{"h", `"ext"`}, {"m", `"V"`}},
	{{"h", `"list"`}},
	{{"h", `"pathed"`}},
	{{"h", `"wrapped"`}},
	{{"h", `"errorf"`}},
	{{"h", `"panic-err"`}},
	{{"h", `"none"`}},
	{{"i", `0`}},
	{{"i", `1`}},
	{{"i", `2`}, {"h", `"panic"`}},
	{{"i", `3`}, {"h", `"err"`}},
	{{"i", `1`}, {"h", `"panic"`}},
	{{"i", `0`}, {"h", `"panic"`}, {"a", `true`}},
	{{"a", `true`}},
	{{"a", `false`}, {"h", `"panic"`}},
	{{"m", `"second"`}},
}

func initFail() {
	failFirst = len(catalogue)
	for _, t := range failTexts {
		catalogue = append(catalogue, qtext{t, []string{"E"}, nil})
	}
	failEnd = len(catalogue)
	failVarFirst = len(varSets)
	varSets = append(varSets, failVars...)
}

// directed histories: consecutive requests that fail at DIFFERENT places, over every transport, with something that
// does not fail in between, for every recover func / presenter configuration; forwards and backwards (whichever
// failure is the first of the process / of the server differs)
func failureHistories() []history {
	var hs []history
	seq := func() []*rq {
		return []*rq{
			jsonPost("{ a: fail }", "", nil),
			jsonPost("{ b: fail }", "", nil),
			get("{ fail }", "", nil, nil),
			jsonPost(failTexts[6], "", []kvp{{"i", `0`}}),
			jsonPost(failTexts[6], "E", []kvp{{"i", `2`}}),
			graphqlReq("{ node { id fail } }"),
			jsonPost("{ op vars raw }", "", nil),
			jsonPost(failTexts[17], "", nil),
			formJSON(M("query", S(failTexts[12])), M("variables", O(kvp{"a", `true`}))),
			formJSON(M("query", S(failTexts[12]))),
			jsonPost(failTexts[14], "", nil),
			get(failTexts[4], "E", []kvp{{"h", `"err"`}, {"m", `"g"`}}, nil),
			jsonPost(failTexts[4], "", []kvp{{"h", `"panic"`}}),
			jsonPost(failTexts[15], "", nil),
			jsonPost(failTexts[16], "", nil),
			jsonPost(failTexts[7], "", []kvp{{"i", `3`}, {"h", `"panic"`}}),
			jsonPost(failTexts[7], "", []kvp{{"i", `1`}, {"h", `"ext"`}}),
			jsonPost(failTexts[18], "", []kvp{{"m", `"late"`}}),
			jsonPost(failTexts[20], "", []kvp{{"h", `"panic"`}}),
			jsonPost("{ a: fail }", "", nil),
			jsonPost("{ nope }", "", nil),
			jsonPost(failTexts[19], "", nil),
		}
	}
	for _, ec := range errCfgNames {
		fw := seq()
		bw := seq()
		for i, j := 0, len(bw)-1; i < j; i, j = i+1, j-1 {
			bw[i], bw[j] = bw[j], bw[i]
		}
		hs = append(hs, history{name: "failures-at-different-paths:" + ec, reqs: fw, errCfg: ec},
			history{name: "failures-at-different-paths-reversed:" + ec, reqs: bw, errCfg: ec})
	}
	// a panic nobody recovers at field level comes first: the server-level recover has no path at all
	hs = append(hs, history{name: "escaped-panic-then-field-failures", reqs: []*rq{
		jsonPost("{ op esc: escape }", "", nil), jsonPost("{ a: fail }", "", nil), jsonPost("{ op esc: escape }", "", nil),
		jsonPost("{ nodes { fail(at: 1) } }", "", nil), get("{ op esc: escape }", "", nil, nil)}})
	return hs
}

// scheduled pairs: a request that has already failed somewhere stands still while another one fails elsewhere
func failureGroups(pair func(name, point string, a, b *rq)) {
	for _, p := range parkPoints {
		pair("failures-before-and-after-park", p, jsonPost("{ a: fail node { id x: fail child { y: fail(how: \"err\") } } z: fail }", "", nil), jsonPost("{ b: fail }", "", nil))
		pair("failures-same-text-other-index", p, jsonPost("query E($i: Int) { node { id } nodes { id fail(at: $i) } }", "", []kvp{{"i", `0`}}), jsonPost("query E($i: Int) { node { id } nodes { id fail(at: $i) } }", "", []kvp{{"i", `2`}}))
		pair("failure-vs-escape", p, jsonPost("{ node { id q: fail } }", "", nil), jsonPost("{ op esc: escape }", "", nil))
	}
}
