package main

// Configuration dimension of the tie: what the four HTTP transports of the server under test are
// configured with. Every one of them has a single option, the long-lived `ResponseHeaders` map, which
// outlives every request: it is server state exactly like the pool and the caches. A header
// configuration says, per transport, which map it gets and whether several transports share ONE map
// object (the way an application writes `h := map[string][]string{…}; srv.AddTransport(transport.GET{ResponseHeaders: h}) …`).
//
// The stateful server and the fresh-server oracle are built from the same configuration NAME, each with
// newly allocated maps; after every request the stateful server's maps are compared with a pristine copy
// (`configDrift`): a transport that writes into its configuration is reported even when no later response
// shows it.

import (
	"fmt"
	"sort"
	"strings"

	"github.com/99designs/gqlgen/graphql/handler/transport"
)

type hdrMaps struct{ get, post, form, graphql map[string][]string }

func cors() map[string][]string {
	return map[string][]string{"Access-Control-Allow-Origin": {"*"}}
}

func multi() map[string][]string {
	return map[string][]string{"Vary": {"Origin", "Accept"}, "Cache-Control": {"no-store"}, "X-Cfg": {"c07"}}
}

// hdrCfgs: name -> constructor (new maps on every call). Order is the order the directed histories use.
var hdrCfgNames = []string{"none", "empty", "cors", "cors-shared", "multi-shared", "ct", "ct-lower", "ct-gr-shared", "mixed"}

func mkHdrCfg(name string) hdrMaps {
	switch name {
	case "", "none": // the zero-value transports every default server has
		return hdrMaps{}
	case "empty": // configured but empty (len 0, non-nil), one shared object
		m := map[string][]string{}
		return hdrMaps{m, m, m, m}
	case "cors": // no Content-Type configured; one map object per transport
		return hdrMaps{cors(), cors(), cors(), cors()}
	case "cors-shared": // the same, one map object shared by all transports
		m := cors()
		return hdrMaps{m, m, m, m}
	case "multi-shared": // several keys, a multi-valued one, shared
		m := multi()
		return hdrMaps{m, m, m, m}
	case "ct": // an explicitly configured Content-Type (wins over Accept), per transport
		mk := func() map[string][]string {
			return map[string][]string{"Content-Type": {"application/json; charset=utf-8"}, "X-Cfg": {"1"}}
		}
		return hdrMaps{mk(), mk(), mk(), mk()}
	case "ct-lower": // the explicit Content-Type under a non-canonical key (found by EqualFold)
		mk := func() map[string][]string {
			return map[string][]string{"content-type": {"application/json"}}
		}
		return hdrMaps{mk(), mk(), mk(), mk()}
	case "ct-gr-shared": // explicit graphql-response+json, shared
		m := map[string][]string{"Content-Type": {"application/graphql-response+json"}, "Access-Control-Allow-Origin": {"*"}}
		return hdrMaps{m, m, m, m}
	case "mixed": // every transport configured differently: GET cors, POST nothing, form explicit type, graphql multi
		return hdrMaps{get: cors(), post: nil, form: map[string][]string{"Content-Type": {"application/json"}}, graphql: multi()}
	}
	panic("unknown header configuration " + name)
}

func (h hdrMaps) transports() (transport.GET, transport.POST, transport.UrlEncodedForm, transport.GRAPHQL) {
	return transport.GET{ResponseHeaders: h.get}, transport.POST{ResponseHeaders: h.post},
		transport.UrlEncodedForm{ResponseHeaders: h.form}, transport.GRAPHQL{ResponseHeaders: h.graphql}
}

func showHdrMap(m map[string][]string) string {
	if m == nil {
		return "nil"
	}
	var ks []string
	for k, v := range m {
		ks = append(ks, fmt.Sprintf("%q:%q", k, v))
	}
	sort.Strings(ks)
	return "{" + strings.Join(ks, ", ") + "}"
}

func (h hdrMaps) show() string {
	return "GET=" + showHdrMap(h.get) + " POST=" + showHdrMap(h.post) + " FORM=" + showHdrMap(h.form) + " GRAPHQL=" + showHdrMap(h.graphql)
}

// configDrift: the transports' configured maps as they are now vs as they were configured ("" = unchanged)
func (s *server) configDrift() string {
	now, was := s.hdr.show(), mkHdrCfg(s.hdrName).show()
	if now == was {
		return ""
	}
	return "configured ResponseHeaders (" + s.hdrName + ") were " + was + " and are now " + now
}
