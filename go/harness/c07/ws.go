package main

// Websocket sessions: several operations and protocol messages on ONE connection of the real
// transport.Websocket (both sub-protocols), with the harness deciding what else arrives on the connection while
// an operation is running (subscriptions deliver their payloads only when the harness steps their gate).
//
// Spec (C07 on this transport): the frames the client receives for an operation - id, type, payload, in order -
// are the frames a freshly constructed server sends on a new connection for that operation alone; and every
// operation-level frame belongs to an operation of the session.

import (
	"encoding/json"
	"fmt"
	"net/http"
	"net/http/httptest"
	"sort"
	"strings"
	"time"

	"github.com/99designs/gqlgen/graphql/handler/transport"
	"github.com/gorilla/websocket"
	"github.com/vektah/gqlparser/v2/ast"
	"github.com/vektah/gqlparser/v2/parser"
	"github.com/vektah/gqlparser/v2/validator"
)

type wsOp struct {
	ID      string `json:"id"`
	Kind    string `json:"kind"`    // "sub": gated subscription | "oneshot": terminates by itself (query, mutation, rejected)
	Payload string `json:"payload"` // JSON text of the payload of the subscribe / start message
	Ticks   int    `json:"ticks,omitempty"`
	Gate    string `json:"gate,omitempty"`
	// what the operation's resolver reports through transport.AddSubscriptionError (the holder model's events):
	// a one-shot operation reports Errs while it is executed; a subscription reports Errs[0] when payload number
	// FailAt has been delivered (0 = when the stream ends by itself)
	Errs   []string `json:"errs,omitempty"`
	FailAt int      `json:"failAt,omitempty"`
}

type wsEv struct {
	Kind string `json:"kind"` // start | step | stop | ping | pong | stopx
	Op   int    `json:"op"`
}

type wsSession struct {
	Proto string   `json:"proto"` // graphql-transport-ws | graphql-ws
	Ops   []wsOp   `json:"ops"`
	Evs   []wsEv   `json:"evs"`
	Pre   []string `json:"pre,omitempty"` // bodies POSTed to the server before the session (cached documents are shared)
}

type wsFrame struct {
	typ, id, text string
}

type wsClient struct {
	c      *websocket.Conn
	ts     *httptest.Server
	frames chan wsFrame
}

func canonFrame(data []byte) wsFrame {
	var m map[string]any
	if err := json.Unmarshal(data, &m); err != nil {
		return wsFrame{typ: "BAD", text: "BAD " + string(data)}
	}
	t, _ := m["type"].(string)
	id, _ := m["id"].(string)
	b, _ := json.Marshal(m)
	return wsFrame{t, id, string(b)}
}

func wsDial(h http.Handler, proto string) (*wsClient, error) {
	ts := httptest.NewServer(h)
	hd := http.Header{wsMarkHeader: {"1"}}
	if proto != "" {
		hd.Set("Sec-WebSocket-Protocol", proto)
	}
	c, _, err := websocket.DefaultDialer.Dial("ws"+strings.TrimPrefix(ts.URL, "http"), hd)
	if err != nil {
		ts.Close()
		return nil, err
	}
	cl := &wsClient{c: c, ts: ts, frames: make(chan wsFrame, 4096)}
	go func() {
		for {
			_, data, err := c.ReadMessage()
			if err != nil {
				what := "CLOSED"
				if ce, ok := err.(*websocket.CloseError); ok {
					what = fmt.Sprintf("CLOSED %d %s", ce.Code, ce.Text)
				}
				cl.frames <- wsFrame{typ: "CLOSED", text: what}
				close(cl.frames)
				return
			}
			f := canonFrame(data)
			if f.typ == "ka" {
				continue
			}
			cl.frames <- f
		}
	}()
	return cl, nil
}

func (cl *wsClient) send(m map[string]any) {
	b, _ := json.Marshal(m)
	cl.c.WriteMessage(websocket.TextMessage, b)
}

func (cl *wsClient) sendRaw(typ, id, payload string) {
	s := `{"type":"` + typ + `"`
	if id != "" {
		ib, _ := json.Marshal(id)
		s += `,"id":` + string(ib)
	}
	if payload != "" {
		s += `,"payload":` + payload
	}
	cl.c.WriteMessage(websocket.TextMessage, []byte(s+"}"))
}

const wsWait = 2 * time.Second

// await collects frames until one satisfies pred
func (cl *wsClient) await(pred func(wsFrame) bool) []wsFrame {
	var got []wsFrame
	t := time.NewTimer(wsWait)
	defer t.Stop()
	for {
		select {
		case f, ok := <-cl.frames:
			if !ok {
				return got
			}
			got = append(got, f)
			if f.typ == "CLOSED" || pred(f) {
				return got
			}
		case <-t.C:
			return append(got, wsFrame{typ: "TIMEOUT", text: "TIMEOUT"})
		}
	}
}

func (cl *wsClient) close() {
	cl.c.Close()
	cl.ts.Close()
}

type wsNames struct{ start, stop, data string }

func wsVocabulary(proto string) wsNames {
	if proto == "graphql-transport-ws" {
		return wsNames{"subscribe", "complete", "next"}
	}
	return wsNames{"start", "stop", "data"}
}

const wsSentinel = "zz-end"
const wsFencePrefix = "zz-f" // fence operations of the harness (not operations of the session)

func wsOwn(id string) bool { return id == wsSentinel || strings.HasPrefix(id, wsFencePrefix) }

type wsEvResult struct {
	ev     wsEv
	frames []wsFrame
	note   string
}

// playWs runs the events of a session (only those of operation `only` if only >= 0) on one new connection to h
func playWs(h http.Handler, s *wsSession, only int) (res []wsEvResult, tail []wsFrame, err error) {
	cl, err := wsDial(h, s.Proto)
	if err != nil {
		return nil, nil, err
	}
	defer cl.close()
	v := wsVocabulary(s.Proto)
	cl.sendRaw("connection_init", "", "")
	if fr := cl.await(func(f wsFrame) bool { return f.typ == "connection_ack" }); len(fr) != 1 || fr[0].typ != "connection_ack" {
		return nil, nil, fmt.Errorf("no connection_ack: %v", fr)
	}
	gs := make([]*gate, len(s.Ops))
	left := make([]int, len(s.Ops)) // payloads a running subscription still has to deliver
	running := make([]bool, len(s.Ops))
	defer func() {
		for i, o := range s.Ops {
			if gs[i] != nil {
				gates.Delete(o.Gate)
			}
		}
	}()
	arrive := func(k int) string {
		select {
		case <-gs[k].arrived:
			return ""
		case <-time.After(wsWait):
			return "subscription never reached its gate"
		}
	}
	// the end of an operation's stream is `complete`, or `error` alone (errors reported through
	// AddSubscriptionError), or `error complete` (refused / panicking operations). After an `error` a fence operation
	// tells whether a `complete` belongs to it: the transport sends both from one goroutine (the read loop, or the
	// operation's deferred function under the connection's lock), so it is on the wire before any frame of an
	// operation started after the `error` was received
	nfence := 0
	awaitEnd := func() []wsFrame {
		fr := cl.await(func(f wsFrame) bool { return f.typ == "complete" || f.typ == "error" })
		if len(fr) > 0 && fr[len(fr)-1].typ == "error" {
			nfence++
			fid := fmt.Sprintf("%s%d", wsFencePrefix, nfence)
			cl.sendRaw(v.start, fid, `{"query":"{ k }"}`)
			fr = append(fr, cl.await(func(f wsFrame) bool { return (f.typ == "complete" || f.typ == "error") && f.id == fid })...)
		}
		return fr
	}
	for _, e := range s.Evs {
		if only >= 0 && (e.Op != only || e.Kind == "ping" || e.Kind == "pong" || e.Kind == "stopx") {
			continue
		}
		r := wsEvResult{ev: e}
		switch e.Kind {
		case "start":
			o := s.Ops[e.Op]
			if o.Kind == "sub" {
				gs[e.Op] = newGate(o.Gate)
				left[e.Op], running[e.Op] = o.Ticks, true
				cl.sendRaw(v.start, o.ID, o.Payload)
				r.note = arrive(e.Op)
			} else {
				cl.sendRaw(v.start, o.ID, o.Payload)
				r.frames = awaitEnd()
			}
		case "step":
			if !running[e.Op] || left[e.Op] == 0 {
				r.note = "skipped"
				break
			}
			left[e.Op]--
			gs[e.Op].release <- struct{}{}
			if left[e.Op] == 0 {
				running[e.Op] = false
				r.frames = awaitEnd()
			} else {
				r.frames = cl.await(func(f wsFrame) bool { return f.typ == v.data })
				r.note = arrive(e.Op)
			}
		case "stop":
			cl.sendRaw(v.stop, s.Ops[e.Op].ID, "")
			if running[e.Op] {
				running[e.Op] = false
				r.frames = awaitEnd()
			}
		case "stopx":
			cl.sendRaw(v.stop, "nobody", "")
		case "ping":
			cl.sendRaw("ping", "", "")
			r.frames = cl.await(func(f wsFrame) bool { return f.typ == "pong" })
		case "pong":
			cl.sendRaw("pong", "", "")
		}
		res = append(res, r)
		if n := len(r.frames); n > 0 && (r.frames[n-1].typ == "TIMEOUT" || r.frames[n-1].typ == "CLOSED") {
			break // the session is off its script: what was seen so far is reported, nothing else is waited for
		}
	}
	// whatever is still on its way arrives before the sentinel operation's completion
	cl.sendRaw(v.start, wsSentinel, `{"query":"{ k }"}`)
	tail = cl.await(func(f wsFrame) bool { return (f.typ == "complete" || f.typ == "error") && f.id == wsSentinel })
	return res, tail, nil
}

func opLevel(t string) bool {
	return t == "next" || t == "data" || t == "error" || t == "complete"
}

func wsHandlerOf(srv *server) http.Handler { return srv.h }

func newWsServer(qc, apq string) *server {
	s := newServer(qc, apq, "none", nil)
	s.h.AddTransport(transport.Websocket{})
	return s
}

// runWsSession plays the session on one server, each operation alone on a fresh one, compares, prints a W row
func runWsSession(sid int, cfgName, kind string, s *wsSession) {
	cqc, capq, _ := splitCfg(cfgName)
	srv := newWsServer(cqc, capq)
	for _, b := range s.Pre {
		srv.serve(&rq{kind: "post", method: "POST", hdrs: http.Header{"Content-Type": {"application/json"}}, body: b})
	}
	res, tail, err := playWs(srv.h, s, -1)
	if err != nil {
		panic(err)
	}
	byID := map[string][]string{}
	var problems []string
	ids := map[string]bool{wsSentinel: true}
	for _, o := range s.Ops {
		ids[o.ID] = true
	}
	var all []wsFrame
	for _, r := range res {
		all = append(all, r.frames...)
		if r.note != "" && r.note != "skipped" {
			problems = append(problems, fmt.Sprintf("%s of operation %q: %s", r.ev.Kind, s.Ops[r.ev.Op].ID, r.note))
		}
	}
	all = append(all, tail...)
	pings, pongs := 0, 0
	for _, e := range s.Evs {
		if e.Kind == "ping" {
			pings++
		}
	}
	for _, f := range all {
		switch {
		case opLevel(f.typ) && wsOwn(f.id):
		case opLevel(f.typ) && ids[f.id]:
			byID[f.id] = append(byID[f.id], f.text)
		case opLevel(f.typ):
			problems = append(problems, "frame that belongs to no operation of the session: "+f.text)
		case f.typ == "pong":
			pongs++
		default:
			problems = append(problems, "connection-level frame: "+f.text)
		}
	}
	if pongs != pings {
		problems = append(problems, fmt.Sprintf("%d pings answered by %d pongs", pings, pongs))
	}
	// oracle: every operation alone on a fresh server and connection
	want := map[string][]string{}
	for k, o := range s.Ops {
		started := false
		for _, e := range s.Evs {
			if e.Op == k && e.Kind == "start" {
				started = true
			}
		}
		if !started {
			continue
		}
		ores, otail, err := playWs(newWsServer("none", "map").h, s, k)
		if err != nil {
			panic(err)
		}
		var fs []wsFrame
		for _, r := range ores {
			fs = append(fs, r.frames...)
		}
		for _, f := range append(fs, otail...) {
			if !wsOwn(f.id) {
				want[o.ID] = append(want[o.ID], f.text)
			}
		}
	}
	var keys []string
	for id := range ids {
		if id != wsSentinel {
			keys = append(keys, id)
		}
	}
	sort.Strings(keys)
	for _, id := range keys {
		g, w := strings.Join(byID[id], " "), strings.Join(want[id], " ")
		if g != w {
			problems = append(problems, fmt.Sprintf("operation %q received [%s], alone on a fresh server it receives [%s]", id, g, w))
		}
	}
	if bad := srv.qc.changedDocs(); len(bad) > 0 {
		problems = append(problems, "cached document changed: "+strings.Join(bad, " | "))
	}
	if d := srv.schemaDrift(); d != "" {
		problems = append(problems, "the server's schema changed: "+d)
	}
	// the events as the read-loop model (Model/WsLoop.lean) sees them, and the ids the implementation put on
	// the frames each operation emitted
	var mev, obs []string
	emitted := func(r wsEvResult) {
		for _, f := range r.frames {
			if opLevel(f.typ) && !wsOwn(f.id) {
				mev = append(mev, fmt.Sprintf("e:%d", r.ev.Op))
				obs = append(obs, hx(f.id))
			}
		}
	}
	for _, r := range res {
		switch r.ev.Kind {
		case "start":
			mev = append(mev, "r:"+hx(s.Ops[r.ev.Op].ID)+":1")
			emitted(r)
		case "stop":
			mev = append(mev, "r:"+hx(s.Ops[r.ev.Op].ID)+":0")
			emitted(r)
		case "step":
			emitted(r)
		case "stopx":
			mev = append(mev, "r:"+hx("nobody")+":0")
		default:
			mev = append(mev, "r:-:0")
		}
	}
	// the events as the error-holder model (Model/WsHolder.lean) sees them - an operation that the transport
	// executes starts, reports errors through AddSubscriptionError, ends - and how each such operation's stream
	// really ended (`complete`, or `error` with which messages)
	var hev, hobs []string
	{
		delivered, running := map[int]int{}, map[int]bool{}
		ended := func(r wsEvResult, k int) {
			hev = append(hev, fmt.Sprintf("f:%d", k))
			var last *wsFrame
			for i := range r.frames {
				if f := &r.frames[i]; opLevel(f.typ) && !wsOwn(f.id) && f.id == s.Ops[k].ID {
					last = f
				}
			}
			switch {
			case last == nil:
				hobs = append(hobs, fmt.Sprintf("%d:none", k))
			case last.typ == "error":
				hobs = append(hobs, fmt.Sprintf("%d:e:%s", k, hx(strings.Join(errorMessages(last.text), "\x00"))))
			default:
				hobs = append(hobs, fmt.Sprintf("%d:c", k))
			}
		}
		report := func(k int, m string) { hev = append(hev, fmt.Sprintf("a:%d:%s", k, hx(m))) }
		for _, r := range res {
			k := r.ev.Op
			if r.ev.Kind != "start" && r.ev.Kind != "step" && r.ev.Kind != "stop" {
				continue
			}
			o := s.Ops[k]
			if !wsExecs(o.Payload) {
				continue
			}
			switch r.ev.Kind {
			case "start":
				hev = append(hev, fmt.Sprintf("s:%d", k))
				if o.Kind == "sub" {
					running[k] = true
				} else {
					for _, m := range o.Errs {
						report(k, m)
					}
					ended(r, k)
				}
			case "step":
				if r.note == "skipped" || !running[k] {
					continue
				}
				delivered[k]++
				if len(o.Errs) > 0 && o.FailAt == delivered[k] {
					report(k, o.Errs[0])
				}
				if delivered[k] == o.Ticks {
					if len(o.Errs) > 0 && o.FailAt == 0 {
						report(k, o.Errs[0])
					}
					running[k] = false
					ended(r, k)
				}
			case "stop":
				if running[k] {
					running[k] = false
					ended(r, k)
				}
			}
		}
	}
	verdict := "ok"
	if len(problems) > 0 {
		verdict = "DIFF"
	}
	var tr []string
	for _, r := range res {
		var fs []string
		for _, f := range r.frames {
			fs = append(fs, f.text)
		}
		id := ""
		if r.ev.Kind != "ping" && r.ev.Kind != "pong" && r.ev.Kind != "stopx" {
			id = " " + s.Ops[r.ev.Op].ID
		}
		tr = append(tr, fmt.Sprintf("%s%s -> [%s]", r.ev.Kind, id, strings.Join(fs, " ")))
	}
	js, _ := json.Marshal(s)
	// W sid cfg kind proto verdict | problems | session JSON | transcript | model events | observed ids | holder-model events | observed ends
	fmt.Fprintf(out, "W\t%d\t%s\t%s\t%s\t%s\t%s\t%s\t%s\t%s\t%s\t%s\t%s\n", sid, cfgName, kind, s.Proto, verdict, hx(strings.Join(problems, "\n")), hx(string(js)),
		hx(strings.Join(tr, "\n")), strings.Join(mev, " "), strings.Join(obs, " "), dash(strings.Join(hev, " ")), dash(strings.Join(hobs, " ")))
}

func dash(s string) string {
	if s == "" {
		return "-"
	}
	return s
}

// errorMessages: the messages of an `error` frame's payload (a list of errors; one error object in graphql-ws)
func errorMessages(frameText string) []string {
	var m struct {
		Payload json.RawMessage `json:"payload"`
	}
	json.Unmarshal([]byte(frameText), &m)
	var list []struct {
		Message string `json:"message"`
	}
	if json.Unmarshal(m.Payload, &list) != nil {
		var one struct {
			Message string `json:"message"`
		}
		json.Unmarshal(m.Payload, &one)
		return []string{one.Message}
	}
	var out []string
	for _, e := range list {
		out = append(out, e.Message)
	}
	return out
}

// wsExecs: does the transport execute the operation of this payload (it starts the operation's goroutine), or
// does it refuse it from the read loop (undecodable payload, parse / validation error, unknown operation name,
// variables that cannot be coerced)? Decided with the libraries the executor uses, on the harness's own schema.
var wsExecsMemo = map[string]bool{}

func wsExecs(payload string) bool {
	if v, ok := wsExecsMemo[payload]; ok {
		return v
	}
	v := func() bool {
		var p struct {
			Query         string         `json:"query"`
			OperationName string         `json:"operationName"`
			Variables     map[string]any `json:"variables"`
		}
		d := json.NewDecoder(strings.NewReader(payload))
		d.UseNumber()
		if d.Decode(&p) != nil {
			return false
		}
		doc, err := parser.ParseQuery(&ast.Source{Input: p.Query})
		if err != nil || len(validator.Validate(schema, doc)) != 0 {
			return false
		}
		op := doc.Operations.ForName(p.OperationName)
		if op == nil {
			return false
		}
		if _, err := validator.VariableValues(schema, op, p.Variables); err != nil {
			return false
		}
		return true
	}()
	wsExecsMemo[payload] = v
	return v
}

// ---------------------------------------------------------------- sessions

const qSub = "subscription T($n: Int, $g: String) { tick(n: $n, g: $g) } subscription U($n: Int, $g: String) { again: tick(n: $n, g: $g) }"

func wsPayload(text, op string, vars []kvp) string {
	s := `{"query":` + canon(text)
	if op != "" {
		s += `,"operationName":` + canon(op)
	}
	if vars != nil {
		s += `,"variables":` + kvJSON(vars)
	}
	return s + "}"
}

func subOp(id string, k, ticks int, opName string) wsOp {
	g := fmt.Sprintf("g%d", k)
	return wsOp{ID: id, Kind: "sub", Ticks: ticks, Gate: g, Payload: wsPayload(qSub, opName, []kvp{{"n", fmt.Sprint(ticks)}, {"g", canon(g)}})}
}

func oneOp(id, payload string) wsOp { return wsOp{ID: id, Kind: "oneshot", Payload: payload} }

// operations whose resolver uses the transport's per-operation side channel, transport.AddSubscriptionError
// (round 4): a one-shot query that reports msg n times while it is executed ...
func boomOp(id, msg string, n int) wsOp {
	o := oneOp(id, wsPayload("query Boom($m: String, $n: Int) { boom(m: $m, n: $n) k }", "", []kvp{{"m", canon(msg)}, {"n", fmt.Sprint(n)}}))
	for i := 0; i < n; i++ {
		o.Errs = append(o.Errs, msg)
	}
	return o
}

const qSubF = "subscription T($n: Int, $g: String, $fail: String, $failAt: Int) { tick(n: $n, g: $g, fail: $fail, failAt: $failAt) }"

// ... and a gated subscription that reports msg when payload number failAt has been delivered and goes on
// (failAt = 0: when its stream ends)
func failSub(id string, k, ticks int, msg string, failAt int) wsOp {
	g := fmt.Sprintf("g%d", k)
	return wsOp{ID: id, Kind: "sub", Ticks: ticks, Gate: g, Errs: []string{msg}, FailAt: failAt,
		Payload: wsPayload(qSubF, "", []kvp{{"n", fmt.Sprint(ticks)}, {"g", canon(g)}, {"fail", canon(msg)}, {"failAt", fmt.Sprint(failAt)}})}
}

var wsOneshots = []string{
	wsPayload(qPlain, "", nil),
	wsPayload(qAB, "A", nil),
	wsPayload(qAB, "B", nil),
	wsPayload(qQ, "", []kvp{{"s", `"ws"`}, {"n", `2`}}),
	wsPayload(qQ, "Q", []kvp{{"s", `"other"`}}),
	wsPayload(qS, "", []kvp{{"f", `true`}}),
	wsPayload(qS, "", nil),
	wsPayload(qF, "", nil),
	wsPayload(qM, "", []kvp{{"v", `"w"`}}),
	wsPayload("{ nope }", "", nil),
	wsPayload("{ op ", "", nil),
	wsPayload(qAB, "Nope", nil),
	wsPayload(qR, "", nil),
	`5`,
	`{"query":7}`,
	wsPayload("subscription { tick(n: 1) }", "", nil),
	wsPayload("subscription { tick(n: 0) }", "", nil),
	// round 5: operations whose resolvers panic / fail at different response paths (fail.go)
	wsPayload("{ a: fail k }", "", nil),
	wsPayload("query E($i: Int) { b: fail(how: \"err\", m: \"ws\") nodes { id fail(at: $i) } }", "E", []kvp{{"i", `1`}}),
}

func wsPre(s *wsSession) *wsSession {
	seen := map[string]bool{}
	for _, o := range s.Ops {
		if !seen[o.Payload] && strings.HasPrefix(o.Payload, "{") {
			seen[o.Payload] = true
			s.Pre = append(s.Pre, o.Payload)
		}
	}
	return s
}

func directedWsSessions() []*wsSession {
	var ss []*wsSession
	mt := mergeTexts()
	for _, proto := range []string{"graphql-transport-ws", "graphql-ws"} {
		ev := func(k string, op int) wsEv { return wsEv{k, op} }
		sync := "ping"  // a message without an id that is answered, so that the harness knows it was read
		quiet := "pong" // a message without an id that nothing answers
		if proto == "graphql-ws" {
			sync, quiet = "stopx", "stopx"
		}
		// for every kind of further message: a subscription is running when it arrives, and delivers afterwards
		for oi, other := range wsOneshots {
			ss = append(ss, &wsSession{Proto: proto, Ops: []wsOp{subOp("sub", 0, 2, "T"), oneOp(fmt.Sprintf("q%d", oi), other)},
				Evs: []wsEv{ev("start", 0), ev("start", 1), ev("step", 0), ev("step", 0)}})
		}
		ss = append(ss,
			&wsSession{Proto: proto, Ops: []wsOp{subOp("sub", 0, 2, "T")},
				Evs: []wsEv{ev("start", 0), ev(sync, 0), ev("step", 0), ev(sync, 0), ev("step", 0)}},
			&wsSession{Proto: proto, Ops: []wsOp{subOp("sub", 0, 3, "U"), oneOp("q", wsOneshots[0]), oneOp("q", wsOneshots[4])},
				Evs: []wsEv{ev("start", 0), ev("step", 0), ev(quiet, 0), ev("start", 1), ev("step", 0), ev("stopx", 0), ev("start", 2), ev("step", 0)}},
			// two subscriptions beside each other, stepped alternately; one stopped while the other runs
			&wsSession{Proto: proto, Ops: []wsOp{subOp("a", 0, 2, "T"), subOp("b", 1, 3, "U")},
				Evs: []wsEv{ev("start", 0), ev("start", 1), ev("step", 1), ev("step", 0), ev("step", 1), ev("step", 0), ev("step", 1)}},
			&wsSession{Proto: proto, Ops: []wsOp{subOp("a", 0, 2, "T"), subOp("b", 1, 2, "T")},
				Evs: []wsEv{ev("start", 0), ev("start", 1), ev("stop", 1), ev("step", 0), ev("step", 0)}},
			&wsSession{Proto: proto, Ops: []wsOp{subOp("a", 0, 3, "T"), subOp("b", 1, 1, "U")},
				Evs: []wsEv{ev("start", 0), ev("step", 0), ev("start", 1), ev("stop", 0), ev("step", 1)}},
			// an id is free again once its operation ended, whatever else happened meanwhile
			&wsSession{Proto: proto, Ops: []wsOp{subOp("s", 0, 1, "T"), oneOp("q", wsOneshots[1]), subOp("s", 2, 1, "U"), oneOp("q", wsOneshots[2])},
				Evs: []wsEv{ev("start", 0), ev("start", 1), ev("step", 0), ev("start", 2), ev("start", 3), ev("step", 2)}},
			&wsSession{Proto: proto, Ops: []wsOp{subOp("s", 0, 2, "T"), oneOp("q", wsOneshots[3]), subOp("s", 2, 1, "T")},
				Evs: []wsEv{ev("start", 0), ev("start", 1), ev("stop", 0), ev("start", 2), ev("step", 2)}},
			// the same text under different variables, one response key merged differently, beside a subscription
			&wsSession{Proto: proto, Ops: []wsOp{subOp("s", 0, 2, "T"), oneOp("m1", wsPayload(mt[2], "", []kvp{{"a", `true`}})), oneOp("m2", wsPayload(mt[2], "", []kvp{{"b", `true`}}))},
				Evs: []wsEv{ev("start", 0), ev("start", 1), ev("step", 0), ev("start", 2), ev("step", 0)}})
	}
	// ---- round 4: the per-operation side channel. An operation that reported an error through
	// transport.AddSubscriptionError ends with `error`; whatever runs after it or beside it on the connection ends
	// as it does alone
	for _, proto := range []string{"graphql-transport-ws", "graphql-ws"} {
		ev := func(k string, op int) wsEv { return wsEv{k, op} }
		// every kind of operation after one that reported an error, and before the next one that does
		for oi, other := range wsOneshots {
			ss = append(ss, &wsSession{Proto: proto, Ops: []wsOp{boomOp("b", fmt.Sprintf("upstream %d went away", oi), 1), oneOp(fmt.Sprintf("q%d", oi), other), boomOp("b2", "second", 1)},
				Evs: []wsEv{ev("start", 0), ev("start", 1), ev("start", 2)}})
		}
		ss = append(ss,
			// errors do not accumulate from operation to operation, ids may be used again
			&wsSession{Proto: proto, Ops: []wsOp{boomOp("x", "one", 1), oneOp("x", wsOneshots[0]), boomOp("x", "two", 2), oneOp("y", wsOneshots[1]), boomOp("y", "three", 1)},
				Evs: []wsEv{ev("start", 0), ev("start", 1), ev("start", 2), ev("start", 3), ev("start", 4)}},
			// a subscription is running while another operation reports: it ends as it does alone
			&wsSession{Proto: proto, Ops: []wsOp{subOp("s", 0, 2, "T"), boomOp("b", "while s runs", 1)},
				Evs: []wsEv{ev("start", 0), ev("step", 0), ev("start", 1), ev("step", 0)}},
			&wsSession{Proto: proto, Ops: []wsOp{subOp("s", 0, 2, "U"), boomOp("b", "before s delivers", 2)},
				Evs: []wsEv{ev("start", 0), ev("start", 1), ev("stop", 0)}},
			// a subscription reported an error and is still running: operations that end meanwhile end as alone
			&wsSession{Proto: proto, Ops: []wsOp{failSub("f", 0, 3, "f lost its upstream", 1), oneOp("q", wsOneshots[0]), subOp("s", 2, 1, "T"), oneOp("m", wsOneshots[8])},
				Evs: []wsEv{ev("start", 0), ev("step", 0), ev("start", 1), ev("start", 2), ev("step", 2), ev("step", 0), ev("start", 3), ev("step", 0)}},
			// two reporting subscriptions beside each other: each ends with its own message only
			&wsSession{Proto: proto, Ops: []wsOp{failSub("f1", 0, 2, "first", 1), failSub("f2", 1, 2, "second", 0)},
				Evs: []wsEv{ev("start", 0), ev("start", 1), ev("step", 0), ev("step", 1), ev("step", 1), ev("step", 0)}},
			&wsSession{Proto: proto, Ops: []wsOp{failSub("f1", 0, 2, "first", 2), failSub("f2", 1, 1, "second", 1), subOp("s", 2, 1, "T")},
				Evs: []wsEv{ev("start", 0), ev("start", 1), ev("start", 2), ev("step", 1), ev("step", 0), ev("step", 2), ev("step", 0)}},
			// the id of an operation that ended with `error` is free again; a stopped reporting subscription
			&wsSession{Proto: proto, Ops: []wsOp{failSub("s", 0, 1, "gone", 0), subOp("s", 1, 1, "T"), failSub("t", 2, 3, "stopped", 1), oneOp("q", wsOneshots[3])},
				Evs: []wsEv{ev("start", 0), ev("step", 0), ev("start", 1), ev("step", 1), ev("start", 2), ev("step", 2), ev("stop", 2), ev("start", 3)}})
	}
	for _, s := range ss {
		wsPre(s)
	}
	// ---- round 6 (envelope.go): what one operation's payload leaves behind for the next one on the connection
	ss = append(ss, directedEnvSessions()...)
	return ss
}

func randomWsSession(g *gen) *wsSession {
	s := &wsSession{Proto: []string{"graphql-transport-ws", "graphql-ws"}[g.pick(2)]}
	var live []int     // running subscriptions
	free := []string{} // ids of ended operations (may be used again)
	left := map[int]int{}
	n := 4 + g.pick(9)
	newID := func() string {
		if len(free) > 0 && g.chance(30) {
			i := g.pick(len(free))
			id := free[i]
			free = append(free[:i], free[i+1:]...)
			return id
		}
		return fmt.Sprintf("i%d", len(s.Ops))
	}
	for i := 0; i < n; i++ {
		x := g.pick(100)
		switch {
		case x < 22 && len(live) < 3:
			k := len(s.Ops)
			t := 1 + g.pick(3)
			if g.chance(35) { // a subscription whose resolver reports an error at some payload / at its end
				s.Ops = append(s.Ops, failSub(newID(), k, t, fmt.Sprintf("sub %d failed", k), g.pick(t+1)))
			} else {
				s.Ops = append(s.Ops, subOp(newID(), k, t, []string{"T", "U"}[g.pick(2)]))
			}
			if g.chance(30) { // round 6: the payload carries further members of the envelope
				s.Ops[k].Payload = envDecorate(g, s.Ops[k].Payload, false)
			}
			s.Evs = append(s.Evs, wsEv{"start", k})
			live, left[k] = append(live, k), t
		case x < 45:
			k := len(s.Ops)
			p := wsOneshots[g.pick(len(wsOneshots))]
			if g.chance(25) {
				mt := mergeTexts()
				p = wsPayload(mt[g.pick(len(mt))], "", varSets[mergeVarFirst+4-g.pick(5)])
			}
			if g.chance(30) { // round 6: an operation that shows everything its operation context holds
				p = envReaderPayload(g)
			}
			if g.chance(30) { // ... and payloads that carry further members of the envelope
				p = envDecorate(g, p, true)
			}
			id := newID()
			if g.chance(25) { // a query whose resolver reports through the same side channel
				s.Ops = append(s.Ops, boomOp(id, fmt.Sprintf("op %d failed", k), 1+g.pick(2)))
			} else {
				s.Ops = append(s.Ops, oneOp(id, p))
			}
			s.Evs = append(s.Evs, wsEv{"start", k})
			free = append(free, id)
		case x < 75 && len(live) > 0:
			j := g.pick(len(live))
			k := live[j]
			s.Evs = append(s.Evs, wsEv{"step", k})
			left[k]--
			if left[k] == 0 {
				live = append(live[:j], live[j+1:]...)
				free = append(free, s.Ops[k].ID)
			}
		case x < 82 && len(live) > 0:
			j := g.pick(len(live))
			k := live[j]
			s.Evs = append(s.Evs, wsEv{"stop", k})
			live = append(live[:j], live[j+1:]...)
			free = append(free, s.Ops[k].ID)
		case x < 90 && s.Proto == "graphql-transport-ws":
			s.Evs = append(s.Evs, wsEv{"ping", 0})
		case x < 95 && s.Proto == "graphql-transport-ws":
			s.Evs = append(s.Evs, wsEv{"pong", 0}, wsEv{"ping", 0})
		default:
			// nothing answers a stop for an unknown id: a one-shot operation after it tells that it was read
			k := len(s.Ops)
			id := newID()
			s.Ops = append(s.Ops, oneOp(id, wsOneshots[g.pick(3)]))
			s.Evs = append(s.Evs, wsEv{"stopx", 0}, wsEv{"start", k})
			free = append(free, id)
		}
	}
	for _, k := range live { // let every subscription deliver what is left
		for ; left[k] > 0; left[k]-- {
			s.Evs = append(s.Evs, wsEv{"step", k})
		}
	}
	if len(s.Ops) == 0 {
		s.Ops = append(s.Ops, oneOp("only", wsOneshots[0]))
		s.Evs = append(s.Evs, wsEv{"start", 0})
	}
	return wsPre(s)
}
