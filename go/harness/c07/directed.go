package main

import (
	"encoding/hex"
	"encoding/json"
	"fmt"
	"net/http"
	"net/url"
	"strings"
)

func hexDecode(s string) ([]byte, error) {
	if s == "-" {
		return nil, nil
	}
	return hex.DecodeString(s)
}

func jsonDecodeNumber(s string, v any) error {
	d := json.NewDecoder(strings.NewReader(s))
	d.UseNumber()
	return d.Decode(v)
}

// ------------------------------------------------------------------ builders

func S(s string) fj           { return fj{kind: 's', s: s} }
func O(kv ...kvp) fj          { return fj{kind: 'o', kv: kv} }
func X(raw string) fj         { return fj{kind: 'x', raw: raw} }
func M(k string, v fj) member { return member{k, v} }
func PQ(text string) kvp {
	return kvp{"persistedQuery", `{"sha256Hash":"` + shaOf(text) + `","version":1}`}
}
func hdr(kv ...string) http.Header {
	h := http.Header{}
	for i := 0; i+1 < len(kv); i += 2 {
		h.Add(kv[i], kv[i+1])
	}
	return h
}

var null = fj{kind: 'n'}

func postH(h http.Header, ms ...member) *rq {
	if h.Get("Content-Type") == "" {
		h.Set("Content-Type", "application/json")
	}
	for _, m := range ms {
		if m.val.kind == 's' && strings.EqualFold(m.key, "query") {
			hq(m.val.s)
		}
	}
	g := &gen{}
	b := body{kind: 'O', members: ms}
	b.text = objText(g, ms, false)
	return &rq{kind: "post", method: "POST", hdrs: h, body: b.text, enc: "post " + encKV(hdrKV(h)) + " " + b.enc(), tags: []string{"directed"}}
}

func post(ms ...member) *rq { return postH(http.Header{}, ms...) }

func postRaw(kind byte, text string) *rq {
	h := hdr("Content-Type", "application/json")
	return &rq{kind: "post", method: "POST", hdrs: h, body: text, enc: "post " + encKV(hdrKV(h)) + " " + string(kind), tags: []string{"directed", "malformed"}}
}

func get(q, op string, vars, exts []kvp) *rq {
	h := http.Header{}
	vals := url.Values{}
	vals.Set("query", q)
	venc, eenc := "a", "a"
	if op != "" {
		vals.Set("operationName", op)
	}
	if vars != nil {
		vals.Set("variables", kvJSON(vars))
		venc = "o " + encKV(vars)
	}
	if exts != nil {
		vals.Set("extensions", kvJSON(exts))
		eenc = "o " + encKV(exts)
	}
	return &rq{kind: "get", method: "GET", rawURL: vals.Encode(), hdrs: h, tags: []string{"directed"},
		enc: fmt.Sprintf("get %s 0 %s %s %s %s", encKV(hdrKV(h)), hq(q), hx(op), venc, eenc)}
}

func graphqlReq(q string) *rq {
	h := hdr("Content-Type", "application/graphql")
	return &rq{kind: "graphql", method: "POST", hdrs: h, body: q, enc: "graphql " + encKV(hdrKV(h)) + " q " + hq(q), tags: []string{"directed"}}
}

func formJSON(ms ...member) *rq {
	h := hdr("Content-Type", "application/x-www-form-urlencoded")
	for _, m := range ms {
		if m.val.kind == 's' && strings.EqualFold(m.key, "query") {
			hq(m.val.s)
		}
	}
	b := body{kind: 'O', members: ms}
	b.text = objText(&gen{}, ms, false)
	return &rq{kind: "form", method: "POST", hdrs: h, body: b.text, enc: "form " + encKV(hdrKV(h)) + " j " + b.enc(), tags: []string{"directed"}}
}

func formText(bodyText, q string) *rq {
	h := hdr("Content-Type", "application/x-www-form-urlencoded")
	return &rq{kind: "form", method: "POST", hdrs: h, body: bodyText, enc: "form " + encKV(hdrKV(h)) + " t " + hq(q), tags: []string{"directed"}}
}

type history struct {
	name string
	reqs []*rq
	hdr  string // header configuration of the transports ("" = none, the default server)
	// recover func / error presenter configuration (fail.go; "" = "d": nothing configured, the defaults)
	errCfg string
}

// hdrCfg: the server options "<header configuration>[/<error configuration>]"
func (h history) hdrCfg() string {
	o := h.hdr
	if o == "" {
		o = "none"
	}
	if h.errCfg != "" && h.errCfg != "d" {
		o += "/" + h.errCfg
	}
	return o
}

// acc: the same request with an Accept header (the header part of the driver encoding is rebuilt)
func acc(q *rq, accept string) *rq {
	old := " " + encKV(hdrKV(q.hdrs)) + " "
	h := q.hdrs.Clone()
	if h == nil {
		h = http.Header{}
	}
	h.Set("Accept", accept)
	c := *q
	c.hdrs = h
	if q.kind != "unsupported" {
		if !strings.Contains(q.enc+" ", old) {
			panic("acc: header encoding not found in " + q.enc)
		}
		c.enc = strings.TrimSuffix(strings.Replace(q.enc+" ", old, " "+encKV(hdrKV(h))+" ", 1), " ")
	}
	return &c
}

const (
	aJSON = "application/json"
	aGR   = "application/graphql-response+json"
)

// negotiationHistory: requests over every transport whose Accept headers negotiate DIFFERENT response media
// types one after the other (and whose status depends on the media type: parse / validation errors are 422
// under application/json and 400 under application/graphql-response+json), so that a media type - or anything
// else derived from one request's headers - that sticks in the server shows in a later response.
func negotiationHistory() []*rq {
	bad := "{ nope }"
	return []*rq{
		acc(post(M("query", S(qPlain))), aGR),
		post(M("query", S(qPlain))),
		acc(post(M("query", S(bad))), aJSON),
		acc(post(M("query", S(bad))), "*/*"),
		post(M("query", S("{ op"))),
		acc(get(qPlain, "", nil, nil), aGR),
		get(qPlain, "", nil, nil),
		acc(get(bad, "", nil, nil), aJSON),
		acc(get("{ op", "", nil, nil), "application/*"),
		get("{ op", "", nil, nil),
		acc(graphqlReq(qPlain), "text/html, "+aGR+";q=0.9"),
		graphqlReq(bad),
		acc(graphqlReq(bad), aGR),
		acc(formJSON(M("query", S(qPlain))), aGR+"; charset=utf-8"),
		formJSON(M("query", S(bad))),
		acc(formText("query="+url.QueryEscape(qPlain), qPlain), "image/png"),
		acc(formText("query="+url.QueryEscape(bad), bad), aJSON+", */*"),
		acc(postRaw('S', `{"query":`), aGR),
		postRaw('S', `{"query":`),
		acc(post(M("query", S(qPlain))), aJSON),
		acc(get(qPlain, "", nil, nil), ";;"),
		post(M("query", S(qPlain))),
	}
}

const (
	qPlain = "{ op vars raw }"
	qAB    = "query A { op a: vars } query B { op raw k }"
	qQ     = "query Q($s: String, $n: Int = 7) { arg(s: $s, n: $n) vars op }"
	qR     = "query R($s: String!) { arg(s: $s) op }"
	qS     = "query S($f: Boolean = false) { op @include(if: $f) raw @skip(if: $f) hdr k }"
	qF     = "query F { ...X node { id child { id op child { id } } } } fragment X on Query { op ext k }"
	qM     = "mutation M($v: String) { set(v: $v) }"
	qQM    = "query A($s: String) { arg(s: $s) } mutation B($s: String) { set(v: $s) }"
	qExt   = "{ ext hdr op }"
)

// directed histories: for every RawParams field a pair "set it, then omit it" on the recycling transport,
// every APQ flow, the same text under different operation names / variables, invalid documents twice,
// and the same text over every transport.
func directedHistories() []history {
	var hs []history
	add := func(name string, reqs ...*rq) { hs = append(hs, history{name: name, reqs: reqs}) }

	add("field-operationName",
		post(M("query", S(qAB)), M("operationName", S("A"))),
		post(M("query", S(qAB))),
		post(M("query", S(qAB)), M("operationName", S("B"))),
		post(M("query", S(qAB)), M("operationName", null)),
		post(M("query", S(qPlain)), M("operationName", S("A"))),
		post(M("query", S(qPlain))))
	add("field-variables",
		post(M("query", S(qR)), M("variables", O(kvp{"s", `"x"`}))),
		post(M("query", S(qR))),
		post(M("query", S(qQ)), M("variables", O(kvp{"s", `"y"`}, kvp{"n", `3`}))),
		post(M("query", S(qQ)), M("variables", O(kvp{"s", `"x"`}))),
		post(M("query", S(qQ)), M("variables", null)),
		post(M("query", S(qQ))),
		post(M("query", S(qPlain)), M("variables", O(kvp{"a", `1`})), M("variables", O(kvp{"b", `2`}))),
		post(M("query", S(qPlain))))
	add("field-extensions",
		post(M("query", S(qExt)), M("extensions", O(kvp{"k", `1`}))),
		post(M("query", S(qExt))),
		post(M("query", S(qPlain)), M("extensions", O(PQ(qPlain)))),
		post(M("query", S(qExt))),
		post(M("query", S(qExt)), M("extensions", O(kvp{"j", `2`}))),
		post(M("query", S(qExt)), M("extensions", null)))
	add("field-query",
		post(M("query", S(qPlain))),
		post(M("operationName", S("x"))),
		post(M("query", S(qPlain))),
		post(M("query", null)),
		post(M("query", S(qPlain))),
		post(),
		post(M("query", S(qPlain))),
		post(M("Query", S(qExt))),
		post(M("QUERY", null)))
	add("field-headers",
		postH(hdr("X-Echo", "first"), M("query", S(qExt))),
		post(M("query", S(qExt))),
		post(M("query", S(qExt)), M("headers", O(kvp{"X-Echo", `["injected"]`}))),
		post(M("query", S(qExt))),
		postH(hdr("Accept", "application/graphql-response+json"), M("query", S("{ nope }"))),
		post(M("query", S("{ nope }"))))
	add("after-decode-error",
		post(M("query", S(qAB)), M("operationName", S("A")), M("variables", X(`5`))),
		post(M("query", S(qAB))),
		post(M("variables", O(kvp{"s", `"x"`})), M("extensions", O(kvp{"k", `1`})), M("query", X(`7`))),
		post(M("query", S(qR))),
		post(M("query", S(qExt))),
		postRaw('S', `{"query":"{ op vars raw }","operationName":"A"`),
		post(M("query", S(qAB))))
	add("null-body",
		post(M("query", S(qAB)), M("operationName", S("A")), M("variables", O(kvp{"s", `"x"`}))),
		postRaw('N', `null`),
		post(M("query", S(qAB))),
		postRaw('X', `[1]`),
		post(M("query", S(qR))),
		&rq{kind: "form", method: "POST", hdrs: hdr("Content-Type", "application/x-www-form-urlencoded"), body: `null "query":`,
			enc: "form " + encKV(hdrKV(hdr("Content-Type", "application/x-www-form-urlencoded"))) + " j N", tags: []string{"directed", "malformed"}},
		post(M("query", S(qR))))
	add("apq-flow",
		post(M("extensions", O(PQ(qPlain)))),
		post(M("query", S(qPlain)), M("extensions", O(PQ(qPlain)))),
		post(M("extensions", O(PQ(qPlain)))),
		post(M("extensions", O(PQ(qPlain))), M("variables", O(kvp{"s", `"v2"`}))),
		post(M("query", S(qAB)), M("operationName", S("B")), M("extensions", O(PQ(qAB)))),
		post(M("extensions", O(PQ(qAB))), M("operationName", S("A"))),
		post(M("extensions", O(PQ(qAB)))),
		post(M("extensions", O(PQ(qPlain)))),
		post(M("query", S(qPlain)), M("extensions", O(PQ(qAB)))),
		post(M("query", S(qPlain))),
		get("", "", nil, []kvp{PQ(qPlain)}),
		get(qQ, "", []kvp{{"s", `"g"`}}, []kvp{PQ(qQ)}),
		get("", "", []kvp{{"s", `"h"`}}, []kvp{PQ(qQ)}),
		post(M("extensions", O(kvp{"persistedQuery", `{"version":2,"sha256Hash":"` + shaOf(qPlain) + `"}`}))),
		post(M("extensions", O(kvp{"persistedQuery", `"str"`}))),
		post(M("query", S(qPlain)), M("extensions", O(kvp{"persistedQuery", `null`}))))
	// a request whose hash does not match its text is rejected and must leave no trace: not on a server that never
	// saw the hash (later hash-only requests: PersistedQueryNotFound), not on one where the hash is registered
	// (it keeps denoting the registered text), on any transport
	add("apq-rejected-registration",
		post(M("query", S(qPlain)), M("extensions", O(PQ(qAB)))),
		post(M("extensions", O(PQ(qAB)))),
		get("", "", nil, []kvp{PQ(qAB)}),
		get(qM, "", nil, []kvp{PQ(qQ)}),
		get("", "", nil, []kvp{PQ(qQ)}),
		post(M("extensions", O(PQ(qQ)))),
		post(M("query", S(qAB)), M("operationName", S("B")), M("extensions", O(PQ(qAB)))),
		post(M("query", S(qPlain)), M("extensions", O(PQ(qAB)))),
		post(M("extensions", O(PQ(qAB))), M("operationName", S("A"))),
		get("", "B", nil, []kvp{PQ(qAB)}),
		formJSON(M("query", S(qExt)), M("extensions", O(PQ(qAB)))),
		post(M("extensions", O(PQ(qAB))), M("operationName", S("A"))))
	add("same-text-different-operation",
		post(M("query", S(qAB)), M("operationName", S("A"))),
		post(M("query", S(qAB)), M("operationName", S("B"))),
		post(M("query", S(qAB)), M("operationName", S("A"))),
		post(M("query", S(qAB)), M("operationName", S("Nope"))),
		post(M("query", S(qAB)), M("operationName", S("B"))),
		post(M("query", S(qQM)), M("operationName", S("B")), M("variables", O(kvp{"s", `"m"`}))),
		post(M("query", S(qQM)), M("operationName", S("A")), M("variables", O(kvp{"s", `"q"`}))),
		get(qQM, "B", nil, nil),
		get(qQM, "A", []kvp{{"s", `"viaget"`}}, nil),
		post(M("query", S(qQM)), M("operationName", S("B"))))
	add("same-text-different-variables",
		post(M("query", S(qQ)), M("variables", O(kvp{"s", `"x"`}))),
		post(M("query", S(qQ)), M("variables", O(kvp{"n", `3`}))),
		post(M("query", S(qQ))),
		post(M("query", S(qQ)), M("variables", O(kvp{"n", `"bad"`}))),
		post(M("query", S(qQ)), M("variables", O(kvp{"s", `null`}, kvp{"n", `null`}))),
		post(M("query", S(qS)), M("variables", O(kvp{"f", `true`}))),
		post(M("query", S(qS)), M("variables", O(kvp{"f", `false`}))),
		post(M("query", S(qS))),
		post(M("query", S(qS)), M("variables", O(kvp{"f", `true`}))),
		post(M("query", S(qF))),
		post(M("query", S(qF))),
		post(M("query", S("query I($o: In) { arg(o: $o) vars }")), M("variables", O(kvp{"o", `{"x":"1","y":[1,2]}`}))),
		post(M("query", S("query I($o: In) { arg(o: $o) vars }")), M("variables", O(kvp{"o", `{"y":[3]}`}))),
		post(M("query", S("query I($o: In) { arg(o: $o) vars }"))))
	add("invalid-documents-twice",
		post(M("query", S("{ nope }"))),
		post(M("query", S("{ nope }"))),
		post(M("query", S("{ op "))),
		post(M("query", S("{ op "))),
		post(M("query", S(""))),
		post(M("query", S("fragment X on Query { op }"))),
		post(M("query", S("fragment X on Query { op }"))),
		post(M("query", S("subscription T { tick }"))),
		post(M("query", S("subscription T { tick }"))))
	add("every-transport-same-text",
		post(M("query", S(qPlain))),
		get(qPlain, "", nil, nil),
		graphqlReq(qPlain),
		formJSON(M("query", S(qPlain))),
		formText("query="+url.QueryEscape(qPlain), qPlain),
		formText("query="+qPlain, qPlain),
		post(M("query", S(qM)), M("variables", O(kvp{"v", `"p"`}))),
		get(qM, "", []kvp{{"v", `"g"`}}, nil),
		get(qPlain, "", []kvp{{"s", `"g"`}}, nil),
		graphqlReq(qM),
		formJSON(M("query", S(qQ)), M("variables", O(kvp{"s", `"f"`})), M("operationName", S("Q"))),
		formJSON(M("query", S(qQ))),
		post(M("query", S(qQ))),
		&rq{kind: "unsupported", method: "PUT", hdrs: hdr("Content-Type", "application/json"), body: `{"query":"{ op }"}`, enc: "unsupported", tags: []string{"directed"}},
		post(M("query", S(qPlain))))
	// the configuration dimension: the same negotiation history against every header configuration of the
	// transports, forwards and backwards (so each media type is once the FIRST one a transport negotiates)
	for _, name := range hdrCfgNames {
		fw := negotiationHistory()
		hs = append(hs, history{name: "negotiation:" + name, reqs: fw, hdr: name})
		bw := negotiationHistory()
		for i, j := 0, len(bw)-1; i < j; i, j = i+1, j-1 {
			bw[i], bw[j] = bw[j], bw[i]
		}
		hs = append(hs, history{name: "negotiation-reversed:" + name, reqs: bw, hdr: name})
	}
	// round 4: requests that READ the server's long-lived schema through code that could write it. Every
	// introspection text of the directed family, in chunks: before and after a chunk the block of requests whose
	// validity / answer depends on what the schema declares (nullability, defaults, deprecation), over POST and GET;
	// then the chunk once more (an introspection answer must not depend on earlier introspection either)
	it := directedIntroTexts()
	for c := 0; c < len(it); c += 5 {
		end := c + 5
		if end > len(it) {
			end = len(it)
		}
		var reqs []*rq
		reqs = append(reqs, nullabilityBlock(c/5)...)
		for _, t := range it[c:end] {
			reqs = append(reqs, jsonPost(t, "", nil))
		}
		reqs = append(reqs, nullabilityBlock(c/5+1)...)
		for i, t := range it[c:end] {
			if i%2 == 0 {
				reqs = append(reqs, get(t, "", []kvp{{"d", `true`}}, nil))
			} else {
				reqs = append(reqs, jsonPost(t, "", []kvp{{"d", `true`}}))
			}
		}
		hs = append(hs, history{name: fmt.Sprintf("introspection-then-dependent-requests:%d", c/5), reqs: reqs})
	}
	// round 5: failure outcomes as carriers of state between requests (fail.go)
	hs = append(hs, failureHistories()...)
	hs = append(hs, directedCaseHistories()...) // round 6 (envelope.go)
	hs = append(hs, mutationHistories()...)     // round 7 (mutate.go)
	return hs
}

// nullabilityBlock: every text of the nullability family, with a variable set that declares one of its variables
// (rotating with k) or with none
func nullabilityBlock(k int) []*rq {
	var out []*rq
	for ti, t := range nullabilityTexts {
		var fit [][]kvp
		for _, vs := range nullabilityVars {
			if len(vs) > 0 && strings.Contains(t, "$"+vs[0].k+":") {
				fit = append(fit, vs)
			}
		}
		var vars []kvp
		if len(fit) > 0 && (ti+k)%3 != 2 {
			vars = fit[(ti+k)%len(fit)]
		}
		if (ti+k)%4 == 3 {
			out = append(out, get(t, "", vars, nil))
		} else {
			out = append(out, jsonPost(t, "", vars))
		}
	}
	return out
}
