package main

import (
	"bytes"
	"context"
	"encoding/json"
	"fmt"
	"io"
	"strconv"
	"strings"

	"github.com/99designs/gqlgen/graphql"
	"github.com/99designs/gqlgen/graphql/handler/transport"
	"github.com/vektah/gqlparser/v2"
	"github.com/vektah/gqlparser/v2/ast"
	"github.com/vektah/gqlparser/v2/gqlerror"
)

// A hand-built ExecutableSchema whose resolvers are deterministic functions of the operation
// context: they echo operation name, variables, field arguments, extensions, a request header and
// the raw query, so anything that leaks from another request shows up in the body.
const schemaSDL = `
type Query {
	op: String!
	vars: String!
	arg(s: String, n: Int, o: In): String!
	ext: String!
	hdr: String!
	"everything the operation context holds as headers (round 6, envelope.go)"
	hdrs: String!
	raw: String!
	k: String!
	node: Node!
	"positions whose nullability decides whether a request is valid (round 4)"
	user(id: Int!): Node
	pick(c: Color! = RED, ids: [Int!]!, in: In2): String!
	shape: Shape!
	things: [Thing!]! @deprecated(reason: "use shape")
	stamp: Stamp
	"reports m through transport.AddSubscriptionError (websocket only) n times, then answers"
	boom(m: String, n: Int): String!
	"a resolver that fails (round 5, fail.go): panics / returns an error, recovered and reported per field as generated code does"
	fail(how: String = "panic", m: String = "x", at: Int): String
	"panics without a field-level recover: reaches the transport's / the server's recover"
	escape(m: String = "x"): String
	"a list: response paths with indices"
	nodes(n: Int = 3): [Node]
}
type Node { id: String! op: String! child: Node fail(how: String = "panic", m: String = "x", at: Int): String }
type Mutation { set(v: String): String! }
type Subscription { tick(n: Int, g: String, fail: String, failAt: Int): String! }
input In { x: String y: [Int!] }
"an enum with deprecated values"
enum Color { RED GREEN @deprecated(reason: "old") BLUE @deprecated }
interface Shape { area: String! }
type Sq implements Shape { area: String! side: Int! old: String @deprecated(reason: "gone") }
type Circle implements Shape { area: String! r: Int! }
union Thing = Sq | Circle | Node
input In2 { must: Int! list: [String!]! opt: In = {x: "d"} col: Color = RED grid: [[Int!]!] legacy: String @deprecated }
directive @tag(name: String!, n: [Int!]) repeatable on FIELD | QUERY
scalar Stamp @specifiedBy(url: "https://example.test/stamp")
`

func loadSchema() *ast.Schema {
	return gqlparser.MustLoadSchema(&ast.Source{Name: "c07.graphql", Input: schemaSDL})
}

// the harness's own copy: no server ever serves from it (validity of texts for the model, websocket planning)
var schema = loadSchema()

// every server - the one under test and every fresh-server oracle - has a schema of its own, loaded when the server
// is built: the *ast.Schema is the one structure every request of a server reads, it lives as long as the server
type echoSchema struct{ s *ast.Schema }

func (e echoSchema) Schema() *ast.Schema { return e.s }
func (echoSchema) Complexity(ctx context.Context, typeName, fieldName string, childComplexity int, args map[string]any) (int, bool) {
	return 0, false
}

func canon(v any) string {
	b, err := json.Marshal(v)
	if err != nil {
		return "!" + err.Error()
	}
	return string(b)
}

func (e echoSchema) Exec(ctx context.Context) graphql.ResponseHandler {
	opCtx := graphql.GetOperationContext(ctx)
	switch opCtx.Operation.Operation {
	case ast.Query:
		return e.lazy(opCtx, "Query")
	case ast.Mutation:
		return e.lazy(opCtx, "Mutation")
	default:
		if opCtx.Headers.Get(wsMarkHeader) == "" {
			return graphql.OneShot(graphql.ErrorResponse(ctx, "subscriptions are not served over this transport"))
		}
		return tickStream(ctx, opCtx)
	}
}

// lazy: the operation is executed when the transport asks for the response (as the generated Exec does), under the
// response context of that call - so the data comes with the errors its resolvers reported
func (e echoSchema) lazy(opCtx *graphql.OperationContext, root string) graphql.ResponseHandler {
	done := false
	return func(ctx context.Context) *graphql.Response {
		if done {
			return nil
		}
		done = true
		return &graphql.Response{Data: e.execObj(ctx, opCtx, root, opCtx.Operation.SelectionSet, 0, nil)}
	}
}

// tickStream: `tick(n:, g:)` delivers n payloads (default 2); with a gate token g that the harness registered,
// each payload waits until the harness steps the gate, so that the harness decides what else happens on the
// connection while the subscription is running. The payloads echo the operation's own name and variables.
func tickStream(ctx context.Context, opCtx *graphql.OperationContext) graphql.ResponseHandler {
	fields := graphql.CollectFields(opCtx, opCtx.Operation.SelectionSet, []string{"Subscription"})
	n, tok, fail, failAt := 2, "", "", 0
	if len(fields) > 0 {
		args := fields[0].ArgumentMap(opCtx.Variables)
		if v, ok := args["n"]; ok && v != nil {
			if k, err := strconv.Atoi(fmt.Sprint(v)); err == nil {
				n = k
			}
		}
		if v, ok := args["g"].(string); ok {
			tok = v
		}
		if v, ok := args["fail"].(string); ok {
			fail = v
		}
		if v, ok := args["failAt"]; ok && v != nil {
			if k, err := strconv.Atoi(fmt.Sprint(v)); err == nil {
				failAt = k
			}
		}
	}
	i := 0
	// `fail`: the resolver reports an error through the transport's per-operation side channel
	// (transport.AddSubscriptionError, as a resolver does whose upstream went away): when payload number failAt has
	// been delivered and the stream goes on, or (failAt absent / 0) when the stream ends
	report := func(ctx context.Context) {
		transport.AddSubscriptionError(ctx, &gqlerror.Error{Message: fail})
	}
	return func(ctx context.Context) *graphql.Response {
		if i >= n || len(fields) == 0 {
			if fail != "" && failAt == 0 && len(fields) > 0 {
				failAt = -1
				report(ctx)
			}
			return nil
		}
		if g := lookupGate(tok); g != nil {
			select {
			case g.arrived <- struct{}{}:
			default:
			}
			select {
			case <-g.release:
			case <-ctx.Done():
				return nil
			}
		}
		i++
		if fail != "" && failAt == i {
			report(ctx)
		}
		out := graphql.NewFieldSet(fields)
		for j, f := range fields {
			out.Values[j] = graphql.MarshalString(fmt.Sprintf("%s %d/%d op=%s vars=%s ext=%s hdrs=%s", f.Name, i, n, opCtx.OperationName, canon(opCtx.Variables), canon(opCtx.Extensions), showHdrs(opCtx.Headers)))
		}
		var b bytes.Buffer
		out.MarshalGQL(&b)
		return &graphql.Response{Data: b.Bytes()}
	}
}

// the abstract types an object type satisfies (fragment type conditions)
var satisfies = map[string][]string{"Sq": {"Sq", "Shape", "Thing"}, "Circle": {"Circle", "Shape", "Thing"}, "Node": {"Node", "Thing"}}

// hp is the harness's OWN record of the response path of the object being executed (aliases and list indices handed
// down the recursion) - independent of the path gqlgen derives from the field contexts
func (e echoSchema) execObj(octx context.Context, opCtx *graphql.OperationContext, typ string, sels ast.SelectionSet, depth int, hp []any) []byte {
	if depth == 0 {
		parkAt("exec", opCtx.Headers) // the document is in hand, nothing collected yet
	}
	sat := satisfies[typ]
	if sat == nil {
		sat = []string{typ}
	}
	fields := graphql.CollectFields(opCtx, sels, sat)
	out := graphql.NewFieldSet(fields)
	for i, f := range fields {
		var s string
		// every field is executed under a field context of its own, as generated code does
		ctx := graphql.WithFieldContext(octx, &graphql.FieldContext{Object: typ, Field: f})
		fp := append(append(make([]any, 0, len(hp)+1), hp...), f.Alias)
		switch f.Name {
		case "fail":
			out.Values[i] = failField(ctx, opCtx, f, fp)
			continue
		case "escape":
			escapeField(ctx, opCtx, f)
		case "nodes":
			n := intArg(f.ArgumentMap(opCtx.Variables), "n", 3)
			var arr graphql.Array
			for j := 0; j < n && j < 8; j++ {
				j := j
				ictx := graphql.WithFieldContext(ctx, &graphql.FieldContext{Index: &j})
				arr = append(arr, rawJSON(e.execObj(ictx, opCtx, "Node", f.Selections, depth+1, append(append(make([]any, 0, len(fp)+1), fp...), j))))
			}
			out.Values[i] = arr
			continue
		case "__typename":
			s = typ
		case "op":
			s = opCtx.OperationName
		case "vars":
			s = canon(opCtx.Variables)
		case "arg", "set":
			s = canon(f.ArgumentMap(opCtx.Variables))
		case "ext":
			s = canon(opCtx.Extensions)
		case "hdr":
			s = strings.Join(opCtx.Headers.Values("X-Echo"), "|")
		case "hdrs":
			s = showHdrs(opCtx.Headers)
		case "raw":
			s = opCtx.RawQuery
		case "k":
			s = "k"
		case "id":
			s = "n" + string(rune('0'+depth))
		case "node":
			parkAt("node", opCtx.Headers) // the parent selection set is collected, the child's is not
			out.Values[i] = rawJSON(e.execObj(ctx, opCtx, "Node", f.Selections, depth+1, fp))
			continue
		case "child":
			parkAt("child", opCtx.Headers)
			if depth >= 3 {
				out.Values[i] = graphql.Null
			} else {
				out.Values[i] = rawJSON(e.execObj(ctx, opCtx, "Node", f.Selections, depth+1, fp))
			}
			continue
		case "__schema", "__type":
			out.Values[i] = e.introRoot(ctx, opCtx, f) // intro.go: the real graphql/introspection wrappers
			continue
		case "user":
			out.Values[i] = rawJSON(e.execObj(ctx, opCtx, "Node", f.Selections, depth+1, fp))
			continue
		case "shape":
			out.Values[i] = rawJSON(e.execObj(ctx, opCtx, "Sq", f.Selections, depth+1, fp))
			continue
		case "things":
			var arr graphql.Array
			for _, t := range []string{"Sq", "Circle", "Node"} {
				arr = append(arr, rawJSON(e.execObj(ctx, opCtx, t, f.Selections, depth+1, fp)))
			}
			out.Values[i] = arr
			continue
		case "stamp":
			out.Values[i] = graphql.Null
			continue
		case "pick":
			s = canon(f.ArgumentMap(opCtx.Variables))
		case "area":
			s = "area of " + typ
		case "side", "r":
			out.Values[i] = graphql.MarshalInt(4)
			continue
		case "old":
			out.Values[i] = graphql.Null
			continue
		case "boom":
			// a resolver that reports through the websocket transport's per-operation side channel
			args := f.ArgumentMap(opCtx.Variables)
			m, _ := args["m"].(string)
			n := 1
			if v, ok := args["n"]; ok && v != nil {
				if k, err := strconv.Atoi(fmt.Sprint(v)); err == nil {
					n = k
				}
			}
			s = "boom-http"
			if opCtx.Headers.Get(wsMarkHeader) != "" {
				for j := 0; j < n; j++ {
					transport.AddSubscriptionError(ctx, &gqlerror.Error{Message: m})
				}
				s = "boom:" + m
			}
		default:
			s = "?" + f.Name
		}
		out.Values[i] = graphql.MarshalString(s)
	}
	out.Dispatch(octx)
	var b bytes.Buffer
	out.MarshalGQL(&b)
	return b.Bytes()
}

type rawJSON []byte

func (r rawJSON) MarshalGQL(w io.Writer) { w.Write(r) }
