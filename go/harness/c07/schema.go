package main

import (
	"bytes"
	"context"
	"encoding/json"
	"fmt"
	"io"
	"strconv"
	"strings"

	"github.com/99designs/gqlgen/graphql"
	"github.com/vektah/gqlparser/v2"
	"github.com/vektah/gqlparser/v2/ast"
)

// A hand-built ExecutableSchema whose resolvers are deterministic functions of the operation
// context: they echo operation name, variables, field arguments, extensions, a request header and
// the raw query, so anything that leaks from another request shows up in the body.
const schemaSDL = `
type Query {
	op: String!
	vars: String!
	arg(s: String, n: Int, o: In): String!
	ext: String!
	hdr: String!
	raw: String!
	k: String!
	node: Node!
}
type Node { id: String! op: String! child: Node }
type Mutation { set(v: String): String! }
type Subscription { tick(n: Int, g: String): String! }
input In { x: String y: [Int!] }
`

var schema = gqlparser.MustLoadSchema(&ast.Source{Name: "c07.graphql", Input: schemaSDL})

type echoSchema struct{}

func (echoSchema) Schema() *ast.Schema { return schema }
func (echoSchema) Complexity(ctx context.Context, typeName, fieldName string, childComplexity int, args map[string]any) (int, bool) {
	return 0, false
}

func canon(v any) string {
	b, err := json.Marshal(v)
	if err != nil {
		return "!" + err.Error()
	}
	return string(b)
}

func (echoSchema) Exec(ctx context.Context) graphql.ResponseHandler {
	opCtx := graphql.GetOperationContext(ctx)
	switch opCtx.Operation.Operation {
	case ast.Query:
		return graphql.OneShot(&graphql.Response{Data: execObj(ctx, opCtx, "Query", opCtx.Operation.SelectionSet, 0)})
	case ast.Mutation:
		return graphql.OneShot(&graphql.Response{Data: execObj(ctx, opCtx, "Mutation", opCtx.Operation.SelectionSet, 0)})
	default:
		if opCtx.Headers.Get(wsMarkHeader) == "" {
			return graphql.OneShot(graphql.ErrorResponse(ctx, "subscriptions are not served over this transport"))
		}
		return tickStream(ctx, opCtx)
	}
}

// tickStream: `tick(n:, g:)` delivers n payloads (default 2); with a gate token g that the harness registered,
// each payload waits until the harness steps the gate, so that the harness decides what else happens on the
// connection while the subscription is running. The payloads echo the operation's own name and variables.
func tickStream(ctx context.Context, opCtx *graphql.OperationContext) graphql.ResponseHandler {
	fields := graphql.CollectFields(opCtx, opCtx.Operation.SelectionSet, []string{"Subscription"})
	n, tok := 2, ""
	if len(fields) > 0 {
		args := fields[0].ArgumentMap(opCtx.Variables)
		if v, ok := args["n"]; ok && v != nil {
			if k, err := strconv.Atoi(fmt.Sprint(v)); err == nil {
				n = k
			}
		}
		if v, ok := args["g"].(string); ok {
			tok = v
		}
	}
	i := 0
	return func(ctx context.Context) *graphql.Response {
		if i >= n || len(fields) == 0 {
			return nil
		}
		if g := lookupGate(tok); g != nil {
			select {
			case g.arrived <- struct{}{}:
			default:
			}
			select {
			case <-g.release:
			case <-ctx.Done():
				return nil
			}
		}
		i++
		out := graphql.NewFieldSet(fields)
		for j, f := range fields {
			out.Values[j] = graphql.MarshalString(fmt.Sprintf("%s %d/%d op=%s vars=%s", f.Name, i, n, opCtx.OperationName, canon(opCtx.Variables)))
		}
		var b bytes.Buffer
		out.MarshalGQL(&b)
		return &graphql.Response{Data: b.Bytes()}
	}
}

func execObj(ctx context.Context, opCtx *graphql.OperationContext, typ string, sels ast.SelectionSet, depth int) []byte {
	if depth == 0 {
		parkAt("exec", opCtx.Headers) // the document is in hand, nothing collected yet
	}
	fields := graphql.CollectFields(opCtx, sels, []string{typ})
	out := graphql.NewFieldSet(fields)
	for i, f := range fields {
		var s string
		switch f.Name {
		case "__typename":
			s = typ
		case "op":
			s = opCtx.OperationName
		case "vars":
			s = canon(opCtx.Variables)
		case "arg", "set":
			s = canon(f.ArgumentMap(opCtx.Variables))
		case "ext":
			s = canon(opCtx.Extensions)
		case "hdr":
			s = strings.Join(opCtx.Headers.Values("X-Echo"), "|")
		case "raw":
			s = opCtx.RawQuery
		case "k":
			s = "k"
		case "id":
			s = "n" + string(rune('0'+depth))
		case "node":
			parkAt("node", opCtx.Headers) // the parent selection set is collected, the child's is not
			out.Values[i] = rawJSON(execObj(ctx, opCtx, "Node", f.Selections, depth+1))
			continue
		case "child":
			parkAt("child", opCtx.Headers)
			if depth >= 3 {
				out.Values[i] = graphql.Null
			} else {
				out.Values[i] = rawJSON(execObj(ctx, opCtx, "Node", f.Selections, depth+1))
			}
			continue
		default:
			s = "?" + f.Name
		}
		out.Values[i] = graphql.MarshalString(s)
	}
	out.Dispatch(ctx)
	var b bytes.Buffer
	out.MarshalGQL(&b)
	return b.Bytes()
}

type rawJSON []byte

func (r rawJSON) MarshalGQL(w io.Writer) { w.Write(r) }
