package main

// Introspection (round 4). Requests that only READ the server's long-lived structures, through code that could
// write them: `__schema` / `__type` are answered by the REAL wrappers of graphql/introspection
// (WrapSchema, WrapTypeFromDef, (*Type).Fields / OfType / EnumValues / ..., (*Schema).Types / Directives), walked
// here field by field in selection order exactly as the generated `___Type` / `___Schema` marshallers do
// (those marshallers are template glue around the same method calls; they are not under test here).
//
// The family of introspection texts is a generator dimension of its own: a random walk over the introspection
// meta-schema (every field of __Schema / __Type / __Field / __InputValue / __EnumValue / __Directive, in any
// order, any subset, `ofType` chains of any depth, includeDeprecated true / false / variable-driven), plus the
// standard introspection query of the schema explorers; and a family of ordinary texts whose validity or result
// depends on the nullability / deprecation / default values the schema declares.

import (
	"bytes"
	"context"
	"fmt"
	"hash/fnv"
	"reflect"
	"sort"
	"strings"

	"github.com/99designs/gqlgen/graphql"
	"github.com/99designs/gqlgen/graphql/introspection"
	"github.com/vektah/gqlparser/v2/ast"
	"verifharness/internal/rng"
)

func marshalStrPtr(s *string) graphql.Marshaler {
	if s == nil {
		return graphql.Null
	}
	return graphql.MarshalString(*s)
}

func boolArg(f graphql.CollectedField, vars map[string]any, name string) bool {
	v, _ := f.ArgumentMap(vars)[name].(bool)
	return v
}

// introRoot: Query.__schema / Query.__type(name:)
func (e echoSchema) introRoot(ctx context.Context, opCtx *graphql.OperationContext, f graphql.CollectedField) graphql.Marshaler {
	if opCtx.DisableIntrospection {
		graphql.AddErrorf(ctx, "introspection disabled")
		return graphql.Null
	}
	if f.Name == "__schema" {
		return introSchema(ctx, opCtx, introspection.WrapSchema(e.s), f.Selections)
	}
	name, _ := f.ArgumentMap(opCtx.Variables)["name"].(string)
	return introType(ctx, opCtx, introspection.WrapTypeFromDef(e.s, e.s.Types[name]), f.Selections)
}

func introObject(opCtx *graphql.OperationContext, typ string, sels ast.SelectionSet, one func(f graphql.CollectedField) graphql.Marshaler) graphql.Marshaler {
	fields := graphql.CollectFields(opCtx, sels, []string{typ})
	out := graphql.NewFieldSet(fields)
	for i, f := range fields { // in selection order, one after the other
		if f.Name == "__typename" {
			out.Values[i] = graphql.MarshalString(typ)
			continue
		}
		out.Values[i] = one(f)
	}
	var b bytes.Buffer
	out.MarshalGQL(&b)
	return rawJSON(b.Bytes())
}

func introSchema(ctx context.Context, opCtx *graphql.OperationContext, s *introspection.Schema, sels ast.SelectionSet) graphql.Marshaler {
	return introObject(opCtx, "__Schema", sels, func(f graphql.CollectedField) graphql.Marshaler {
		switch f.Name {
		case "description":
			return marshalStrPtr(s.Description())
		case "types":
			var arr = graphql.Array{}
			for _, t := range s.Types() {
				t := t
				arr = append(arr, introType(ctx, opCtx, &t, f.Selections))
			}
			return arr
		case "queryType":
			return introType(ctx, opCtx, s.QueryType(), f.Selections)
		case "mutationType":
			return introType(ctx, opCtx, s.MutationType(), f.Selections)
		case "subscriptionType":
			return introType(ctx, opCtx, s.SubscriptionType(), f.Selections)
		case "directives":
			var arr = graphql.Array{}
			for _, d := range s.Directives() {
				d := d
				arr = append(arr, introDirective(ctx, opCtx, &d, f.Selections))
			}
			return arr
		}
		return graphql.MarshalString("?" + f.Name)
	})
}

func introTypes(ctx context.Context, opCtx *graphql.OperationContext, ts []introspection.Type, sels ast.SelectionSet) graphql.Marshaler {
	arr := graphql.Array{}
	for i := range ts {
		arr = append(arr, introType(ctx, opCtx, &ts[i], sels))
	}
	return arr
}

func introType(ctx context.Context, opCtx *graphql.OperationContext, t *introspection.Type, sels ast.SelectionSet) graphql.Marshaler {
	if t == nil {
		return graphql.Null
	}
	return introObject(opCtx, "__Type", sels, func(f graphql.CollectedField) graphql.Marshaler {
		switch f.Name {
		case "kind":
			return graphql.MarshalString(t.Kind())
		case "name":
			return marshalStrPtr(t.Name())
		case "description":
			return marshalStrPtr(t.Description())
		case "specifiedByURL":
			return marshalStrPtr(t.SpecifiedByURL())
		case "isOneOf":
			return graphql.MarshalBoolean(t.IsOneOf())
		case "fields":
			arr := graphql.Array{}
			for _, x := range t.Fields(boolArg(f, opCtx.Variables, "includeDeprecated")) {
				x := x
				arr = append(arr, introField(ctx, opCtx, &x, f.Selections))
			}
			return arr
		case "interfaces":
			return introTypes(ctx, opCtx, t.Interfaces(), f.Selections)
		case "possibleTypes":
			return introTypes(ctx, opCtx, t.PossibleTypes(), f.Selections)
		case "enumValues":
			arr := graphql.Array{}
			for _, x := range t.EnumValues(boolArg(f, opCtx.Variables, "includeDeprecated")) {
				x := x
				arr = append(arr, introObject(opCtx, "__EnumValue", f.Selections, func(g graphql.CollectedField) graphql.Marshaler {
					switch g.Name {
					case "name":
						return graphql.MarshalString(x.Name)
					case "description":
						return marshalStrPtr(x.Description())
					case "isDeprecated":
						return graphql.MarshalBoolean(x.IsDeprecated())
					case "deprecationReason":
						return marshalStrPtr(x.DeprecationReason())
					}
					return graphql.MarshalString("?" + g.Name)
				}))
			}
			return arr
		case "inputFields":
			return introInputValues(ctx, opCtx, t.InputFields(), f.Selections)
		case "ofType":
			return introType(ctx, opCtx, t.OfType(), f.Selections)
		}
		return graphql.MarshalString("?" + f.Name)
	})
}

func introInputValues(ctx context.Context, opCtx *graphql.OperationContext, vs []introspection.InputValue, sels ast.SelectionSet) graphql.Marshaler {
	arr := graphql.Array{}
	for i := range vs {
		x := &vs[i]
		arr = append(arr, introObject(opCtx, "__InputValue", sels, func(g graphql.CollectedField) graphql.Marshaler {
			switch g.Name {
			case "name":
				return graphql.MarshalString(x.Name)
			case "description":
				return marshalStrPtr(x.Description())
			case "type":
				return introType(ctx, opCtx, x.Type, g.Selections)
			case "defaultValue":
				return marshalStrPtr(x.DefaultValue)
			case "isDeprecated":
				return graphql.MarshalBoolean(x.IsDeprecated())
			case "deprecationReason":
				return marshalStrPtr(x.DeprecationReason())
			}
			return graphql.MarshalString("?" + g.Name)
		}))
	}
	return arr
}

func introField(ctx context.Context, opCtx *graphql.OperationContext, x *introspection.Field, sels ast.SelectionSet) graphql.Marshaler {
	return introObject(opCtx, "__Field", sels, func(g graphql.CollectedField) graphql.Marshaler {
		switch g.Name {
		case "name":
			return graphql.MarshalString(x.Name)
		case "description":
			return marshalStrPtr(x.Description())
		case "args":
			return introInputValues(ctx, opCtx, x.Args, g.Selections)
		case "type":
			return introType(ctx, opCtx, x.Type, g.Selections)
		case "isDeprecated":
			return graphql.MarshalBoolean(x.IsDeprecated())
		case "deprecationReason":
			return marshalStrPtr(x.DeprecationReason())
		}
		return graphql.MarshalString("?" + g.Name)
	})
}

func introDirective(ctx context.Context, opCtx *graphql.OperationContext, d *introspection.Directive, sels ast.SelectionSet) graphql.Marshaler {
	return introObject(opCtx, "__Directive", sels, func(g graphql.CollectedField) graphql.Marshaler {
		switch g.Name {
		case "name":
			return graphql.MarshalString(d.Name)
		case "description":
			return marshalStrPtr(d.Description())
		case "isRepeatable":
			return graphql.MarshalBoolean(d.IsRepeatable)
		case "locations":
			arr := graphql.Array{}
			for _, l := range d.Locations {
				arr = append(arr, graphql.MarshalString(l))
			}
			return arr
		case "args":
			return introInputValues(ctx, opCtx, d.Args, g.Selections)
		}
		return graphql.MarshalString("?" + g.Name)
	})
}

// ---------------------------------------------------------------- the families of texts

// the standard introspection query of the schema explorers (graphql-js getIntrospectionQuery)
const qIntrospectionStd = `query IntrospectionQuery { __schema { description queryType { name } mutationType { name } subscriptionType { name } types { ...FullType } directives { name description isRepeatable locations args { ...InputValue } } } }
fragment FullType on __Type { kind name description specifiedByURL isOneOf fields(includeDeprecated: true) { name description args { ...InputValue } type { ...TypeRef } isDeprecated deprecationReason } inputFields { ...InputValue } interfaces { ...TypeRef } enumValues(includeDeprecated: true) { name description isDeprecated deprecationReason } possibleTypes { ...TypeRef } }
fragment InputValue on __InputValue { name description type { ...TypeRef } defaultValue isDeprecated deprecationReason }
fragment TypeRef on __Type { kind name ofType { kind name ofType { kind name ofType { kind name ofType { kind name ofType { kind name ofType { kind name ofType { kind name } } } } } } } }`

// introMeta: the introspection meta-schema as the walk sees it: field -> type of its sub-selection ("" = leaf);
// `fields` / `enumValues` take includeDeprecated, `__type` a name
var introMeta = map[string][][2]string{
	"__Schema":    {{"description", ""}, {"types", "__Type"}, {"queryType", "__Type"}, {"mutationType", "__Type"}, {"subscriptionType", "__Type"}, {"directives", "__Directive"}},
	"__Type":      {{"kind", ""}, {"name", ""}, {"description", ""}, {"specifiedByURL", ""}, {"isOneOf", ""}, {"fields", "__Field"}, {"interfaces", "__Type"}, {"possibleTypes", "__Type"}, {"enumValues", "__EnumValue"}, {"inputFields", "__InputValue"}, {"ofType", "__Type"}},
	"__Field":     {{"name", ""}, {"description", ""}, {"args", "__InputValue"}, {"type", "__Type"}, {"isDeprecated", ""}, {"deprecationReason", ""}},
	"__InputValue": {{"name", ""}, {"description", ""}, {"type", "__Type"}, {"defaultValue", ""}, {"isDeprecated", ""}, {"deprecationReason", ""}},
	"__EnumValue": {{"name", ""}, {"description", ""}, {"isDeprecated", ""}, {"deprecationReason", ""}},
	"__Directive": {{"name", ""}, {"description", ""}, {"isRepeatable", ""}, {"locations", ""}, {"args", "__InputValue"}},
}

// names `__type(name:)` is asked for: every kind of type of the probe schema, a meta type, a built-in, an unknown one
var introTypeNames = []string{"Query", "Node", "In", "In2", "Color", "Shape", "Thing", "Sq", "Stamp", "Subscription", "__Type", "String", "Nope"}

// typeRef: `kind name ofType { … }` to the given depth, with `ofType` before or after `kind` (the order in which
// the wrappers' methods run on one node)
func typeRef(depth int, ofTypeFirst bool) string {
	if depth == 0 {
		return "kind name"
	}
	if ofTypeFirst {
		return "ofType { " + typeRef(depth-1, ofTypeFirst) + " } kind name"
	}
	return "kind name ofType { " + typeRef(depth-1, ofTypeFirst) + " }"
}

// introSel: a random selection set on `typ` of the meta-schema: a non-empty subset of its fields in random
// order, some under an alias, some twice with different arguments; usesD reports whether $d is used
func introSel(g *gen, typ string, depth int, usesD *bool) string {
	fs := introMeta[typ]
	var parts []string
	n := 1 + g.pick(len(fs))
	perm := make([]int, len(fs))
	for i := range perm {
		perm[i] = i
	}
	for i := len(perm) - 1; i > 0; i-- {
		j := g.pick(i + 1)
		perm[i], perm[j] = perm[j], perm[i]
	}
	k := 0
	for _, pi := range perm[:n] {
		f := fs[pi]
		if f[1] != "" && depth == 0 {
			continue
		}
		name := f[0]
		call := name
		if name == "fields" || name == "enumValues" {
			switch g.pick(4) {
			case 0:
				call += "(includeDeprecated: true)"
			case 1:
				call += "(includeDeprecated: false)"
			case 2:
				call += "(includeDeprecated: $d)"
				*usesD = true
			}
		}
		if g.chance(15) {
			k++
			call = fmt.Sprintf("a%d: %s", k, call)
		}
		if f[1] == "" {
			parts = append(parts, call)
			continue
		}
		var sub string
		if f[1] == "__Type" && (name == "type" || name == "ofType") && g.chance(70) {
			sub = typeRef(1+g.pick(4), g.chance(40))
		} else {
			sub = introSel(g, f[1], depth-1, usesD)
		}
		parts = append(parts, call+" { "+sub+" }")
	}
	if len(parts) == 0 || g.chance(10) {
		parts = append(parts, "__typename")
	}
	return strings.Join(parts, " ")
}

// randomIntroText: one introspection request text (and whether it declares $d: Boolean)
func randomIntroText(g *gen) (string, bool) {
	usesD := false
	var root string
	switch g.pick(3) {
	case 0:
		root = "__schema { " + introSel(g, "__Schema", 3, &usesD) + " }"
	default:
		root = fmt.Sprintf("__type(name: %q) { %s }", introTypeNames[g.pick(len(introTypeNames))], introSel(g, "__Type", 3, &usesD))
		if g.chance(25) {
			root = "t1: " + root + fmt.Sprintf(" t2: __type(name: %q) { %s }", introTypeNames[g.pick(len(introTypeNames))], introSel(g, "__Type", 2, &usesD))
		}
	}
	if g.chance(30) {
		root += " k op"
	}
	if usesD {
		return "query I($d: Boolean = false) { " + root + " }", true
	}
	return "{ " + root + " }", false
}

// directed introspection texts: every field of every meta type at least once, each `ofType` order and depth, each
// includeDeprecated form, each kind of type
func directedIntroTexts() []string {
	ts := []string{qIntrospectionStd}
	for _, first := range []bool{false, true} {
		for d := 1; d <= 4; d++ {
			ref := typeRef(d, first)
			ts = append(ts, fmt.Sprintf("{ __schema { types { name fields(includeDeprecated: true) { name type { %s } args { name defaultValue type { %s } } } inputFields { name defaultValue type { %s } } } directives { name args { name type { %s } } } } }", ref, ref, ref, ref))
		}
	}
	for _, n := range introTypeNames {
		ts = append(ts,
			fmt.Sprintf("{ __type(name: %q) { kind name description specifiedByURL isOneOf fields { name isDeprecated deprecationReason type { %s } args { name type { %s } defaultValue } } interfaces { name kind } possibleTypes { name kind } enumValues { name isDeprecated deprecationReason } inputFields { name defaultValue isDeprecated deprecationReason type { %s } } ofType { name } } }", n, typeRef(3, false), typeRef(3, true), typeRef(4, false)),
			fmt.Sprintf("query I($d: Boolean = false) { __type(name: %q) { all: fields(includeDeprecated: true) { name } some: fields(includeDeprecated: $d) { name } ev: enumValues(includeDeprecated: $d) { name } evAll: enumValues(includeDeprecated: true) { name deprecationReason } } }", n))
	}
	ts = append(ts,
		"{ __schema { queryType { name fields { name } } mutationType { name } subscriptionType { name kind } description directives { name description isRepeatable locations args { name description defaultValue } } } }",
		"{ __schema { types { kind name possibleTypes { name } interfaces { name } } } __typename }")
	return ts
}

// texts whose validity or answer depends on what the schema declares about nullability, defaults and
// deprecation: some valid, some refused by validation, some refused by variable coercion
var nullabilityTexts = []string{
	"query N($id: Int) { user(id: $id) { id } }",                    // Int in an Int! position: refused
	"query N($id: Int!) { user(id: $id) { id } }",                   // valid
	"query N($id: Int = 3) { user(id: $id) { id } }",                // valid (default)
	"{ user { id } }",                                               // required argument missing: refused
	"{ user(id: null) { id } }",                                     // null for Int!: refused
	"{ user(id: 7) { id op } }",                                     // valid
	"query N($ids: [Int]) { pick(ids: $ids) }",                      // [Int] in [Int!]!: refused
	"query N($ids: [Int!]) { pick(ids: $ids) }",                     // [Int!] in [Int!]!: refused
	"query N($ids: [Int!]!) { pick(ids: $ids) }",                    // valid, $ids required
	"{ pick(ids: [1, null]) }",                                      // refused
	"{ pick(ids: [1, 2]) }",                                         // valid, c defaults to RED
	"{ pick(ids: [], c: null) }",                                    // refused
	"query N($c: Color) { pick(ids: [1], c: $c) }",                  // Color in Color! with a default: valid
	"{ pick(ids: [1], in: {list: [\"a\"]}) }",                       // required input field must missing: refused
	"{ pick(ids: [1], in: {must: 1, list: [\"a\", null]}) }",        // refused
	"{ pick(ids: [1], in: {must: 1, list: [\"a\"], grid: [[1], null]}) }", // refused
	"{ pick(ids: [1], in: {must: 1, list: []}) }",                   // valid
	"query N($in: In2) { pick(ids: [1], in: $in) }",                 // valid; coercion of $in depends on In2
	"{ shape { area ... on Sq { side old } } things { __typename ... on Node { id } ... on Shape { area } } stamp }",
	"query N($o: In) { arg(o: $o) }",
}

var nullabilityVars = [][]kvp{
	{},
	{{"id", `5`}},
	{{"id", `null`}},
	{{"ids", `[1,2]`}},
	{{"ids", `[1,null]`}},
	{{"ids", `null`}},
	{{"c", `"GREEN"`}},
	{{"c", `null`}},
	{{"in", `{"must":1,"list":["x"]}`}},
	{{"in", `{"list":["x"]}`}},
	{{"in", `{"must":null,"list":["x",null]}`}},
	{{"d", `true`}},
	{{"d", `false`}},
	{{"o", `{"y":[1,null]}`}},
}

var introFirst, nullFirst, introEnd int // catalogue[introFirst:nullFirst] introspection texts, [nullFirst:introEnd] nullability texts
var introVarFirst int                   // varSets[introVarFirst:] = nullabilityVars

// initIntro is called by sched.go's init after the merge family (catalogue indices below stay what they were)
func initIntro() {
	introFirst = len(catalogue)
	for _, t := range directedIntroTexts() {
		catalogue = append(catalogue, qtext{t, nil, nil})
	}
	// a fixed sample of the random family, so that random histories, scheduled groups, concurrent batches and
	// websocket sessions (which draw catalogue indices) meet it; sequential random histories draw fresh ones too
	g := &gen{r: rng.New(0xC07)}
	seen := map[string]bool{}
	for len(catalogue)-introFirst < len(directedIntroTexts())+40 {
		t, _ := randomIntroText(g)
		if !seen[t] {
			seen[t] = true
			catalogue = append(catalogue, qtext{t, nil, nil})
		}
	}
	nullFirst = len(catalogue)
	for _, t := range nullabilityTexts {
		catalogue = append(catalogue, qtext{t, []string{"N"}, nil})
	}
	introEnd = len(catalogue)
	introVarFirst = len(varSets)
	varSets = append(varSets, nullabilityVars...)
}

// ---------------------------------------------------------------- the shared schema must never change

// inside a definition, other definitions are referred to by name (Directive.Definition / ParentDefinition ...)
var schemaBackRefs = map[reflect.Type]bool{
	reflect.TypeOf(&ast.Definition{}):          true,
	reflect.TypeOf(&ast.DirectiveDefinition{}): true,
}

func hashSchemaPart(def any) uint64 {
	h := fnv.New64a()
	dumpWith(h, reflect.ValueOf(def).Elem(), map[uintptr]bool{}, schemaBackRefs)
	return h.Sum64()
}

func fnvOf(s string) uint64 {
	h := fnv.New64a()
	h.Write([]byte(s))
	return h.Sum64()
}

// schemaHashes: one structural hash per type and directive definition (fields, arguments, their *ast.Type nodes,
// default values, directives, enum values, interfaces, union members - everything but positions; references
// to other definitions by name; spare capacity of every slice included) and one for the rest of the schema
func schemaHashes(s *ast.Schema) map[string]uint64 {
	out := map[string]uint64{}
	for n, d := range s.Types {
		out["type "+n] = hashSchemaPart(d)
	}
	for n, d := range s.Directives {
		out["directive @"+n] = hashSchemaPart(d)
	}
	var rest []string
	name := func(d *ast.Definition) string {
		if d == nil {
			return "nil"
		}
		return d.Name
	}
	rest = append(rest, "query="+name(s.Query), "mutation="+name(s.Mutation), "subscription="+name(s.Subscription), "description="+s.Description)
	for _, m := range []map[string][]*ast.Definition{s.PossibleTypes, s.Implements} {
		var ks []string
		for k, v := range m {
			e := k + "="
			for _, d := range v[:cap(v)] {
				e += name(d) + ","
			}
			ks = append(ks, fmt.Sprintf("%s|%d", e, len(v)))
		}
		sort.Strings(ks)
		rest = append(rest, strings.Join(ks, ";"))
	}
	var keys []string
	for k := range s.Types {
		keys = append(keys, k)
	}
	for k := range s.Directives {
		keys = append(keys, "@"+k)
	}
	sort.Strings(keys)
	rest = append(rest, strings.Join(keys, ","))
	out["schema"] = fnvOf(strings.Join(rest, "\n"))
	return out
}

// what changed between two snapshots ("" = nothing)
func schemaDiff(before, after map[string]uint64) string {
	var ch []string
	for k, v := range before {
		if w, ok := after[k]; !ok {
			ch = append(ch, k+" (removed)")
		} else if w != v {
			ch = append(ch, k)
		}
	}
	for k := range after {
		if _, ok := before[k]; !ok {
			ch = append(ch, k+" (added)")
		}
	}
	sort.Strings(ch)
	return strings.Join(ch, ", ")
}
