package main

// Scheduled interleavings: requests in flight beside each other with the harness, not the Go scheduler,
// deciding where one request stands while another is served from start to end.
//
// A request that carries `X-C07-Park: <token>@<point>` stops at <point> if (and only if) the harness
// registered a gate under <token>; the fresh-server oracle serves the very same request (header included)
// with no gate registered, so parking is invisible to it. Park points:
//
//	mut    in the first OperationParameterMutator: the transport has decoded the request into its
//	       (POST: pooled) RawParams, nothing was looked up yet
//	exec   at the start of ExecutableSchema.Exec: the document came out of the query cache (or was parsed
//	       and added), variables are validated, nothing is collected yet
//	node   in the resolver of the first `node` field: the parent selection set is collected (and merged),
//	       the child's is not
//	child  the same one level down
//
// Group = requests 0..n-2 are started one after the other, each running until it parks (or ends), request n-1
// is served from start to end, then the parked ones are released (in order, or last-parked first).

import (
	"fmt"
	"net/http"
	"strings"
	"sync"
	"time"
)

const parkHeader = "X-C07-Park"
const wsMarkHeader = "X-C07-Ws"

type gate struct {
	arrived chan struct{}
	release chan struct{}
}

var gates sync.Map // token -> *gate

func newGate(tok string) *gate {
	g := &gate{arrived: make(chan struct{}, 64), release: make(chan struct{}, 64)}
	gates.Store(tok, g)
	return g
}

func lookupGate(tok string) *gate {
	if tok == "" {
		return nil
	}
	if g, ok := gates.Load(tok); ok {
		return g.(*gate)
	}
	return nil
}

// parkAt: one-shot (the gate is forgotten on arrival, a second field of the same kind runs through)
func parkAt(point string, h http.Header) {
	v := h.Get(parkHeader)
	if v == "" {
		return
	}
	tok, at, _ := strings.Cut(v, "@")
	if at != point {
		return
	}
	g, ok := gates.LoadAndDelete(tok)
	if !ok {
		return
	}
	g.(*gate).arrived <- struct{}{}
	<-g.(*gate).release
}

var parkPoints = []string{"mut", "exec", "node", "child"}

// ---------------------------------------------------------------- the merge family of query texts
//
// One response key selected several times in one selection set, the later occurrences under variable-driven
// @include / @skip: collectFields merges the occurrences' selection sets, and which ones it merges differs
// between two requests with the same text. The first occurrence's selection set has 1..9 entries (gqlparser
// builds selection sets with append: 3, 5-7, 9.. entries leave spare capacity in the parsed slice).

func aliased(n int) string {
	names := []string{"id", "op", "__typename"}
	var b strings.Builder
	for i := 0; i < n; i++ {
		fmt.Fprintf(&b, "x%d: %s ", i+1, names[i%3])
	}
	return b.String()
}

var mergeFirst, mergeEnd int // catalogue[mergeFirst:mergeEnd] = the merge family
var mergeVarFirst int        // varSets[mergeVarFirst:mergeVarFirst+5] = the variable sets of the merge family

func init() {
	mergeFirst = len(catalogue)
	for n := 1; n <= 9; n++ {
		catalogue = append(catalogue, qtext{fmt.Sprintf("query G($a: Boolean = false, $b: Boolean = false) { node { %s} node @include(if: $a) { a: id } node @include(if: $b) { b: op } k }", aliased(n)), []string{"G"}, nil})
	}
	for _, n := range []int{3, 5} {
		catalogue = append(catalogue, qtext{fmt.Sprintf("query G($a: Boolean = false, $b: Boolean = true) { node { child { %s} child @include(if: $a) { a: id } child @skip(if: $b) { b: op } } }", aliased(n)), []string{"G"}, nil})
		catalogue = append(catalogue, qtext{fmt.Sprintf("query G($a: Boolean = false, $b: Boolean = false) { node { %s} ...X ... on Query @include(if: $b) { node { b: op } } } fragment X on Query { node @include(if: $a) { a: id } }", aliased(n)), []string{"G"}, nil})
	}
	mergeVarFirst = len(varSets)
	varSets = append(varSets,
		[]kvp{{"a", `true`}},
		[]kvp{{"b", `true`}},
		[]kvp{{"a", `true`}, {"b", `true`}},
		[]kvp{{"a", `false`}, {"b", `false`}},
		[]kvp{{"a", `true`}, {"b", `false`}})
	mergeEnd = len(catalogue)
	initIntro() // intro.go: the introspection and nullability families come after the merge family
	initFail()  // fail.go: the failure family
	initEnvelope() // envelope.go: readers of the whole operation context, texts that differ in letter case only
}

func mergeTexts() []string {
	var ts []string
	for _, c := range catalogue[mergeFirst:mergeEnd] {
		ts = append(ts, c.text)
	}
	return ts
}

// ---------------------------------------------------------------- running a group

func withPark(q *rq, tok, point string) *rq {
	c := *q
	c.hdrs = q.hdrs.Clone()
	if c.hdrs == nil {
		c.hdrs = http.Header{}
	}
	c.hdrs.Set(parkHeader, tok+"@"+point)
	c.tags = append(append([]string{}, q.tags...), "park-"+point)
	return &c
}

var gateSeq int

// scheduled serves a group on s; parked[i] tells whether request i really stood at its park point while the
// later ones were served
func (s *server) scheduled(reqs []*rq, lifo bool) (resps []response, parked []bool) {
	n := len(reqs)
	resps = make([]response, n)
	parked = make([]bool, n)
	done := make([]chan struct{}, n)
	gs := make([]*gate, n)
	for i := 0; i < n-1; i++ {
		q := reqs[i]
		if v := q.hdrs.Get(parkHeader); v != "" {
			tok, _, _ := strings.Cut(v, "@")
			gs[i] = newGate(tok)
		}
		done[i] = make(chan struct{})
		go func(i int) {
			defer close(done[i])
			resps[i] = s.serve(reqs[i])
		}(i)
		if gs[i] == nil {
			<-done[i]
			continue
		}
		select {
		case <-gs[i].arrived:
			parked[i] = true
		case <-done[i]: // never reached its park point (rejected earlier, no such field)
		case <-time.After(5 * time.Second):
			panic("scheduled request neither parked nor ended")
		}
	}
	resps[n-1] = s.serve(reqs[n-1])
	order := make([]int, 0, n)
	for i := 0; i < n-1; i++ {
		order = append(order, i)
	}
	if lifo {
		for i, j := 0, len(order)-1; i < j; i, j = i+1, j-1 {
			order[i], order[j] = order[j], order[i]
		}
	}
	for _, i := range order {
		if parked[i] {
			gs[i].release <- struct{}{}
		}
		<-done[i]
	}
	for i := 0; i < n-1; i++ { // gates nobody arrived at
		if v := reqs[i].hdrs.Get(parkHeader); v != "" {
			tok, _, _ := strings.Cut(v, "@")
			gates.Delete(tok)
		}
	}
	return
}

// ---------------------------------------------------------------- directed groups

func jsonPost(text, op string, vars []kvp) *rq {
	ms := []member{M("query", S(text))}
	if op != "" {
		ms = append(ms, M("operationName", S(op)))
	}
	if vars != nil {
		ms = append(ms, M("variables", O(vars...)))
	}
	return post(ms...)
}

type group struct {
	name string
	reqs []*rq // park headers already set
	lifo bool
}

func tok() string { gateSeq++; return fmt.Sprintf("t%d", gateSeq) }

func directedGroups() []group {
	var gs []group
	pair := func(name, point string, a, b *rq) {
		gs = append(gs, group{name: name + "@" + point, reqs: []*rq{withPark(a, tok(), point), b}})
	}
	va, vb, vab := []kvp{{"a", `true`}}, []kvp{{"b", `true`}}, []kvp{{"a", `true`}, {"b", `true`}}
	// same text, the variables choose different occurrences of one response key: at every park point, both ways
	for _, t := range mergeTexts() {
		for _, p := range []string{"node", "child", "exec"} {
			if p == "child" && !strings.Contains(t, "child") {
				continue
			}
			pair("merge-a-then-b", p, jsonPost(t, "", va), jsonPost(t, "", vb))
			pair("merge-b-then-ab", p, jsonPost(t, "G", vb), jsonPost(t, "", vab))
		}
		pair("merge-none-then-ab", "node", jsonPost(t, "", nil), jsonPost(t, "", vab))
	}
	// same text under different operation names / variables / extensions / headers, different texts, over
	// different transports, at every park point
	for _, p := range parkPoints {
		pair("opname", p, jsonPost(qAB, "A", nil), jsonPost(qAB, "B", nil))
		pair("variables", p, jsonPost(qQ, "", []kvp{{"s", `"parked"`}, {"n", `1`}}), jsonPost(qQ, "", []kvp{{"s", `"other"`}}))
		pair("skip-include", p, jsonPost(qS, "", []kvp{{"f", `true`}}), jsonPost(qS, "", []kvp{{"f", `false`}}))
		pair("nested", p, jsonPost(qF, "F", nil), jsonPost(qF, "", nil))
		pair("extensions", p, post(M("query", S(qExt)), M("extensions", O(kvp{"k", `1`}))), post(M("query", S(qExt)), M("extensions", O(kvp{"j", `2`}))))
		pair("headers", p, postH(hdr("X-Echo", "parked"), M("query", S("{ hdr node { id op } }"))), postH(hdr("X-Echo", "other"), M("query", S("{ hdr node { id op } }"))))
		pair("other-text", p, jsonPost(qF, "", nil), jsonPost("{ __typename node { __typename id } }", "", nil))
		pair("get-vs-post", p, get(qQ, "", []kvp{{"s", `"g"`}}, nil), jsonPost(qQ, "Q", []kvp{{"s", `"p"`}}))
		pair("post-vs-invalid", p, jsonPost(qF, "", nil), postRaw('S', `{"query":"{ op vars raw }","operationName":"A"`))
		pair("form-vs-graphql", p, formJSON(M("query", S(qF)), M("operationName", S("F"))), graphqlReq(qF))
	}
	failureGroups(pair) // fail.go: a request that has failed somewhere stands still while another one fails elsewhere
	// three in flight: two parked at different points, released last-parked first
	for _, t := range []string{mergeTexts()[2], mergeTexts()[4]} {
		gs = append(gs, group{name: "three-lifo", lifo: true, reqs: []*rq{
			withPark(jsonPost(t, "", va), tok(), "node"), withPark(jsonPost(t, "", vb), tok(), "exec"), jsonPost(t, "", vab)}})
		gs = append(gs, group{name: "three-fifo", reqs: []*rq{
			withPark(jsonPost(t, "", vab), tok(), "node"), withPark(jsonPost(t, "", va), tok(), "node"), jsonPost(t, "", vb)}})
	}
	return gs
}

// randomGroup: 2-3 requests of the seeded generator (concurrent mode: no response depends on the order of APQ
// registrations), the later ones mostly with the text of the first
func randomGroup(g *gen) group {
	n := 2 + g.pick(2)
	gr := group{name: "random", lifo: g.chance(50)}
	for i := 0; i < n; i++ {
		var q *rq
		for {
			q = g.request()
			if q.kind != "unsupported" {
				break
			}
		}
		g.sticky = true
		if i < n-1 {
			// a park point the request can reach: `node` / `child` only if it selects such a field
			pts := []string{"mut", "exec"}
			txt := q.body + q.rawURL
			if strings.Contains(txt, "node") {
				pts = append(pts, "node", "node")
			}
			if strings.Contains(txt, "child") {
				pts = append(pts, "child")
			}
			q = withPark(q, tok(), pts[g.pick(len(pts))])
		}
		gr.reqs = append(gr.reqs, q)
	}
	g.sticky = false
	return gr
}
