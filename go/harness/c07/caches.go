package main

import (
	"context"
	"fmt"
	"hash/fnv"
	"io"
	"reflect"
	"sort"
	"strconv"
	"sync"

	"github.com/99designs/gqlgen/graphql"
	"github.com/99designs/gqlgen/graphql/handler/lru"
	"github.com/vektah/gqlparser/v2/ast"
)

// ---------------------------------------------------------------- structural hash of a cached AST

var nameOnly = map[reflect.Type]bool{
	reflect.TypeOf(&ast.Definition{}):          true,
	reflect.TypeOf(&ast.FieldDefinition{}):     true,
	reflect.TypeOf(&ast.ArgumentDefinition{}):  true,
	reflect.TypeOf(&ast.DirectiveDefinition{}): true,
	reflect.TypeOf(&ast.EnumValueDefinition{}): true,
}
var skipType = map[reflect.Type]bool{
	reflect.TypeOf(&ast.Position{}): true,
	reflect.TypeOf(&ast.Source{}):   true,
}

func dumpAST(w io.Writer, v reflect.Value, seen map[uintptr]bool) { dumpWith(w, v, seen, nameOnly) }

// dumpWith: nameOnly = the pointer types that are back-references (printed by name, not followed)
func dumpWith(w io.Writer, v reflect.Value, seen map[uintptr]bool, nameOnly map[reflect.Type]bool) {
	switch v.Kind() {
	case reflect.Ptr:
		if v.IsNil() {
			io.WriteString(w, "nil")
			return
		}
		if skipType[v.Type()] {
			return
		}
		if nameOnly[v.Type()] {
			fmt.Fprintf(w, "<%s %s>", v.Type().Elem().Name(), v.Elem().FieldByName("Name").String())
			return
		}
		if seen[v.Pointer()] {
			io.WriteString(w, "@seen")
			return
		}
		seen[v.Pointer()] = true
		io.WriteString(w, "&")
		dumpWith(w, v.Elem(), seen, nameOnly)
	case reflect.Interface:
		if v.IsNil() {
			io.WriteString(w, "nil")
			return
		}
		dumpWith(w, v.Elem(), seen, nameOnly)
	case reflect.Struct:
		io.WriteString(w, v.Type().Name())
		io.WriteString(w, "{")
		for _, f := range exportedFields(v.Type()) {
			io.WriteString(w, f.label)
			dumpWith(w, v.Field(f.idx), seen, nameOnly)
			io.WriteString(w, ";")
		}
		io.WriteString(w, "}")
	case reflect.Slice, reflect.Array:
		fmt.Fprintf(w, "[%d:", v.Len())
		for i := 0; i < v.Len(); i++ {
			dumpWith(w, v.Index(i), seen, nameOnly)
			io.WriteString(w, ",")
		}
		// the spare capacity of the backing array belongs to the document too: whoever holds this slice (or a
		// copy of its header) and appends to it writes there, and every request that shares the cached document
		// shares that array. gqlparser leaves it zeroed; it must stay as it was when the document was cached.
		if v.Kind() == reflect.Slice && v.Cap() > v.Len() {
			full := v.Slice3(0, v.Cap(), v.Cap())
			fmt.Fprintf(w, "|spare %d:", v.Cap()-v.Len())
			for i := v.Len(); i < v.Cap(); i++ {
				dumpWith(w, full.Index(i), seen, nameOnly)
				io.WriteString(w, ",")
			}
		}
		io.WriteString(w, "]")
	case reflect.Map:
		keys := v.MapKeys()
		sort.Slice(keys, func(i, j int) bool { return fmt.Sprint(keys[i]) < fmt.Sprint(keys[j]) })
		io.WriteString(w, "map[")
		for _, k := range keys {
			fmt.Fprintf(w, "%v=", k)
			dumpWith(w, v.MapIndex(k), seen, nameOnly)
			io.WriteString(w, ",")
		}
		io.WriteString(w, "]")
	case reflect.String:
		io.WriteString(w, strconv.Quote(v.String()))
	case reflect.Bool:
		if v.Bool() {
			io.WriteString(w, "true")
		} else {
			io.WriteString(w, "false")
		}
	case reflect.Int, reflect.Int8, reflect.Int16, reflect.Int32, reflect.Int64:
		io.WriteString(w, strconv.FormatInt(v.Int(), 10))
	case reflect.Uint, reflect.Uint8, reflect.Uint16, reflect.Uint32, reflect.Uint64:
		fmt.Fprintf(w, "%d", v.Uint())
	default:
		fmt.Fprintf(w, "?%s", v.Kind())
	}
}

type fieldInfo struct {
	idx   int
	label string // "<name>:"
}

var fieldCache sync.Map // reflect.Type -> []fieldInfo

func exportedFields(t reflect.Type) []fieldInfo {
	if v, ok := fieldCache.Load(t); ok {
		return v.([]fieldInfo)
	}
	var fs []fieldInfo
	for i := 0; i < t.NumField(); i++ {
		if t.Field(i).IsExported() {
			fs = append(fs, fieldInfo{i, t.Field(i).Name + ":"})
		}
	}
	fieldCache.Store(t, fs)
	return fs
}

func hashDoc(d *ast.QueryDocument) uint64 {
	h := fnv.New64a()
	dumpAST(h, reflect.ValueOf(d), map[uintptr]bool{})
	return h.Sum64()
}

// ---------------------------------------------------------------- recording caches

type cacheEvent struct {
	op  string // "get-hit" "get-miss" "add"
	key string
	val string // APQ: the text; query cache: ""
}

// recCache wraps a real graphql.Cache (map, lru or none) and records what the executor did with it.
type recCache[T any] struct {
	mu     sync.Mutex
	inner  graphql.Cache[T]
	events []cacheEvent
	ever   map[string]T   // every key ever added (eviction ignored) with its last value
	all    map[string][]T // every value ever added for the key (concurrent misses add one each)
	show   func(T) string
	// query cache only: hash of each document when it was added, and a check that a hit returns the
	// very document that was added for that key
	docHash  map[*ast.QueryDocument]uint64
	unlawful []string
}

func newRec[T any](inner graphql.Cache[T], show func(T) string) *recCache[T] {
	return &recCache[T]{inner: inner, ever: map[string]T{}, all: map[string][]T{}, show: show, docHash: map[*ast.QueryDocument]uint64{}}
}

func (c *recCache[T]) Get(ctx context.Context, key string) (T, bool) {
	v, ok := c.inner.Get(ctx, key)
	c.mu.Lock()
	defer c.mu.Unlock()
	if ok {
		c.events = append(c.events, cacheEvent{"get-hit", key, c.show(v)})
		if prev, was := c.all[key]; !was {
			c.unlawful = append(c.unlawful, "hit on a key that was never added: "+key)
		} else {
			found := false
			for _, p := range prev {
				if any(p) == any(v) {
					found = true
				}
			}
			if !found {
				c.unlawful = append(c.unlawful, "hit returned a value that was never added for "+key)
			}
		}
	} else {
		c.events = append(c.events, cacheEvent{"get-miss", key, ""})
	}
	return v, ok
}

func (c *recCache[T]) Add(ctx context.Context, key string, v T) {
	c.mu.Lock()
	c.events = append(c.events, cacheEvent{"add", key, c.show(v)})
	c.ever[key] = v
	c.all[key] = append(c.all[key], v)
	if d, ok := any(v).(*ast.QueryDocument); ok {
		c.docHash[d] = hashDoc(d)
	}
	c.mu.Unlock()
	c.inner.Add(ctx, key, v)
}

func (c *recCache[T]) take() []cacheEvent {
	c.mu.Lock()
	defer c.mu.Unlock()
	e := c.events
	c.events = nil
	return e
}

// changedDocs re-hashes every document ever cached; a cached *ast.QueryDocument must never change.
func (c *recCache[T]) changedDocs() []string {
	c.mu.Lock()
	defer c.mu.Unlock()
	var bad []string
	for k, vs := range c.all {
		for _, v := range vs {
			if d, ok := any(v).(*ast.QueryDocument); ok {
				if hashDoc(d) != c.docHash[d] {
					bad = append(bad, k)
					break
				}
			}
		}
	}
	sort.Strings(bad)
	return bad
}

func (c *recCache[T]) keysDigest() string {
	c.mu.Lock()
	defer c.mu.Unlock()
	var ks []string
	for k, v := range c.ever {
		ks = append(ks, k+"\x00"+c.show(v))
	}
	return digest(ks)
}

// digest: count + FNV-1a-64 over the sorted entries (the Lean driver computes the same)
func digest(entries []string) string {
	sort.Strings(entries)
	h := uint64(14695981039346656037)
	for _, e := range entries {
		for i := 0; i < len(e); i++ {
			h ^= uint64(e[i])
			h *= 1099511628211
		}
		h ^= 0xff
		h *= 1099511628211
	}
	return fmt.Sprintf("%d:%016x", len(entries), h)
}

type mapCache[T any] struct {
	mu sync.Mutex
	m  map[string]T
}

func (m *mapCache[T]) Get(_ context.Context, k string) (T, bool) {
	m.mu.Lock()
	defer m.mu.Unlock()
	v, ok := m.m[k]
	return v, ok
}
func (m *mapCache[T]) Add(_ context.Context, k string, v T) {
	m.mu.Lock()
	defer m.mu.Unlock()
	m.m[k] = v
}

func mkCache[T any](kind string) graphql.Cache[T] {
	switch kind {
	case "none":
		return graphql.NoCache[T]{}
	case "lru1":
		return lru.New[T](1)
	case "lru2":
		return lru.New[T](2)
	case "lru1000":
		return lru.New[T](1000)
	default:
		return &mapCache[T]{m: map[string]T{}}
	}
}
