package main

import (
	"crypto/sha256"
	"encoding/hex"
	"encoding/json"
	"fmt"
	"net/http"
	"net/url"
	"sort"
	"strings"

	"verifharness/internal/rng"
)

// every query text handed to the model is registered (validity and SHA-256 are told to the driver)
var texts = map[string]bool{}

func hq(q string) string {
	texts[q] = true
	return hx(q)
}

func hx(s string) string {
	if s == "" {
		return "-"
	}
	return hex.EncodeToString([]byte(s))
}

func shaOf(q string) string {
	b := sha256.Sum256([]byte(q))
	return hex.EncodeToString(b[:])
}

type kvp struct{ k, v string } // v: canonical JSON text of the value

func encKV(kv []kvp) string {
	var b strings.Builder
	fmt.Fprintf(&b, "%d", len(kv))
	for _, e := range kv {
		b.WriteString(" " + hx(e.k) + " " + hx(canonText(e.v)))
	}
	return b.String()
}

// canonical form of a JSON text: what json.Marshal prints for the decoded value (numbers kept verbatim)
func canonText(t string) string {
	var v any
	if err := jsonDecodeNumber(t, &v); err != nil {
		panic("generator produced invalid JSON value: " + t)
	}
	return canon(v)
}

// JSON object text of a kv list (keys unique)
func kvJSON(kv []kvp) string {
	var b strings.Builder
	b.WriteString("{")
	for i, e := range kv {
		if i > 0 {
			b.WriteString(",")
		}
		kb, _ := json.Marshal(e.k)
		b.Write(kb)
		b.WriteString(":")
		b.WriteString(e.v)
	}
	b.WriteString("}")
	return b.String()
}

type fj struct {
	kind byte // 'n' null, 's' string, 'o' object, 'x' other
	s    string
	kv   []kvp
	raw  string // text for 'x'
}

func (f fj) json() string {
	switch f.kind {
	case 'n':
		return "null"
	case 's':
		b, _ := json.Marshal(f.s)
		return string(b)
	case 'o':
		return kvJSON(f.kv)
	}
	return f.raw
}

func (f fj) enc() string {
	switch f.kind {
	case 'n':
		return "n"
	case 's':
		return "s " + hx(f.s)
	case 'o':
		return "o " + encKV(f.kv)
	}
	return "x"
}

type member struct {
	key string
	val fj
}

type body struct {
	kind    byte // 'S' syntax error, 'N' null, 'X' non-object, 'O' object
	members []member
	text    string
}

func (b body) enc() string {
	if b.kind != 'O' {
		return string(b.kind)
	}
	var s strings.Builder
	fmt.Fprintf(&s, "O %d", len(b.members))
	for _, m := range b.members {
		s.WriteString(" " + hx(m.key) + " " + m.val.enc())
	}
	return s.String()
}

type rq struct {
	kind   string // post get form graphql unsupported
	method string
	rawURL string // raw query string
	hdrs   http.Header
	body   string
	enc    string // request in the driver's line protocol
	tags   []string
	// persisted-query hash this request looks up (hash only) / registers, "" if none
	apqLookup, apqRegister string
}

func hdrKV(h http.Header) []kvp {
	var out []kvp
	for k, v := range h {
		out = append(out, kvp{k, canon(v)})
	}
	sort.Slice(out, func(i, j int) bool { return out[i].k < out[j].k })
	return out
}

// ---------------------------------------------------------------------------- catalogue

type qtext struct {
	text string
	ops  []string
	vars []string // names of variable sets that make sense
}

var catalogue = []qtext{
	{"{ op vars raw }", nil, nil},
	{"{op vars raw}", nil, nil},
	{"query A { op a: vars } query B { op raw k }", []string{"A", "B"}, nil},
	{"query Q($s: String, $n: Int = 7) { arg(s: $s, n: $n) vars op }", []string{"Q"}, nil},
	{"query R($s: String!) { arg(s: $s) op }", []string{"R"}, nil},
	{"query S($f: Boolean = false) { op @include(if: $f) raw @skip(if: $f) hdr k }", []string{"S"}, nil},
	{"query F { ...X node { id child { id op child { id } } } } fragment X on Query { op ext k }", []string{"F"}, nil},
	{"mutation M($v: String) { set(v: $v) }", []string{"M"}, nil},
	{"query A($s: String) { arg(s: $s) } mutation B($s: String) { set(v: $s) }", []string{"A", "B"}, nil},
	{"query I($o: In) { arg(o: $o) vars }", []string{"I"}, nil},
	{"{ ext hdr op }", nil, nil},
	{"{ __typename node { __typename id } }", nil, nil},
	{"subscription T { tick }", []string{"T"}, nil},
	{"{ op ", nil, nil},                             // syntax error
	{"{ nope }", nil, nil},                          // validation error
	{"query V($s: Strin) { arg(s: $s) }", nil, nil}, // unknown type
	{"", nil, nil},
	{"fragment X on Query { op }", nil, nil}, // no operation
	{"{ k é: op }", nil, nil},                // non-ASCII is a syntax error for names
	{"# c\n{ k op }", nil, nil},
}

var varSets = [][]kvp{
	{},
	{{"s", `"x"`}},
	{{"s", `"y"`}, {"n", `3`}},
	{{"n", `"bad"`}},
	{{"s", `null`}},
	{{"o", `{"x":"1","y":[1,2]}`}},
	{{"o", `{"y":["z"]}`}},
	{{"f", `true`}},
	{{"f", `false`}, {"s", `"t"`}},
	{{"v", `"set-me"`}},
	{{"extra", `1`}, {"s", `"with-extra"`}},
	{{"s", `"é\"\\"`}},
	{{"n", `12345678901234567890`}},
}

var opNames = []string{"", "A", "B", "Q", "R", "S", "F", "M", "I", "T", "Nope"}

type pqVariant struct {
	name string
	mk   func(hash string) string // JSON text of the persistedQuery value
}

var pqBad = []string{
	`{"version":2,"sha256Hash":"%s"}`,
	`{"sha256Hash":"%s"}`,
	`"str"`,
	`{"version":"x","sha256Hash":"%s"}`,
	`null`,
	`{"version":1}`,
	`[1]`,
}

// ---------------------------------------------------------------------------- generator

type gen struct {
	r        *rng.R
	lastText int
	lastVars int
	regd     []int // catalogue indices whose hash was registered in this sequence
	// concurrent batches: registrations and successful lookups only for the pre-registered texts, so that
	// no response depends on the order in which the batch is served
	conc bool
	pre  []int
	// scheduled groups: the later requests of a group mostly repeat the text of the first
	sticky bool
}

func (g *gen) inPre(q string) bool {
	for _, i := range g.pre {
		if catalogue[i].text == q {
			return true
		}
	}
	return false
}

func (g *gen) pick(n int) int { return g.r.Below(n) }
func (g *gen) chance(pct int) bool {
	return g.r.Below(100) < pct
}

func (g *gen) text() int {
	if g.sticky && g.chance(75) {
		return g.lastText
	}
	if g.chance(45) {
		return g.lastText
	}
	if g.chance(9) { // a text that differs from an earlier one in letter case only (envelope.go)
		if g.lastText >= caseFirst && g.lastText < caseEnd {
			g.lastText = caseTwin(g.lastText)
		} else {
			g.lastText = envFirst + g.pick(caseEnd-envFirst)
		}
		return g.lastText
	}
	if g.chance(18) { // one response key selected several times under variable-driven @include/@skip (sched.go)
		g.lastText = mergeFirst + g.pick(mergeEnd-mergeFirst)
		return g.lastText
	}
	if g.chance(15) { // resolvers that panic / fail at different response paths (fail.go)
		g.lastText = failFirst + g.pick(failEnd-failFirst)
		return g.lastText
	}
	if g.chance(16) { // introspection requests and requests that depend on what the schema declares (intro.go)
		g.lastText = introFirst + g.pick(introEnd-introFirst)
		switch x := g.pick(100); {
		case x < 35:
			g.lastText = nullFirst + g.pick(introEnd-nullFirst)
		case x < 65: // a new walk over the introspection meta-schema
			t, _ := randomIntroText(g)
			texts[t] = true
			catalogue = append(catalogue, qtext{t, []string{"I"}, nil})
			g.lastText = len(catalogue) - 1
		}
		return g.lastText
	}
	if g.chance(70) {
		g.lastText = g.pick(13) // the valid ones
	} else {
		g.lastText = g.pick(len(catalogue))
	}
	return g.lastText
}

func caseVariant(g *gen, k string) string {
	switch g.pick(36) {
	case 0:
		return strings.ToUpper(k)
	case 1:
		return strings.ToUpper(k[:1]) + k[1:]
	case 2:
		return strings.ToLower(k)
	}
	return k
}

func ws(g *gen) string {
	return []string{"", "", "", " ", "\n", "\t "}[g.pick(6)]
}

// object body text with random whitespace; members in the given order
func objText(g *gen, ms []member, allowWS bool) string {
	var b strings.Builder
	b.WriteString("{")
	for i, m := range ms {
		if i > 0 {
			b.WriteString(",")
		}
		if allowWS {
			b.WriteString(ws(g))
		}
		kb, _ := json.Marshal(m.key)
		b.Write(kb)
		if allowWS {
			b.WriteString(ws(g))
		}
		b.WriteString(":")
		if allowWS {
			b.WriteString(ws(g))
		}
		b.WriteString(m.val.json())
	}
	b.WriteString("}")
	return b.String()
}

// extensions member (may carry a persistedQuery entry); returns lookup/register hashes
func (g *gen) extensions(query string, hasQuery bool) (fj, string, string) {
	switch x := g.pick(100); {
	case x < 8:
		return fj{kind: 'o'}, "", ""
	case x < 20:
		return fj{kind: 'o', kv: []kvp{{"k", fmt.Sprint(g.pick(3))}}}, "", ""
	case x < 24:
		return fj{kind: 'n'}, "", ""
	case x < 27:
		return fj{kind: 'x', raw: `"ext"`}, "", ""
	case x < 40:
		h := shaOf(catalogue[g.pick(len(catalogue))].text)
		return fj{kind: 'o', kv: []kvp{{"persistedQuery", strings.ReplaceAll(pqBad[g.pick(len(pqBad))], "%s", h)}}}, "", ""
	default:
		// well-formed persistedQuery
		if hasQuery && query != "" {
			if g.conc && !g.inPre(query) {
				return fj{kind: 'o', kv: []kvp{{"k", `"conc"`}}}, "", ""
			}
			h := shaOf(query)
			if g.chance(12) {
				h = shaOf(query + "x") // mismatch: a hash nobody asks for, or the hash of another catalogue text that
				// later hash-only requests of this history do look up (a rejected request must not register or re-bind it)
				if other := catalogue[g.pick(13)].text; other != query && g.chance(70) {
					h = shaOf(other)
				}
				return fj{kind: 'o', kv: []kvp{{"persistedQuery", `{"sha256Hash":"` + h + `","version":1}`}}}, "", ""
			}
			kv := []kvp{{"persistedQuery", `{"sha256Hash":"` + h + `","version":1}`}}
			if g.chance(20) {
				kv = append(kv, kvp{"k", `"also"`})
			}
			return fj{kind: 'o', kv: kv}, "", h
		}
		// hash only: prefer something registered earlier
		var idx int
		if g.conc {
			if g.chance(70) {
				idx = g.pre[g.pick(len(g.pre))]
			} else {
				idx = 6 + g.pick(7)
			}
		} else if len(g.regd) > 0 && g.chance(75) {
			idx = g.regd[g.pick(len(g.regd))]
		} else {
			idx = g.pick(13)
		}
		h := shaOf(catalogue[idx].text)
		return fj{kind: 'o', kv: []kvp{{"persistedQuery", `{"sha256Hash":"` + h + `","version":1}`}}}, h, ""
	}
}

func (g *gen) varsMember() fj {
	switch x := g.pick(100); {
	case x < 6:
		return fj{kind: 'n'}
	case x < 10:
		return fj{kind: 'x', raw: []string{`"v"`, `[1,2]`, `7`, `true`}[g.pick(4)]}
	case x < 40:
		return fj{kind: 'o', kv: varSets[g.lastVars]}
	default:
		g.lastVars = g.pick(len(varSets))
		if g.lastText >= introFirst && g.lastText < introEnd && g.chance(70) {
			g.lastVars = introVarFirst + g.pick(failVarFirst-introVarFirst)
		}
		if g.lastText >= failFirst && g.lastText < failEnd && g.chance(80) {
			g.lastVars = failVarFirst + g.pick(len(varSets)-failVarFirst)
		}
		return fj{kind: 'o', kv: varSets[g.lastVars]}
	}
}

func (g *gen) opMember(ti int) fj {
	ops := catalogue[ti].ops
	switch x := g.pick(100); {
	case x < 8:
		return fj{kind: 'n'}
	case x < 12:
		return fj{kind: 'x', raw: []string{`5`, `{}`, `["A"]`}[g.pick(3)]}
	case x < 70 && len(ops) > 0:
		return fj{kind: 's', s: ops[g.pick(len(ops))]}
	default:
		return fj{kind: 's', s: opNames[g.pick(len(opNames))]}
	}
}

func (g *gen) reqHeaders(ctype string) http.Header {
	h := http.Header{}
	if ctype != "" {
		h.Set("Content-Type", ctype)
	}
	switch g.pick(12) {
	case 0:
		h.Set("Accept", "application/json")
	case 1:
		h.Set("Accept", "application/graphql-response+json")
	case 2:
		h.Set("Accept", "*/*")
	case 3:
		h.Set("Accept", "text/html, application/json;q=0.9")
	case 4:
		h.Set("Accept", "application/*")
	case 5:
		h.Set("Accept", "application/graphql-response+json; charset=utf-8, application/json;q=0.5")
	case 6:
		h.Set("Accept", []string{"image/png", ";;", "text/plain, */*;q=0.1", "APPLICATION/JSON"}[g.pick(4)])
	}
	switch g.pick(6) {
	case 0:
		h.Set("X-Echo", fmt.Sprintf("e%d", g.pick(4)))
	case 1:
		h["X-Echo"] = []string{"a", fmt.Sprintf("b%d", g.pick(3))}
	}
	if g.pick(3) == 0 { // round 7 (mutate.go): the per-request attribute the mutating middleware is conditioned on
		h.Set(mutHeader, fmt.Sprintf("m%d", g.pick(5)))
	}
	return h
}

// the JSON object body shared by POST and the form transport's json path
func (g *gen) objectBody(forForm bool) (body, []string, string, string) {
	var tags []string
	ti := g.text()
	q := catalogue[ti].text
	var ms []member
	hasQuery := false
	switch x := g.pick(100); {
	case x < 88 || forForm:
		ms = append(ms, member{"query", fj{kind: 's', s: q}})
		hasQuery = true
	case x < 90:
		ms = append(ms, member{"query", fj{kind: 'n'}})
	case x < 92:
		ms = append(ms, member{"query", fj{kind: 'x', raw: `5`}})
		tags = append(tags, "type-error")
	default:
		tags = append(tags, "no-query")
	}
	if g.chance(55) {
		ms = append(ms, member{"operationName", g.opMember(ti)})
	}
	if g.chance(60) {
		ms = append(ms, member{"variables", g.varsMember()})
	}
	lookup, register := "", ""
	if g.chance(40) || !hasQuery {
		var e fj
		e, lookup, register = g.extensions(q, hasQuery)
		ms = append(ms, member{"extensions", e})
	}
	if g.chance(4) {
		ms = append(ms, member{"headers", []fj{{kind: 'n'}, {kind: 'o', kv: []kvp{{"X-Echo", `["injected"]`}}}, {kind: 'x', raw: `"h"`}}[g.pick(3)]})
		tags = append(tags, "headers-member")
	}
	if g.chance(8) {
		ms = append(ms, member{[]string{"foo", "Query2", "vars"}[g.pick(3)], fj{kind: 'x', raw: `{"a":[1,{"b":null}]}`}})
		tags = append(tags, "unknown-key")
	}
	if g.chance(8) { // duplicate member: later one merges / overwrites
		switch g.pick(3) {
		case 0:
			ms = append(ms, member{"variables", g.varsMember()})
		case 1:
			ms = append(ms, member{"operationName", g.opMember(ti)})
		case 2:
			ms = append(ms, member{"query", fj{kind: 's', s: catalogue[g.pick(len(catalogue))].text}})
			register, lookup = "", "" // the effective query is no longer q: recomputed by finishAPQ
		}
		tags = append(tags, "duplicate-member")
	}
	// shuffle
	for i := len(ms) - 1; i > 0; i-- {
		j := g.pick(i + 1)
		ms[i], ms[j] = ms[j], ms[i]
	}
	if !forForm {
		for i := range ms {
			nk := caseVariant(g, ms[i].key)
			if nk != ms[i].key {
				ms[i].key = nk
				tags = append(tags, "key-case")
			}
		}
	}
	b := body{kind: 'O', members: ms}
	b.text = objText(g, ms, !forForm)
	for _, m := range ms {
		if m.val.kind == 'x' && m.key != "foo" && m.key != "Query2" && m.key != "vars" {
			tags = append(tags, "type-error")
		}
	}
	return b, tags, lookup, register
}

func (g *gen) malformedBody() (body, string) {
	switch g.pick(9) {
	case 0:
		return body{kind: 'S', text: `{"query": "{ op }"`}, "syntax"
	case 1:
		return body{kind: 'S', text: ``}, "empty"
	case 2:
		return body{kind: 'S', text: `{"query": "{ op }", "variables": {"a": 1,}}`}, "syntax"
	case 3:
		return body{kind: 'N', text: `null`}, "null"
	case 4:
		return body{kind: 'N', text: " null\n"}, "null"
	case 5:
		return body{kind: 'X', text: `5`}, "nonobject"
	case 6:
		return body{kind: 'X', text: `"{ op }"`}, "nonobject"
	case 7:
		return body{kind: 'X', text: `[{"query":"{ op }"}]`}, "nonobject"
	default:
		return body{kind: 'S', text: `{"query": "{ op }" "x"}`}, "syntax"
	}
}

func (g *gen) request() *rq {
	x := g.pick(100)
	switch {
	case x < 58:
		ct := []string{"application/json", "application/json", "application/json; charset=utf-8", "APPLICATION/JSON"}[g.pick(4)]
		b, tags, lk, rg := g.objectBody(false)
		h := g.reqHeaders(ct)
		return &rq{kind: "post", method: "POST", hdrs: h, body: b.text, enc: "post " + encKV(hdrKV(h)) + " " + b.enc(), tags: tags, apqLookup: lk, apqRegister: rg}
	case x < 66:
		b, tag := g.malformedBody()
		h := g.reqHeaders("application/json")
		return &rq{kind: "post", method: "POST", hdrs: h, body: b.text, enc: "post " + encKV(hdrKV(h)) + " " + b.enc(), tags: []string{"malformed-" + tag}}
	case x < 78:
		return g.getRequest()
	case x < 86:
		return g.formRequest()
	case x < 94:
		return g.graphqlRequest()
	default:
		h := g.reqHeaders([]string{"text/plain", "", "multipart/form-data", "application/json"}[g.pick(4)])
		m := "POST"
		if h.Get("Content-Type") == "application/json" {
			m = "PUT"
		}
		return &rq{kind: "unsupported", method: m, hdrs: h, body: `{"query":"{ op }"}`, enc: "unsupported", tags: []string{"unsupported"}}
	}
}

func mapArg(g *gen, kvs []kvp) (string, string) { // (url value, enc)
	switch x := g.pick(100); {
	case x < 30:
		return "", "a"
	case x < 36:
		return "null", "N"
	case x < 42:
		return `{"a":`, "S"
	case x < 48:
		return `[1]`, "X"
	default:
		return kvJSON(kvs), "o " + encKV(kvs)
	}
}

func (g *gen) getRequest() *rq {
	ti := g.text()
	q := catalogue[ti].text
	h := g.reqHeaders("")
	op := ""
	if g.chance(50) {
		op = g.opMember(ti).s
	}
	g.lastVars = g.pick(len(varSets))
	if g.lastText >= failFirst && g.lastText < failEnd && g.chance(80) {
		g.lastVars = failVarFirst + g.pick(len(varSets)-failVarFirst)
	}
	vv, venc := mapArg(g, varSets[g.lastVars])
	var ekv []kvp
	lk, rgs := "", ""
	tags := []string{}
	if g.chance(50) {
		e, l, r := g.extensions(q, true)
		if e.kind == 'o' {
			ekv, lk, rgs = e.kv, l, r
		}
	}
	if g.chance(15) { // hash only over GET
		e, l, r := g.extensions("", false)
		if e.kind == 'o' {
			q, ekv, lk, rgs = "", e.kv, l, r
		}
	}
	ev, eenc := mapArg(g, ekv)
	if !strings.HasPrefix(eenc, "o") {
		lk, rgs = "", ""
	}
	vals := url.Values{}
	if q != "" || g.chance(50) {
		vals.Set("query", q)
	}
	if op != "" {
		vals.Set("operationName", op)
	}
	if vv != "" {
		vals.Set("variables", vv)
	}
	if ev != "" {
		vals.Set("extensions", ev)
	}
	raw := vals.Encode()
	bad := 0
	if g.chance(5) {
		raw += "&x=%zz"
		bad = 1
		tags = append(tags, "bad-url")
	}
	return &rq{kind: "get", method: "GET", rawURL: raw, hdrs: h, tags: tags, apqLookup: lk, apqRegister: rgs,
		enc: fmt.Sprintf("get %s %d %s %s %s %s", encKV(hdrKV(h)), bad, hq(q), hx(op), venc, eenc)}
}

func (g *gen) formRequest() *rq {
	h := g.reqHeaders("application/x-www-form-urlencoded")
	pre := "form " + encKV(hdrKV(h)) + " "
	switch x := g.pick(100); {
	case x < 40:
		b, tags, lk, rgs := g.objectBody(true)
		return &rq{kind: "form", method: "POST", hdrs: h, body: b.text, enc: pre + "j " + b.enc(), tags: append(tags, "form-json"), apqLookup: lk, apqRegister: rgs}
	case x < 70:
		q := catalogue[g.text()].text
		bodyText := "query=" + url.QueryEscape(q)
		if !strings.HasPrefix(bodyText, "query=%7B") {
			// plain-text path: the body is taken verbatim
			return &rq{kind: "form", method: "POST", hdrs: h, body: bodyText, enc: pre + "t " + hq(strings.TrimPrefix(bodyText, "query=")), tags: []string{"form-plain"}}
		}
		return &rq{kind: "form", method: "POST", hdrs: h, body: bodyText, enc: pre + "t " + hq(q), tags: []string{"form-encoded"}}
	case x < 92:
		q := catalogue[g.text()].text
		bodyText := q
		if g.chance(50) {
			bodyText = "query=" + q
		}
		if strings.Contains(bodyText, `"query":`) || strings.HasPrefix(bodyText, "query=%7B") {
			bodyText = "{ k }"
		}
		return &rq{kind: "form", method: "POST", hdrs: h, body: bodyText, enc: pre + "t " + hq(strings.TrimPrefix(bodyText, "query=")), tags: []string{"form-plain"}}
	default:
		return &rq{kind: "form", method: "POST", hdrs: h, body: "query=%7B%zz", enc: pre + "b", tags: []string{"form-bad"}}
	}
}

func (g *gen) graphqlRequest() *rq {
	h := g.reqHeaders("application/graphql")
	pre := "graphql " + encKV(hdrKV(h)) + " "
	q := catalogue[g.text()].text
	switch x := g.pick(100); {
	case x < 45:
		return &rq{kind: "graphql", method: "POST", hdrs: h, body: q, enc: pre + "q " + hq(strings.TrimPrefix(q, "query=")), tags: []string{"graphql-raw"}}
	case x < 70:
		return &rq{kind: "graphql", method: "POST", hdrs: h, body: "query=" + q, enc: pre + "q " + hq(q), tags: []string{"graphql-prefix"}}
	case x < 92:
		e := url.QueryEscape(q)
		want := q
		if !strings.HasPrefix(e, "%7B") {
			want = e
		}
		return &rq{kind: "graphql", method: "POST", hdrs: h, body: e, enc: pre + "q " + hq(want), tags: []string{"graphql-escaped"}}
	default:
		return &rq{kind: "graphql", method: "POST", hdrs: h, body: "%7B%zz", enc: pre + "b", tags: []string{"graphql-bad"}}
	}
}
