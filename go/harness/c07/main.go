// Harness for C07: runs the REAL gqlgen handler (handler.Server + the HTTP transports + executor +
// APQ extension) in-process on generated request histories and prints, per request,
//
//   - the request in the Lean driver's line protocol,
//   - what the implementation did, observed through public API only: the *RawParams the executor saw
//     (before and after the APQ mutator), what it did with the two caches, the outcome class,
//   - the verdict of the fresh-server oracle: status, headers and body of a newly constructed server
//     (no query cache, APQ cache holding only the registration this request was served from) for the
//     same request alone, with the package-level sync.Pool emptied first (two GC cycles).
//
// After every request the structural hash of every *ast.QueryDocument ever cached is recomputed.
package main

import (
	"bufio"
	"bytes"
	"context"
	"encoding/json"
	"flag"
	"fmt"
	"net/http"
	"net/http/httptest"
	"os"
	"runtime"
	"sort"
	"strings"
	"sync"
	"unsafe"

	"github.com/99designs/gqlgen/graphql"
	"github.com/99designs/gqlgen/graphql/handler"
	"github.com/99designs/gqlgen/graphql/handler/extension"
	"github.com/go-viper/mapstructure/v2"
	"github.com/vektah/gqlparser/v2/ast"
	"github.com/vektah/gqlparser/v2/gqlerror"
	"github.com/vektah/gqlparser/v2/parser"
	"github.com/vektah/gqlparser/v2/validator"
	"verifharness/internal/rng"
)

var out = bufio.NewWriterSize(os.Stdout, 1<<20)

// ---------------------------------------------------------------- observers (public extension API)

type snapshot struct {
	ptr    *graphql.RawParams
	called bool
	s      string
}

type observer struct {
	name string
	mu   sync.Mutex
	cur  *snapshot
}

func (o *observer) ExtensionName() string                   { return "c07-observer-" + o.name }
func (o *observer) Validate(graphql.ExecutableSchema) error { return nil }
func (o *observer) MutateOperationParameters(ctx context.Context, p *graphql.RawParams) *gqlerror.Error {
	o.mu.Lock()
	if o.cur != nil {
		o.cur.called = true
		o.cur.ptr = p
		o.cur.s = showParams(p)
	}
	o.mu.Unlock()
	if o.name == "pre" {
		parkAt("mut", p.Headers) // scheduled interleavings (sched.go)
	}
	return nil
}

func showMap(m map[string]any) string {
	if m == nil {
		return "-"
	}
	if len(m) == 0 {
		return "~"
	}
	var parts []string
	for k, v := range m {
		parts = append(parts, hx(k)+":"+hx(canon(v)))
	}
	sort.Strings(parts)
	return strings.Join(parts, ",")
}

func showParams(p *graphql.RawParams) string {
	var hm map[string]any
	if p.Headers != nil {
		hm = map[string]any{}
		for k, v := range p.Headers {
			hm[k] = v
		}
	}
	rt := 0
	if !p.ReadTime.Start.IsZero() || !p.ReadTime.End.IsZero() {
		rt = 1
	}
	return fmt.Sprintf("q=%s o=%s v=%s e=%s h=%s rt=%d", hx(p.Query), hx(p.OperationName), showMap(p.Variables), showMap(p.Extensions), showMap(hm), rt)
}

// ---------------------------------------------------------------- servers

type server struct {
	h         *handler.Server
	qc        *recCache[*ast.QueryDocument]
	apq       *recCache[string]
	pre, post *observer
	hdrName   string  // header configuration of the transports (hdrcfg.go)
	errCfg    string  // recover func / error presenter configuration (fail.go)
	hdr       hdrMaps // the map objects the transports were configured with
	lastDrift string
	// the server's *ast.Schema (its own, loaded when the server was built) and its structural hashes then
	es         *ast.Schema
	esHash     map[string]uint64
	lastSDrift string
}

// schemaDrift: which definitions of the server's schema are no longer what they were when the server was built
func (s *server) schemaDrift() string { return schemaDiff(s.esHash, schemaHashes(s.es)) }

// the schema of a fresh-server oracle. A freshly constructed server has a freshly loaded schema; loading one per
// oracle request is the most expensive part of an oracle server, so the oracle servers of requests that cannot
// reach the introspection wrappers (no `__` anywhere in the request) take theirs from a spare one that is compared
// with its hash at load time, and replaced, every 64 uses
var oracleSpare *ast.Schema
var oracleSpareHash map[string]uint64
var oracleSpareUses int

func oracleSchema(q *rq) *ast.Schema {
	if q == nil || strings.Contains(q.body, "__") || strings.Contains(q.rawURL, "__") || strings.Contains(q.rawURL, "%5F%5F") || strings.Contains(q.rawURL, "%5f%5f") || strings.Contains(q.body, "\\u005") || strings.Contains(q.body, "%5") {
		return loadSchema()
	}
	if oracleSpare != nil && oracleSpareUses >= 64 {
		if d := schemaDiff(oracleSpareHash, schemaHashes(oracleSpare)); d != "" {
			panic("the schema of the fresh-server oracles was changed by requests without introspection: " + d)
		}
		oracleSpare = nil
	}
	if oracleSpare == nil {
		oracleSpare, oracleSpareUses = loadSchema(), 0
		oracleSpareHash = schemaHashes(oracleSpare)
	}
	oracleSpareUses++
	return oracleSpare
}

// newOracle: the freshly constructed server a request is compared with
func newOracle(q *rq, hdrName string, seedAPQ map[string]string) *server {
	for _, text := range seedAPQ { // a hash-only request executes a registered text
		if strings.Contains(text, "__") {
			return newServerWith(loadSchema(), "none", "map", hdrName, seedAPQ)
		}
	}
	return newServerWith(oracleSchema(q), "none", "map", hdrName, seedAPQ)
}

func newServer(qcKind, apqKind, hdrName string, seedAPQ map[string]string) *server {
	es := loadSchema()
	s := newServerWith(es, qcKind, apqKind, hdrName, seedAPQ)
	s.esHash = schemaHashes(es)
	return s
}

// opts = "<header configuration>[/<error configuration>]"
func newServerWith(es *ast.Schema, qcKind, apqKind, opts string, seedAPQ map[string]string) *server {
	hdrName, errCfg := splitOpts(opts)
	s := &server{pre: &observer{name: "pre"}, post: &observer{name: "post"}, hdrName: hdrName, hdr: mkHdrCfg(hdrName), errCfg: errCfg}
	s.es = es
	s.h = handler.New(echoSchema{s.es})
	s.applyErrCfg(errCfg)
	tg, tp, tf, tq := s.hdr.transports()
	s.h.AddTransport(tg)
	s.h.AddTransport(tp)
	s.h.AddTransport(tf)
	s.h.AddTransport(tq)
	s.qc = newRec[*ast.QueryDocument](mkCache[*ast.QueryDocument](qcKind), func(*ast.QueryDocument) string { return "" })
	s.h.SetQueryCache(s.qc)
	inner := mkCache[string](apqKind)
	for k, v := range seedAPQ {
		inner.Add(context.Background(), k, v)
	}
	s.apq = newRec[string](inner, func(v string) string { return v })
	for k, v := range seedAPQ {
		s.apq.ever[k] = v
		s.apq.all[k] = append(s.apq.all[k], v)
	}
	s.h.Use(s.pre)
	s.h.Use(extension.AutomaticPersistedQuery{Cache: s.apq})
	s.h.Use(s.post)
	s.h.Use(extension.Introspection{})
	return s
}

type response struct {
	status int
	hdr    string
	body   string
	// "" if the errors of the body are exactly the failures the request's own resolvers raised (fail.go), otherwise
	// the body with those errors
	want string
	// which part of the body was not the request's own: "errors" / "extensions" / "errors+extensions" (mutate.go)
	wantKind string
}

func (r response) String() string { return fmt.Sprintf("%d %s %s", r.status, r.hdr, r.body) }

func (s *server) serve(q *rq) response {
	req, err := http.NewRequest(q.method, "http://verif.test/graphql", bytes.NewReader([]byte(q.body)))
	if err != nil {
		panic(err)
	}
	req.URL.RawQuery = q.rawURL
	req.Header = q.hdrs.Clone()
	if req.Header == nil {
		req.Header = http.Header{}
	}
	fl := &failLog{}
	ml := &mutLog{v: req.Header.Get(mutHeader)}
	req = req.WithContext(context.WithValue(context.WithValue(req.Context(), failKey{}, fl), mutKey{}, ml))
	rec := httptest.NewRecorder()
	func() {
		defer func() {
			if p := recover(); p != nil {
				rec.WriteHeader(599)
				fmt.Fprintf(rec, "PANIC escaped ServeHTTP: %v", p)
			}
		}()
		s.h.ServeHTTP(rec, req)
	}()
	var hs []string
	for k, v := range rec.Header() {
		hs = append(hs, k+"="+strings.Join(v, "|"))
	}
	sort.Strings(hs)
	want, wantKind := ownCheck(s.errCfg, fl, ml, rec.Body.String())
	return response{rec.Code, strings.Join(hs, ";"), rec.Body.String(), want, wantKind}
}

// ---------------------------------------------------------------- classification of what the implementation did

func apqEventsSummary(ev []cacheEvent) (hit bool, hitKey, hitVal string, s string) {
	var parts []string
	for _, e := range ev {
		parts = append(parts, e.op)
		if e.op == "get-hit" {
			hit, hitKey, hitVal = true, e.key, e.val
		}
	}
	if len(parts) == 0 {
		return hit, hitKey, hitVal, "none"
	}
	return hit, hitKey, hitVal, strings.Join(parts, "+")
}

func classify(q *rq, resp response, pre, post *snapshot, qcEv []cacheEvent) string {
	t := q.kind
	if post.called {
		added, hit := false, false
		for _, e := range qcEv {
			if e.op == "add" {
				added = true
			}
			if e.op == "get-hit" {
				hit = true
			}
		}
		if added || hit {
			return "exec:" + t + " " + post.s
		}
		return "perr:" + t + " " + post.s
	}
	if pre.called {
		kind := "?"
		switch {
		case strings.Contains(resp.body, "invalid APQ extension data"):
			kind = "invalidData"
		case strings.Contains(resp.body, "unsupported APQ version"):
			kind = "badVersion"
		case strings.Contains(resp.body, "PersistedQueryNotFound"):
			kind = "notFound"
		case strings.Contains(resp.body, "provided APQ hash does not match query"):
			kind = "hashMismatch"
		}
		return "apqerr:" + t + ":" + kind + " " + pre.s
	}
	switch {
	case strings.Contains(resp.body, "transport not supported"):
		return "notransport"
	case strings.Contains(resp.body, "internal system error"):
		return "nil:" + t
	case strings.Contains(resp.body, "json request body could not be decoded"):
		return "terr:post:decode"
	case strings.Contains(resp.body, "variables could not be decoded"):
		return "terr:get:variables"
	case strings.Contains(resp.body, "extensions could not be decoded"):
		return "terr:get:extensions"
	case strings.Contains(resp.body, "could not cleanup body"):
		return "terr:" + t + ":cleanup"
	case t == "get" && resp.status == 400:
		return "terr:get:url"
	}
	return "unclassified"
}

// ---------------------------------------------------------------- one recorded request

type record struct {
	sid, idx int
	q        *rq
	resp     response
	obs      string // "<class> [params] apq=<digest> qc=<digest>"
	apqHit   bool
	qcHit    bool
	hitKey   string
	hitVal   string
	reused   bool
	docsBad  []string
	unlawful []string
	drift    string // the transports' configuration changed while serving ("" = no)
	sdrift   string // the server's schema changed while serving ("" = no)
	cfg      string
}

var seenPtr = map[uintptr]bool{}

func (s *server) sequential(sid, idx int, q *rq, cfg string) *record {
	pre, post := &snapshot{}, &snapshot{}
	s.pre.cur, s.post.cur = pre, post
	resp := s.serve(q)
	s.pre.cur, s.post.cur = nil, nil
	apqEv, qcEv := s.apq.take(), s.qc.take()
	hit, hk, hv, _ := apqEventsSummary(apqEv)
	qcHit := false
	for _, e := range qcEv {
		if e.op == "get-hit" {
			qcHit = true
		}
	}
	r := &record{sid: sid, idx: idx, q: q, resp: resp, apqHit: hit, hitKey: hk, hitVal: hv, qcHit: qcHit, cfg: cfg}
	r.obs = classify(q, resp, pre, post, qcEv) + " apq=" + s.apq.keysDigest() + " qc=" + s.qc.keysDigest()
	if pre.called && q.kind == "post" {
		r.reused = seenPtr[uintptr(unsafe.Pointer(pre.ptr))]
		seenPtr[uintptr(unsafe.Pointer(pre.ptr))] = true
	}
	r.docsBad = s.qc.changedDocs()
	r.unlawful = append(s.qc.unlawful, s.apq.unlawful...)
	if d := s.configDrift(); d != s.lastDrift { // reported on the request that changed it
		r.drift, s.lastDrift = d, d
	}
	if d := s.schemaDrift(); d != s.lastSDrift { // a request only READS the schema
		r.sdrift, s.lastSDrift = d, d
	}
	return r
}

// oracle: a freshly constructed server (same configuration, newly built), uncached documents, empty pool
func oracle(q *rq, hdrName, hitKey, hitVal string, hit bool) response {
	runtime.GC()
	runtime.GC()
	seed := map[string]string{}
	// the one memory the property permits: a persisted-query REGISTRATION, i.e. a text stored under its own
	// SHA-256 (the only thing a request that was not rejected can have stored). Anything else the stateful
	// server's lookup returned is not excused: the fresh server then answers PersistedQueryNotFound.
	if hit && shaOf(hitVal) == hitKey {
		seed[hitKey] = hitVal
	}
	return newOracle(q, hdrName, seed).serve(q)
}

// preRegister registers catalogue texts as persisted queries; returns what a fresh server is seeded with
func preRegister(srv *server, pre []int) map[string]string {
	seed := map[string]string{}
	for _, i := range pre {
		t := catalogue[i].text
		srv.serve(&rq{kind: "post", method: "POST", hdrs: http.Header{"Content-Type": {"application/json"}},
			body: `{"query":` + canon(t) + `,"extensions":{"persistedQuery":{"version":1,"sha256Hash":"` + shaOf(t) + `"}}}`})
		seed[shaOf(t)] = t
	}
	return seed
}

// runGroup serves one scheduled group on a new server and prints its rows (mode "sched")
func runGroup(sid int, cfgName string, gr group, pre []int) {
	cqc, capq, chdr := splitCfg(cfgName)
	srv := newServer(cqc, capq, chdr, nil)
	seedAPQ := preRegister(srv, pre)
	srv.apq.take()
	srv.qc.take()
	resps, parked := srv.scheduled(gr.reqs, gr.lifo)
	srv.apq.take()
	srv.qc.take()
	bad := srv.qc.changedDocs()
	unl := append(srv.qc.unlawful, srv.apq.unlawful...)
	drift, sdrift := srv.configDrift(), srv.schemaDrift()
	ord := "fifo"
	if gr.lifo {
		ord = "lifo"
	}
	ps, _ := json.Marshal(pre)
	fmt.Fprintf(out, "S\t%d\t%s\tsched:%s:%s:%s\n", sid, cfgName, gr.name, ord, ps)
	for i, q := range gr.reqs {
		runtime.GC()
		runtime.GC()
		orc := newOracle(q, chdr, seedAPQ).serve(q)
		r := &record{sid: sid, idx: i, q: q, resp: resps[i], obs: "-", cfg: cfgName}
		if parked[i] {
			r.q.tags = append(r.q.tags, "parked")
		}
		if i == len(gr.reqs)-1 {
			r.docsBad, r.unlawful, r.drift, r.sdrift = bad, unl, drift, sdrift
		}
		emit(r, orc, "sched")
	}
}

// cfg strings: "<query cache>/<apq cache>[/<header configuration>]"
func splitCfg(c string) (qc, apq, hdr string) {
	p := strings.Split(c, "/")
	qc, apq, hdr = "map", "map", "none"
	if len(p) > 0 && p[0] != "" {
		qc = p[0]
	}
	if len(p) > 1 && p[1] != "" {
		apq = p[1]
	}
	if len(p) > 2 && p[2] != "" {
		hdr = strings.Join(p[2:], "/") // the server options: header configuration [/ error configuration]
	}
	return
}

func hdrOfCfg(c string) string { _, _, h := splitCfg(c); return h }

// wireRq: a request as written into replay files
type wireRq struct {
	Kind   string      `json:"kind"`
	Method string      `json:"method"`
	RawURL string      `json:"rawURL"`
	Hdrs   http.Header `json:"hdrs"`
	Body   string      `json:"body"`
	Enc    string      `json:"enc"`
}

type wireHist struct {
	Cfg  string   `json:"cfg"` // "<query cache>/<apq cache>"
	Reqs []wireRq `json:"reqs"`
	// "" = one after the other; "fifo" / "lifo" = a scheduled group (sched.go): every request but the last parks
	// where its X-C07-Park header says, the last one is served from start to end, then the parked ones are released
	Sched string `json:"sched,omitempty"`
	Pre   []int  `json:"pre,omitempty"` // catalogue texts registered as persisted queries before the group
	// a websocket session (ws.go) instead of HTTP requests
	Ws *wsSession `json:"ws,omitempty"`
}

// replayHistory serves the requests of a replay file on one new server, then asks the oracle
func replayHistory(path string) {
	b, err := os.ReadFile(path)
	if err != nil {
		panic(err)
	}
	var h wireHist
	if err := json.Unmarshal(b, &h); err != nil {
		panic(err)
	}
	cqc, capq, chdr := splitCfg(h.Cfg)
	cfgName := cqc + "/" + capq + "/" + chdr
	if h.Ws != nil {
		runWsSession(0, cfgName, "replay", h.Ws)
		return
	}
	if h.Sched != "" {
		gr := group{name: "replay", lifo: h.Sched == "lifo"}
		for _, w := range h.Reqs {
			q := &rq{kind: w.Kind, method: w.Method, rawURL: w.RawURL, hdrs: w.Hdrs, body: w.Body, enc: w.Enc, tags: []string{"replay"}}
			if q.hdrs == nil {
				q.hdrs = http.Header{}
			}
			gr.reqs = append(gr.reqs, q)
		}
		runGroup(0, cfgName, gr, h.Pre)
		return
	}
	srv := newServer(cqc, capq, chdr, nil)
	var recs []*record
	for i, w := range h.Reqs {
		q := &rq{kind: w.Kind, method: w.Method, rawURL: w.RawURL, hdrs: w.Hdrs, body: w.Body, enc: w.Enc, tags: []string{"replay"}}
		if q.hdrs == nil {
			q.hdrs = http.Header{}
		}
		recs = append(recs, srv.sequential(0, i, q, cfgName))
	}
	fmt.Fprintf(out, "S\t0\t%s\treplay\n", cfgName)
	for _, r := range recs {
		emit(r, oracle(r.q, chdr, r.hitKey, r.hitVal, r.apqHit), "seq")
	}
}

// freshItem: one request of the process oracle - served by a server that is built for it alone
type freshItem struct {
	Opts string            `json:"opts"` // "<header configuration>[/<error configuration>]"
	Seed map[string]string `json:"seed,omitempty"`
	Req  wireRq            `json:"req"`
}

// freshRun: the PROCESS oracle. Every request of the file is served by a freshly constructed server of its own, one
// after the other in this one process (no GC in between: the package-level pool keeps its structs). Whatever such a
// server answers must not depend on what the process served before: the check compares these answers with those of
// another process that served the same requests in another order / among other requests, and with a process that
// served the request alone.
func freshRun(path string) {
	b, err := os.ReadFile(path)
	if err != nil {
		panic(err)
	}
	var items []freshItem
	if err := json.Unmarshal(b, &items); err != nil {
		panic(err)
	}
	for i, it := range items {
		w := it.Req
		q := &rq{kind: w.Kind, method: w.Method, rawURL: w.RawURL, hdrs: w.Hdrs, body: w.Body, enc: w.Enc}
		if q.hdrs == nil {
			q.hdrs = http.Header{}
		}
		seed := it.Seed
		if seed == nil {
			seed = map[string]string{}
		}
		resp := newOracle(q, it.Opts, seed).serve(q)
		want := "-"
		if resp.want != "" {
			want = hx(resp.want)
		}
		fmt.Fprintf(out, "F\t%d\t%s\t%s\n", i, tsv(resp.String()), want)
	}
}

func b2i(b bool) int {
	if b {
		return 1
	}
	return 0
}

func tsv(s string) string {
	s = strings.ReplaceAll(s, "\\", "\\\\")
	s = strings.ReplaceAll(s, "\t", "\\t")
	s = strings.ReplaceAll(s, "\n", "\\n")
	return strings.ReplaceAll(s, "\r", "\\r")
}

func emit(r *record, orc response, mode string) {
	verdict := "ok"
	if orc != r.resp {
		verdict = "DIFF"
	}
	extra := ""
	if r.resp.want != "" {
		// the errors of the response are not the failures of the request's own resolvers. A server built in the same
		// process may share the state that did it, so the reference response is the one computed from the request
		verdict = "DIFF"
		orc = response{r.resp.status, r.resp.hdr, r.resp.want, "", ""}
		if strings.Contains(r.resp.wantKind, "extensions") {
			extra += " ext-not-own:" + hx("the `extensions` of the response are not what this request's own response middleware wrote into resp.Extensions (every write logged out of band; a request without an X-Mut header writes nothing): a write made for ANOTHER request is visible here - the map gqlgen hands to response middleware is shared between requests; the reference response is the response with exactly the request's own extensions")
		}
		if strings.Contains(r.resp.wantKind, "errors") {
			extra += " errors-not-own:" + hx("the `errors` of the response are not the failures this request's own resolvers raised (path / message / extensions of each failure logged out of band by the probe resolvers); the reference response is the response with exactly those errors")
		}
	} else if orc.want != "" {
		extra += " fresh-" + map[bool]string{true: "ext", false: "errors"}[strings.Contains(orc.wantKind, "extensions")] + "-not-own:" + hx("a FRESHLY CONSTRUCTED server of this process answered this request with errors that are not the failures of the request's own resolvers (state global to the process): here `response` is the stateful server's and `fresh_server_response` the fresh server's")
	}
	if len(r.docsBad) > 0 {
		extra += " cached-doc-changed:" + hx(strings.Join(r.docsBad, "\x00"))
	}
	if len(r.unlawful) > 0 {
		extra += " unlawful-cache:" + hx(strings.Join(r.unlawful, "; "))
	}
	if r.drift != "" {
		extra += " config-mutated:" + hx(r.drift)
	}
	if r.sdrift != "" {
		extra += " schema-mutated:" + hx(r.sdrift)
	}
	if extra == "" {
		extra = "-"
	}
	orcText := "=" // the fresh server's response, `=` when it is the response
	if verdict != "ok" {
		orcText = tsv(orc.String())
	}
	// R sid idx mode cfg apqHit qcHit reused | enc | obs | verdict | extra | tags | request | response | oracle response | request as JSON
	js, _ := json.Marshal(wireRq{r.q.kind, r.q.method, r.q.rawURL, r.q.hdrs, r.q.body, r.q.enc})
	fmt.Fprintf(out, "R\t%d\t%d\t%s\t%s\t%d\t%d\t%d\t%s\t%s\t%s\t%s\t%s\t%s\t%s\t%s\t%s\n", r.sid, r.idx, mode, r.cfg, b2i(r.apqHit), b2i(r.qcHit), b2i(r.reused),
		r.q.enc, r.obs, verdict, strings.TrimSpace(extra), strings.Join(r.q.tags, ","),
		tsv(fmt.Sprintf("%s ?%s %v %s", r.q.method, r.q.rawURL, r.q.hdrs, r.q.body)), tsv(r.resp.String()), orcText, hx(string(js)))
}

// ---------------------------------------------------------------- definitions the model needs

func validText(q string) bool {
	doc, err := parser.ParseQuery(&ast.Source{Input: q})
	if err != nil || len(doc.Operations) == 0 {
		return false
	}
	return len(validator.Validate(schema, doc)) == 0
}

func pqClass(valueJSON string) string {
	var v any
	if err := jsonDecodeNumber(valueJSON, &v); err != nil {
		return "invalid -"
	}
	if v == nil {
		return "absent -"
	}
	var ext struct {
		Sha256  string `mapstructure:"sha256Hash"`
		Version int64  `mapstructure:"version"`
	}
	if err := mapstructure.Decode(v, &ext); err != nil {
		return "invalid -"
	}
	if ext.Version != 1 {
		return "badVersion -"
	}
	return "ok " + hx(ext.Sha256)
}

var pqSeen = map[string]bool{}

func emitDefs() {
	var ts []string
	for t := range texts {
		ts = append(ts, t)
	}
	sort.Strings(ts)
	for _, t := range ts {
		fmt.Fprintf(out, "D\tdef %s %d %s\n", hx(t), b2i(validText(t)), shaOf(t))
	}
	var ps []string
	for p := range pqSeen {
		ps = append(ps, p)
	}
	sort.Strings(ps)
	for _, p := range ps {
		fmt.Fprintf(out, "D\tpq %s %s\n", hx(p), pqClass(p))
	}
}

func notePQ(q *rq) {
	// every persistedQuery value that occurs in the request (they are all in enc as hex of the JSON text)
	toks := strings.Split(q.enc, " ")
	key := hx("persistedQuery")
	for i := 0; i+1 < len(toks); i++ {
		if toks[i] == key {
			if b, err := hexDecode(toks[i+1]); err == nil {
				pqSeen[string(b)] = true
			}
		}
	}
}

// ---------------------------------------------------------------- main

var serverCfgs = [][2]string{{"map", "map"}, {"lru2", "lru1"}, {"none", "map"}, {"lru1000", "lru1000"}, {"lru1", "map"}}

func main() {
	tier := flag.String("tier", "quick", "")
	seed := flag.Uint64("seed", 1, "")
	race := flag.Bool("conc-only", false, "only the concurrent batches (race build)")
	hist := flag.String("hist", "", "replay the history of this JSON file instead of generating")
	fresh := flag.String("fresh", "", "serve every request of this JSON file on a newly built server of its own, in file order (process oracle)")
	flag.Parse()
	defer out.Flush()
	// graphql.DefaultRecover prints every recovered panic value and a stack trace to os.Stderr; the runtime's own
	// reports (fatal errors, the harness's panics, the race detector) do not go through this variable
	if devnull, err := os.OpenFile(os.DevNull, os.O_WRONLY, 0); err == nil {
		os.Stderr = devnull
	}
	if *fresh != "" {
		freshRun(*fresh)
		return
	}
	if *hist != "" {
		replayHistory(*hist)
		return
	}
	for _, c := range catalogue {
		texts[c.text] = true
	}
	nseq, seqLen, nbatch, batchN, ngroup, nws := 240, 24, 16, 64, 160, 60
	if *tier == "thorough" {
		nseq, seqLen, nbatch, batchN, ngroup, nws = 2000, 40, 120, 96, 3000, 1200
	}
	root := rng.New(*seed)
	// every oracle request forces two GC cycles (they empty the sync.Pool); a forced cycle wakes a mark worker per P,
	// so the phases in which one request is served at a time run on few Ps; the concurrent batches get all of them
	allProcs := runtime.GOMAXPROCS(0)
	fewProcs := func() {
		if allProcs > 4 {
			runtime.GOMAXPROCS(4)
		}
	}
	fewProcs()
	var recs []*record
	if !*race {
		// directed histories first, then random ones
		sid := 0
		for _, d := range directedHistories() {
			cfg := serverCfgs[sid%len(serverCfgs)]
			cfgName := cfg[0] + "/" + cfg[1] + "/" + d.hdrCfg()
			srv := newServer(cfg[0], cfg[1], d.hdrCfg(), nil)
			fmt.Fprintf(out, "S\t%d\t%s\tdirected:%s\n", sid, cfgName, d.name)
			for i, q := range d.reqs {
				notePQ(q)
				recs = append(recs, srv.sequential(sid, i, q, cfgName))
			}
			sid++
		}
		for n := 0; n < nseq; n++ {
			g := &gen{r: root.Fork()}
			cfg := serverCfgs[g.pick(len(serverCfgs))]
			hdrName := "none" // the default server in 1 of 3 histories, otherwise any header configuration
			if g.pick(3) != 0 {
				hdrName = hdrCfgNames[g.pick(len(hdrCfgNames))]
			}
			if g.pick(2) != 0 { // the default recover func and error presenter in 1 of 2 histories
				hdrName += "/" + errCfgNames[1+g.pick(len(errCfgNames)-1)]
			}
			if g.pick(5) < 2 { // 2 of 5 histories with middleware that writes into what gqlgen hands it (mutate.go)
				hdrName = withMw(hdrName, mwCfgNames[g.pick(len(mwCfgNames))])
			}
			cfgName := cfg[0] + "/" + cfg[1] + "/" + hdrName
			srv := newServer(cfg[0], cfg[1], hdrName, nil)
			fmt.Fprintf(out, "S\t%d\t%s\trandom\n", sid, cfgName)
			L := seqLen/2 + g.pick(seqLen)
			for i := 0; i < L; i++ {
				q := g.request()
				notePQ(q)
				if q.apqRegister != "" {
					for ci, c := range catalogue {
						if shaOf(c.text) == q.apqRegister {
							g.regd = append(g.regd, ci)
						}
					}
				}
				recs = append(recs, srv.sequential(sid, i, q, cfgName))
			}
			sid++
			if n%8 == 7 || n == nseq-1 {
				// oracle for the histories served so far (the two GC cycles per oracle request also empty the
				// pool, so this is done between histories, never inside one); records are released afterwards
				for _, r := range recs {
					emit(r, oracle(r.q, hdrOfCfg(r.cfg), r.hitKey, r.hitVal, r.apqHit), "seq")
				}
				recs = nil
				fmt.Fprintf(out, "P\tpoolgc\n")
			}
		}
	}
	base := 0
	if *race { // under the race detector: fewer of them; ids apart from those of the main run
		ngroup, nws, base = ngroup/10, nws/10, 500000
	}
	{
		// ---- scheduled groups: the harness decides where one request stands while another is served
		out.Flush()
		sid := 200000 + base
		qcs := []string{"map", "lru1000", "lru2", "lru1", "none"}
		for i, gr := range directedGroups() {
			runGroup(sid, qcs[i%len(qcs)]+"/map/none", gr, nil)
			sid++
		}
		for n := 0; n < ngroup; n++ {
			g := &gen{r: root.Fork(), conc: true, pre: []int{0, 2, 3, 4, 5}}
			hdrName := "none"
			if g.pick(3) == 0 {
				hdrName = hdrCfgNames[g.pick(len(hdrCfgNames))]
			}
			if g.pick(3) == 0 {
				hdrName += "/" + errCfgNames[1+g.pick(len(errCfgNames)-1)]
			}
			if g.pick(3) == 0 {
				hdrName = withMw(hdrName, mwCfgNames[g.pick(len(mwCfgNames))])
			}
			runGroup(sid, qcs[g.pick(3)]+"/lru1000/"+hdrName, randomGroup(g), g.pre)
			sid++
		}
		// ---- websocket sessions: several operations and protocol messages on one connection
		sid = 300000 + base
		for i, ws := range directedWsSessions() {
			runWsSession(sid, qcs[i%len(qcs)]+"/map/none", "directed", ws)
			sid++
		}
		for n := 0; n < nws; n++ {
			g := &gen{r: root.Fork()}
			runWsSession(sid, qcs[g.pick(len(qcs))]+"/map/none", "random", randomWsSession(g))
			sid++
		}
	}
	// ---- concurrent batches against one server (everything so far is flushed first: unsynchronised writes to
	// shared state can kill the process with "fatal error: concurrent map writes", which cannot be recovered)
	out.Flush()
	for b := 0; b < nbatch; b++ {
		g := &gen{r: root.Fork(), conc: true, pre: []int{0, 2, 3, 4, 5}}
		hdrName := hdrCfgNames[b%len(hdrCfgNames)]
		if b%2 == 1 { // every other batch with a configured recover func / presenter
			hdrName += "/" + errCfgNames[1+(b/2)%(len(errCfgNames)-1)]
		}
		if b%3 == 2 { // every third batch with mutating middleware (mutate.go)
			hdrName = withMw(hdrName, mwCfgNames[(b/3)%len(mwCfgNames)])
		}
		cfgName := "lru1000/lru1000/" + hdrName
		srv := newServer("lru1000", "lru1000", hdrName, nil)
		seedAPQ := preRegister(srv, g.pre) // registrations before the batch
		qs := make([]*rq, batchN)
		for i := range qs {
			qs[i] = g.request()
		}
		resps := make([]response, batchN)
		runtime.GOMAXPROCS(allProcs)
		var wg sync.WaitGroup
		workers := 8
		for w := 0; w < workers; w++ {
			wg.Add(1)
			go func(w int) {
				defer wg.Done()
				for i := w; i < batchN; i += workers {
					resps[i] = srv.serve(qs[i])
				}
			}(w)
		}
		wg.Wait()
		fewProcs()
		srv.apq.take()
		srv.qc.take()
		bad := srv.qc.changedDocs()
		unl := append(srv.qc.unlawful, srv.apq.unlawful...)
		drift, sdrift := srv.configDrift(), srv.schemaDrift()
		fmt.Fprintf(out, "S\t%d\t%s\tconcurrent\n", 100000+base+b, cfgName)
		for i, q := range qs {
			runtime.GC()
			runtime.GC()
			orc := newOracle(q, hdrName, seedAPQ).serve(q)
			r := &record{sid: 100000 + base + b, idx: i, q: q, resp: resps[i], obs: "-", cfg: cfgName}
			if i == 0 {
				r.docsBad, r.unlawful, r.drift, r.sdrift = bad, unl, drift, sdrift
			}
			emit(r, orc, "conc")
		}
	}
	emitDefs()
}
