package main

// Round 7: user code that WRITES INTO what gqlgen hands it.
//
// gqlgen gives middleware mutable objects: a response middleware (AroundResponses) receives a *graphql.Response whose
// Extensions map is never nil "so that it can be written", whose Errors are the request's error objects; an operation
// middleware (AroundOperations) receives the OperationContext with its Variables / Extensions / Headers maps. Writing
// into them is ordinary user code (request id, cost, trace id into `extensions`; a default variable; an annotated
// error message). The property says the response is a function of the request alone - so each of these objects has
// to belong to ONE request: a write made while serving one request must not be visible in the response of another
// (later, concurrent, on another transport, on another Server of the process).
//
// The server options get further `+`-separated parts (beside the recover func / presenter parts of fail.go):
//
//	mw-ext   AroundResponses: resp.Extensions["mut"] = <X-Mut of the request>, ["mutN"] = number of errors
//	mw-errs  AroundResponses: every error of the response gets " @<X-Mut>" appended to its message IN PLACE, and
//	         one more error is appended to resp.Errors
//	mw-op    AroundOperations: OperationContext.Variables["mut"], .Extensions["mut"], .Headers["X-Mut-Op"] = <X-Mut>
//	         (whichever of the maps exist) - visible through the probe fields vars / ext / hdrs
//
// all of them ONLY for requests that carry an `X-Mut` header (a per-request attribute: a later request without the
// header must not show anything). serve() puts the header value and a log into the request context (as an HTTP
// middleware would put a request id there); every write is logged out of band, and after the response
// `ownCheck` compares the `extensions` member of the body with exactly the request's own writes (and the errors
// with the request's own failures + own edits): a reference that does not come from a server of the same process,
// which would share a package-level map with the server under test.

import (
	"context"
	"encoding/json"
	"fmt"
	"net/http"
	"strings"
	"sync"

	"github.com/99designs/gqlgen/graphql"
	"github.com/vektah/gqlparser/v2/gqlerror"
)

const mutHeader = "X-Mut"

var mwCfgNames = []string{"mw-ext", "mw-errs", "mw-op", "mw-ext+mw-op", "mw-ext+mw-errs", "mw-ext+mw-errs+mw-op"}

type mutKey struct{}

type mutLog struct {
	v  string // the request's own X-Mut header ("" = absent: the middleware writes nothing)
	mu sync.Mutex
	// what the response middleware of THIS request wrote
	ext       map[string]any
	errSuffix string
	errExtra  string
}

func mutLogOf(ctx context.Context) *mutLog {
	ml, _ := ctx.Value(mutKey{}).(*mutLog)
	return ml
}

// withMw adds a mutating-middleware part to server options "<header configuration>[/<error configuration>]"
func withMw(opts, mw string) string {
	if strings.Contains(opts, "/") {
		return opts + "+" + mw
	}
	return opts + "/" + mw
}

func (s *server) applyMwCfg(part string) bool {
	switch part {
	case "mw-ext":
		s.h.AroundResponses(func(ctx context.Context, next graphql.ResponseHandler) *graphql.Response {
			resp := next(ctx)
			ml := mutLogOf(ctx)
			if resp == nil || ml == nil || ml.v == "" {
				return resp
			}
			if resp.Extensions == nil {
				resp.Extensions = map[string]any{}
			}
			resp.Extensions["mut"] = ml.v
			resp.Extensions["mutN"] = len(resp.Errors)
			ml.mu.Lock()
			ml.ext = map[string]any{"mut": ml.v, "mutN": len(resp.Errors)}
			ml.mu.Unlock()
			return resp
		})
	case "mw-errs":
		s.h.AroundResponses(func(ctx context.Context, next graphql.ResponseHandler) *graphql.Response {
			resp := next(ctx)
			ml := mutLogOf(ctx)
			if resp == nil || ml == nil || ml.v == "" || len(resp.Errors) == 0 {
				return resp
			}
			for _, e := range resp.Errors {
				e.Message += " @" + ml.v
			}
			resp.Errors = append(resp.Errors, &gqlerror.Error{Message: "seen by " + ml.v})
			ml.mu.Lock()
			ml.errSuffix, ml.errExtra = " @"+ml.v, "seen by "+ml.v
			ml.mu.Unlock()
			return resp
		})
	case "mw-op":
		s.h.AroundOperations(func(ctx context.Context, next graphql.OperationHandler) graphql.ResponseHandler {
			ml := mutLogOf(ctx)
			if ml != nil && ml.v != "" && graphql.HasOperationContext(ctx) {
				oc := graphql.GetOperationContext(ctx)
				if oc.Variables != nil {
					oc.Variables["mut"] = ml.v
				}
				if oc.Extensions != nil {
					oc.Extensions["mut"] = ml.v
				}
				if oc.Headers != nil {
					oc.Headers.Set("X-Mut-Op", ml.v)
				}
			}
			return next(ctx)
		})
	default:
		return false
	}
	return true
}

// ownCheck: ("", "") if the errors of the body are the request's own failures (fail.go, with the request's own
// edits) and the `extensions` member is exactly what the request's own middleware wrote; otherwise the body the
// response should have had and which part was not the request's own ("errors" / "extensions")
func ownCheck(errCfg string, fl *failLog, ml *mutLog, body string) (want, kind string) {
	var got struct {
		Errors     json.RawMessage `json:"errors"`
		Data       json.RawMessage `json:"data"`
		Extensions json.RawMessage `json:"extensions"`
	}
	if err := json.Unmarshal([]byte(body), &got); err != nil {
		return "", "" // not a JSON object: a transport's plain answer / an escaped panic, compared with the oracle only
	}
	wantErrs := string(got.Errors)
	if fl != nil && (len(fl.evs) > 0 || fl.escaped != "") {
		exp := expectedErrors(errCfg, fl)
		if ml != nil && ml.errSuffix != "" {
			for _, e := range exp {
				e.Message += ml.errSuffix
			}
			exp = append(exp, &gqlerror.Error{Message: ml.errExtra})
		}
		b, _ := json.Marshal(exp)
		if canonJSON(got.Errors) != canonJSON(b) {
			wantErrs, kind = string(b), "errors"
		}
	}
	wantExt := ""
	if ml != nil {
		if ml.ext != nil {
			b, _ := json.Marshal(ml.ext)
			wantExt = string(b)
		}
		have := ""
		if got.Extensions != nil {
			have = canonJSON(got.Extensions)
		}
		exp := ""
		if wantExt != "" {
			exp = canonJSON([]byte(wantExt))
		}
		if have != exp {
			if kind == "" {
				kind = "extensions"
			} else {
				kind += "+extensions"
			}
		} else if got.Extensions != nil {
			wantExt = string(got.Extensions)
		}
	} else if got.Extensions != nil {
		wantExt = string(got.Extensions)
	}
	if kind == "" {
		return "", ""
	}
	var parts []string
	if wantErrs != "" {
		parts = append(parts, `"errors":`+wantErrs)
	}
	if got.Data != nil {
		parts = append(parts, `"data":`+string(got.Data))
	} else if wantErrs != "" && strings.Contains(kind, "errors") {
		parts = append(parts, `"data":null`)
	}
	if wantExt != "" {
		parts = append(parts, `"extensions":`+wantExt)
	}
	return "{" + strings.Join(parts, ",") + "}", kind
}

// mut: the same request with an X-Mut header (the header part of the driver encoding is rebuilt)
func mut(q *rq, v string) *rq {
	old := " " + encKV(hdrKV(q.hdrs)) + " "
	h := q.hdrs.Clone()
	if h == nil {
		h = http.Header{}
	}
	h.Set(mutHeader, v)
	c := *q
	c.hdrs = h
	if !strings.Contains(q.enc+" ", old) {
		panic("mut: header encoding not found in " + q.enc)
	}
	c.enc = strings.TrimSuffix(strings.Replace(q.enc+" ", old, " "+encKV(hdrKV(h))+" ", 1), " ")
	c.tags = append(append([]string{}, q.tags...), "x-mut")
	return &c
}

// mutationHistories: for every middleware configuration (and for a server WITHOUT any of them, served after the
// others in the same process) requests with and without the header, over every transport, valid / invalid /
// failing / escaping, the same text under another value; forwards and backwards
func mutationHistories() []history {
	var hs []history
	const q = "{ op vars ext hdrs }"
	seq := func() []*rq {
		return []*rq{
			mut(jsonPost("{ name: k }", "", nil), "alice-7"),
			get("{ name: k }", "", nil, nil),
			get("{ nope }", "", nil, nil),
			jsonPost(q, "", nil),
			mut(get(qQ, "", []kvp{{"s", `"g"`}}, []kvp{{"e", `1`}}), "bob"),
			post(M("query", S(qQ)), M("variables", O(kvp{"s", `"p"`})), M("extensions", O(kvp{"e", `2`}))),
			get(qQ, "", []kvp{{"s", `"g"`}}, []kvp{{"e", `1`}}),
			mut(jsonPost("{ a: fail }", "", nil), "carol"),
			jsonPost("{ b: fail }", "", nil),
			mut(jsonPost("{ nope }", "", nil), "dave"),
			jsonPost("{ nope }", "", nil),
			postRaw('S', `{"query":`),
			mut(graphqlReq(q), "erin"),
			graphqlReq(q),
			mut(formJSON(M("query", S(q)), M("variables", O(kvp{"a", `true`}))), "frank"),
			formJSON(M("query", S(q)), M("variables", O(kvp{"a", `true`}))),
			mut(jsonPost("{ op esc: escape }", "", nil), "gina"),
			jsonPost(failTexts[14], "", nil),
			mut(jsonPost(failTexts[14], "", nil), "alice-7"),
			jsonPost("{ name: k }", "", nil),
			mut(jsonPost(q, "", nil), "zed"),
			jsonPost(q, "", nil),
		}
	}
	for _, mc := range append(append([]string{}, mwCfgNames...), "d", "ep-code+mw-ext+mw-errs", "d") {
		fw := seq()
		bw := seq()
		for i, j := 0, len(bw)-1; i < j; i, j = i+1, j-1 {
			bw[i], bw[j] = bw[j], bw[i]
		}
		hs = append(hs, history{name: "writes-into-handed-out-objects:" + mc, reqs: fw, errCfg: mc},
			history{name: "writes-into-handed-out-objects-reversed:" + mc, reqs: bw, errCfg: mc})
	}
	return hs
}

var _ = fmt.Sprint
