// Package rng is the single splitmix64 PRNG every harness derives its random choices from,
// so a failing case replays exactly from VERIF_SEED.
package rng

type R struct{ s uint64 }

func New(seed uint64) *R { return &R{s: seed} }

func (r *R) Next() uint64 {
	r.s += 0x9E3779B97F4A7C15
	z := r.s
	z = (z ^ (z >> 30)) * 0xBF58476D1CE4E5B9
	z = (z ^ (z >> 27)) * 0x94D049BB133111EB
	return z ^ (z >> 31)
}

func (r *R) Below(n int) int {
	if n <= 0 {
		return 0
	}
	return int(r.Next() % uint64(n))
}

func (r *R) Bool() bool { return r.Next()&1 == 1 }

// Fork derives an independent stream (for per-case replay).
func (r *R) Fork() *R { return New(r.Next()) }
