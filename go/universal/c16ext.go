package universal

import (
	"context"
	"fmt"

	"github.com/99designs/gqlgen/graphql"
	"github.com/99designs/gqlgen/graphql/executor"
	"github.com/99designs/gqlgen/graphql/handler/extension"
	"github.com/vektah/gqlparser/v2/gqlerror"
)

// C16 (configuration around the introspection gate): Case.Exts lists the handler extensions a server
// registers, IN REGISTRATION ORDER. "introspection" is the real extension.Introspection{}; "hooks" is an
// extension whose Go type implements exactly the hook interfaces that are present (OperationParameterMutator /
// OperationContextMutator / OperationInterceptor): each hook is guarded by a per-request condition (the role in
// the request's `extensions.role`, the requested operation name) and then keeps / sets / flips
// OperationContext.DisableIntrospection, rewrites the role (or the query), or fails the request.

type HookSpec struct {
	When string `json:"when"`          // always | roleIs | roleIsNot | opIs | opIsNot
	Arg  string `json:"arg,omitempty"` // the role / operation name compared with
	Do   string `json:"do"`            // keep | set | flip | fail   (param hooks: keep | setRole | setQuery | fail)
	B    bool   `json:"b,omitempty"`   // set: the value
	S    string `json:"s,omitempty"`   // setRole: role, setQuery: query text, fail: message
}

type ExtSpec struct {
	Type   string    `json:"type"` // introspection | hooks
	Param  *HookSpec `json:"param,omitempty"`
	Ctx    *HookSpec `json:"ctx,omitempty"`
	Around *HookSpec `json:"around,omitempty"`
}

func (h *HookSpec) holds(role, op string) bool {
	switch h.When {
	case "always":
		return true
	case "roleIs":
		return role == h.Arg
	case "roleIsNot":
		return role != h.Arg
	case "opIs":
		return op == h.Arg
	case "opIsNot":
		return op != h.Arg
	}
	panic("c16ext: unknown condition " + h.When)
}

func roleOf(m map[string]any) string {
	r, _ := m["role"].(string)
	return r
}

// act applies a flag hook to the operation context; the returned message is non-empty when the hook fails
func (h *HookSpec) act(rc *graphql.OperationContext) string {
	if !h.holds(roleOf(rc.Extensions), rc.OperationName) {
		return ""
	}
	switch h.Do {
	case "keep":
	case "set":
		rc.DisableIntrospection = h.B
	case "flip":
		rc.DisableIntrospection = !rc.DisableIntrospection
	case "fail":
		return h.S
	default:
		panic("c16ext: unknown action " + h.Do)
	}
	return ""
}

type c16Base struct{ name string }

func (b c16Base) ExtensionName() string                          { return b.name }
func (b c16Base) Validate(schema graphql.ExecutableSchema) error { return nil }

type c16P struct{ p *HookSpec }

func (x c16P) MutateOperationParameters(ctx context.Context, params *graphql.RawParams) *gqlerror.Error {
	if !x.p.holds(roleOf(params.Extensions), params.OperationName) {
		return nil
	}
	switch x.p.Do {
	case "keep":
	case "setRole":
		if params.Extensions == nil {
			params.Extensions = map[string]any{}
		}
		params.Extensions["role"] = x.p.S
	case "setQuery":
		params.Query = x.p.S
	case "fail":
		return &gqlerror.Error{Message: x.p.S}
	default:
		panic("c16ext: unknown parameter action " + x.p.Do)
	}
	return nil
}

type c16C struct{ c *HookSpec }

func (x c16C) MutateOperationContext(ctx context.Context, rc *graphql.OperationContext) *gqlerror.Error {
	if msg := x.c.act(rc); msg != "" {
		return &gqlerror.Error{Message: msg}
	}
	return nil
}

type c16A struct{ a *HookSpec }

func (x c16A) InterceptOperation(ctx context.Context, next graphql.OperationHandler) graphql.ResponseHandler {
	if msg := x.a.act(graphql.GetOperationContext(ctx)); msg != "" {
		// the middleware answers by itself: its error is user-built, not produced by the executor, so it is
		// handed over the way the runner's error presenter marks presented errors (runner.go presentedOut)
		return graphql.OneShot(&graphql.Response{Errors: gqlerror.List{{Message: msg, Extensions: map[string]any{"presented": true}}}})
	}
	return next(ctx)
}

// one Go type per set of implemented hook interfaces: processExtensions and Executor.Use decide by type assertion
type (
	c16ExtP struct {
		c16Base
		c16P
	}
	c16ExtC struct {
		c16Base
		c16C
	}
	c16ExtA struct {
		c16Base
		c16A
	}
	c16ExtPC struct {
		c16Base
		c16P
		c16C
	}
	c16ExtPA struct {
		c16Base
		c16P
		c16A
	}
	c16ExtCA struct {
		c16Base
		c16C
		c16A
	}
	c16ExtPCA struct {
		c16Base
		c16P
		c16C
		c16A
	}
)

func (s ExtSpec) build(i int) (graphql.HandlerExtension, error) {
	if s.Type == "introspection" {
		return extension.Introspection{}, nil
	}
	if s.Type != "hooks" {
		return nil, fmt.Errorf("unknown extension type %q", s.Type)
	}
	b := c16Base{fmt.Sprintf("VerifHooks%d", i)}
	p, c, a := c16P{s.Param}, c16C{s.Ctx}, c16A{s.Around}
	switch {
	case s.Param != nil && s.Ctx != nil && s.Around != nil:
		return c16ExtPCA{b, p, c, a}, nil
	case s.Param != nil && s.Ctx != nil:
		return c16ExtPC{b, p, c}, nil
	case s.Param != nil && s.Around != nil:
		return c16ExtPA{b, p, a}, nil
	case s.Ctx != nil && s.Around != nil:
		return c16ExtCA{b, c, a}, nil
	case s.Param != nil:
		return c16ExtP{b, p}, nil
	case s.Ctx != nil:
		return c16ExtC{b, c}, nil
	case s.Around != nil:
		return c16ExtA{b, a}, nil
	}
	return nil, fmt.Errorf("extension %d implements no hook", i)
}

// useExts registers the case's extensions on the executor in the order given
func useExts(ex *executor.Executor, exts []ExtSpec) error {
	for i, s := range exts {
		e, err := s.build(i)
		if err != nil {
			return err
		}
		ex.Use(e)
	}
	return nil
}
