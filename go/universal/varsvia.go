package universal

import (
	"bytes"
	"encoding/json"
	"context"
	"fmt"
	"net/http"
	"net/http/httptest"
	"net/url"

	"github.com/99designs/gqlgen/graphql"
	"github.com/99designs/gqlgen/graphql/handler"
	"github.com/99designs/gqlgen/graphql/handler/transport"
	"github.com/vektah/gqlparser/v2/gqlerror"
)

// C02: the variables of a case are given as JSON text; what the executor receives is what gqlgen's own HTTP
// transport makes of that text. decodeVia sends the request through handler.Server with the real GET / POST
// transport and captures RawParams.Variables in an operation-parameter mutator that then refuses the request, so
// nothing of the harness stands between the JSON text and the map the executor coerces.

type captureParams struct{ f func(*graphql.RawParams) }

func (captureParams) ExtensionName() string                          { return "verif-capture-params" }
func (captureParams) Validate(graphql.ExecutableSchema) error        { return nil }
func (c captureParams) MutateOperationParameters(ctx context.Context, p *graphql.RawParams) *gqlerror.Error {
	c.f(p)
	return gqlerror.Errorf("captured")
}

// varsViaFor picks the transport for a case (stable per case id): one in three through GET
func varsViaFor(id string) string {
	if fnv(7, id)%3 == 0 {
		return "get"
	}
	return "post"
}

func decodeVia(es graphql.ExecutableSchema, via, query, opName, varsJSON string) (map[string]any, error) {
	srv := handler.New(es)
	srv.AddTransport(transport.GET{})
	srv.AddTransport(transport.POST{})
	var got map[string]any
	seen := false
	srv.Use(captureParams{func(p *graphql.RawParams) { got, seen = p.Variables, true }})
	var req *http.Request
	if via == "get" {
		q := url.Values{"query": {query}, "variables": {varsJSON}}
		if opName != "" {
			q.Set("operationName", opName)
		}
		req = httptest.NewRequest("GET", "/?"+q.Encode(), nil)
	} else {
		var b bytes.Buffer
		b.WriteString(`{"query":`)
		b.Write(mustJSON(query))
		if opName != "" {
			b.WriteString(`,"operationName":`)
			b.Write(mustJSON(opName))
		}
		b.WriteString(`,"variables":` + varsJSON + `}`)
		req = httptest.NewRequest("POST", "/", &b)
		req.Header.Set("Content-Type", "application/json")
	}
	rec := httptest.NewRecorder()
	srv.ServeHTTP(rec, req)
	if !seen {
		return nil, fmt.Errorf("transport %s refused the request before the operation parameters were read: %d %s", via, rec.Code, rec.Body.String())
	}
	return got, nil
}

func mustJSON(v any) []byte {
	b, _ := json.Marshal(v)
	return b
}
