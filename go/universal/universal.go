// Package universal is the implementation-side device shared by the execution properties
// (C01, C04, C05, C06, C13, …): every resolver and directive of a server generated at check time is a
// reflect.MakeFunc stub driven by a per-case *plan* (a seed plus explicit overrides keyed by response
// path). Each stub decides its outcome from hash(seed, path), builds a return value of the generated Go
// type by reflection, records the invocation with the outcome it took, and obeys delays.
package universal

import (
	"context"
	"encoding/json"
	"errors"
	"fmt"
	"reflect"
	"runtime"
	"sort"
	"strconv"
	"strings"
	"sync"
	"time"

	"github.com/99designs/gqlgen/graphql"
	"github.com/vektah/gqlparser/v2/ast"
)

// Outcome forced at a path (Overrides) or chosen by hash.
type Outcome struct {
	Kind  string `json:"kind"`            // value | nil | error | panic | block (directive: do not call next, return nil,nil)
	Msg   string `json:"msg,omitempty"`   // error / panic text
	Delay int    `json:"delay,omitempty"` // microseconds to sleep before returning
	Yield int    `json:"yield,omitempty"` // runtime.Gosched() calls before returning
	Len   *int   `json:"len,omitempty"`   // forced list length
	Type  string `json:"type,omitempty"`  // forced concrete type for abstract positions
	Str   string `json:"str,omitempty"`   // forced Go string value for a string-kinded scalar position
}

// Rates are per-mille probabilities for hash-chosen outcomes.
type Rates struct {
	Err       int `json:"err"`
	Nil       int `json:"nil"`
	Panic     int `json:"panic"`
	DirErr    int `json:"dirErr"`
	DirBlock  int `json:"dirBlock"`
	MaxLen    int `json:"maxLen"`
	Delay     int `json:"delay"`     // per-mille of invocations that get a hash-derived delay
	MaxDelay  int `json:"maxDelay"`  // microseconds
	ElemNil   int `json:"elemNil"`   // per-mille of list elements that are nil (when the Go type allows)
	ErrAndVal int `json:"errAndVal"` // per-mille of errors that also return a value
	// field interceptor (salt "@~around"): per-mille of fields at which it fails / returns (nil, nil) / panics
	// per-mille of resolver invocations that register a response extension (graphql.RegisterExtension) named
	// after their path: concurrently resolved fields all write the response's extension map
	Ext         int `json:"ext,omitempty"`
	AroundErr   int `json:"aroundErr,omitempty"`
	AroundBlock int `json:"aroundBlock,omitempty"`
	AroundPanic int `json:"aroundPanic,omitempty"`
}

type Plan struct {
	Seed      uint64             `json:"seed"`
	Rates     Rates              `json:"rates"`
	Overrides map[string]Outcome `json:"overrides,omitempty"`
	// ExtraDelay adds microseconds of sleep to the invocation at a path, whatever its outcome
	// (adversarial completion orders for C06).
	ExtraDelay map[string]int `json:"extraDelay,omitempty"`
}

// V is the value a resolver returned, down to object boundaries.
type V struct {
	K    string `json:"k"`              // null | leaf | obj | list
	Text string `json:"text,omitempty"` // leaf: the JSON text the marshaler is expected to write
	Type string `json:"type,omitempty"` // obj: concrete GraphQL type
	L    []V    `json:"l,omitempty"`
	// obj: values of the fields bound as plain struct fields, by GraphQL field name
	Fields map[string]V `json:"fields,omitempty"`
	// null: the Go value was a nil POINTER to this concrete type held in the position's Go interface
	TypedNil string `json:"typedNil,omitempty"`
}

// Plain lists, per object type, the fields bound as plain struct fields (set by the generated main).
var Plain map[string][]string

// Inv is one logged user-code invocation.
type Inv struct {
	Path  string `json:"path"`
	Hook  string `json:"hook"` // resolver | directive:<name>
	Obj   string `json:"obj,omitempty"`
	Field string `json:"field,omitempty"`
	Kind  string `json:"kind"` // value | error | panic | block | errval
	Msg   string `json:"msg,omitempty"`
	Val   *V     `json:"val,omitempty"`
	Args  string `json:"args,omitempty"` // canonical rendering of received arguments (C02)
	Start int64  `json:"start"`          // logical clock at entry
	End   int64  `json:"end"`            // logical clock at exit
	// subscriptions: the event during whose delivery the invocation happened (-1: at subscribe time);
	// for the stream resolver itself, the values it will send
	Event  int `json:"event,omitempty"`
	Events []V `json:"events,omitempty"`
	Ext    string `json:"ext,omitempty"` // the response extension this invocation registered ("x:<path>#<clock>")
}

type State struct {
	Plan   Plan
	Schema *ast.Schema
	mu     sync.Mutex
	Log    []Inv
	clock  int64
	Recov  int
	// CancelAt > 0: the request context is cancelled when the logical clock reaches this value
	CancelAt int64
	Cancel   func()
	Cancelled bool
	// subscriptions: index of the event being delivered (set by the runner before it asks for the next
	// response; delivery of one event is sequential), -1 while subscribing
	Event int
}

type stateKey struct{}

func WithState(ctx context.Context, s *State) context.Context {
	return context.WithValue(ctx, stateKey{}, s)
}
func GetState(ctx context.Context) *State {
	s, _ := ctx.Value(stateKey{}).(*State)
	return s
}

func (s *State) tick() int64 {
	s.mu.Lock()
	defer s.mu.Unlock()
	s.clock++
	s.maybeCancel()
	return s.clock
}

func (s *State) maybeCancel() {
	if s.CancelAt > 0 && s.clock >= s.CancelAt && !s.Cancelled && s.Cancel != nil {
		s.Cancelled = true
		s.Cancel()
	}
}

func (s *State) record(i Inv) {
	s.mu.Lock()
	defer s.mu.Unlock()
	s.clock++
	s.maybeCancel()
	i.End = s.clock
	i.Event = s.Event
	s.Log = append(s.Log, i)
}

func fnv(seed uint64, s string) uint64 {
	h := uint64(14695981039346656037) ^ (seed * 0x9E3779B97F4A7C15)
	for i := 0; i < len(s); i++ {
		h ^= uint64(s[i])
		h *= 1099511628211
	}
	// final avalanche
	h ^= h >> 33
	h *= 0xff51afd7ed558ccd
	h ^= h >> 33
	return h
}

func PathString(p ast.Path) string {
	var parts []string
	for _, e := range p {
		switch e := e.(type) {
		case ast.PathName:
			parts = append(parts, string(e))
		case ast.PathIndex:
			parts = append(parts, strconv.Itoa(int(e)))
		}
	}
	return strings.Join(parts, "/")
}

// ---------------------------------------------------------------------------------------------

type U struct {
	Types map[string]reflect.Type
	// StubType is the type of stubgen's Stub struct (set by Bind; used by -mode c02schema)
	StubType reflect.Type
}

var (
	ctxType = reflect.TypeOf((*context.Context)(nil)).Elem()
	errType = reflect.TypeOf((*error)(nil)).Elem()
)

// runtimeDirectives: the (lower-cased) Go names of the generated DirectiveRoot's fields, i.e. the directives that have a
// runtime implementation; a declared directive without one is skip_runtime (built-in, or configured so - the federation
// plugin does that for @key, @shareable, ...). nil until Bind ran.
var runtimeDirectives map[string]bool

// Bind fills every func-typed field of the stub (stubgen's `Stub`) and of the DirectiveRoot.
func (u *U) Bind(stub any, directives any, complexity any) {
	sv := reflect.ValueOf(stub).Elem()
	u.StubType = sv.Type()
	for i := 0; i < sv.NumField(); i++ {
		rs := sv.Field(i)
		if rs.Kind() != reflect.Struct {
			continue
		}
		obj := strings.TrimSuffix(sv.Type().Field(i).Name, "Resolver")
		for j := 0; j < rs.NumField(); j++ {
			f := rs.Field(j)
			if f.Kind() != reflect.Func {
				continue
			}
			ft := f.Type()
			goField := rs.Type().Field(j).Name
			f.Set(reflect.MakeFunc(ft, func(args []reflect.Value) []reflect.Value {
				return u.resolve(ft, obj, goField, args)
			}))
		}
	}
	dv := reflect.ValueOf(directives).Elem()
	runtimeDirectives = map[string]bool{}
	for i := 0; i < dv.NumField(); i++ {
		f := dv.Field(i)
		if f.Kind() != reflect.Func {
			continue
		}
		ft := f.Type()
		goName := dv.Type().Field(i).Name
		runtimeDirectives[strings.ToLower(goName)] = true
		f.Set(reflect.MakeFunc(ft, func(args []reflect.Value) []reflect.Value {
			ctx := args[0].Interface().(context.Context)
			name := goName
			if s := GetState(ctx); s != nil {
				for dn := range s.Schema.Directives {
					if strings.EqualFold(strings.ReplaceAll(dn, "_", ""), goName) {
						name = dn
					}
				}
			}
			return u.directive(ft, name, args)
		}))
	}
}

func (s *State) decide(path string, salt string) (Outcome, uint64) {
	h := fnv(s.Plan.Seed, path+salt)
	if s.Event > 0 {
		// later events of a subscription: same response paths, their own outcomes
		h = fnv(s.Plan.Seed, path+salt+"~"+strconv.Itoa(s.Event))
		if o, ok := s.Plan.Overrides[path+salt+"~"+strconv.Itoa(s.Event)]; ok {
			o.Delay += s.Plan.ExtraDelay[path+salt]
			return o, h
		}
	}
	if o, ok := s.Plan.Overrides[path+salt]; ok {
		o.Delay += s.Plan.ExtraDelay[path+salt]
		return o, h
	}
	r := s.Plan.Rates
	o := Outcome{Kind: "value"}
	k := int(h % 1000)
	switch {
	case salt == "@~around":
		switch {
		case k < r.AroundErr:
			o = Outcome{Kind: "error", Msg: "A:" + path}
		case k < r.AroundErr+r.AroundBlock:
			o = Outcome{Kind: "block"}
		case k < r.AroundErr+r.AroundBlock+r.AroundPanic:
			o = Outcome{Kind: "panic", Msg: "AP:" + path}
		}
	case salt == "" && k < r.Err:
		o = Outcome{Kind: "error", Msg: "E:" + path}
	case salt == "" && k < r.Err+r.Nil:
		o = Outcome{Kind: "nil"}
	case salt == "" && k < r.Err+r.Nil+r.Panic:
		o = Outcome{Kind: "panic", Msg: "P:" + path}
	case salt != "" && k < r.DirErr:
		o = Outcome{Kind: "error", Msg: "D:" + path}
	case salt != "" && k < r.DirErr+r.DirBlock:
		o = Outcome{Kind: "block"}
	}
	if r.Delay > 0 && int((h>>20)%1000) < r.Delay && r.MaxDelay > 0 {
		o.Delay = int((h >> 32) % uint64(r.MaxDelay))
		o.Yield = int((h >> 40) % 4)
	}
	o.Delay += s.Plan.ExtraDelay[path+salt]
	return o, h
}

// wait sleeps as the plan says but returns promptly once the context is cancelled
// ("resolvers return promptly when their context is cancelled").
func wait(ctx context.Context, o Outcome) {
	for i := 0; i < o.Yield; i++ {
		runtime.Gosched()
	}
	if o.Delay > 0 {
		t := time.NewTimer(time.Duration(o.Delay) * time.Microsecond)
		defer t.Stop()
		select {
		case <-t.C:
		case <-ctx.Done():
		}
	}
}

func (u *U) resolve(ft reflect.Type, obj, goField string, args []reflect.Value) []reflect.Value {
	ctx := args[0].Interface().(context.Context)
	s := GetState(ctx)
	fc := graphql.GetFieldContext(ctx)
	path := PathString(fc.Path())
	inv := Inv{Path: path, Hook: "resolver", Obj: fc.Object, Field: fc.Field.Name, Start: s.tick()}
	// received arguments (everything after ctx and, for non-root objects, obj)
	first := 1
	if len(args) > 1 && !isRoot(s.Schema, fc.Object) {
		first = 2
	}
	if len(args) > first {
		var parts []string
		for _, a := range args[first:] {
			parts = append(parts, RenderArg(a))
		}
		inv.Args = strings.Join(parts, ", ")
	}
	o, h := s.decide(path, "")
	wait(ctx, o)
	if s.Plan.Rates.Ext > 0 && int((h>>44)%1000) < s.Plan.Rates.Ext {
		// the key is unique per invocation (a path can be resolved twice: known finding F01)
		inv.Ext = "x:" + path + "#" + strconv.FormatInt(inv.Start, 10)
		graphql.RegisterExtension(ctx, inv.Ext, true)
	}
	rt := ft.Out(0)
	zero := reflect.Zero(rt)
	nilErr := reflect.Zero(errType)
	gt := fc.Field.Definition.Type
	if rt.Kind() == reflect.Chan && o.Kind != "panic" && o.Kind != "error" {
		// a subscription field: the values it will send are fixed now (hash per event), sent one at a
		// time over an unbuffered channel until the context ends
		n := 1 + int((h>>8)%3)
		if o.Len != nil {
			n = *o.Len
		}
		et := rt.Elem()
		vals := make([]reflect.Value, n)
		inv.Kind = "stream"
		for k := 0; k < n; k++ {
			eh := fnv(s.Plan.Seed, path+"#ev"+strconv.Itoa(k))
			eo, forced := s.Plan.Overrides[path+"#ev"+strconv.Itoa(k)]
			if (forced && eo.Kind == "nil" || !forced && int(eh%1000) < s.Plan.Rates.Nil) && nilable(et) {
				vals[k] = reflect.Zero(et)
				inv.Events = append(inv.Events, V{K: "null"})
				continue
			}
			var f *Outcome
			if forced && (eo.Type != "" || eo.Len != nil || eo.Str != "") {
				f = &eo
			}
			ev, evv := u.build2(s, et, gt, path, eh, true, f)
			vals[k] = ev
			inv.Events = append(inv.Events, evv)
		}
		s.record(inv)
		ch := reflect.MakeChan(reflect.ChanOf(reflect.BothDir, et), 0)
		go func() {
			defer ch.Close()
			for _, v := range vals {
				chosen, _, _ := reflect.Select([]reflect.SelectCase{
					{Dir: reflect.SelectSend, Chan: ch, Send: v},
					{Dir: reflect.SelectRecv, Chan: reflect.ValueOf(ctx.Done())},
				})
				if chosen == 1 {
					return
				}
			}
		}()
		return []reflect.Value{ch.Convert(rt), nilErr}
	}
	switch o.Kind {
	case "panic":
		inv.Kind, inv.Msg = "panic", o.Msg
		s.record(inv)
		panic(o.Msg)
	case "error":
		inv.Kind, inv.Msg = "error", o.Msg
		if rt.Kind() != reflect.Chan && s.Plan.Rates.ErrAndVal > 0 && int((h>>12)%1000) < s.Plan.Rates.ErrAndVal {
			val, v := u.build(s, rt, gt, path, h, true)
			inv.Kind, inv.Val = "errval", &v
			s.record(inv)
			return []reflect.Value{val, reflect.ValueOf(errors.New(o.Msg))}
		}
		s.record(inv)
		return []reflect.Value{zero, reflect.ValueOf(errors.New(o.Msg))}
	case "nil":
		if nilable(rt) {
			nv, tn := u.nilOf(s, rt, gt, h, o.Type)
			inv.Kind, inv.Val = "value", &V{K: "null", TypedNil: tn}
			s.record(inv)
			return []reflect.Value{nv, nilErr}
		}
		fallthrough
	default:
		val, v := u.buildWith(s, rt, gt, path, h, o)
		inv.Kind, inv.Val = "value", &v
		s.record(inv)
		return []reflect.Value{val, nilErr}
	}
}

// isRoot: the object is the schema's query, mutation or subscription root (whatever it is called)
func isRoot(s *ast.Schema, name string) bool {
	for _, d := range []*ast.Definition{s.Query, s.Mutation, s.Subscription} {
		if d != nil && d.Name == name {
			return true
		}
	}
	return false
}

func nilable(t reflect.Type) bool {
	switch t.Kind() {
	case reflect.Ptr, reflect.Slice, reflect.Interface, reflect.Map:
		return true
	}
	return false
}

func (u *U) buildWith(s *State, rt reflect.Type, gt *ast.Type, path string, h uint64, o Outcome) (reflect.Value, V) {
	if o.Len != nil || o.Type != "" || o.Str != "" {
		return u.build2(s, rt, gt, path, h, false, &o)
	}
	return u.build(s, rt, gt, path, h, false)
}

func (u *U) build(s *State, rt reflect.Type, gt *ast.Type, path string, h uint64, top bool) (reflect.Value, V) {
	return u.build2(s, rt, gt, path, h, top, nil)
}

// build2 constructs a value of Go type rt for GraphQL type gt. Nested positions (list elements) derive
// their own hash from the path so that the same element behaves the same in every configuration.
func (u *U) build2(s *State, rt reflect.Type, gt *ast.Type, path string, h uint64, top bool, force *Outcome) (reflect.Value, V) {
	// GraphQL list
	if gt.Elem != nil {
		sl := rt
		ptr := false
		if sl.Kind() == reflect.Ptr {
			sl, ptr = sl.Elem(), true
		}
		if sl.Kind() != reflect.Slice {
			panic(fmt.Sprintf("universal: list type %s bound to %s", gt, rt))
		}
		maxLen := s.Plan.Rates.MaxLen
		if maxLen <= 0 {
			maxLen = 3
		}
		n := int((h >> 8) % uint64(maxLen+1))
		if force != nil && force.Len != nil {
			n = *force.Len
		}
		out := reflect.MakeSlice(sl, n, n)
		v := V{K: "list", L: make([]V, n)}
		for i := 0; i < n; i++ {
			ep := path + "/" + strconv.Itoa(i)
			eo, eh := s.decide(ep, "#elem")
			et := sl.Elem()
			if _, forced := s.Plan.Overrides[ep+"#elem"]; (forced && eo.Kind == "nil" || !forced && int(eh%1000) < s.Plan.Rates.ElemNil) && nilable(et) {
				nv, tn := u.nilOf(s, et, gt.Elem, eh, eo.Type)
				v.L[i] = V{K: "null", TypedNil: tn}
				out.Index(i).Set(nv)
				continue
			}
			var f *Outcome
			if forced := s.Plan.Overrides[ep+"#elem"]; forced.Type != "" || forced.Len != nil || forced.Str != "" {
				f = &forced
			}
			ev, evv := u.build2(s, et, gt.Elem, ep, eh, false, f)
			out.Index(i).Set(ev)
			v.L[i] = evv
		}
		if ptr {
			p := reflect.New(sl)
			p.Elem().Set(out)
			return p, v
		}
		return out, v
	}
	def := s.Schema.Types[gt.NamedType]
	if def == nil {
		panic("universal: unknown type " + gt.NamedType)
	}
	switch def.Kind {
	case ast.Object, ast.Interface, ast.Union:
		name := def.Name
		if def.Kind != ast.Object {
			poss := s.Schema.GetPossibleTypes(def)
			names := make([]string, 0, len(poss))
			for _, p := range poss {
				if p.Kind != ast.Object {
					continue // an interface implementing this interface is not a concrete type
				}
				names = append(names, p.Name)
			}
			sort.Strings(names)
			name = names[int((h>>16)%uint64(len(names)))]
			if force != nil && force.Type != "" {
				name = force.Type
			}
		}
		ct, ok := u.Types[name]
		if !ok {
			panic("universal: no Go type for " + name)
		}
		pv := reflect.New(ct)
		v := V{K: "obj", Type: name}
		u.fillPlain(s, pv.Elem(), name, path, &v)
		switch rt.Kind() {
		case reflect.Ptr:
			if rt.Elem() == ct {
				return pv, v
			}
			// pointer to interface
			if rt.Elem().Kind() == reflect.Interface {
				ip := reflect.New(rt.Elem())
				ip.Elem().Set(u.asIface(rt.Elem(), pv))
				return ip, v
			}
		case reflect.Struct:
			return pv.Elem(), v
		case reflect.Interface:
			return u.asIface(rt, pv), v
		}
		panic(fmt.Sprintf("universal: cannot build %s as %s", name, rt))
	case ast.Enum:
		val := def.EnumValues[int((h>>16)%uint64(len(def.EnumValues)))].Name
		if def.Name == "Mood" && val == "GRUMPY" {
			val = "SAD" // the probe's panicking enum value only where a case forces it
		}
		if force != nil && force.Str != "" {
			val = force.Str
		}
		return setScalar(rt, val, h), V{K: "leaf", Text: strconv.Quote(val)}
	default: // scalar
		if force != nil && force.Str != "" {
			b, _ := json.Marshal(force.Str)
			if gt.NamedType == "Code" && force.Str == "NULL" {
				return setScalar(rt, force.Str, h), V{K: "null"}
			}
			return setScalar(rt, force.Str, h), V{K: "leaf", Text: string(b)}
		}
		return u.scalar(rt, gt.NamedType, h)
	}
}

// fillPlain sets the struct fields of a freshly built object that are bound as plain fields: their value
// is a function of (seed, object path, field NAME) - every alias of the field sees the same value.
func (u *U) fillPlain(s *State, sv reflect.Value, typeName, objPath string, v *V) {
	names := Plain[typeName]
	if len(names) == 0 {
		return
	}
	def := s.Schema.Types[typeName]
	v.Fields = map[string]V{}
	for _, fn := range names {
		fd := def.Fields.ForName(fn)
		if fd == nil {
			continue
		}
		// find the struct field by its json tag
		var sf reflect.Value
		for i := 0; i < sv.NumField(); i++ {
			tag := strings.Split(sv.Type().Field(i).Tag.Get("json"), ",")[0]
			if tag == fn {
				sf = sv.Field(i)
				break
			}
		}
		if !sf.IsValid() || !sf.CanSet() {
			panic("universal: no struct field for plain field " + typeName + "." + fn)
		}
		h := fnv(s.Plan.Seed, objPath+"."+fn)
		if nilable(sf.Type()) && int(h%1000) < s.Plan.Rates.Nil+s.Plan.Rates.Err {
			v.Fields[fn] = V{K: "null"} // stays the zero value (nil pointer)
			continue
		}
		val, fv := u.build2(s, sf.Type(), fd.Type, objPath+"."+fn, h, false, nil)
		sf.Set(val)
		v.Fields[fn] = fv
	}
}

// nilOf: the nil a resolver returns at a position of Go type rt. For a Go interface (a GraphQL interface or union)
// there are two: the untyped nil, and a nil POINTER to one of the possible concrete types held in the interface
// (`var d *Dog; return d, nil`), which the generated type switch must also complete to null. The typed one is
// returned when the plan forces a type (`{"kind":"nil","type":"T"}`) and, by hash, at half of the NULLABLE abstract
// positions (at non-null ones gqlgen nulls the position without reporting an error: known finding F01b, exercised by
// directed cases only). The second result names the concrete type of a typed nil.
func (u *U) nilOf(s *State, rt reflect.Type, gt *ast.Type, h uint64, force string) (reflect.Value, string) {
	zero := reflect.Zero(rt)
	if rt.Kind() != reflect.Interface || gt == nil || gt.Elem != nil {
		return zero, ""
	}
	if force == "" && (gt.NonNull || (h>>21)&1 == 0) {
		return zero, ""
	}
	def := s.Schema.Types[gt.NamedType]
	if def == nil || (def.Kind != ast.Interface && def.Kind != ast.Union) {
		return zero, ""
	}
	var names []string
	for _, p := range s.Schema.GetPossibleTypes(def) {
		if p.Kind == ast.Object {
			names = append(names, p.Name)
		}
	}
	if len(names) == 0 {
		return zero, ""
	}
	sort.Strings(names)
	name := names[int((h>>24)%uint64(len(names)))]
	if force != "" {
		name = force
	}
	ct, ok := u.Types[name]
	if !ok || !reflect.PointerTo(ct).Implements(rt) {
		return zero, ""
	}
	return reflect.Zero(reflect.PointerTo(ct)).Convert(rt), name
}

func (u *U) asIface(it reflect.Type, pv reflect.Value) reflect.Value {
	if pv.Type().Implements(it) {
		return pv.Convert(it)
	}
	if pv.Elem().Type().Implements(it) {
		return pv.Elem().Convert(it)
	}
	panic(fmt.Sprintf("universal: %s does not implement %s", pv.Type(), it))
}

func setScalar(rt reflect.Type, s string, h uint64) reflect.Value {
	ptr := false
	t := rt
	if t.Kind() == reflect.Ptr {
		t, ptr = t.Elem(), true
	}
	v := reflect.New(t).Elem()
	switch t.Kind() {
	case reflect.String:
		v.SetString(s)
	default:
		panic("universal: setScalar on " + t.String())
	}
	if ptr {
		p := reflect.New(t)
		p.Elem().Set(v)
		return p
	}
	return v
}

func (u *U) scalar(rt reflect.Type, gqlName string, h uint64) (reflect.Value, V) {
	ptr := false
	t := rt
	if t.Kind() == reflect.Ptr {
		t, ptr = t.Elem(), true
	}
	v := reflect.New(t).Elem()
	var text string
	n := int64((h >> 16) % 7)
	switch t.Kind() {
	case reflect.String:
		strs := []string{"a", "b\"q", "", "é", "x\\y", "line\nbreak", "z"}
		s := strs[n]
		if gqlName == "ID" {
			s = "id" + strconv.FormatInt(n, 10)
		}
		if gqlName == "Code" && (h>>24)%4 == 0 {
			// the probe's function-pair scalar: its marshaler answers graphql.Null for this value
			v.SetString("NULL")
			if ptr {
				p := reflect.New(t)
				p.Elem().Set(v)
				return p, V{K: "null"}
			}
			return v, V{K: "null"}
		}
		v.SetString(s)
		b, _ := json.Marshal(s)
		text = string(b)
	case reflect.Int, reflect.Int64, reflect.Int32:
		v.SetInt(n - 2)
		text = strconv.FormatInt(n-2, 10)
		if gqlName == "ID" {
			text = strconv.Quote(text)
		}
	case reflect.Uint, reflect.Uint64, reflect.Uint32:
		v.SetUint(uint64(n))
		text = strconv.FormatInt(n, 10)
		if gqlName == "ID" {
			text = strconv.Quote(text)
		}
	case reflect.Float64:
		fs := []float64{0, 1.5, -2, 1e21, 0.25, 100, 3}
		v.SetFloat(fs[n])
		text = fmt.Sprintf("%g", fs[n])
	case reflect.Bool:
		v.SetBool(n%2 == 0)
		text = strconv.FormatBool(n%2 == 0)
	default:
		panic("universal: unsupported scalar Go type " + t.String() + " for " + gqlName)
	}
	if ptr {
		p := reflect.New(t)
		p.Elem().Set(v)
		return p, V{K: "leaf", Text: text}
	}
	return v, V{K: "leaf", Text: text}
}

// directive implements every schema directive: func(ctx, obj any, next graphql.Resolver, args...) (any, error)
func (u *U) directive(ft reflect.Type, name string, args []reflect.Value) []reflect.Value {
	ctx := args[0].Interface().(context.Context)
	s := GetState(ctx)
	path := PathString(graphql.GetPath(ctx))
	next := args[2].Interface().(graphql.Resolver)
	tag := ""
	if len(args) > 3 {
		tag = RenderArg(args[3])
	}
	salt := "@" + name
	inv := Inv{Path: path, Hook: "directive:" + name, Args: tag, Start: s.tick()}
	o, _ := s.decide(path, salt)
	wait(ctx, o)
	anyT := ft.Out(0)
	ret := func(v any, err error) []reflect.Value {
		rv := reflect.Zero(anyT)
		if v != nil {
			rv = reflect.ValueOf(&v).Elem()
		}
		re := reflect.Zero(errType)
		if err != nil {
			re = reflect.ValueOf(&err).Elem()
		}
		return []reflect.Value{rv, re}
	}
	switch o.Kind {
	case "error":
		inv.Kind, inv.Msg = "error", o.Msg
		s.record(inv)
		return ret(nil, errors.New(o.Msg))
	case "panic":
		inv.Kind, inv.Msg = "panic", o.Msg
		s.record(inv)
		panic(o.Msg)
	case "block":
		inv.Kind = "block"
		s.record(inv)
		return ret(nil, nil)
	}
	inv.Kind = "value"
	s.record(inv)
	v, err := next(ctx)
	return ret(v, err)
}

// RenderArg renders a received Go argument canonically: nil pointers as "nil", pointers as &v,
// Omittable as set/unset, structs field by field, maps with sorted keys.
func RenderArg(v reflect.Value) string {
	if !v.IsValid() {
		return "invalid"
	}
	switch v.Kind() {
	case reflect.Ptr, reflect.Interface:
		if v.IsNil() {
			return "nil"
		}
		if v.Kind() == reflect.Interface {
			return RenderArg(v.Elem())
		}
		return "&" + RenderArg(v.Elem())
	case reflect.Slice:
		if v.IsNil() {
			return "nil[]"
		}
		var parts []string
		for i := 0; i < v.Len(); i++ {
			parts = append(parts, RenderArg(v.Index(i)))
		}
		return "[" + strings.Join(parts, ",") + "]"
	case reflect.Map:
		if v.IsNil() {
			return "nilmap"
		}
		keys := v.MapKeys()
		sort.Slice(keys, func(i, j int) bool { return fmt.Sprint(keys[i]) < fmt.Sprint(keys[j]) })
		var parts []string
		for _, k := range keys {
			parts = append(parts, fmt.Sprint(k)+":"+RenderArg(v.MapIndex(k)))
		}
		return "map{" + strings.Join(parts, ",") + "}"
	case reflect.Struct:
		if strings.HasPrefix(v.Type().Name(), "Omittable[") {
			isSet := v.MethodByName("IsSet").Call(nil)[0].Bool()
			if !isSet {
				return "unset"
			}
			return "set(" + RenderArg(v.MethodByName("Value").Call(nil)[0]) + ")"
		}
		var parts []string
		for i := 0; i < v.NumField(); i++ {
			if v.Type().Field(i).PkgPath != "" {
				continue
			}
			parts = append(parts, v.Type().Field(i).Name+":"+RenderArg(v.Field(i)))
		}
		return "{" + strings.Join(parts, ",") + "}"
	case reflect.String:
		return strconv.Quote(v.String())
	case reflect.Float64, reflect.Float32:
		return strconv.FormatFloat(v.Float(), 'g', -1, 64)
	default:
		return fmt.Sprint(v.Interface())
	}
}


// Method is the body of a hand-written model method bound to a field (`func (m *M) A(ctx) (string, error)`):
// like a resolver it is user code invoked with the field's context; it decides by the plan at the field's
// response path, logs the invocation as a resolver invocation, and yields a string value.
func Method(ctx context.Context) (string, error) {
	s := GetState(ctx)
	fc := graphql.GetFieldContext(ctx)
	path := PathString(fc.Path())
	inv := Inv{Path: path, Hook: "resolver", Obj: fc.Object, Field: fc.Field.Name, Start: s.tick()}
	o, h := s.decide(path, "")
	wait(ctx, o)
	switch o.Kind {
	case "panic":
		inv.Kind, inv.Msg = "panic", o.Msg
		s.record(inv)
		panic(o.Msg)
	case "error":
		inv.Kind, inv.Msg = "error", o.Msg
		s.record(inv)
		return "", errors.New(o.Msg)
	}
	strs := []string{"a", "b", "", "m", "x", "y", "z"}
	v := strs[int((h>>16)%7)]
	b, _ := json.Marshal(v)
	inv.Kind, inv.Val = "value", &V{K: "leaf", Text: string(b)}
	s.record(inv)
	return v, nil
}


// Around is a field interceptor (handler AroundFields / OperationContext.ResolverMiddleware): user code
// wrapped around every field - schema directives and the resolver or struct read run inside `next`.
func Around(ctx context.Context, next graphql.Resolver) (any, error) {
	s := GetState(ctx)
	fc := graphql.GetFieldContext(ctx)
	if s == nil || fc == nil || strings.HasPrefix(fc.Field.Name, "__") {
		return next(ctx)
	}
	path := PathString(fc.Path())
	inv := Inv{Path: path, Hook: "directive:~around", Obj: fc.Object, Field: fc.Field.Name, Start: s.tick()}
	o, _ := s.decide(path, "@~around")
	if s.Schema.Subscription != nil && fc.Object == s.Schema.Subscription.Name {
		// around the creation of a subscription's stream it only passes: a failure there is a request error
		// (no stream), which the checks judge separately from event execution
		o = Outcome{Kind: "value"}
	}
	wait(ctx, o)
	switch o.Kind {
	case "error":
		inv.Kind, inv.Msg = "error", o.Msg
		s.record(inv)
		return nil, errors.New(o.Msg)
	case "panic":
		inv.Kind, inv.Msg = "panic", o.Msg
		s.record(inv)
		panic(o.Msg)
	case "block":
		inv.Kind = "block"
		s.record(inv)
		return nil, nil
	}
	inv.Kind = "value"
	s.record(inv)
	return next(ctx)
}
