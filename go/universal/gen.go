package universal

import (
	"fmt"
	"sort"
	"strings"

	"github.com/vektah/gqlparser/v2/ast"
	"verifharness/internal/rng"
)

// Gen produces documents from a grammar over the server's own schema: aliases colliding across
// fragments, nested inline fragments / spreads on interfaces and unions, @skip/@include on every node
// with literal and variable conditions, __typename, and (profile c13) @defer.
type Gen struct {
	s       *ast.Schema
	seed    uint64
	profile string
}

func NewGen(s *ast.Schema, seed uint64, profile string) *Gen {
	return &Gen{s: s, seed: seed, profile: profile}
}

type docBuilder struct {
	g       *Gen
	r       *rng.R
	frags   []string // rendered fragment definitions
	nfrag   int
	usedVar map[string]bool
	defer_  bool
	nlabel  int
}

func (g *Gen) Case(i int) Case {
	r := rng.New(g.seed*1000003 + uint64(i)*7919 + 17)
	b := &docBuilder{g: g, r: r, usedVar: map[string]bool{}, defer_: g.profile == "c13" || g.profile == "c13clean"}
	root := g.s.Query
	kind := "query"
	if g.s.Mutation != nil && r.Below(8) == 0 {
		root, kind = g.s.Mutation, "mutation"
	}
	depth := 2 + r.Below(3)
	body := ""
	if g.profile == "sub" && g.s.Subscription != nil {
		// a subscription selects exactly one root field
		root, kind = g.s.Subscription, "subscription"
		f := root.Fields[r.Below(len(root.Fields))]
		for strings.HasPrefix(f.Name, "__") {
			f = root.Fields[r.Below(len(root.Fields))]
		}
		alias := ""
		if r.Below(4) == 0 {
			alias = "ev: "
		}
		ft := g.s.Types[f.Type.Name()]
		body = "{ " + alias + f.Name
		if ft.Kind == ast.Object || ft.Kind == ast.Interface || ft.Kind == ast.Union {
			body += " " + b.selSet(ft, depth, false)
		}
		body += " }"
	} else {
		body = b.selSet(root, depth, true)
	}
	var vars []string
	vals := map[string]any{}
	names := make([]string, 0, len(b.usedVar))
	for v := range b.usedVar {
		names = append(names, v)
	}
	sort.Strings(names)
	for _, v := range names {
		if r.Below(4) == 0 {
			vars = append(vars, fmt.Sprintf("$%s: Boolean = %v", v, r.Bool()))
			if r.Bool() {
				vals[v] = r.Bool()
			}
		} else {
			vars = append(vars, fmt.Sprintf("$%s: Boolean!", v))
			vals[v] = r.Bool()
		}
	}
	hdr := kind + " Op"
	if len(vars) > 0 {
		hdr += "(" + strings.Join(vars, ", ") + ")"
	}
	// operation-level directives the schema declares for this kind of operation (they wrap the whole execution)
	// (profile "sub": the SUBSCRIPTION-location directives around the creation of the stream, _subscriptionMiddleware)
	if (kind != "subscription" && (g.profile == "c01" || g.profile == "c04" || g.profile == "c06")) || (kind == "subscription" && g.profile == "sub") {
		loc := ast.LocationQuery
		if kind == "mutation" {
			loc = ast.LocationMutation
		}
		if kind == "subscription" {
			loc = ast.LocationSubscription
		}
		var names []string
		for n, d := range g.s.Directives {
			for _, l := range d.Locations {
				if l == loc && len(d.Arguments) == 0 {
					names = append(names, n)
				}
			}
		}
		sort.Strings(names)
		for _, n := range names {
			if r.Below(3) == 0 {
				hdr += " @" + n
			}
		}
	}
	q := hdr + " " + body + "\n" + strings.Join(b.frags, "\n")
	rates := Rates{Err: 60, Nil: 80, DirErr: 100, DirBlock: 100, MaxLen: 3, ElemNil: 100, ErrAndVal: 200}
	switch g.profile {
	case "c04", "sub":
		rates.Panic = 40
	case "c06":
		rates.Delay, rates.MaxDelay = 400, 300
		rates.Ext = 300
	case "c13":
		rates.Delay, rates.MaxDelay = 300, 300
	case "clean", "c13clean":
		rates = Rates{MaxLen: 3}
	}
	if r.Below(5) == 0 { // a fifth of the cases are fault-free so deep results are seen too
		rates.Err, rates.Nil, rates.Panic, rates.DirErr, rates.DirBlock, rates.ElemNil = 0, 0, 0, 0, 0, 0
	}
	around := false
	switch g.profile {
	case "c01", "c04", "c06", "sub":
		// a third of the cases run with a field interceptor installed (it mostly passes; it may fail like a directive)
		if r.Below(3) == 0 {
			around = true
			if rates.Err > 0 {
				rates.AroundErr, rates.AroundBlock = 25, 15
				if g.profile == "c04" || g.profile == "sub" {
					rates.AroundPanic = 15
				}
			}
		}
	}
	return Case{ID: fmt.Sprintf("%s-%d-%d", g.profile, g.seed, i), Query: q, OperationName: "", Variables: vals,
		Plan: Plan{Seed: g.seed*31 + uint64(i), Rates: rates}, Around: around}
}

func (b *docBuilder) dirs() string {
	r := b.r
	if r.Below(6) != 0 {
		return ""
	}
	name := []string{"skip", "include"}[r.Below(2)]
	var cond string
	switch r.Below(3) {
	case 0:
		cond = "true"
	case 1:
		cond = "false"
	default:
		v := fmt.Sprintf("b%d", r.Below(3))
		b.usedVar[v] = true
		cond = "$" + v
	}
	out := fmt.Sprintf(" @%s(if: %s)", name, cond)
	if r.Below(6) == 0 { // both directives
		other := "include"
		if name == "include" {
			other = "skip"
		}
		out += fmt.Sprintf(" @%s(if: %v)", other, r.Bool())
	}
	return out
}

// fieldDirs: executable directives the schema declares for FIELD (besides @skip/@include), on about a fifth of
// the field selections. The generated _fieldMiddleware runs them around the field's own chain.
func (b *docBuilder) fieldDirs() string {
	switch b.g.profile {
	case "c01", "c04", "c06", "sub":
	default:
		return ""
	}
	var names []string
	for n, d := range b.g.s.Directives {
		if n == "skip" || n == "include" || n == "defer" {
			continue
		}
		for _, l := range d.Locations {
			if l == ast.LocationField {
				names = append(names, n)
			}
		}
	}
	if len(names) == 0 || b.r.Below(5) != 0 {
		return ""
	}
	sort.Strings(names)
	out := ""
	for _, n := range names {
		if len(names) > 1 && b.r.Bool() {
			continue
		}
		out += " @" + n
		if a := b.g.s.Directives[n].Arguments; len(a) == 1 && a[0].Type.Name() == "Int" && b.r.Bool() {
			out += fmt.Sprintf("(%s: %d)", a[0].Name, b.r.Below(3))
		}
	}
	return out
}

func (b *docBuilder) deferDir() string {
	if !b.defer_ || b.r.Below(2) != 0 {
		return ""
	}
	r := b.r
	var args []string
	switch r.Below(4) {
	case 0:
		args = append(args, "if: false")
	case 1:
		v := fmt.Sprintf("b%d", r.Below(3))
		b.usedVar[v] = true
		args = append(args, "if: $"+v)
	}
	switch r.Below(3) {
	case 0:
		b.nlabel++
		args = append(args, fmt.Sprintf("label: \"L%d\"", b.nlabel))
	case 1:
		args = append(args, "label: \"shared\"")
	}
	if len(args) == 0 {
		return " @defer"
	}
	return " @defer(" + strings.Join(args, ", ") + ")"
}

// typeConds returns the type conditions valid for a fragment inside a selection set on def
func (b *docBuilder) typeConds(def *ast.Definition) []string {
	set := map[string]bool{def.Name: true}
	for _, p := range b.g.s.GetPossibleTypes(def) {
		set[p.Name] = true
		for _, i := range b.g.s.GetImplements(p) {
			set[i.Name] = true // any abstract type sharing a possible type
		}
	}
	var out []string
	for n := range set {
		out = append(out, n)
	}
	sort.Strings(out)
	return out
}

func (b *docBuilder) selSet(def *ast.Definition, depth int, top bool) string {
	r := b.r
	n := 1 + r.Below(4)
	var parts []string
	for i := 0; i < n; i++ {
		k := r.Below(10)
		switch {
		case def.Kind == ast.Union && k < 6:
			k = 7 // unions only allow fragments and __typename
			fallthrough
		case k >= 7 && depth > 0:
			conds := b.typeConds(def)
			tc := conds[r.Below(len(conds))]
			td := b.g.s.Types[tc]
			if k == 9 && !top || k == 9 && r.Bool() { // named fragment spread
				b.nfrag++
				name := fmt.Sprintf("F%d", b.nfrag)
				body := b.selSet(td, depth-1, false)
				b.frags = append(b.frags, fmt.Sprintf("fragment %s on %s %s", name, tc, body))
				spread := "..." + name + b.dirs() + b.deferDir()
				parts = append(parts, spread)
				if r.Below(5) == 0 { // the same fragment spread twice (visited set)
					parts = append(parts, "..."+name+b.dirs())
				}
			} else {
				on := " on " + tc
				if r.Below(5) == 0 && td == def {
					on = ""
				}
				parts = append(parts, "..."+on+b.dirs()+b.deferDir()+" "+b.selSet(td, depth-1, false))
			}
		case k == 6:
			a := ""
			if r.Below(3) == 0 {
				a = "tn: "
			}
			parts = append(parts, a+"__typename"+b.dirs())
		default:
			if len(def.Fields) == 0 {
				parts = append(parts, "__typename")
				continue
			}
			var fs []*ast.FieldDefinition
			for _, f := range def.Fields {
				if !strings.HasPrefix(f.Name, "__") {
					fs = append(fs, f)
				}
			}
			if len(fs) == 0 {
				parts = append(parts, "__typename")
				continue
			}
			f := fs[r.Below(len(fs))]
			alias := ""
			switch r.Below(5) {
			case 0:
				alias = f.Name + "1: "
			case 1:
				alias = f.Name + "2: "
			}
			ft := b.g.s.Types[f.Type.Name()]
			sel := alias + f.Name + b.dirs() + b.fieldDirs()
			if ft.Kind == ast.Object || ft.Kind == ast.Interface || ft.Kind == ast.Union {
				if depth <= 0 {
					sel += " { __typename }"
				} else {
					sel += " " + b.selSet(ft, depth-1, false)
				}
			}
			parts = append(parts, sel)
			if (ft.Kind == ast.Object || ft.Kind == ast.Interface || ft.Kind == ast.Union) && depth > 0 && r.Below(4) == 0 {
				// the same response key once more with a different sub-selection - directly, or under a type
				// condition that applies: the two sub-selections are merged by field collection (on every
				// list element's goroutine, over the one parsed document)
				again := alias + f.Name + " " + b.selSet(ft, depth-1, false)
				if r.Bool() {
					conds := b.typeConds(def)
					again = "... on " + conds[r.Below(len(conds))] + " { " + again + " }"
				}
				parts = append(parts, again)
			}
		}
	}
	return "{ " + strings.Join(parts, " ") + " }"
}
