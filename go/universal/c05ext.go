package universal

import (
	"math"
	"context"
	"encoding/json"
	"fmt"
	"net/http"
	"net/http/httptest"
	"strconv"
	"strings"
	"time"

	"github.com/gorilla/websocket"

	"github.com/99designs/gqlgen/graphql"
	"github.com/99designs/gqlgen/graphql/handler"
	"github.com/99designs/gqlgen/graphql/handler/apollofederatedtracingv1"
	"github.com/99designs/gqlgen/graphql/handler/apollotracing"
	"github.com/99designs/gqlgen/graphql/handler/extension"
	"github.com/99designs/gqlgen/graphql/handler/transport"
)

// C05 (operations terminate and leave nothing running), two further dimensions of the shared runner:
//
//  1. Case.Shipped: the handler extensions that ship with gqlgen, installed by name on the executor (-mode run) or
//     the handler.Server (-mode http, every transport), Case.Headers: the request's HTTP headers (RunCase hands
//     them to the executor as RawParams.Headers, the way every transport does).
//  2. HTTPCase.WSX: the websocket transport's OPTIONS crossed with a client that stops cooperating at a given
//     stage of the session (RunWSX).

// shippedExt builds one of gqlgen's own extensions:
//
//	ftv1 | ftv1:all | ftv1:transform   apollofederatedtracingv1.Tracer (active for requests that carry the header
//	                                   apollo-federation-include-trace: ftv1), with its three error options
//	apollotracing                      apollotracing.Tracer
//	introspection                      extension.Introspection
//	complexity:<n>                     extension.FixedComplexityLimit(n)
//	apq                                extension.AutomaticPersistedQuery over a fresh in-memory cache
func shippedExt(name string) (graphql.HandlerExtension, error) {
	switch {
	case name == "ftv1":
		return &apollofederatedtracingv1.Tracer{Version: "verif", Hostname: "verif"}, nil
	case name == "ftv1:all":
		return &apollofederatedtracingv1.Tracer{ErrorOptions: &apollofederatedtracingv1.ErrorOptions{ErrorOption: apollofederatedtracingv1.ERROR_UNMODIFIED}}, nil
	case name == "ftv1:transform":
		return &apollofederatedtracingv1.Tracer{ErrorOptions: &apollofederatedtracingv1.ErrorOptions{ErrorOption: apollofederatedtracingv1.ERROR_TRANSFORM}}, nil
	case name == "apollotracing":
		return apollotracing.Tracer{}, nil
	case name == "introspection":
		return extension.Introspection{}, nil
	case strings.HasPrefix(name, "complexity:"):
		n, err := strconv.Atoi(strings.TrimPrefix(name, "complexity:"))
		if err != nil {
			return nil, err
		}
		return extension.FixedComplexityLimit(n), nil
	case name == "unserializable":
		return unserializableExt{}, nil
	case name == "apq":
		return extension.AutomaticPersistedQuery{Cache: graphql.MapCache[string]{}}, nil
	}
	return nil, fmt.Errorf("unknown shipped extension %q", name)
}

// unserializableExt is user code, not a shipped extension: a response interceptor that registers a response extension
// encoding/json refuses to marshal (a ratio 0/0 = NaN). What the transports do with a response they cannot serialize
// must still end the request and leave nothing running.
type unserializableExt struct{}

func (unserializableExt) ExtensionName() string                   { return "verif-unserializable-extension" }
func (unserializableExt) Validate(graphql.ExecutableSchema) error { return nil }
func (unserializableExt) InterceptResponse(ctx context.Context, next graphql.ResponseHandler) *graphql.Response {
	graphql.RegisterExtension(ctx, "hitRatio", math.NaN())
	return next(ctx)
}

// useShipped installs the named shipped extensions, in the order given
func useShipped(use func(graphql.HandlerExtension), names []string) error {
	for _, n := range names {
		e, err := shippedExt(n)
		if err != nil {
			return err
		}
		use(e)
	}
	return nil
}

func headerOf(m map[string]string) http.Header {
	if len(m) == 0 {
		return nil
	}
	h := http.Header{}
	for k, v := range m {
		h.Set(k, v)
	}
	return h
}

// WSX: options of transport.Websocket and the behaviour of the client, for one websocket session.
type WSX struct {
	// the transport's options (milliseconds; 0 = option not set)
	InitTimeoutMs int  `json:"initTimeoutMs,omitempty"`
	KeepAliveMs   int  `json:"keepAliveMs,omitempty"` // KeepAlivePingInterval (graphql-ws: `ka` frames)
	PingPongMs    int  `json:"pingPongMs,omitempty"`  // PingPongInterval (graphql-transport-ws: ping, pong expected)
	PongOnlyMs    int  `json:"pongOnlyMs,omitempty"`  // PongOnlyInterval (graphql-transport-ws: unsolicited pongs)
	MissingPongOk bool `json:"missingPongOk,omitempty"`
	// InitFunc: "" none | "derived" (a child of the context it was given) | "detached" (a context of its own) |
	// "error" (refuses the connection) | "slow" (answers after InitFuncMs) | "payload" (acks with a payload) |
	// "deadline" (a child context that expires after InitFuncMs: the SERVER ends the session by itself)
	InitFunc   string `json:"initFunc,omitempty"`
	InitFuncMs int    `json:"initFuncMs,omitempty"`
	Funcs      bool   `json:"funcs,omitempty"` // ErrorFunc and CloseFunc are installed
	// the client. ClientInit: "" sends connection_init at once | "never" (stays silent) | "late" (sends it after
	// InitDelayMs) | "drop" (TCP connection closed without a close frame, after InitDelayMs) | "close" (close
	// frame) | "garbage" (a text frame that is not JSON) | "other" (a start/subscribe message in its place)
	ClientInit  string `json:"clientInit,omitempty"`
	InitDelayMs int    `json:"initDelayMs,omitempty"`
	NoPong      bool   `json:"noPong,omitempty"` // never answers a ping
	// StopAt: the stage at which the client stops cooperating: "" never | "acked" | "subscribed" | "next" (after
	// the first result) | "completed". StopHow: "silent" (keeps the connection, sends nothing more, for SilentMs,
	// then drops it) | "drop" | "close"
	StopAt   string `json:"stopAt,omitempty"`
	StopHow  string `json:"stopHow,omitempty"`
	SilentMs int    `json:"silentMs,omitempty"`
	IdleMs   int    `json:"idleMs,omitempty"` // after the operation ended the client stays connected this long (tickers fire)
}

func ms(n int) time.Duration { return time.Duration(n) * time.Millisecond }

// RunWSX runs one websocket session (at most one operation) against the real handler.Server with the case's
// transport options and reports what is still running after the session ended, exactly like RunWS.
func RunWSX(es graphql.ExecutableSchema, c HTTPCase) HTTPResult {
	x := c.WSX
	st := &State{Plan: c.Plan, Schema: es.Schema(), CancelAt: int64(c.CancelAt)}
	srv := handler.New(es)
	res := HTTPResult{ID: c.ID, Transport: c.Transport}
	wst := transport.Websocket{
		InitTimeout:           ms(x.InitTimeoutMs),
		KeepAlivePingInterval: ms(x.KeepAliveMs),
		PingPongInterval:      ms(x.PingPongMs),
		PongOnlyInterval:      ms(x.PongOnlyMs),
		MissingPongOk:         x.MissingPongOk,
	}
	switch x.InitFunc {
	case "":
	case "derived":
		wst.InitFunc = func(ctx context.Context, p transport.InitPayload) (context.Context, *transport.InitPayload, error) {
			return context.WithValue(ctx, wsxKey{}, 1), nil, nil
		}
	case "detached":
		wst.InitFunc = func(ctx context.Context, p transport.InitPayload) (context.Context, *transport.InitPayload, error) {
			return WithState(context.Background(), st), nil, nil
		}
	case "error":
		wst.InitFunc = func(ctx context.Context, p transport.InitPayload) (context.Context, *transport.InitPayload, error) {
			return nil, nil, fmt.Errorf("refused by InitFunc")
		}
	case "slow":
		wst.InitFunc = func(ctx context.Context, p transport.InitPayload) (context.Context, *transport.InitPayload, error) {
			select {
			case <-time.After(ms(x.InitFuncMs)):
			case <-ctx.Done():
			}
			return ctx, nil, nil
		}
	case "payload":
		wst.InitFunc = func(ctx context.Context, p transport.InitPayload) (context.Context, *transport.InitPayload, error) {
			return ctx, &transport.InitPayload{"ack": "yes"}, nil
		}
	case "deadline":
		wst.InitFunc = func(ctx context.Context, p transport.InitPayload) (context.Context, *transport.InitPayload, error) {
			// the cancel function is kept by nobody, as in gqlgen's own documentation of this use: the timer ends it
			ctx2, _ := context.WithTimeout(ctx, ms(x.InitFuncMs)) //nolint
			return ctx2, nil, nil
		}
	default:
		res.Body = "bad wsx.initFunc " + x.InitFunc
		return res
	}
	if x.Funcs {
		wst.ErrorFunc = func(ctx context.Context, err error) {}
		wst.CloseFunc = func(ctx context.Context, code int) {}
	}
	srv.AddTransport(wst)
	if err := useShipped(srv.Use, c.Shipped); err != nil {
		res.Body = "bad shipped: " + err.Error()
		return res
	}
	srv.SetRecoverFunc(func(ctx context.Context, err any) error {
		st.mu.Lock()
		st.Recov++
		st.mu.Unlock()
		return fmt.Errorf("recovered: %v", err)
	})
	before := gqlgenGoroutines()
	ts := httptest.NewServer(http.HandlerFunc(func(w http.ResponseWriter, r *http.Request) {
		ctx, cancel := context.WithCancel(r.Context())
		defer cancel()
		st.Cancel = cancel
		srv.ServeHTTP(w, r.WithContext(WithState(ctx, st)))
	}))
	to := time.Duration(c.TimeoutMs) * time.Millisecond
	if to == 0 {
		to = 5 * time.Second
	}
	silent := ms(x.SilentMs)
	if silent == 0 {
		silent = 150 * time.Millisecond
	}
	done := make(chan struct{})
	go func() {
		defer close(done)
		sub := "graphql-transport-ws"
		startT, nextT := "subscribe", "next"
		if c.Subproto == "graphql-ws" {
			sub, startT, nextT = "graphql-ws", "start", "data"
		}
		d := websocket.Dialer{Subprotocols: []string{sub}, HandshakeTimeout: to}
		conn, resp, err := d.Dial("ws"+strings.TrimPrefix(ts.URL, "http")+"/", headerOf(c.Headers))
		if err != nil {
			res.Body = "dial: " + err.Error()
			return
		}
		res.Status = resp.StatusCode
		defer conn.Close()
		var out []string
		defer func() {
			b := strings.Join(out, "\n")
			res.BodyLen = len(b)
			if len(b) < 4000 {
				res.Body = b
			}
		}()
		// read one frame: its type, or "" with the reason the reading ended
		read := func(deadline time.Duration) (string, bool) {
			conn.SetReadDeadline(time.Now().Add(deadline))
			for {
				var m map[string]json.RawMessage
				if err := conn.ReadJSON(&m); err != nil {
					if ce, ok := err.(*websocket.CloseError); ok {
						out = append(out, fmt.Sprintf("closed:%d %s", ce.Code, ce.Text))
					} else if ne, ok := err.(interface{ Timeout() bool }); ok && ne.Timeout() {
						out = append(out, "read-deadline")
					} else {
						out = append(out, "read-error")
					}
					return "", false
				}
				var typ string
				json.Unmarshal(m["type"], &typ)
				switch typ {
				case "ka", "pong":
					continue
				case "ping":
					if !x.NoPong {
						conn.WriteJSON(map[string]any{"type": "pong"})
					}
					continue
				}
				out = append(out, typ+":"+string(m["payload"]))
				return typ, true
			}
		}
		// the client stops cooperating
		stop := func(how string) {
			res.Dropped = true
			switch how {
			case "drop":
				conn.UnderlyingConn().Close()
			case "close":
				conn.WriteMessage(websocket.CloseMessage, websocket.FormatCloseMessage(websocket.CloseNormalClosure, ""))
			default: // silent: reads nothing, writes nothing (not even pongs); the server may end the session itself
				conn.SetReadDeadline(time.Now().Add(silent))
				for {
					if _, _, err := conn.ReadMessage(); err != nil {
						if ce, ok := err.(*websocket.CloseError); ok {
							out = append(out, fmt.Sprintf("closed:%d %s", ce.Code, ce.Text))
						}
						break
					}
				}
				conn.UnderlyingConn().Close()
			}
		}
		switch x.ClientInit {
		case "":
			conn.WriteJSON(map[string]any{"type": "connection_init"})
		case "never":
			stop("silent")
			return
		case "late":
			time.Sleep(ms(x.InitDelayMs))
			conn.WriteJSON(map[string]any{"type": "connection_init"})
		case "drop", "close":
			time.Sleep(ms(x.InitDelayMs))
			stop(x.ClientInit)
			return
		case "garbage":
			conn.WriteMessage(websocket.TextMessage, []byte("{"))
		case "other":
			conn.WriteJSON(map[string]any{"id": "1", "type": startT, "payload": map[string]any{"query": c.Query}})
		default:
			out = append(out, "bad wsx.clientInit")
			return
		}
		for {
			typ, ok := read(to)
			if !ok {
				if strings.HasSuffix(out[len(out)-1], "read-deadline") {
					res.Hung = true // the server neither answered the client's first frame nor closed
				}
				res.Dropped = true
				return
			}
			if typ == "connection_ack" {
				break
			}
			if typ == "connection_error" {
				continue // a close follows
			}
		}
		if x.StopAt == "acked" {
			stop(x.StopHow)
			return
		}
		conn.WriteJSON(map[string]any{"id": "1", "type": startT,
			"payload": map[string]any{"query": c.Query, "variables": c.Variables, "operationName": c.OperationName, "extensions": c.Extensions}})
		if x.StopAt == "subscribed" {
			stop(x.StopHow)
			return
		}
		nexts := 0
		for {
			typ, ok := read(to)
			if !ok {
				if strings.HasSuffix(out[len(out)-1], "read-deadline") {
					res.Hung = true
				}
				res.Dropped = true
				return
			}
			if typ == nextT {
				nexts++
				if x.StopAt == "next" && nexts == 1 {
					stop(x.StopHow)
					return
				}
				continue
			}
			if typ == "error" {
				// a recovered panic: an error frame, then a complete frame
				read(300 * time.Millisecond)
				break
			}
			if typ == "complete" {
				break
			}
		}
		if x.StopAt == "completed" {
			stop(x.StopHow)
			return
		}
		if x.IdleMs > 0 {
			// connected, nothing running: only the transport's tickers are at work
			if _, ok := read(ms(x.IdleMs)); !ok && !strings.HasSuffix(out[len(out)-1], "read-deadline") {
				res.Dropped = true
				return
			}
			out = out[:len(out)-1]
		}
		conn.WriteMessage(websocket.CloseMessage, websocket.FormatCloseMessage(websocket.CloseNormalClosure, ""))
	}()
	select {
	case <-done:
	case <-time.After(to + 2*time.Second):
		res.Hung = true
	}
	ts.CloseClientConnections()
	closed := make(chan struct{})
	go func() { ts.Close(); close(closed) }()
	select {
	case <-closed:
	case <-time.After(1500 * time.Millisecond):
		res.Hung = true
	}
	deadline := time.Now().Add(500 * time.Millisecond)
	for {
		res.Leaked = newGoroutines(before, gqlgenGoroutines())
		if len(res.Leaked) == 0 || time.Now().After(deadline) {
			break
		}
		time.Sleep(5 * time.Millisecond)
	}
	st.mu.Lock()
	res.Log = len(st.Log)
	res.Recovers = st.Recov
	st.mu.Unlock()
	return res
}

type wsxKey struct{}
