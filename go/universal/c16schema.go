package universal

import (
	"fmt"
	"sync"

	"github.com/99designs/gqlgen/graphql"
	"github.com/vektah/gqlparser/v2"
	"github.com/vektah/gqlparser/v2/ast"
)

// C16: WHICH schema the generated server serves. `generated.Config{Schema: s}` makes `s` the executable schema
// (validation, variable coercion, introspection) instead of the compiled-in `parsedSchema`.
//
// NewWithSchema is set by a generated package that wants the dimension (a probe's verif_override.go.tmpl):
// it builds the executable schema exactly like VerifNew, with Config.Schema = schema. Servers that do not set
// it answer a case carrying `schemaSDL` (or the -override flag) with a crash line.
var NewWithSchema func(schema *ast.Schema, bind func(stub any, directives any, complexity any)) graphql.ExecutableSchema

var (
	overrideMu    sync.Mutex
	overrideCache = map[string]graphql.ExecutableSchema{}
)

// OverrideES loads `sdl` the way a user of the option does (gqlparser.LoadSchema: prelude + the source) and
// builds the executable schema around it.
func OverrideES(u *U, sdl string) (graphql.ExecutableSchema, error) {
	if NewWithSchema == nil {
		return nil, fmt.Errorf("this server was generated without universal.NewWithSchema")
	}
	overrideMu.Lock()
	defer overrideMu.Unlock()
	if es, ok := overrideCache[sdl]; ok {
		return es, nil
	}
	s, err := gqlparser.LoadSchema(&ast.Source{Name: "override.graphql", Input: sdl})
	if err != nil {
		return nil, fmt.Errorf("override schema does not load: %v", err)
	}
	es := NewWithSchema(s, u.Bind)
	if len(overrideCache) > 64 {
		overrideCache = map[string]graphql.ExecutableSchema{}
	}
	overrideCache[sdl] = es
	return es, nil
}
