package universal

import (
	"bufio"
	"bytes"
	"context"
	"encoding/json"
	"fmt"
	"io"
	"net/http"
	"net/http/httptest"
	"net/url"
	"strings"
	"time"

	"github.com/99designs/gqlgen/graphql"
	"github.com/99designs/gqlgen/graphql/handler"
	"github.com/99designs/gqlgen/graphql/handler/transport"
)

// HTTPCase drives one request through the real handler.Server + transport over a real connection.
type HTTPCase struct {
	Case
	Transport       string `json:"transport"`                 // post | get | sse | multipart
	DisconnectAfter int    `json:"disconnectAfter,omitempty"` // >0: drop the connection after reading this many bytes
	Bare            bool   `json:"bare,omitempty"`            // omit empty keys from the request body
}

type HTTPResult struct {
	ID        string   `json:"id"`
	Transport string   `json:"transport"`
	Status    int      `json:"status"`
	BodyLen   int      `json:"bodyLen"`
	Body      string   `json:"body,omitempty"`
	Dropped   bool     `json:"dropped,omitempty"`
	Hung      bool     `json:"hung,omitempty"`
	Leaked    []string `json:"leaked,omitempty"`
	Log       int      `json:"log"`
	Recovers  int      `json:"recovers"`
}

// RunHTTP serves one case and reports what is still running after the request ended.
func RunHTTP(es graphql.ExecutableSchema, c HTTPCase) HTTPResult {
	st := &State{Plan: c.Plan, Schema: es.Schema(), CancelAt: int64(c.CancelAt)}
	srv := handler.New(es)
	srv.AddTransport(transport.SSE{})
	srv.AddTransport(transport.MultipartMixed{})
	srv.AddTransport(transport.GET{})
	srv.AddTransport(transport.POST{})
	srv.SetRecoverFunc(func(ctx context.Context, err any) error {
		st.mu.Lock()
		st.Recov++
		st.mu.Unlock()
		return fmt.Errorf("recovered: %v", err)
	})
	before := gqlgenGoroutines()
	ts := httptest.NewServer(http.HandlerFunc(func(w http.ResponseWriter, r *http.Request) {
		ctx, cancel := context.WithCancel(r.Context())
		defer cancel()
		st.Cancel = cancel
		srv.ServeHTTP(w, r.WithContext(WithState(ctx, st)))
	}))
	res := HTTPResult{ID: c.ID, Transport: c.Transport}
	bm := map[string]any{"query": c.Query, "variables": c.Variables, "operationName": c.OperationName}
	if c.Bare {
		// only the keys the client has something to say about (what a pooled request struct must not remember)
		bm = map[string]any{"query": c.Query}
		if len(c.Variables) > 0 {
			bm["variables"] = c.Variables
		}
		if c.OperationName != "" {
			bm["operationName"] = c.OperationName
		}
	}
	body, _ := json.Marshal(bm)
	var req *http.Request
	switch c.Transport {
	case "get":
		q := url.Values{"query": {c.Query}}
		if len(c.Variables) > 0 {
			vb, _ := json.Marshal(c.Variables)
			q.Set("variables", string(vb))
		}
		req, _ = http.NewRequest("GET", ts.URL+"/?"+q.Encode(), nil)
	default:
		req, _ = http.NewRequest("POST", ts.URL+"/", bytes.NewReader(body))
		req.Header.Set("Content-Type", "application/json")
	}
	switch c.Transport {
	case "sse":
		req.Header.Set("Accept", "text/event-stream")
	case "multipart":
		req.Header.Set("Accept", "multipart/mixed")
	}
	to := time.Duration(c.TimeoutMs) * time.Millisecond
	if to == 0 {
		to = 5 * time.Second
	}
	cl := &http.Client{Timeout: to}
	done := make(chan struct{})
	go func() {
		defer close(done)
		resp, err := cl.Do(req)
		if err != nil {
			res.Hung = strings.Contains(err.Error(), "Timeout") || strings.Contains(err.Error(), "deadline")
			return
		}
		defer resp.Body.Close()
		res.Status = resp.StatusCode
		rd := bufio.NewReader(resp.Body)
		if c.DisconnectAfter > 0 {
			buf := make([]byte, c.DisconnectAfter)
			n, _ := io.ReadFull(rd, buf)
			res.BodyLen = n
			res.Dropped = true
			return // closing the body drops the connection
		}
		b, err := io.ReadAll(rd)
		res.BodyLen = len(b)
		if len(b) < 4000 {
			res.Body = string(b)
		}
		if err != nil {
			res.Hung = true
		}
	}()
	<-done
	cl.CloseIdleConnections()
	ts.CloseClientConnections()
	// Close blocks until outstanding requests have completed: a handler that never returns must not
	// hang the harness, it is reported as hung
	closed := make(chan struct{})
	go func() { ts.Close(); close(closed) }()
	select {
	case <-closed:
	case <-time.After(1500 * time.Millisecond):
		res.Hung = true
	}
	deadline := time.Now().Add(500 * time.Millisecond)
	for {
		res.Leaked = newGoroutines(before, gqlgenGoroutines())
		if len(res.Leaked) == 0 || time.Now().After(deadline) {
			break
		}
		time.Sleep(5 * time.Millisecond)
	}
	st.mu.Lock()
	res.Log = len(st.Log)
	res.Recovers = st.Recov
	st.mu.Unlock()
	return res
}
