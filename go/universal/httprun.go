package universal

import (
	"bufio"
	"bytes"
	"context"
	"encoding/hex"
	"encoding/json"
	"fmt"
	"io"
	"net/http"
	"net/http/httptest"
	"net/url"
	"strings"
	"time"

	"github.com/gorilla/websocket"

	"github.com/99designs/gqlgen/graphql"
	"github.com/99designs/gqlgen/graphql/handler"
	"github.com/99designs/gqlgen/graphql/handler/transport"
)

// HTTPCase drives one request through the real handler.Server + transport over a real connection.
type HTTPCase struct {
	Case
	Transport       string `json:"transport"`                 // post | get | sse | multipart
	DisconnectAfter int    `json:"disconnectAfter,omitempty"` // >0: drop the connection after reading this many bytes
	Bare            bool   `json:"bare,omitempty"`            // omit empty keys from the request body
	// websocket only: after this many `next` messages the client ends the operation itself
	// ("complete": sends a complete message for the id; "drop": closes the TCP connection without a close frame)
	ClientEnds string `json:"clientEnds,omitempty"`
	AfterNext  int    `json:"afterNext,omitempty"`
	// multipart only: MultipartMixed.DeliveryTimeout (how long incremental payloads are batched), 0 = default
	// websocket only: after the operation ended, start this one on the SAME connection under the SAME id
	Then              string `json:"then,omitempty"`
	// websocket only: Websocket.InitFunc answers with a context that is NOT derived from the request's (a
	// server that builds its per-connection context itself, e.g. after authenticating the init payload)
	DetachedInit bool `json:"detachedInit,omitempty"`
	// websocket only: "graphql-ws" (the legacy subprotocol: start / data / stop / connection_terminate) instead of
	// graphql-transport-ws. clientEnds then also knows "terminate" (connection_terminate while the operation
	// runs) and, for both subprotocols, "dupid" (a second operation under the id that is still running: the server
	// closes the connection itself, 4409)
	Subproto string `json:"subproto,omitempty"`
	DeliveryTimeoutMs int  `json:"deliveryTimeoutMs,omitempty"`
	FullBody          bool `json:"fullBody,omitempty"` // report the body whatever its size
	// C12: report what the transport was handed and the exact bytes it wrote. Record: every response is
	// marshalled (json.Marshal) at the moment the executor returns it (HTTPResult.Produced), the response's
	// Content-Type and the raw body (hex) are reported. KeepAliveUs: SSE.KeepAlivePingInterval in microseconds.
	// DeliveryTimeoutUs: MultipartMixed.DeliveryTimeout in microseconds (added to DeliveryTimeoutMs).
	Record            bool `json:"record,omitempty"`
	KeepAliveUs       int  `json:"keepAliveUs,omitempty"`
	DeliveryTimeoutUs int  `json:"deliveryTimeoutUs,omitempty"`
	// C05, websocket only: the transport's options x a client that stops cooperating at some stage (c05ext.go RunWSX)
	WSX *WSX `json:"wsx,omitempty"`
}

type HTTPResult struct {
	ID        string   `json:"id"`
	Transport string   `json:"transport"`
	Status    int      `json:"status"`
	BodyLen   int      `json:"bodyLen"`
	Body      string   `json:"body,omitempty"`
	Dropped   bool     `json:"dropped,omitempty"`
	Hung      bool     `json:"hung,omitempty"`
	Leaked    []string `json:"leaked,omitempty"`
	Log       int      `json:"log"`
	Recovers  int      `json:"recovers"`
	// only with HTTPCase.Record
	Produced []string `json:"produced,omitempty"` // hex of json.Marshal(response) taken when the executor returned it ("panic": it panicked instead)
	CType    string   `json:"ctype,omitempty"`
	BodyHex  string   `json:"bodyHex,omitempty"`
}

// RunHTTP serves one case and reports what is still running after the request ended.
func RunHTTP(es graphql.ExecutableSchema, c HTTPCase) HTTPResult {
	if c.Transport == "ws" {
		return RunWS(es, c)
	}
	st := &State{Plan: c.Plan, Schema: es.Schema(), CancelAt: int64(c.CancelAt)}
	srv := handler.New(es)
	srv.AddTransport(transport.SSE{KeepAlivePingInterval: time.Duration(c.KeepAliveUs) * time.Microsecond})
	srv.AddTransport(transport.MultipartMixed{DeliveryTimeout: time.Duration(c.DeliveryTimeoutMs)*time.Millisecond + time.Duration(c.DeliveryTimeoutUs)*time.Microsecond})
	srv.AddTransport(transport.GET{})
	srv.AddTransport(transport.POST{})
	if err := useShipped(srv.Use, c.Shipped); err != nil {
		return HTTPResult{ID: c.ID, Transport: c.Transport, Body: "bad shipped: " + err.Error()}
	}
	srv.SetRecoverFunc(func(ctx context.Context, err any) error {
		st.mu.Lock()
		st.Recov++
		st.mu.Unlock()
		if c.RecoverDelayUs > 0 {
			time.Sleep(time.Duration(c.RecoverDelayUs) * time.Microsecond) // a slow (logging) recover hook
		}
		return fmt.Errorf("recovered: %v", err)
	})
	var produced []string
	if c.Record {
		// outermost operation middleware: sees every response the transport is handed (also the one-shot error
		// response of an operation that failed before its first response)
		srv.AroundOperations(func(ctx context.Context, next graphql.OperationHandler) graphql.ResponseHandler {
			rh := next(ctx)
			return func(ctx context.Context) *graphql.Response {
				defer func() {
					if e := recover(); e != nil {
						// the transport turns this into an error response of its own: not recorded here
						st.mu.Lock()
						produced = append(produced, "panic")
						st.mu.Unlock()
						panic(e)
					}
				}()
				r := rh(ctx)
				if r != nil {
					b, err := json.Marshal(r)
					if err != nil {
						b = []byte("MARSHAL-ERROR " + err.Error())
					}
					st.mu.Lock()
					produced = append(produced, hex.EncodeToString(b))
					st.mu.Unlock()
				}
				return r
			}
		})
	}
	before := gqlgenGoroutines()
	ts := httptest.NewServer(http.HandlerFunc(func(w http.ResponseWriter, r *http.Request) {
		ctx, cancel := context.WithCancel(r.Context())
		defer cancel()
		st.Cancel = cancel
		srv.ServeHTTP(w, r.WithContext(WithState(ctx, st)))
	}))
	res := HTTPResult{ID: c.ID, Transport: c.Transport}
	bm := map[string]any{"query": c.Query, "variables": c.Variables, "operationName": c.OperationName}
	if c.Bare {
		// only the keys the client has something to say about (what a pooled request struct must not remember)
		bm = map[string]any{"query": c.Query}
		if len(c.Variables) > 0 {
			bm["variables"] = c.Variables
		}
		if c.OperationName != "" {
			bm["operationName"] = c.OperationName
		}
	}
	if len(c.Extensions) > 0 {
		bm["extensions"] = c.Extensions
	}
	body, _ := json.Marshal(bm)
	var req *http.Request
	switch c.Transport {
	case "get":
		q := url.Values{"query": {c.Query}}
		if len(c.Variables) > 0 {
			vb, _ := json.Marshal(c.Variables)
			q.Set("variables", string(vb))
		}
		if len(c.Extensions) > 0 {
			eb, _ := json.Marshal(c.Extensions)
			q.Set("extensions", string(eb))
		}
		req, _ = http.NewRequest("GET", ts.URL+"/?"+q.Encode(), nil)
	default:
		req, _ = http.NewRequest("POST", ts.URL+"/", bytes.NewReader(body))
		req.Header.Set("Content-Type", "application/json")
	}
	switch c.Transport {
	case "sse":
		req.Header.Set("Accept", "text/event-stream")
	case "multipart":
		req.Header.Set("Accept", "multipart/mixed")
	}
	for k, v := range c.Headers {
		req.Header.Set(k, v)
	}
	to := time.Duration(c.TimeoutMs) * time.Millisecond
	if to == 0 {
		to = 5 * time.Second
	}
	cl := &http.Client{Timeout: to}
	done := make(chan struct{})
	go func() {
		defer close(done)
		resp, err := cl.Do(req)
		if err != nil {
			res.Hung = strings.Contains(err.Error(), "Timeout") || strings.Contains(err.Error(), "deadline")
			return
		}
		defer resp.Body.Close()
		res.Status = resp.StatusCode
		if c.Record {
			res.CType = resp.Header.Get("Content-Type")
		}
		rd := bufio.NewReader(resp.Body)
		if c.DisconnectAfter > 0 {
			buf := make([]byte, c.DisconnectAfter)
			n, _ := io.ReadFull(rd, buf)
			res.BodyLen = n
			res.Dropped = true
			return // closing the body drops the connection
		}
		b, err := io.ReadAll(rd)
		res.BodyLen = len(b)
		if len(b) < 4000 || c.FullBody {
			res.Body = string(b)
		}
		if c.Record {
			res.BodyHex = hex.EncodeToString(b)
		}
		if err != nil {
			res.Hung = true
		}
	}()
	<-done
	cl.CloseIdleConnections()
	ts.CloseClientConnections()
	// Close blocks until outstanding requests have completed: a handler that never returns must not
	// hang the harness, it is reported as hung
	closed := make(chan struct{})
	go func() { ts.Close(); close(closed) }()
	select {
	case <-closed:
	case <-time.After(1500 * time.Millisecond):
		res.Hung = true
	}
	deadline := time.Now().Add(500 * time.Millisecond)
	for {
		res.Leaked = newGoroutines(before, gqlgenGoroutines())
		if len(res.Leaked) == 0 || time.Now().After(deadline) {
			break
		}
		time.Sleep(5 * time.Millisecond)
	}
	st.mu.Lock()
	res.Log = len(st.Log)
	res.Recovers = st.Recov
	res.Produced = produced
	st.mu.Unlock()
	return res
}

// RunWS runs one operation over the graphql-transport-ws websocket transport of the real handler.Server
// (a query or a query with @defer is a legal `subscribe` payload: every payload is a `next`, then `complete`).
func RunWS(es graphql.ExecutableSchema, c HTTPCase) HTTPResult {
	if c.WSX != nil {
		return RunWSX(es, c)
	}
	st := &State{Plan: c.Plan, Schema: es.Schema(), CancelAt: int64(c.CancelAt)}
	srv := handler.New(es)
	wst := transport.Websocket{}
	if c.DetachedInit {
		wst.InitFunc = func(ctx context.Context, p transport.InitPayload) (context.Context, *transport.InitPayload, error) {
			return WithState(context.Background(), st), &p, nil
		}
	}
	srv.AddTransport(wst)
	if err := useShipped(srv.Use, c.Shipped); err != nil {
		return HTTPResult{ID: c.ID, Transport: c.Transport, Body: "bad shipped: " + err.Error()}
	}
	srv.SetRecoverFunc(func(ctx context.Context, err any) error {
		st.mu.Lock()
		st.Recov++
		st.mu.Unlock()
		return fmt.Errorf("recovered: %v", err)
	})
	before := gqlgenGoroutines()
	ts := httptest.NewServer(http.HandlerFunc(func(w http.ResponseWriter, r *http.Request) {
		ctx, cancel := context.WithCancel(r.Context())
		defer cancel()
		st.Cancel = cancel
		srv.ServeHTTP(w, r.WithContext(WithState(ctx, st)))
	}))
	res := HTTPResult{ID: c.ID, Transport: c.Transport}
	to := time.Duration(c.TimeoutMs) * time.Millisecond
	if to == 0 {
		to = 5 * time.Second
	}
	done := make(chan struct{})
	go func() {
		defer close(done)
		sub := "graphql-transport-ws"
		startT, nextT := "subscribe", "next"
		if c.Subproto == "graphql-ws" {
			sub, startT, nextT = "graphql-ws", "start", "data"
		}
		d := websocket.Dialer{Subprotocols: []string{sub}, HandshakeTimeout: to}
		conn, resp, err := d.Dial("ws"+strings.TrimPrefix(ts.URL, "http")+"/", headerOf(c.Headers))
		if err != nil {
			res.Body = "dial: " + err.Error()
			return
		}
		res.Status = resp.StatusCode
		defer conn.Close()
		conn.SetReadDeadline(time.Now().Add(to))
		conn.WriteJSON(map[string]any{"type": "connection_init"})
		var ack map[string]any
		if err := conn.ReadJSON(&ack); err != nil || ack["type"] != "connection_ack" {
			res.Body = fmt.Sprintf("no ack: %v %v", ack, err)
			return
		}
		conn.WriteJSON(map[string]any{"id": "1", "type": startT,
			"payload": map[string]any{"query": c.Query, "variables": c.Variables, "operationName": c.OperationName}})
		if c.ClientEnds == "dupid" && c.AfterNext == 0 {
			conn.WriteJSON(map[string]any{"id": "1", "type": startT, "payload": map[string]any{"query": c.Query, "variables": c.Variables}})
		}
		if c.ClientEnds == "terminate" && c.AfterNext == 0 {
			conn.WriteJSON(map[string]any{"type": "connection_terminate"})
		}
		var out []string
		nexts := 0
		for {
			var m map[string]json.RawMessage
			if err := conn.ReadJSON(&m); err != nil {
				// the server closed (cancellation) or the deadline passed
				if ne, ok := err.(interface{ Timeout() bool }); ok && ne.Timeout() {
					res.Hung = true
				}
				res.Dropped = true
				break
			}
			var typ string
			json.Unmarshal(m["type"], &typ)
			out = append(out, typ+":"+string(m["payload"]))
			if typ == "error" {
				// gqlgen follows the error frame of a recovered panic with a complete frame: take it if it comes
				conn.SetReadDeadline(time.Now().Add(300 * time.Millisecond))
				var m2 map[string]json.RawMessage
				if err := conn.ReadJSON(&m2); err == nil {
					var t2 string
					json.Unmarshal(m2["type"], &t2)
					out = append(out, t2+":"+string(m2["payload"]))
				} else if _, ok := err.(*websocket.CloseError); ok {
					res.Dropped = true
				}
				conn.SetReadDeadline(time.Now().Add(to))
				break
			}
			if typ == "complete" {
				break
			}
			if typ == "ka" {
				out = out[:len(out)-1]
				continue
			}
			if typ == nextT {
				nexts++
				if (c.ClientEnds == "dupid" || c.ClientEnds == "terminate") && c.AfterNext > 0 && nexts == c.AfterNext {
					if c.ClientEnds == "dupid" {
						conn.WriteJSON(map[string]any{"id": "1", "type": startT, "payload": map[string]any{"query": c.Query, "variables": c.Variables}})
					} else {
						conn.WriteJSON(map[string]any{"type": "connection_terminate"})
					}
					continue // the server ends the connection itself; keep reading until it does
				}
				if c.ClientEnds != "" && c.ClientEnds != "dupid" && c.ClientEnds != "terminate" && nexts >= c.AfterNext {
					if c.ClientEnds == "complete" {
						stopT := "complete"
						if c.Subproto == "graphql-ws" {
							stopT = "stop"
						}
						conn.WriteJSON(map[string]any{"id": "1", "type": stopT})
						// the server may still have sent frames; an orderly close follows
						conn.WriteMessage(websocket.CloseMessage, websocket.FormatCloseMessage(websocket.CloseNormalClosure, ""))
					} else {
						conn.UnderlyingConn().Close()
					}
					res.Dropped = true
					break
				}
			}
		}
		if c.Then != "" && !res.Dropped {
			// the id is free again once the operation has ended, however it ended
			conn.WriteJSON(map[string]any{"id": "1", "type": "subscribe", "payload": map[string]any{"query": c.Then}})
			out = append(out, "--then--")
			for {
				var m map[string]json.RawMessage
				if err := conn.ReadJSON(&m); err != nil {
					if ce, ok := err.(*websocket.CloseError); ok {
						out = append(out, fmt.Sprintf("closed:%d %s", ce.Code, ce.Text))
					} else {
						out = append(out, "read-error:"+err.Error())
					}
					res.Dropped = true
					break
				}
				var typ string
				json.Unmarshal(m["type"], &typ)
				out = append(out, typ+":"+string(m["payload"]))
				if typ == "complete" || typ == "error" || typ == "connection_error" {
					break
				}
			}
		}
		b := strings.Join(out, "\n")
		res.BodyLen = len(b)
		if len(b) < 4000 {
			res.Body = b
		}
		if !res.Dropped {
			conn.WriteMessage(websocket.CloseMessage, websocket.FormatCloseMessage(websocket.CloseNormalClosure, ""))
		}
	}()
	select {
	case <-done:
	case <-time.After(to + time.Second):
		res.Hung = true
	}
	ts.CloseClientConnections()
	closed := make(chan struct{})
	go func() { ts.Close(); close(closed) }()
	select {
	case <-closed:
	case <-time.After(1500 * time.Millisecond):
		res.Hung = true
	}
	deadline := time.Now().Add(500 * time.Millisecond)
	for {
		res.Leaked = newGoroutines(before, gqlgenGoroutines())
		if len(res.Leaked) == 0 || time.Now().After(deadline) {
			break
		}
		time.Sleep(5 * time.Millisecond)
	}
	st.mu.Lock()
	res.Log = len(st.Log)
	res.Recovers = st.Recov
	st.mu.Unlock()
	return res
}
