package universal

import (
	"context"
	"encoding/json"
	"reflect"
	"sort"
	"strconv"
	"strings"

	"github.com/99designs/gqlgen/graphql"
	"github.com/vektah/gqlparser/v2/ast"
)

// C02 (input coercion): the input side of a generated server's schema — input types with their field
// defaults and directives, enums, scalars, every field argument — together with the Go type shapes the
// generated code actually uses (by reflection over stubgen's resolver signatures and the generated input
// structs), for the Lean coercion model.

type C02Lit struct {
	K string    `json:"k"` // int | float | str | bool | null | enum | list | obj | var
	T string    `json:"t,omitempty"`
	S string    `json:"s,omitempty"`
	B bool      `json:"b,omitempty"`
	L []C02Lit  `json:"l,omitempty"`
	F []C02LitF `json:"f,omitempty"`
}
type C02LitF struct {
	N string `json:"n"`
	V C02Lit `json:"v"`
}

type C02Field struct {
	Name    string    `json:"name"`
	GoName  string    `json:"goName,omitempty"`
	Type    *TypeRefJ `json:"type"`
	Default *C02Lit   `json:"default,omitempty"`
	Dir     bool      `json:"dir"`
	Shape   string    `json:"shape,omitempty"` // Go type by reflection ("" when not observable: map-backed inputs)
}
type C02Type struct {
	Name   string     `json:"name"`
	Kind   string     `json:"kind"` // scalar | enum | input
	IsMap  bool       `json:"isMap"`
	Values []string   `json:"values,omitempty"`
	Fields []C02Field `json:"fields,omitempty"`
}
type C02Resolver struct {
	Obj  string     `json:"obj"`
	Name string     `json:"name"`
	List int        `json:"list"` // list depth of the field's own type (0 for Boolean)
	Args []C02Field `json:"args"`
	// a field bound to a METHOD of a hand-written model (no resolver): by reflection over the model type
	Bound       string   `json:"bound,omitempty"`       // "method"
	GoMethod    string   `json:"goMethod,omitempty"`    // the method's Go name
	HasCtx      bool     `json:"hasCtx,omitempty"`      // first parameter is a context.Context
	Variadic    bool     `json:"variadic,omitempty"`    // the last parameter is variadic
	ParamShapes []string `json:"paramShapes,omitempty"` // Go shapes of the parameters after the context, in declaration order
}
type C02SchemaJSON struct {
	Types  []C02Type     `json:"types"`
	Fields []C02Resolver `json:"fields"`
}

func C02LitOf(v *ast.Value) *C02Lit {
	if v == nil {
		return nil
	}
	switch v.Kind {
	case ast.Variable:
		return &C02Lit{K: "var", S: v.Raw}
	case ast.IntValue:
		return &C02Lit{K: "int", T: v.Raw}
	case ast.FloatValue:
		return &C02Lit{K: "float", T: v.Raw}
	case ast.StringValue, ast.BlockValue:
		return &C02Lit{K: "str", S: v.Raw}
	case ast.BooleanValue:
		return &C02Lit{K: "bool", B: v.Raw == "true"}
	case ast.NullValue:
		return &C02Lit{K: "null"}
	case ast.EnumValue:
		return &C02Lit{K: "enum", S: v.Raw}
	case ast.ListValue:
		l := &C02Lit{K: "list", L: []C02Lit{}}
		for _, c := range v.Children {
			l.L = append(l.L, *C02LitOf(c.Value))
		}
		return l
	default:
		o := &C02Lit{K: "obj", F: []C02LitF{}}
		for _, c := range v.Children {
			o.F = append(o.F, C02LitF{N: c.Name, V: *C02LitOf(c.Value)})
		}
		return o
	}
}

// C02Shape renders a Go type the way Model/Coerce.lean `renderShape` does.
func C02Shape(t reflect.Type) string {
	switch t.Kind() {
	case reflect.Ptr:
		return "ptr(" + C02Shape(t.Elem()) + ")"
	case reflect.Slice:
		return "slice(" + C02Shape(t.Elem()) + ")"
	case reflect.Map:
		return "map"
	case reflect.Interface:
		return "any"
	case reflect.Struct:
		if strings.HasPrefix(t.Name(), "Omittable[") {
			v, _ := t.MethodByName("Value")
			return "omit(" + C02Shape(v.Type.Out(0)) + ")"
		}
		return "struct:" + t.Name()
	case reflect.String:
		if t.PkgPath() != "" {
			return "enum:" + t.Name()
		}
		return "string"
	default:
		return t.Kind().String()
	}
}

func collectStructs(t reflect.Type, out map[string]reflect.Type) {
	switch t.Kind() {
	case reflect.Ptr, reflect.Slice:
		collectStructs(t.Elem(), out)
	case reflect.Struct:
		if strings.HasPrefix(t.Name(), "Omittable[") {
			v, _ := t.MethodByName("Value")
			collectStructs(v.Type.Out(0), out)
			return
		}
		if _, ok := out[t.Name()]; ok {
			return
		}
		out[t.Name()] = t
		for i := 0; i < t.NumField(); i++ {
			collectStructs(t.Field(i).Type, out)
		}
	}
}

func hasDir(dl ast.DirectiveList) bool {
	for _, d := range dl {
		if d.Name != "deprecated" {
			return true
		}
	}
	return false
}

func listDepth(t *ast.Type) int {
	if t.Elem == nil {
		return 0
	}
	return 1 + listDepth(t.Elem)
}

func C02Schema(s *ast.Schema, stub reflect.Type, models ...map[string]reflect.Type) C02SchemaJSON {
	out := C02SchemaJSON{}
	ctxType := reflect.TypeOf((*context.Context)(nil)).Elem()
	// resolver signatures: obj -> lower(goField) -> func type
	sigs := map[string]map[string]reflect.Type{}
	structs := map[string]reflect.Type{}
	if stub != nil {
		for i := 0; i < stub.NumField(); i++ {
			rs := stub.Field(i)
			if rs.Type.Kind() != reflect.Struct {
				continue
			}
			obj := strings.TrimSuffix(rs.Name, "Resolver")
			sigs[obj] = map[string]reflect.Type{}
			for j := 0; j < rs.Type.NumField(); j++ {
				f := rs.Type.Field(j)
				if f.Type.Kind() != reflect.Func {
					continue
				}
				sigs[obj][strings.ToLower(f.Name)] = f.Type
				for k := 1; k < f.Type.NumIn(); k++ {
					collectStructs(f.Type.In(k), structs)
				}
			}
		}
	}
	if len(models) > 0 {
		// input structs that only occur as parameters of methods of hand-written models
		for n, mt := range models[0] {
			if d := s.Types[n]; d == nil || d.Kind != ast.Object || sigs[n] != nil {
				continue
			}
			pt := reflect.PointerTo(mt)
			for i := 0; i < pt.NumMethod(); i++ {
				for k := 1; k < pt.Method(i).Type.NumIn(); k++ {
					collectStructs(pt.Method(i).Type.In(k), structs)
				}
			}
		}
	}
	var names []string
	for n := range s.Types {
		names = append(names, n)
	}
	sort.Strings(names)
	for _, n := range names {
		d := s.Types[n]
		if strings.HasPrefix(n, "__") {
			continue
		}
		switch d.Kind {
		case ast.Scalar:
			out.Types = append(out.Types, C02Type{Name: n, Kind: "scalar"})
		case ast.Enum:
			t := C02Type{Name: n, Kind: "enum"}
			for _, v := range d.EnumValues {
				t.Values = append(t.Values, v.Name)
			}
			out.Types = append(out.Types, t)
		case ast.InputObject:
			t := C02Type{Name: n, Kind: "input"}
			st, isStruct := structs[n]
			t.IsMap = !isStruct
			for _, f := range d.Fields {
				cf := C02Field{Name: f.Name, Type: typeRef(f.Type), Default: C02LitOf(f.DefaultValue), Dir: hasDir(f.Directives)}
				if isStruct {
					for i := 0; i < st.NumField(); i++ {
						tag := strings.Split(st.Field(i).Tag.Get("json"), ",")[0]
						if tag == f.Name {
							cf.GoName = st.Field(i).Name
							cf.Shape = C02Shape(st.Field(i).Type)
						}
					}
				}
				t.Fields = append(t.Fields, cf)
			}
			out.Types = append(out.Types, t)
		case ast.Object:
			for _, f := range d.Fields {
				if strings.HasPrefix(f.Name, "__") {
					continue
				}
				r := C02Resolver{Obj: n, Name: f.Name, List: listDepth(f.Type), Args: []C02Field{}}
				ft, ok := sigs[n][strings.ToLower(f.Name)]
				if _, isRes := sigs[n]; !isRes && len(models) > 0 && models[0][n] != nil {
					// not a resolver: a method of the hand-written model the type is bound to?
					pt := reflect.PointerTo(models[0][n])
					for i := 0; i < pt.NumMethod(); i++ {
						m := pt.Method(i)
						if !strings.EqualFold(m.Name, f.Name) {
							continue
						}
						r.Bound, r.GoMethod, r.Variadic = "method", m.Name, m.Type.IsVariadic()
						r.ParamShapes = []string{}
						for k := 1; k < m.Type.NumIn(); k++ { // In(0) is the receiver
							if k == 1 && m.Type.In(k) == ctxType {
								r.HasCtx = true
								continue
							}
							r.ParamShapes = append(r.ParamShapes, C02Shape(m.Type.In(k)))
						}
					}
				}
				first := 1
				if n != "Query" && n != "Mutation" && n != "Subscription" {
					first = 2
				}
				for i, a := range f.Arguments {
					ca := C02Field{Name: a.Name, Type: typeRef(a.Type), Default: C02LitOf(a.DefaultValue), Dir: hasDir(a.Directives)}
					if ok && first+i < ft.NumIn() {
						ca.Shape = C02Shape(ft.In(first + i))
					} else {
						ca.Shape = "?" + strconv.Itoa(i)
					}
					r.Args = append(r.Args, ca)
				}
				out.Fields = append(out.Fields, r)
			}
		}
	}
	return out
}

// C02Recv is the body of a hand-written model method bound to a field WITH ARGUMENTS (probes coerce / coercemt):
// the method passes the values its parameters received, listed in the schema's argument order; they are rendered
// like the universal resolver renders a resolver's arguments and the rendering is the field's value. With a
// context (a method declared with one) the invocation is also logged like a resolver invocation.
func C02Recv(ctx context.Context, vals ...any) string {
	parts := make([]string, 0, len(vals))
	for _, v := range vals {
		parts = append(parts, RenderArg(reflect.ValueOf(v)))
	}
	out := strings.Join(parts, ", ")
	if ctx != nil {
		if s := GetState(ctx); s != nil {
			fc := graphql.GetFieldContext(ctx)
			b, _ := json.Marshal(out)
			inv := Inv{Path: PathString(fc.Path()), Hook: "resolver", Obj: fc.Object, Field: fc.Field.Name, Start: s.tick(),
				Kind: "value", Val: &V{K: "leaf", Text: string(b)}, Args: out}
			s.record(inv)
		}
	}
	return out
}
