package universal

import (
	"bufio"
	"bytes"
	"context"
	"encoding/json"
	"flag"
	"fmt"
	"os"
	"reflect"
	"regexp"
	"runtime"
	"sort"
	"strings"
	"sync"
	"time"

	"github.com/99designs/gqlgen/graphql"
	"github.com/99designs/gqlgen/graphql/executor"
	"github.com/vektah/gqlparser/v2/ast"
	"github.com/vektah/gqlparser/v2/gqlerror"
)

// Case is one line of input to a generated server's runner.
type Case struct {
	ID            string         `json:"id"`
	Query         string         `json:"query"`
	OperationName string         `json:"operationName,omitempty"`
	Variables     map[string]any `json:"variables,omitempty"`
	Plan          Plan           `json:"plan"`
	CancelAt      int            `json:"cancelAt,omitempty"`  // cancel the request context when the logical clock reaches this value (0 = never)
	TimeoutMs     int            `json:"timeoutMs,omitempty"` // watchdog for the whole case
	VarsJSON      string         `json:"varsJSON,omitempty"`  // C02: variables as JSON text, decoded like the HTTP transports do (json.Decoder.UseNumber); overrides Variables
	Introspection bool           `json:"introspection,omitempty"`
	MaxPayloads   int            `json:"maxPayloads,omitempty"` // >0: call the response function only this many times (1 = single-response transports)
	LeakCheck     bool           `json:"leakCheck,omitempty"` // after the case: cancel, wait, and report surviving goroutines
	Around        bool           `json:"around,omitempty"`     // install the universal field interceptor (universal.Around)
	DefaultRecover bool          `json:"defaultRecover,omitempty"` // keep gqlgen's graphql.DefaultRecover (panics answer "internal system error"; recovers are not counted)
	RecoverDelayUs int           `json:"recoverDelayUs,omitempty"` // the installed recover func sleeps this long before it returns (a slow logging hook)
	Exts          []ExtSpec      `json:"exts,omitempty"`       // C16: handler extensions to register, in this order (c16ext.go)
	Extensions    map[string]any `json:"extensions,omitempty"` // the request's `extensions` (RawParams.Extensions)
	SchemaSDL     string         `json:"schemaSDL,omitempty"`  // C16: run this case on a server built with Config.Schema = this SDL (c16schema.go)
	// C05: gqlgen's own (shipped) handler extensions to install, by name (c05ext.go shippedExt), and the request's
	// HTTP headers (some extensions are switched on per request by a header)
	Shipped []string          `json:"shipped,omitempty"`
	Headers map[string]string `json:"headers,omitempty"`
}

type ErrOut struct {
	Message string `json:"message"`
	Path    string `json:"path"`
}

type Payload struct {
	Data    json.RawMessage `json:"data"`
	Errors  []ErrOut        `json:"errors"`
	Label   string          `json:"label,omitempty"`
	Path    string          `json:"path,omitempty"`
	HasNext *bool           `json:"hasNext,omitempty"`
	ExtKeys []string        `json:"extKeys,omitempty"` // keys of the payload's `extensions`
}

// Result is one line of output.
type Result struct {
	ID        string          `json:"id"`
	Query     string          `json:"query"`
	Variables map[string]any  `json:"variables,omitempty"`
	OpName    string          `json:"operationName,omitempty"`
	Doc       *DocJSON        `json:"doc,omitempty"`
	GateErr   []ErrOut        `json:"gateErrors,omitempty"` // rejected before execution
	Payloads  []Payload       `json:"payloads"`
	Log       []Inv           `json:"log"`
	Recovers  int             `json:"recovers"`
	Hung      bool            `json:"hung,omitempty"`
	Leaked    []string        `json:"leaked,omitempty"` // goroutines of gqlgen / generated code still alive after the request ended and its context was cancelled
	Cancelled bool            `json:"cancelled,omitempty"`
	Crash     string          `json:"crash,omitempty"`
	VarsVia   string          `json:"varsVia,omitempty"` // C02: the transport that decoded varsJSON (get | post)
	Plan      json.RawMessage `json:"plan,omitempty"`
	Plain     *Result         `json:"plain,omitempty"` // the same operation with every @defer removed (C13)
	Fault     string          `json:"fault,omitempty"`
	FaultKind string          `json:"faultKind,omitempty"`
	Event     int             `json:"event,omitempty"` // subscriptions: which event this (split) result is
	Unended   bool            `json:"unended,omitempty"` // subscriptions: the response function was still answering after subPayloadCap calls
	Around    bool            `json:"around,omitempty"`
	DefaultRecover bool       `json:"defaultRecover,omitempty"`
}

// subPayloadCap bounds how often the runner asks a subscription for its next response (the universal resolver's
// streams deliver at most a few events; a response function that never returns nil would spin forever)
const subPayloadCap = 40

// SplitEvents turns the result of a subscription into one result per delivered event: the event's
// payload, the invocations made while it was delivered, and - in place of the stream resolver's own
// invocation - a resolver invocation at the root field's path yielding the event's value. Each is then an
// ordinary single execution of the root selection set (GraphQL spec 6.2.3.2 ExecuteSubscriptionEvent).
// A subscription that failed before its first event (resolver error / panic) is returned unsplit.
func SplitEvents(r Result) []Result {
	var stream *Inv
	for i := range r.Log {
		if r.Log[i].Kind == "stream" {
			stream = &r.Log[i]
		}
	}
	if stream == nil {
		return []Result{r}
	}
	var out []Result
	for k, p := range r.Payloads {
		e := r
		e.ID = fmt.Sprintf("%s/ev%d", r.ID, k)
		e.Event = k
		e.Payloads = []Payload{p}
		e.Log = nil
		e.Recovers = 0
		for _, inv := range r.Log {
			if inv.Kind == "stream" {
				if k < len(inv.Events) {
					v := inv.Events[k]
					e.Log = append(e.Log, Inv{Path: inv.Path, Hook: "resolver", Obj: inv.Obj, Field: inv.Field, Kind: "value", Val: &v, Start: inv.Start, End: inv.End})
				}
				continue
			}
			if inv.Event == k || inv.Event == -1 {
				if inv.Kind == "panic" && inv.Event == k {
					e.Recovers++
				}
				e.Log = append(e.Log, inv)
			}
		}
		out = append(out, e)
	}
	if len(out) == 0 {
		return []Result{r}
	}
	return out
}

func errsOut(l gqlerror.List) []ErrOut {
	out := []ErrOut{}
	for _, e := range l {
		out = append(out, ErrOut{Message: e.Message, Path: PathString(e.Path)})
	}
	return out
}

// presentedOut is errsOut for the errors of executed payloads: the server's error presenter (installed by
// RunCase) marks every error it presents; an error that reaches a payload unmarked did not pass through it
func presentedOut(l gqlerror.List) []ErrOut {
	out := []ErrOut{}
	for _, e := range l {
		m := e.Message
		if e.Extensions == nil || e.Extensions["presented"] != true {
			m = "NOT PRESENTED BY THE SERVER'S ERROR PRESENTER: " + m
		}
		out = append(out, ErrOut{Message: m, Path: PathString(e.Path)})
	}
	return out
}

// RunCase executes one case through graphql/executor against the generated schema.
func RunCase(es graphql.ExecutableSchema, c Case) Result {
	varsVia := ""
	if c.VarsJSON != "" {
		// what the executor gets is what gqlgen's own GET / POST transport makes of the JSON text (varsvia.go)
		varsVia = varsViaFor(c.ID)
		vars, err := decodeVia(es, varsVia, c.Query, c.OperationName, c.VarsJSON)
		if err != nil {
			return Result{ID: c.ID, Query: c.Query, Payloads: []Payload{}, Crash: "bad varsJSON: " + err.Error(), VarsVia: varsVia}
		}
		c.Variables = vars
	}
	st := &State{Plan: c.Plan, Schema: es.Schema(), CancelAt: int64(c.CancelAt)}
	res := Result{ID: c.ID, Query: c.Query, Variables: c.Variables, OpName: c.OperationName, Payloads: []Payload{}, VarsVia: varsVia}
	ex := executor.New(es)
	var rmu sync.Mutex
	if !c.DefaultRecover {
		ex.SetRecoverFunc(func(ctx context.Context, err any) error {
			rmu.Lock()
			st.Recov++
			rmu.Unlock()
			if c.RecoverDelayUs > 0 {
				time.Sleep(time.Duration(c.RecoverDelayUs) * time.Microsecond)
			}
			return fmt.Errorf("recovered: %v", err)
		})
	}
	res.DefaultRecover = c.DefaultRecover
	if c.Introspection {
		ex.Use(introspectionOn{})
	}
	// a configured error presenter: every error of every payload (initial and deferred) goes through it
	ex.SetErrorPresenter(func(ctx context.Context, err error) *gqlerror.Error {
		e := graphql.DefaultErrorPresenter(ctx, err)
		if e.Extensions == nil {
			e.Extensions = map[string]any{}
		}
		e.Extensions["presented"] = true
		return e
	})
	if c.Around {
		ex.AroundFields(Around)
		res.Around = true
	}
	if err := useExts(ex, c.Exts); err != nil {
		return Result{ID: c.ID, Query: c.Query, Payloads: []Payload{}, Crash: "bad exts: " + err.Error()}
	}
	if err := useShipped(ex.Use, c.Shipped); err != nil {
		return Result{ID: c.ID, Query: c.Query, Payloads: []Payload{}, Crash: "bad shipped: " + err.Error()}
	}
	base, cancel := context.WithCancel(context.Background())
	defer cancel()
	st.Cancel = cancel
	before := gqlgenGoroutines()
	ctx := WithState(graphql.StartOperationTrace(base), st)
	done := make(chan struct{})
	go func() {
		defer close(done)
		defer func() {
			if r := recover(); r != nil {
				res.Crash = fmt.Sprint(r)
			}
		}()
		rc, errs := ex.CreateOperationContext(ctx, &graphql.RawParams{Query: c.Query, OperationName: c.OperationName, Variables: c.Variables, Extensions: c.Extensions, Headers: headerOf(c.Headers)})
		if errs != nil {
			res.GateErr = errsOut(errs)
			if rc != nil && rc.Doc != nil {
				res.Doc = nil
			}
			return
		}
		res.Doc = DocToJSON(rc.Doc, rc.Operation)
		res.Variables = rc.Variables
		// the coerced variables are shared by every field of the operation (fields resolve concurrently): nothing
		// may write to them while the operation executes
		varsBefore, _ := json.Marshal(rc.Variables)
		defer func() {
			if varsAfter, _ := json.Marshal(rc.Variables); !bytes.Equal(varsBefore, varsAfter) && res.Crash == "" {
				res.Crash = fmt.Sprintf("the operation's variables were written during execution: before %s, after %s",
					truncate(string(varsBefore), 300), truncate(string(varsAfter), 300))
			}
		}()
		isSub := rc.Operation != nil && rc.Operation.Operation == ast.Subscription
		if isSub {
			st.mu.Lock()
			st.Event = -1
			st.mu.Unlock()
		}
		handler, hctx := ex.DispatchOperation(ctx, rc)
		var held []json.RawMessage
		for k := 0; ; k++ {
			if isSub {
				st.mu.Lock()
				st.Event = k
				st.mu.Unlock()
			}
			resp := handler(hctx)
			if resp == nil {
				break
			}
			// the generated response function reuses one buffer for every event of a subscription
			p := Payload{Data: append(json.RawMessage(nil), resp.Data...), Errors: presentedOut(resp.Errors), Label: resp.Label, Path: PathString(resp.Path), HasNext: resp.HasNext}
			if resp.Data == nil {
				p.Data = nil
			}
			for k := range resp.Extensions {
				p.ExtKeys = append(p.ExtKeys, k)
			}
			sort.Strings(p.ExtKeys)
			res.Payloads = append(res.Payloads, p)
			if !isSub {
				// the payloads of one query (initial + deferred groups) are held by transports that batch them: what
				// was returned must not change when the next payload is produced (subscription events are written
				// out one at a time and do share a buffer)
				held = append(held, resp.Data)
				for hi, hd := range held[:len(held)-1] {
					if !bytes.Equal(hd, res.Payloads[hi].Data) && res.Crash == "" {
						res.Crash = fmt.Sprintf("payload %d changed after it was returned, while payload %d was produced: now %q, was %q",
							hi, len(held)-1, truncate(string(hd), 200), truncate(string(res.Payloads[hi].Data), 200))
					}
				}
			}
			if !isSub && (resp.HasNext == nil || !*resp.HasNext) {
				break
			}
			if c.MaxPayloads > 0 && len(res.Payloads) >= c.MaxPayloads {
				break
			}
			if isSub && c.MaxPayloads == 0 && len(res.Payloads) >= subPayloadCap {
				// a stream of the universal resolver has a handful of events: this one does not end
				res.Unended = true
				break
			}
		}
	}()
	to := time.Duration(c.TimeoutMs) * time.Millisecond
	if to == 0 {
		to = 10 * time.Second
	}
	select {
	case <-done:
	case <-time.After(to):
		res.Hung = true
	}
	if c.LeakCheck {
		// the request has ended: cancel its context and give every goroutine started on its behalf
		// a grace period to finish
		cancel()
		deadline := time.Now().Add(400 * time.Millisecond)
		for {
			res.Leaked = newGoroutines(before, gqlgenGoroutines())
			if len(res.Leaked) == 0 || time.Now().After(deadline) {
				break
			}
			time.Sleep(5 * time.Millisecond)
		}
	}
	for i := range res.Payloads {
		// the result line itself is JSON: a payload whose data is not one JSON text is reported, not embedded
		if d := res.Payloads[i].Data; d != nil && !json.Valid(d) {
			if res.Crash == "" {
				res.Crash = fmt.Sprintf("payload %d: data is not a JSON text: %q", i, truncate(string(d), 300))
			}
			res.Payloads[i].Data = json.RawMessage("null")
		}
	}
	st.mu.Lock()
	res.Cancelled = st.Cancelled
	res.Log = append([]Inv{}, st.Log...)
	res.Recovers = st.Recov
	st.mu.Unlock()
	sort.SliceStable(res.Log, func(i, j int) bool { return res.Log[i].Start < res.Log[j].Start })
	return res
}

// rootKeys returns the response keys of the root object in the order they were written.
func rootKeys(r Result) []string {
	if len(r.Payloads) == 0 || len(r.Payloads[0].Data) == 0 {
		return nil
	}
	dec := json.NewDecoder(bytes.NewReader(r.Payloads[0].Data))
	var keys []string
	depth := 0
	expectKey := false
	for {
		t, err := dec.Token()
		if err != nil {
			return keys
		}
		switch v := t.(type) {
		case json.Delim:
			if v == '{' || v == '[' {
				depth++
				expectKey = v == '{' && depth == 1
			} else {
				depth--
				expectKey = depth == 1
			}
		case string:
			if depth == 1 && expectKey {
				keys = append(keys, v)
				expectKey = false
				continue
			}
			if depth == 1 {
				expectKey = true
			}
		default:
			if depth == 1 {
				expectKey = true
			}
		}
	}
}

var deferRe = regexp.MustCompile(`\s*@defer(\([^)]*\))?`)
var varRe = regexp.MustCompile(`\$[A-Za-z0-9_]+`)

// StripDefer removes every @defer from the document. Variables that were used only by a @defer stay
// "used" through an inline fragment that is excluded for every value of the variable
// (`@skip(if: $v) @include(if: $v)`), so validation still passes and the result is unchanged.
func StripDefer(q string) string {
	open := strings.Index(q, "{")
	if open < 0 {
		return q
	}
	hdr := q[:open]
	body := deferRe.ReplaceAllString(q[open:], "")
	var keep strings.Builder
	seen := map[string]bool{}
	for _, v := range varRe.FindAllString(hdr, -1) {
		if !seen[v] {
			seen[v] = true
			fmt.Fprintf(&keep, " ... @skip(if: %s) @include(if: %s) { __typename }", v, v)
		}
	}
	return hdr + "{" + keep.String() + body[1:]
}

// gqlgenGoroutines returns the stacks of goroutines that are executing gqlgen runtime or generated code
// (identified by frames in github.com/99designs/gqlgen/graphql, .../codegen or verifharness/genout),
// keyed by goroutine id.
func gqlgenGoroutines() map[string]string {
	buf := make([]byte, 1<<22)
	n := runtime.Stack(buf, true)
	out := map[string]string{}
	for _, g := range strings.Split(string(buf[:n]), "\n\n") {
		if !strings.HasPrefix(g, "goroutine ") {
			continue
		}
		id := strings.Fields(g)[1]
		if strings.Contains(g, "universal.RunCase(") && !strings.Contains(g, "RunCase.func") {
			continue // the runner's own calling goroutine
		}
		if strings.Contains(g, "verifharness/genout/") || strings.Contains(g, "gqlgen/graphql.") ||
			strings.Contains(g, "gqlgen/graphql/") {
			out[id] = g
		}
	}
	return out
}

func newGoroutines(before, after map[string]string) []string {
	var out []string
	for id, g := range after {
		if _, ok := before[id]; ok {
			continue
		}
		// keep the top frames only
		lines := strings.Split(g, "\n")
		if len(lines) > 7 {
			lines = lines[:7]
		}
		out = append(out, strings.Join(lines, " | "))
	}
	sort.Strings(out)
	return out
}

type introspectionOn struct{}

func (introspectionOn) ExtensionName() string                          { return "VerifIntrospection" }
func (introspectionOn) Validate(schema graphql.ExecutableSchema) error { return nil }
func (introspectionOn) MutateOperationContext(ctx context.Context, rc *graphql.OperationContext) *gqlerror.Error {
	rc.DisableIntrospection = false
	return nil
}

// Main is the entry point of every generated server's cmd/main.go.
//
//	-mode run   : read Case JSON lines on stdin, write Result JSON lines on stdout
//	-mode gen   : generate cases from the grammar over this server's schema (seeded) and run them
//	-mode schema: print the schema as JSON for the Lean model
func Main(newES func(bind func(stub any, directives any, complexity any)) graphql.ExecutableSchema, types map[string]reflect.Type) {
	mode := flag.String("mode", "run", "")
	seed := flag.Uint64("seed", 1, "")
	n := flag.Int("n", 200, "number of generated cases")
	profile := flag.String("profile", "c01", "generator profile")
	maxHung := flag.Int("maxhung", 0, "stop after this many hung cases (0 = never)")
	split := flag.Bool("split", false, "run mode: print one result per delivered subscription event")
	override := flag.String("override", "", "C16: file with the SDL of a Config.Schema runtime override for the whole process")
	flag.Parse()
	u := &U{Types: types}
	es := newES(u.Bind)
	if *override != "" {
		b, err := os.ReadFile(*override)
		if err == nil {
			es, err = OverrideES(u, string(b))
		}
		if err != nil {
			fmt.Fprintln(os.Stderr, "override:", err)
			os.Exit(2)
		}
	}
	out := bufio.NewWriterSize(os.Stdout, 1<<20)
	defer out.Flush()
	enc := json.NewEncoder(out)
	enc.SetEscapeHTML(false)
	hung := 0
	switch *mode {
	case "schema":
		enc.Encode(SchemaToJSON(es.Schema()))
	case "subschema":
		// the schema as the per-event results of subscriptions see it: the subscription root in the place of
		// the query root (an event is executed like a query on the subscription type)
		sj := SchemaToJSON(es.Schema())
		if es.Schema().Subscription != nil {
			sj.Query = es.Schema().Subscription.Name
		}
		enc.Encode(sj)
	case "c02schema":
		enc.Encode(C02Schema(es.Schema(), u.StubType, u.Types))
	case "gen":
		g := NewGen(es.Schema(), *seed, *profile)
		for i := 0; i < *n; i++ {
			c := g.Case(i)
			if *profile == "sub" {
				r := RunCase(es, c)
				pj, _ := json.Marshal(c.Plan)
				r.Plan = pj
				for _, e := range SplitEvents(r) {
					enc.Encode(e)
				}
				continue
			}
			if *profile == "c06" && i%3 == 0 {
				// adversarial schedule: the root fields complete in REVERSE document order
				pre := c
				pre.Plan.Rates.Delay = 0
				keys := rootKeys(RunCase(es, pre))
				c.Plan.ExtraDelay = map[string]int{}
				for j, k := range keys {
					c.Plan.ExtraDelay[k] = (len(keys) - j) * 150
				}
			}
			r := RunCase(es, c)
			pj, _ := json.Marshal(c.Plan)
			r.Plan = pj
			if *profile == "c13" {
				pc := c
				pc.Query = StripDefer(c.Query)
				pr := RunCase(es, pc)
				pr.Doc = nil
				r.Plain = &pr
			}
			enc.Encode(r)
		}
	case "http":
		sc := bufio.NewScanner(os.Stdin)
		sc.Buffer(make([]byte, 1<<20), 1<<26)
		for sc.Scan() {
			line := bytes.TrimSpace(sc.Bytes())
			if len(line) == 0 {
				continue
			}
			var c HTTPCase
			if err := json.Unmarshal(line, &c); err != nil {
				fmt.Fprintln(os.Stderr, "bad case:", err)
				os.Exit(2)
			}
			hr := RunHTTP(es, c)
			enc.Encode(hr)
			out.Flush()
			if hr.Hung {
				hung++
				if *maxHung > 0 && hung >= *maxHung {
					return
				}
			}
		}
	case "faults":
		// every operation first runs fault-free; then once per user-code invocation it made, with that
		// single invocation forced to fail (error / panic alternating; directives: error / block / panic)
		// -profile c13clean: the same over documents with @defer (faults inside deferred groups); every
		// result then carries its twin with every @defer removed and the same fault
		fp := "clean"
		if *profile == "c13clean" {
			fp = "c13clean"
		}
		twin := func(c Case, r *Result) {
			if fp != "c13clean" {
				return
			}
			pc := c
			pc.Query = StripDefer(c.Query)
			pr := RunCase(es, pc)
			pr.Doc = nil
			r.Plain = &pr
		}
		g := NewGen(es.Schema(), *seed, fp)
		for i := 0; i < *n; i++ {
			c := g.Case(i)
			c.Around = i%2 == 0 // every other operation runs under a field interceptor: its calls are fault points too
			base := RunCase(es, c)
			pj, _ := json.Marshal(c.Plan)
			base.Plan = pj
			twin(c, &base)
			enc.Encode(base)
			for k, inv := range base.Log {
				fc := c
				fc.ID = fmt.Sprintf("%s-f%d", c.ID, k)
				key := inv.Path
				kind := []string{"error", "panic"}[(i+k)%2]
				if strings.HasPrefix(inv.Hook, "directive:") {
					key = inv.Path + "@" + strings.TrimPrefix(inv.Hook, "directive:")
					kind = []string{"error", "block", "panic"}[(i+k)%3]
					if inv.Path == "" {
						// an operation-level directive: the generated _queryMiddleware has no recover of its own (a panic
						// there is the transport's to contain, like a serialization panic); error and block here
						kind = []string{"error", "block"}[(i+k)%2]
					}
				}
				fc.Plan.Overrides = map[string]Outcome{key: {Kind: kind, Msg: "FAULT:" + key}}
				r := RunCase(es, fc)
				pj, _ := json.Marshal(fc.Plan)
				r.Plan = pj
				r.Fault = key
				r.FaultKind = kind
				twin(fc, &r)
				enc.Encode(r)
			}
		}
	default:
		sc := bufio.NewScanner(os.Stdin)
		sc.Buffer(make([]byte, 1<<20), 1<<26)
		for sc.Scan() {
			line := bytes.TrimSpace(sc.Bytes())
			if len(line) == 0 {
				continue
			}
			var c Case
			if err := json.Unmarshal(line, &c); err != nil {
				fmt.Fprintln(os.Stderr, "bad case:", err)
				os.Exit(2)
			}
			ces := es
			if c.SchemaSDL != "" {
				oes, err := OverrideES(u, c.SchemaSDL)
				if err != nil {
					enc.Encode(Result{ID: c.ID, Query: c.Query, Payloads: []Payload{}, Crash: "schemaSDL: " + err.Error()})
					out.Flush()
					continue
				}
				ces = oes
			}
			r := RunCase(ces, c)
			if *split {
				for _, e := range SplitEvents(r) {
					enc.Encode(e)
				}
			} else {
				enc.Encode(r)
			}
			out.Flush()
			if r.Hung {
				hung++
				if *maxHung > 0 && hung >= *maxHung {
					return
				}
			}
		}
	}
}

// ------------------------------------------------------------------------------- schema / doc JSON

type TypeJSON struct {
	Name       string      `json:"name"`
	Kind       string      `json:"kind"`
	Fields     []FieldJSON `json:"fields,omitempty"`
	Interfaces []string    `json:"interfaces,omitempty"`
	Possible   []string    `json:"possible,omitempty"` // concrete object types for abstract types
	// Implementors mirrors codegen's `<type>Implementors` list for object types: the type itself,
	// the unions it is a member of and the interfaces it implements
	Implementors []string `json:"implementors,omitempty"`
	// Dirs: the directives written on the type's DEFINITION, in source order (codegen bindField hands them to
	// every field that returns the type)
	Dirs []string `json:"dirs,omitempty"`
}

// DirDefJSON: a directive the schema declares, with its locations (codegen ImplDirectives runs a directive
// around a field only when its definition lists FIELD_DEFINITION, OBJECT or INPUT_OBJECT)
type DirDefJSON struct {
	Name string   `json:"name"`
	Locs []string `json:"locs"`
	// SkipRuntime: the generated DirectiveRoot has no implementation slot for it (codegen Directive.SkipRuntime)
	SkipRuntime bool `json:"skipRuntime,omitempty"`
}
type FieldJSON struct {
	Name  string    `json:"name"`
	Type  *TypeRefJ `json:"type"`
	Dirs  []string  `json:"dirs,omitempty"`
	Plain bool      `json:"plain,omitempty"` // bound as a plain struct field (no resolver is invoked)
}
type TypeRefJ struct {
	Name    string    `json:"name,omitempty"`
	Elem    *TypeRefJ `json:"elem,omitempty"`
	NonNull bool      `json:"nn"`
}
type SchemaJSON struct {
	Query    string     `json:"query"`
	Mutation string     `json:"mutation,omitempty"`
	Types    []TypeJSON `json:"types"`
	Directives []DirDefJSON `json:"directives,omitempty"`
}

func typeRef(t *ast.Type) *TypeRefJ {
	if t == nil {
		return nil
	}
	return &TypeRefJ{Name: t.NamedType, Elem: typeRef(t.Elem), NonNull: t.NonNull}
}

// Implementors, when set by the generated server's main, holds the `<type>Implementors` lists of the
// generated code itself; SchemaToJSON hands those to the model instead of recomputing them.
var Implementors map[string][]string

func SchemaToJSON(s *ast.Schema) SchemaJSON {
	out := SchemaJSON{Query: s.Query.Name}
	if s.Mutation != nil {
		out.Mutation = s.Mutation.Name
	}
	var names []string
	for n := range s.Types {
		names = append(names, n)
	}
	sort.Strings(names)
	for _, n := range names {
		d := s.Types[n]
		if strings.HasPrefix(n, "__") {
			continue
		}
		t := TypeJSON{Name: n, Kind: string(d.Kind), Interfaces: d.Interfaces}
		for _, dd := range d.Directives {
			t.Dirs = append(t.Dirs, dd.Name)
		}
		for _, f := range d.Fields {
			fj := FieldJSON{Name: f.Name, Type: typeRef(f.Type)}
			for _, dd := range f.Directives {
				fj.Dirs = append(fj.Dirs, dd.Name)
			}
			for _, pn := range Plain[n] {
				if pn == f.Name {
					fj.Plain = true
				}
			}
			t.Fields = append(t.Fields, fj)
		}
		if d.Kind == ast.Interface || d.Kind == ast.Union {
			for _, p := range s.GetPossibleTypes(d) {
				if p.Kind == ast.Object { // gqlparser also lists the interfaces that implement an interface
					t.Possible = append(t.Possible, p.Name)
				}
			}
			sort.Strings(t.Possible)
		}
		if d.Kind == ast.Object {
			// codegen/object.go Implementors(): object name + GetImplements(def) names
			t.Implementors = append(t.Implementors, d.Name)
			for _, i := range s.GetImplements(d) {
				t.Implementors = append(t.Implementors, i.Name)
			}
			if gen, ok := Implementors[d.Name]; ok {
				t.Implementors = append([]string{}, gen...) // from the generated code
			}
		}
		out.Types = append(out.Types, t)
	}
	var dnames []string
	for n := range s.Directives {
		dnames = append(dnames, n)
	}
	sort.Strings(dnames)
	for _, n := range dnames {
		dj := DirDefJSON{Name: n, Locs: []string{}}
		if runtimeDirectives != nil && !runtimeDirectives[strings.ToLower(strings.ReplaceAll(n, "_", ""))] {
			dj.SkipRuntime = true
		}
		for _, l := range s.Directives[n].Locations {
			dj.Locs = append(dj.Locs, string(l))
		}
		out.Directives = append(out.Directives, dj)
	}
	return out
}

type SelJSON struct {
	K        string            `json:"k"` // field | inline | spread
	Alias    string            `json:"alias,omitempty"`
	Name     string            `json:"name,omitempty"`
	ObjDef   string            `json:"objDef,omitempty"`   // field: name of the definition it was validated against
	TypeCond string            `json:"typeCond,omitempty"` // inline
	Dirs     []DirJSON         `json:"dirs,omitempty"`
	Sels     []SelJSON         `json:"sels,omitempty"`
	Args     map[string]string `json:"args,omitempty"`
}
type DirJSON struct {
	Name  string  `json:"name"`
	If    *ValJ   `json:"if,omitempty"`
	Label *ValJ   `json:"label,omitempty"`
	Extra []string `json:"extra,omitempty"`
}
type ValJ struct {
	Var string `json:"var,omitempty"`
	Lit string `json:"lit,omitempty"` // raw literal text
}
type FragJSON struct {
	Name     string    `json:"name"`
	TypeCond string    `json:"typeCond"`
	Sels     []SelJSON `json:"sels"`
}
type DocJSON struct {
	OpKind string     `json:"opKind"`
	OpName string     `json:"opName,omitempty"`
	OpDirs []string   `json:"opDirs,omitempty"` // operation-level directives other than the built-in ones, in document order
	Sels   []SelJSON  `json:"sels"`
	Frags  []FragJSON `json:"frags"`
}

func valJ(v *ast.Value) *ValJ {
	if v == nil {
		return nil
	}
	if v.Kind == ast.Variable {
		return &ValJ{Var: v.Raw}
	}
	return &ValJ{Lit: v.Raw}
}

func dirs(dl ast.DirectiveList) []DirJSON {
	var out []DirJSON
	for _, d := range dl {
		dj := DirJSON{Name: d.Name}
		for _, a := range d.Arguments {
			switch a.Name {
			case "if":
				dj.If = valJ(a.Value)
			case "label":
				dj.Label = valJ(a.Value)
			default:
				dj.Extra = append(dj.Extra, a.Name)
			}
		}
		out = append(out, dj)
	}
	return out
}

func sels(ss ast.SelectionSet) []SelJSON {
	out := []SelJSON{}
	for _, s := range ss {
		switch s := s.(type) {
		case *ast.Field:
			sj := SelJSON{K: "field", Alias: s.Alias, Name: s.Name, Dirs: dirs(s.Directives), Sels: sels(s.SelectionSet)}
			if s.ObjectDefinition != nil {
				sj.ObjDef = s.ObjectDefinition.Name
			}
			out = append(out, sj)
		case *ast.InlineFragment:
			out = append(out, SelJSON{K: "inline", TypeCond: s.TypeCondition, Dirs: dirs(s.Directives), Sels: sels(s.SelectionSet)})
		case *ast.FragmentSpread:
			out = append(out, SelJSON{K: "spread", Name: s.Name, Dirs: dirs(s.Directives)})
		}
	}
	return out
}

func DocToJSON(d *ast.QueryDocument, op *ast.OperationDefinition) *DocJSON {
	out := &DocJSON{OpKind: string(op.Operation), OpName: op.Name, Sels: sels(op.SelectionSet), Frags: []FragJSON{}}
	for _, f := range d.Fragments {
		out.Frags = append(out.Frags, FragJSON{Name: f.Name, TypeCond: f.TypeCondition, Sels: sels(f.SelectionSet)})
	}
	for _, dd := range op.Directives {
		out.OpDirs = append(out.OpDirs, dd.Name)
	}
	return out
}

func truncate(s string, n int) string {
	if len(s) > n {
		return s[:n] + "..."
	}
	return s
}
