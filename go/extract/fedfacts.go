package main

import (
	"bytes"
	"fmt"
	"go/ast"
	"go/parser"
	"go/printer"
	"go/token"
	"os"
	"path/filepath"
	"strings"
)

// FedFacts: index bookkeeping facts of the federation code GENERATED at check time (-arg <package dir>,
// file federation.go): every assignment into `list[…]` with its index expression, the `go` statements of
// __resolve_entities / resolveEntityGroup with the calls their closures make, whether resolveEntity /
// resolveManyEntities start with a deferred recover, which representation entityResolverNameFor<T> is applied
// to in single and in batch mode, the WaitGroup Add arguments, and the batch calls with their length checks.
// Fails when federation.go no longer has the four functions it knows.
func init() { extractors["FedFacts"] = extractFedFacts; needsArg["FedFacts"] = true }

func src(fset *token.FileSet, n ast.Node) string {
	var b bytes.Buffer
	printer.Fprint(&b, fset, n)
	return strings.Join(strings.Fields(b.String()), " ")
}

func leanStr(s string) string {
	return "\"" + strings.ReplaceAll(strings.ReplaceAll(s, "\\", "\\\\"), "\"", "\\\"") + "\""
}

func leanPairs(ps [][2]string) string {
	var parts []string
	for _, p := range ps {
		parts = append(parts, "("+leanStr(p[0])+", "+leanStr(p[1])+")")
	}
	return "[" + strings.Join(parts, ", ") + "]"
}

// doneIsLast: the spawned closure calls `<wg>.Done()` exactly once, as its last top-level statement with no `return`
// anywhere before it, or defers it as its first statement.
func doneIsLast(fset *token.FileSet, g *ast.GoStmt) bool {
	fl, ok := g.Call.Fun.(*ast.FuncLit)
	if !ok || len(fl.Body.List) == 0 {
		return false
	}
	isDone := func(c *ast.CallExpr) bool {
		se, ok := c.Fun.(*ast.SelectorExpr)
		return ok && se.Sel.Name == "Done" && len(c.Args) == 0
	}
	dones, returns := 0, 0
	ast.Inspect(fl.Body, func(y ast.Node) bool {
		switch n := y.(type) {
		case *ast.CallExpr:
			if isDone(n) {
				dones++
			}
		case *ast.ReturnStmt:
			returns++
		}
		return true
	})
	if dones != 1 {
		return false
	}
	if d, ok := fl.Body.List[0].(*ast.DeferStmt); ok && isDone(d.Call) {
		return true
	}
	last, ok := fl.Body.List[len(fl.Body.List)-1].(*ast.ExprStmt)
	if !ok || returns != 0 {
		return false
	}
	c, ok := last.X.(*ast.CallExpr)
	return ok && isDone(c)
}

func extractFedFacts(repo string) (string, error) {
	if Arg == "" {
		return "", fmt.Errorf("FedFacts needs -arg <generated package dir>")
	}
	fn := filepath.Join(Arg, "federation.go")
	b, err := os.ReadFile(fn)
	if err != nil {
		return "", err
	}
	fset := token.NewFileSet()
	f, err := parser.ParseFile(fset, fn, b, 0)
	if err != nil {
		return "", err
	}
	var listWrites, multiSel, singleSel, wgAdds, doneLast [][2]string
	type goFact struct {
		where string
		calls []string
	}
	var gos []goFact
	var recFirst [][2]string
	multiCalls, lengthChecks := 0, 0
	seen := map[string]bool{}
	for _, d := range f.Decls {
		fd, ok := d.(*ast.FuncDecl)
		if !ok || fd.Body == nil {
			continue
		}
		name := fd.Name.Name
		seen[name] = true
		if name == "resolveEntity" || name == "resolveManyEntities" {
			v := "false"
			if recoverFirst(fd.Body) {
				v = "true"
			}
			recFirst = append(recFirst, [2]string{name, v})
		}
		ast.Inspect(fd.Body, func(x ast.Node) bool {
			switch n := x.(type) {
			case *ast.AssignStmt:
				for _, l := range n.Lhs {
					if ix, ok := l.(*ast.IndexExpr); ok {
						if id, ok := ix.X.(*ast.Ident); ok && id.Name == "list" {
							listWrites = append(listWrites, [2]string{name, src(fset, ix.Index)})
						}
					}
				}
				if name == "resolveManyEntities" && len(n.Lhs) == 2 && len(n.Rhs) == 1 {
					if id, ok := n.Lhs[0].(*ast.Ident); ok && id.Name == "entities" {
						if c, ok := n.Rhs[0].(*ast.CallExpr); ok && strings.Contains(src(fset, c.Fun), "ec.resolvers.Entity()") {
							multiCalls++
						}
					}
				}
			case *ast.IfStmt:
				if name == "resolveManyEntities" && src(fset, n.Cond) == "len(entities) != len(reps)" {
					// the body must leave the function
					if len(n.Body.List) > 0 {
						if _, ok := n.Body.List[len(n.Body.List)-1].(*ast.ReturnStmt); ok {
							lengthChecks++
						}
					}
				}
			case *ast.GoStmt:
				g := goFact{where: name}
				if fl, ok := n.Call.Fun.(*ast.FuncLit); ok {
					ast.Inspect(fl.Body, func(y ast.Node) bool {
						if c, ok := y.(*ast.CallExpr); ok {
							g.calls = append(g.calls, src(fset, c.Fun))
						}
						return true
					})
				} else {
					g.calls = append(g.calls, src(fset, n.Call.Fun))
				}
				gos = append(gos, g)
				doneLast = append(doneLast, [2]string{name, fmt.Sprint(doneIsLast(fset, n))})
			case *ast.CallExpr:
				if id, ok := n.Fun.(*ast.Ident); ok && strings.HasPrefix(id.Name, "entityResolverNameFor") && len(n.Args) == 2 {
					p := [2]string{strings.TrimPrefix(id.Name, "entityResolverNameFor"), src(fset, n.Args[1])}
					switch name {
					case "resolveManyEntities":
						multiSel = append(multiSel, p)
					case "resolveEntity":
						singleSel = append(singleSel, p)
					}
				}
				if se, ok := n.Fun.(*ast.SelectorExpr); ok && se.Sel.Name == "Add" && len(n.Args) == 1 {
					wgAdds = append(wgAdds, [2]string{name, src(fset, n.Args[0])})
				}
			}
			return true
		})
	}
	for _, want := range []string{"__resolve_entities", "buildRepresentationGroups", "resolveEntityGroup", "resolveEntity", "resolveManyEntities"} {
		if !seen[want] {
			return "", fmt.Errorf("generated federation.go has no function %s", want)
		}
	}
	var sb strings.Builder
	sb.WriteString("/-! Facts about the index bookkeeping of the federation code generated on this run (" + filepath.Base(Arg) + "/federation.go). -/\n")
	sb.WriteString("namespace GqlgenVerif.Gen.FedFacts\n\n")
	sb.WriteString("/-- every assignment into `list[…]`: (enclosing function, index expression) -/\n")
	sb.WriteString("def listWrites : List (String × String) := " + leanPairs(listWrites) + "\n\n")
	sb.WriteString("/-- (function, its first statement is `defer func() { … recover() … }()`) -/\n")
	var rf []string
	for _, p := range recFirst {
		rf = append(rf, "("+leanStr(p[0])+", "+p[1]+")")
	}
	sb.WriteString("def recoverFirst : List (String × Bool) := [" + strings.Join(rf, ", ") + "]\n\n")
	sb.WriteString("/-- every `go` statement: (enclosing function, calls made inside the spawned closure) -/\n")
	var gs []string
	for _, g := range gos {
		var cs []string
		for _, c := range g.calls {
			cs = append(cs, leanStr(c))
		}
		gs = append(gs, "("+leanStr(g.where)+", ["+strings.Join(cs, ", ")+"])")
	}
	sb.WriteString("def goStmts : List (String × List String) := [" + strings.Join(gs, ", ") + "]\n\n")
	sb.WriteString("/-- batch mode: (entity, the representation entityResolverNameFor<T> is applied to) -/\n")
	sb.WriteString("def multiSelectArg : List (String × String) := " + leanPairs(multiSel) + "\n\n")
	sb.WriteString("/-- single mode: (entity, the representation entityResolverNameFor<T> is applied to) -/\n")
	sb.WriteString("def singleSelectArg : List (String × String) := " + leanPairs(singleSel) + "\n\n")
	sb.WriteString("/-- WaitGroup.Add calls: (function, argument) -/\n")
	sb.WriteString("def wgAdds : List (String × String) := " + leanPairs(wgAdds) + "\n\n")
	sb.WriteString("/-- every `go` statement: (enclosing function, the closure signals its WaitGroup (`Done`) only after everything else it\ndoes - `Done()` is its one last statement with no `return` before it, or is deferred first) -/\n")
	var dl []string
	for _, p := range doneLast {
		dl = append(dl, "("+leanStr(p[0])+", "+p[1]+")")
	}
	sb.WriteString("def doneLast : List (String × Bool) := [" + strings.Join(dl, ", ") + "]\n\n")
	fmt.Fprintf(&sb, "/-- calls of a batch entity resolver in resolveManyEntities -/\ndef multiCalls : Nat := %d\n\n", multiCalls)
	fmt.Fprintf(&sb, "/-- `if len(entities) != len(reps) { … return … }` statements in resolveManyEntities -/\ndef lengthChecks : Nat := %d\n\n", lengthChecks)
	sb.WriteString("end GqlgenVerif.Gen.FedFacts\n")
	return sb.String(), nil
}
