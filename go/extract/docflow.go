package main

import (
	"fmt"
	"go/ast"
	"go/parser"
	"go/token"
	"os"
	"path/filepath"
	"sort"
	"strings"
)

// DocFlow (property C15, operationName dimension): every place where package graphql/executor touches a
// parsed document (*ast.QueryDocument). The document of a text is parsed once and - with a query cache
// configured - handed to every later request with the same text (hash-only requests included), so what a
// request executes is what a first-time server executes only as long as nobody writes through it.
//
// A variable HOLDS a document when it is a parameter of type *ast.QueryDocument, receives the result of
// queryCache.Get / parser.ParseQuery* / a function of the package returning *ast.QueryDocument, or receives
// something reached through a document (then it is an `alias`: a slice of its operations, a copy of the struct,
// a loop variable over its operations, ...). An expression is REACHED THROUGH a document when it is built from
// such a variable or from a field `….Doc` by selectors, indexing, slicing, dereferencing, &.
//
// One event per maximal such expression, classified by where it stands (see Model/ApqOp.lean `DocEv`):
// def store ret len call pass write alias range other. Props/C15Op.lean `gen_doc_flow_readonly` proves that
// the regenerated list contains read-only events only.
func init() { extractors["DocFlow"] = extractDocFlow }

type dfEv struct{ fn, kind, target, callee string }

type dfFunc struct {
	fset     *token.FileSet
	roots    map[string]bool
	docFuncs map[string]bool
	evs      []dfEv
	name     string
}

func dfIsDocType(fset *token.FileSet, e ast.Expr) bool {
	return e != nil && prSrc(fset, e) == "*ast.QueryDocument"
}

// strip: the expression this one is built from by selectors / indexing / slicing / * / & / parentheses
func dfInner(e ast.Expr) (ast.Expr, bool) {
	switch x := e.(type) {
	case *ast.SelectorExpr:
		return x.X, true
	case *ast.IndexExpr:
		return x.X, true
	case *ast.SliceExpr:
		return x.X, true
	case *ast.StarExpr:
		return x.X, true
	case *ast.ParenExpr:
		return x.X, true
	case *ast.UnaryExpr:
		if x.Op == token.AND {
			return x.X, true
		}
	}
	return nil, false
}

// isDoc: e is reached through a document
func (f *dfFunc) isDoc(e ast.Expr) bool {
	for e != nil {
		if id, ok := e.(*ast.Ident); ok {
			return f.roots[id.Name]
		}
		if s, ok := e.(*ast.SelectorExpr); ok && s.Sel.Name == "Doc" {
			return true
		}
		in, ok := dfInner(e)
		if !ok {
			return false
		}
		e = in
	}
	return false
}

// holdsDoc: e IS a document (a holding variable, `….Doc`, or & / * / parentheses around one)
func (f *dfFunc) holdsDoc(e ast.Expr) bool {
	switch x := e.(type) {
	case *ast.Ident:
		return f.roots[x.Name]
	case *ast.SelectorExpr:
		return x.Sel.Name == "Doc"
	case *ast.ParenExpr:
		return f.holdsDoc(x.X)
	case *ast.UnaryExpr:
		return x.Op == token.AND && f.holdsDoc(x.X)
	}
	return false
}

func (f *dfFunc) docCall(e ast.Expr) (string, bool) {
	c, ok := e.(*ast.CallExpr)
	if !ok {
		return "", false
	}
	src := prSrc(f.fset, c.Fun)
	last := src
	if i := strings.LastIndex(src, "."); i >= 0 {
		last = src[i+1:]
	}
	if strings.HasSuffix(src, "queryCache.Get") || strings.HasPrefix(src, "parser.ParseQuery") || f.docFuncs[last] {
		return src, true
	}
	return src, false
}

func (f *dfFunc) add(kind, target, callee string) {
	f.evs = append(f.evs, dfEv{f.name, kind, target, callee})
}

// findRoots: fixpoint over the assignments and range loops of the body
func (f *dfFunc) findRoots(body *ast.BlockStmt) {
	for changed := true; changed; {
		changed = false
		mark := func(e ast.Expr) {
			if id, ok := e.(*ast.Ident); ok && id.Name != "_" && !f.roots[id.Name] {
				f.roots[id.Name] = true
				changed = true
			}
		}
		ast.Inspect(body, func(n ast.Node) bool {
			switch s := n.(type) {
			case *ast.AssignStmt:
				if len(s.Rhs) == 1 && len(s.Lhs) >= 1 {
					if _, ok := f.docCall(s.Rhs[0]); ok {
						mark(s.Lhs[0])
						return true
					}
				}
				if len(s.Rhs) == len(s.Lhs) {
					for i := range s.Rhs {
						if _, ok := f.docCall(s.Rhs[i]); ok || f.isDoc(s.Rhs[i]) {
							mark(s.Lhs[i])
						} else if c, ok := s.Rhs[i].(*ast.CallExpr); ok && prSrc(f.fset, c.Fun) == "append" {
							// append(x, …) shares x's backing array
							for _, a := range c.Args {
								if f.isDoc(a) {
									mark(s.Lhs[i])
								}
							}
						}
					}
				}
			case *ast.RangeStmt:
				if f.isDoc(s.X) && s.Value != nil {
					mark(s.Value)
				}
			case *ast.ValueSpec:
				for i, v := range s.Values {
					if _, ok := f.docCall(v); (ok || f.isDoc(v)) && i < len(s.Names) {
						mark(s.Names[i])
					}
				}
			}
			return true
		})
	}
}

func (f *dfFunc) walk(body *ast.BlockStmt) {
	var stack []ast.Node
	ast.Inspect(body, func(n ast.Node) bool {
		if n == nil {
			stack = stack[:len(stack)-1]
			return true
		}
		defer func() { stack = append(stack, n) }()
		e, ok := n.(ast.Expr)
		if !ok || !f.isDoc(e) {
			return true
		}
		// maximal: the parent is not itself built from e
		var parent, grand ast.Node
		if len(stack) > 0 {
			parent = stack[len(stack)-1]
		}
		if len(stack) > 1 {
			grand = stack[len(stack)-2]
		}
		if pe, ok := parent.(ast.Expr); ok {
			if in, ok := dfInner(pe); ok && in == e {
				return true
			}
			if c, ok := pe.(*ast.CallExpr); ok && c.Fun == e {
				// a method reached through the document
				f.add("call", "", prSrc(f.fset, e))
				return true
			}
		}
		src := prSrc(f.fset, e)
		switch p := parent.(type) {
		case *ast.AssignStmt:
			for i, l := range p.Lhs {
				if l != e {
					continue
				}
				if _, plain := e.(*ast.Ident); plain {
					// a holding variable receives a value
					var rhs ast.Expr
					if len(p.Rhs) == len(p.Lhs) {
						rhs = p.Rhs[i]
					} else if len(p.Rhs) == 1 && i == 0 {
						rhs = p.Rhs[0]
					}
					if callee, ok := f.docCall(rhs); ok {
						f.add("def", src, callee)
					} else if rhs == nil || !f.isDoc(rhs) {
						callee := ""
						if rhs != nil {
							callee = prSrc(f.fset, rhs)
						}
						f.add("alias", src, callee)
					}
					return true
				}
				var rhs ast.Expr
				if len(p.Rhs) == len(p.Lhs) {
					rhs = p.Rhs[i]
				} else if len(p.Rhs) == 1 {
					rhs = p.Rhs[0]
				}
				callee := ""
				if c, ok := rhs.(*ast.CallExpr); ok {
					callee = prSrc(f.fset, c.Fun)
				} else if rhs != nil {
					callee = prSrc(f.fset, rhs)
				}
				if s, ok := e.(*ast.SelectorExpr); ok && s.Sel.Name == "Doc" {
					f.add("store", src, callee)
				} else {
					f.add("write", src, callee)
				}
				return true
			}
			for i, r := range p.Rhs {
				if r != e {
					continue
				}
				target := ""
				if len(p.Rhs) == len(p.Lhs) {
					target = prSrc(f.fset, p.Lhs[i])
					if f.isDoc(p.Lhs[i]) {
						if _, plain := p.Lhs[i].(*ast.Ident); !plain {
							return true // reported as store / write on the left-hand side
						}
					}
				}
				f.add("alias", target, src)
				return true
			}
		case *ast.IncDecStmt:
			f.add("write", src, "")
			return true
		case *ast.ReturnStmt:
			if f.holdsDoc(e) {
				f.add("ret", src, "")
			} else {
				f.add("other", src, "return")
			}
			return true
		case *ast.RangeStmt:
			if p.X == e {
				f.add("range", src, "")
				return true
			}
			if p.Key == e || p.Value == e {
				return true
			}
		case *ast.CallExpr:
			callee := prSrc(f.fset, p.Fun)
			if callee == "len" {
				f.add("len", src, "")
			} else {
				f.add("pass", src, callee)
			}
			return true
		case *ast.ValueSpec:
			f.add("alias", "", src)
			return true
		}
		_ = grand
		f.add("other", src, fmt.Sprintf("%T", parent))
		return true
	})
}

func extractDocFlow(repo string) (string, error) {
	fset := token.NewFileSet()
	dir := filepath.Join(repo, "graphql", "executor")
	pkgs, err := parser.ParseDir(fset, dir, func(fi os.FileInfo) bool { return !strings.HasSuffix(fi.Name(), "_test.go") }, 0)
	if err != nil {
		return "", err
	}
	var files []*ast.File
	var names []string
	for _, p := range pkgs {
		if strings.HasSuffix(p.Name, "_test") {
			continue
		}
		for n := range p.Files {
			names = append(names, n)
		}
		sort.Strings(names)
		for _, n := range names {
			files = append(files, p.Files[n])
		}
	}
	docFuncs := map[string]bool{}
	for _, file := range files {
		for _, d := range file.Decls {
			if fd, ok := d.(*ast.FuncDecl); ok && fd.Type.Results != nil && len(fd.Type.Results.List) > 0 &&
				dfIsDocType(fset, fd.Type.Results.List[0].Type) {
				docFuncs[fd.Name.Name] = true
			}
		}
	}
	var evs []dfEv
	for _, file := range files {
		for _, d := range file.Decls {
			fd, ok := d.(*ast.FuncDecl)
			if !ok || fd.Body == nil {
				continue
			}
			f := &dfFunc{fset: fset, roots: map[string]bool{}, docFuncs: docFuncs, name: fd.Name.Name}
			for _, p := range fd.Type.Params.List {
				if dfIsDocType(fset, p.Type) {
					for _, n := range p.Names {
						f.roots[n.Name] = true
					}
				}
			}
			f.findRoots(fd.Body)
			f.walk(fd.Body)
			evs = append(evs, f.evs...)
		}
	}
	if len(evs) == 0 {
		return "", fmt.Errorf("%s: no function touches a *ast.QueryDocument any more", dir)
	}
	var b strings.Builder
	b.WriteString("import GqlgenVerif.Model.ApqOp\n")
	b.WriteString("/-! Every place where package graphql/executor touches a parsed document, in source order. -/\n")
	b.WriteString("namespace GqlgenVerif.Gen.DocFlow\nopen GqlgenVerif.ApqOp\n\n")
	b.WriteString("def events : List DocEv := [\n")
	for i, e := range evs {
		sep := ","
		if i == len(evs)-1 {
			sep = ""
		}
		fmt.Fprintf(&b, "  ⟨%s, %s, %s, %s⟩%s\n", prLeanStr(e.fn), prLeanStr(e.kind), prLeanStr(e.target), prLeanStr(e.callee), sep)
	}
	b.WriteString("]\n\nend GqlgenVerif.Gen.DocFlow\n")
	return b.String(), nil
}
