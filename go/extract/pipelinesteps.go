package main

import (
	"bytes"
	"fmt"
	"go/ast"
	"go/parser"
	"go/printer"
	"go/token"
	"path/filepath"
	"strings"
)

// PipelineSteps (C03): the order of the gates in executor.CreateOperationContext, the skeleton of
// executor.parseQuery (cache lookup, parse, rule swap with its lock region, Validate with its lock
// region, the error return, the cache Add) and the shape of the two loops of processExtensions, as
// Lean lists. Anything the translator does not recognise becomes `.other "<source>"`, which no
// theorem of Props/C03.lean accepts.
//
//	for _, p := range e.ext.operationParameterMutators { if err := p.Mutate…; err != nil { return … } }   → .pmLoop
//	opCtx.Doc, listErr = e.parseQuery(…); if len(listErr) != 0 { return … }                                → .parseQuery
//	opCtx.Operation = opCtx.Doc.Operations.ForName(…); if opCtx.Operation == nil { … return … }            → .selectOp
//	opCtx.Variables, err = validator.VariableValues(…); if err != nil { … return … }                       → .variables
//	for _, p := range e.ext.operationContextMutators { … return … }                                        → .cmLoop
//	return opCtx, nil                                                                                      → .accept
func init() { extractors["PipelineSteps"] = extractPipelineSteps }

func psSrc(fset *token.FileSet, n ast.Node) string {
	var b bytes.Buffer
	_ = printer.Fprint(&b, fset, n)
	s := strings.Join(strings.Fields(b.String()), " ")
	return s
}

func psLeanStr(s string) string {
	if len(s) > 160 {
		s = s[:160]
	}
	return "\"" + strings.ReplaceAll(strings.ReplaceAll(s, "\\", "\\\\"), "\"", "\\\"") + "\""
}

func psFindFunc(f *ast.File, name string) *ast.FuncDecl {
	for _, d := range f.Decls {
		if fd, ok := d.(*ast.FuncDecl); ok && fd.Name.Name == name {
			return fd
		}
	}
	return nil
}

// psHasReturn: the statement (an if / range) contains a return
func psHasReturn(n ast.Node) bool {
	found := false
	ast.Inspect(n, func(x ast.Node) bool {
		if _, ok := x.(*ast.ReturnStmt); ok {
			found = true
		}
		return !found
	})
	return found
}

func psCallsIn(fset *token.FileSet, n ast.Node) []string {
	var l []string
	ast.Inspect(n, func(x ast.Node) bool {
		if c, ok := x.(*ast.CallExpr); ok {
			l = append(l, psSrc(fset, c.Fun))
		}
		return true
	})
	return l
}

func psContains(l []string, s string) bool {
	for _, x := range l {
		if x == s {
			return true
		}
	}
	return false
}

// plain bookkeeping assignments of CreateOperationContext that are not gates
func psIsBookkeeping(fset *token.FileSet, s ast.Stmt) bool {
	switch s := s.(type) {
	case *ast.DeclStmt:
		return true // var listErr gqlerror.List / var err error
	case *ast.AssignStmt:
		if len(s.Lhs) != 1 || len(s.Rhs) != 1 {
			return false
		}
		l, r := psSrc(fset, s.Lhs[0]), psSrc(fset, s.Rhs[0])
		switch {
		case l == "opCtx" && strings.HasPrefix(r, "&graphql.OperationContext{"):
			return true
		case l == "ctx" && r == "graphql.WithOperationContext(ctx, opCtx)":
			return true
		case strings.HasPrefix(l, "opCtx.") && strings.Count(l, ".") == 1 && strings.HasPrefix(r, "params.") && strings.Count(r, ".") == 1:
			return true
		case l == "opCtx.Stats.Validation.End" && r == "graphql.Now()":
			return true
		}
	}
	return false
}

func extractCreate(fset *token.FileSet, fd *ast.FuncDecl) []string {
	var steps []string
	body := fd.Body.List
	for i := 0; i < len(body); i++ {
		s := body[i]
		calls := psCallsIn(fset, s)
		next := func() ast.Stmt {
			if i+1 < len(body) {
				return body[i+1]
			}
			return nil
		}
		switch st := s.(type) {
		case *ast.RangeStmt:
			x := psSrc(fset, st.X)
			switch {
			case x == "e.ext.operationParameterMutators" && psContains(calls, "p.MutateOperationParameters") && psHasReturn(st):
				steps = append(steps, ".pmLoop")
				continue
			case x == "e.ext.operationContextMutators" && psContains(calls, "p.MutateOperationContext") && psHasReturn(st):
				steps = append(steps, ".cmLoop")
				continue
			}
		case *ast.AssignStmt:
			n, isIf := next().(*ast.IfStmt)
			switch {
			case psContains(calls, "e.parseQuery") && isIf && psSrc(fset, n.Cond) == "len(listErr) != 0" && psHasReturn(n):
				steps = append(steps, ".parseQuery")
				i++
				continue
			case psSrc(fset, st) == "opCtx.Operation = opCtx.Doc.Operations.ForName(params.OperationName)" && isIf &&
				psSrc(fset, n.Cond) == "opCtx.Operation == nil" && psHasReturn(n):
				steps = append(steps, ".selectOp")
				i++
				continue
			case psContains(calls, "validator.VariableValues") && isIf && psSrc(fset, n.Cond) == "err != nil" && psHasReturn(n):
				steps = append(steps, ".variables")
				i++
				continue
			}
		case *ast.ReturnStmt:
			if psSrc(fset, st) == "return opCtx, nil" {
				steps = append(steps, ".accept")
				continue
			}
		}
		if psIsBookkeeping(fset, s) {
			continue
		}
		steps = append(steps, ".other "+psLeanStr(psSrc(fset, s)))
	}
	return steps
}

// parseQuery skeleton: the interesting calls / returns in source order; the `if e.disableSuggestion`
// block is bracketed by .disableBegin/.disableEnd; a called package-level helper `validate` is inlined.
func extractParseQuery(fset *token.FileSet, file *ast.File, fd *ast.FuncDecl) []string {
	var steps []string
	var walk func(stmts []ast.Stmt)
	emitCalls := func(n ast.Node) {
		ast.Inspect(n, func(x ast.Node) bool {
			c, ok := x.(*ast.CallExpr)
			if !ok {
				return true
			}
			switch f := psSrc(fset, c.Fun); f {
			case "e.queryCache.Get":
				steps = append(steps, ".cacheGet")
			case "e.queryCache.Add":
				steps = append(steps, ".cacheAdd")
			case "parser.ParseQueryWithTokenLimit", "parser.ParseQuery":
				steps = append(steps, ".parse")
			case "validatorRulesMu.Lock":
				steps = append(steps, ".lock")
			case "validatorRulesMu.Unlock":
				steps = append(steps, ".unlock")
			case "validatorRulesMu.RLock":
				steps = append(steps, ".rlock")
			case "validatorRulesMu.RUnlock":
				steps = append(steps, ".runlock")
			case "validator.RemoveRule":
				if len(c.Args) == 1 && psSrc(fset, c.Args[0]) == "\"FieldsOnCorrectType\"" {
					steps = append(steps, ".removeFoct")
				} else {
					steps = append(steps, ".other "+psLeanStr(psSrc(fset, c)))
				}
			case "validator.ReplaceRule":
				steps = append(steps, ".replaceWs")
			case "validator.AddRule":
				steps = append(steps, ".other "+psLeanStr(psSrc(fset, c)))
			case "validator.Validate":
				steps = append(steps, ".validate")
			case "validate":
				if h := psFindFunc(file, "validate"); h != nil {
					psWalkHelper(fset, h, &steps)
				} else {
					steps = append(steps, ".other \"validate helper missing\"")
				}
				return false
			}
			return true
		})
	}
	walk = func(stmts []ast.Stmt) {
		for _, s := range stmts {
			switch st := s.(type) {
			case *ast.IfStmt:
				cond := psSrc(fset, st.Cond)
				if st.Init != nil {
					emitCalls(st.Init)
				}
				switch {
				case cond == "e.disableSuggestion":
					steps = append(steps, ".disableBegin")
					walk(st.Body.List)
					steps = append(steps, ".disableEnd")
				case cond == "ok" && st.Init != nil && psContains(psCallsIn(fset, st.Init), "e.queryCache.Get") && psHasReturn(st.Body):
					steps = append(steps, ".hitReturn")
				case cond == "err != nil" && psHasReturn(st.Body):
					steps = append(steps, ".parseErrReturn")
				case cond == "len(doc.Operations) == 0" && psHasReturn(st.Body):
					steps = append(steps, ".noOperationReturn")
				case cond == "len(listErr) != 0" && psHasReturn(st.Body):
					steps = append(steps, ".invalidReturn")
				default:
					steps = append(steps, ".other "+psLeanStr("if "+cond))
				}
			case *ast.ReturnStmt:
				if psSrc(fset, st) == "return doc, nil" {
					steps = append(steps, ".okReturn")
				} else {
					steps = append(steps, ".other "+psLeanStr(psSrc(fset, st)))
				}
			case *ast.ForStmt, *ast.RangeStmt, *ast.GoStmt, *ast.DeferStmt, *ast.SwitchStmt:
				steps = append(steps, ".other "+psLeanStr(psSrc(fset, st)))
			default:
				emitCalls(s)
			}
		}
	}
	walk(fd.Body.List)
	return steps
}

// the helper `validate`: RLock; defer RUnlock; return validator.Validate(…)  →  .rlock .validate .runlock
func psWalkHelper(fset *token.FileSet, h *ast.FuncDecl, steps *[]string) {
	deferred := ""
	for _, s := range h.Body.List {
		switch st := s.(type) {
		case *ast.DeferStmt:
			if psSrc(fset, st.Call.Fun) == "validatorRulesMu.RUnlock" {
				deferred = ".runlock"
				continue
			}
		case *ast.ExprStmt:
			if c, ok := st.X.(*ast.CallExpr); ok && psSrc(fset, c.Fun) == "validatorRulesMu.RLock" {
				*steps = append(*steps, ".rlock")
				continue
			}
		case *ast.ReturnStmt:
			if len(st.Results) == 1 {
				if c, ok := st.Results[0].(*ast.CallExpr); ok && psSrc(fset, c.Fun) == "validator.Validate" && len(c.Args) == 2 {
					*steps = append(*steps, ".validate")
					if deferred != "" {
						*steps = append(*steps, deferred)
					}
					continue
				}
			}
		}
		*steps = append(*steps, ".other "+psLeanStr(psSrc(fset, s)))
	}
}

// processExtensions: direction of the interceptor loop, the interceptor table, direction of the mutator loop
func extractFold(fset *token.FileSet, fd *ast.FuncDecl) (backwards, mutatorsForward bool, table []string, err error) {
	for _, s := range fd.Body.List {
		switch st := s.(type) {
		case *ast.ForStmt:
			hdr := psSrc(fset, st.Init) + "; " + psSrc(fset, st.Cond) + "; " + psSrc(fset, st.Post)
			switch hdr {
			case "i := len(exts) - 1; i >= 0; i--":
				backwards = true
			case "i := 0; i < len(exts); i++":
				backwards = false
			default:
				return false, false, nil, fmt.Errorf("processExtensions: unknown loop header %q", hdr)
			}
			if len(st.Body.List) == 0 || psSrc(fset, st.Body.List[0]) != "p := exts[i]" {
				return false, false, nil, fmt.Errorf("processExtensions: loop does not start with p := exts[i]")
			}
			for _, b := range st.Body.List[1:] {
				is, ok := b.(*ast.IfStmt)
				if !ok {
					return false, false, nil, fmt.Errorf("processExtensions: unexpected statement %q", psSrc(fset, b))
				}
				// if p, ok := p.(graphql.XInterceptor); ok { previous := e.<mw>; e.<mw> = func(ctx, next) { return p.InterceptX(ctx, func(ctx) { return previous(ctx, next) }) } }
				ini := psSrc(fset, is.Init)
				if !strings.HasPrefix(ini, "p, ok := p.(graphql.") || len(is.Body.List) != 2 {
					return false, false, nil, fmt.Errorf("processExtensions: unexpected block %q", ini)
				}
				iface := strings.TrimSuffix(strings.TrimPrefix(ini, "p, ok := p.(graphql."), ")")
				prev := psSrc(fset, is.Body.List[0])
				asg, ok := is.Body.List[1].(*ast.AssignStmt)
				if !ok || !strings.HasPrefix(prev, "previous := e.") {
					return false, false, nil, fmt.Errorf("processExtensions: unexpected block body for %s", iface)
				}
				mw := strings.TrimPrefix(prev, "previous := e.")
				if psSrc(fset, asg.Lhs[0]) != "e."+mw {
					return false, false, nil, fmt.Errorf("processExtensions: %s assigns %s", iface, psSrc(fset, asg.Lhs[0]))
				}
				fl, ok := asg.Rhs[0].(*ast.FuncLit)
				if !ok || len(fl.Body.List) != 1 {
					return false, false, nil, fmt.Errorf("processExtensions: %s: not a single-return closure", iface)
				}
				ret, ok := fl.Body.List[0].(*ast.ReturnStmt)
				if !ok || len(ret.Results) != 1 {
					return false, false, nil, fmt.Errorf("processExtensions: %s: not a single-return closure", iface)
				}
				call, ok := ret.Results[0].(*ast.CallExpr)
				if !ok || len(call.Args) != 2 || psSrc(fset, call.Args[0]) != "ctx" {
					return false, false, nil, fmt.Errorf("processExtensions: %s: unexpected call", iface)
				}
				inner, ok := call.Args[1].(*ast.FuncLit)
				if !ok || len(inner.Body.List) != 1 || psSrc(fset, inner.Body.List[0]) != "return previous(ctx, next)" {
					return false, false, nil, fmt.Errorf("processExtensions: %s: inner closure is not `return previous(ctx, next)`", iface)
				}
				table = append(table, fmt.Sprintf("(%s, %s, %s)", psLeanStr(iface), psLeanStr(mw), psLeanStr(psSrc(fset, call.Fun))))
			}
		case *ast.RangeStmt:
			if psSrc(fset, st.X) != "exts" || psSrc(fset, st.Key) != "_" {
				return false, false, nil, fmt.Errorf("processExtensions: unexpected range %q", psSrc(fset, st.X))
			}
			mutatorsForward = true
			for _, b := range st.Body.List {
				t := psSrc(fset, b)
				okP := strings.HasPrefix(t, "if p, ok := p.(graphql.OperationParameterMutator); ok { e.operationParameterMutators = append(e.operationParameterMutators, p) }")
				okC := strings.HasPrefix(t, "if p, ok := p.(graphql.OperationContextMutator); ok { e.operationContextMutators = append(e.operationContextMutators, p) }")
				if !okP && !okC {
					return false, false, nil, fmt.Errorf("processExtensions: unexpected mutator block %q", t)
				}
			}
		}
	}
	if len(table) == 0 {
		return false, false, nil, fmt.Errorf("processExtensions: interceptor loop not found")
	}
	return backwards, mutatorsForward, table, nil
}

func extractPipelineSteps(repo string) (string, error) {
	fset := token.NewFileSet()
	exe, err := parser.ParseFile(fset, filepath.Join(repo, "graphql/executor/executor.go"), nil, 0)
	if err != nil {
		return "", err
	}
	ext, err := parser.ParseFile(fset, filepath.Join(repo, "graphql/executor/extensions.go"), nil, 0)
	if err != nil {
		return "", err
	}
	create, pq, pe := psFindFunc(exe, "CreateOperationContext"), psFindFunc(exe, "parseQuery"), psFindFunc(ext, "processExtensions")
	if create == nil || pq == nil || pe == nil {
		return "", fmt.Errorf("CreateOperationContext / parseQuery / processExtensions not found")
	}
	back, fwd, table, err := extractFold(fset, pe)
	if err != nil {
		return "", err
	}
	var b strings.Builder
	b.WriteString("import GqlgenVerif.Model.PipelineSteps\n")
	b.WriteString("namespace GqlgenVerif.Gen.PipelineSteps\nopen GqlgenVerif.Pipeline.Steps\n\n")
	b.WriteString("/-- graphql/executor/executor.go, CreateOperationContext: gates in source order -/\n")
	b.WriteString("def createSteps : List CreateStep :=\n  [" + strings.Join(extractCreate(fset, create), ",\n   ") + "]\n\n")
	b.WriteString("/-- graphql/executor/executor.go, parseQuery (helper `validate` inlined) -/\n")
	b.WriteString("def parseQuerySteps : List PqStep :=\n  [" + strings.Join(extractParseQuery(fset, exe, pq), ",\n   ") + "]\n\n")
	b.WriteString("/-- graphql/executor/extensions.go, processExtensions: `for i := len(exts) - 1; i >= 0; i--` -/\n")
	fmt.Fprintf(&b, "def foldBackwards : Bool := %v\n\n", back)
	b.WriteString("/-- the mutators are collected by `for _, p := range exts` -/\n")
	fmt.Fprintf(&b, "def mutatorsForward : Bool := %v\n\n", fwd)
	b.WriteString("/-- (interface asserted, middleware field wrapped, method called with `previous(ctx, next)` as next) -/\n")
	b.WriteString("def interceptorTable : List (String × String × String) :=\n  [" + strings.Join(table, ",\n   ") + "]\n\n")
	b.WriteString("end GqlgenVerif.Gen.PipelineSteps\n")
	return b.String(), nil
}
