package main

import (
	"fmt"
	"go/ast"
	"go/parser"
	"go/token"
	"path/filepath"
	"strings"
)

// LruKeys (C07, round 6): how graphql/handler/lru.LRU passes the key it is given to the underlying cache.
//
// lru.LRU is the one cache implementation gqlgen ships and backs BOTH stores of a server: the persisted-query
// registry (key = sha256 hex digest) and the executor's query-document cache (key = the raw query text). A hit must
// return what was added under exactly that key - a wrapper that normalises keys (letter case, whitespace) answers a
// request from the document of ANOTHER request's text.
//
// For the methods Get and Add of LRU: the first argument of the call `<recv>.lru.<Get|Add>(…)` - `verbatim` iff it
// is the method's own key parameter and that parameter is never assigned in the body; `transformed <src>` otherwise.
// Fails (broken tie) if a method or its call of the underlying cache is not found.
func init() { extractors["LruKeys"] = extractLruKeys }

func extractLruKeys(repo string) (string, error) {
	fset := token.NewFileSet()
	f, err := parser.ParseFile(fset, filepath.Join(repo, "graphql", "handler", "lru", "lru.go"), nil, 0)
	if err != nil {
		return "", err
	}
	uses := map[string]string{}
	for _, d := range f.Decls {
		fd, ok := d.(*ast.FuncDecl)
		if !ok || fd.Body == nil || fd.Recv == nil || (fd.Name.Name != "Get" && fd.Name.Name != "Add") {
			continue
		}
		if !strings.Contains(prSrc(fset, fd.Recv.List[0].Type), "LRU") || len(fd.Recv.List[0].Names) == 0 {
			continue
		}
		recv := fd.Recv.List[0].Names[0].Name
		key := ""
		for _, p := range fd.Type.Params.List {
			if prSrc(fset, p.Type) == "string" && len(p.Names) > 0 && key == "" {
				key = p.Names[0].Name
			}
		}
		assigned := false
		ast.Inspect(fd.Body, func(n ast.Node) bool {
			switch x := n.(type) {
			case *ast.AssignStmt:
				for _, l := range x.Lhs {
					if id, ok := l.(*ast.Ident); ok && id.Name == key {
						assigned = true
					}
				}
			case *ast.UnaryExpr:
				if id, ok := x.X.(*ast.Ident); ok && x.Op == token.AND && id.Name == key {
					assigned = true
				}
			}
			return true
		})
		ast.Inspect(fd.Body, func(n ast.Node) bool {
			c, ok := n.(*ast.CallExpr)
			if !ok {
				return true
			}
			se, ok := c.Fun.(*ast.SelectorExpr)
			if !ok || se.Sel.Name != fd.Name.Name || len(c.Args) == 0 {
				return true
			}
			inner, ok := se.X.(*ast.SelectorExpr)
			if !ok {
				return true
			}
			if x, ok := inner.X.(*ast.Ident); !ok || x.Name != recv {
				return true
			}
			if id, ok := c.Args[0].(*ast.Ident); ok && id.Name == key && key != "" && !assigned {
				uses[fd.Name.Name] = ".verbatim"
			} else {
				uses[fd.Name.Name] = fmt.Sprintf("(.transformed %q)", prSrc(fset, c.Args[0]))
			}
			return true
		})
	}
	for _, m := range []string{"Get", "Add"} {
		if uses[m] == "" {
			return "", fmt.Errorf("lru.LRU.%s or its call of the underlying cache not found", m)
		}
	}
	var b strings.Builder
	b.WriteString("import GqlgenVerif.Model.LruKeys\n\nnamespace GqlgenVerif.Gen.LruKeys\nopen GqlgenVerif.LruKeys\n\n")
	b.WriteString("/-- graphql/handler/lru/lru.go: the key each method of LRU hands to the underlying cache -/\n")
	b.WriteString(fmt.Sprintf("def keyUses : List (String × KeyUse) := [(\"Get\", %s), (\"Add\", %s)]\n\n", uses["Get"], uses["Add"]))
	b.WriteString("end GqlgenVerif.Gen.LruKeys\n")
	return b.String(), nil
}
