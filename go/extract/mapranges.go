package main

import (
	"bytes"
	"crypto/sha256"
	"encoding/json"
	"fmt"
	"go/ast"
	"go/printer"
	"go/token"
	"go/types"
	"os"
	"path/filepath"
	"sort"
	"strings"

	"golang.org/x/tools/go/packages"
)

// MapRanges: every `for … := range <map>` in the generator packages of /repo, each with a classification computed
// from the surrounding code by the syntactic rules below. Go randomises map iteration, so the generator's output
// can only be deterministic if no such loop lets the iteration order reach the output.
//
// Rules (first that applies; `body` = the loop body, `fn` = the enclosing function declaration / literal):
//
//	sorted-after     every effect of body on state outside the loop is `s = append(s, …)` (or `s[i] = …`-free) on
//	                 slice variables s, and for each such s a later statement of fn (after the loop, at any nesting)
//	                 calls sort.Slice / sort.SliceStable / sort.Strings / sort.Sort / sort.Stable / slices.Sort* on s,
//	                 AND no statement between the end of the loop and that first sort call mentions s or the bare
//	                 variable s is a field of (`f(b)` while `b.S` is unsorted) - see usedBeforeSorted; a sort call with
//	                 a comparator literal counts only if the comparator is proper (sortcomparators.go scProper: it
//	                 compares a key of element i with the same key of element j)
//	keyed-write      every effect of body is an assignment / delete / op-assignment on a map or slice element or a
//	                 field of it, `m[k]…`, whose index k IS the loop's own KEY variable (or a conversion of it, or
//	                 `<value>.Name`) — distinct iterations touch distinct elements, so the effects commute — or a set
//	                 insert `m[k] = true|struct{}{}`. An index merely DERIVED from the key (`res[astNode.Name]` with a
//	                 pointer key, `m[strings.ToLower(k)]`) is NOT accepted by rule: whether two keys can give the same
//	                 index is an invariant of the ranged map (e.g. "the filter above keeps package-scope identifiers
//	                 only") - such a site is order-sensitive unless reviewed (hash-pinned, so editing the filter re-opens it)
//	pure-search      body is made only of `if <cond> { return <constants> }` / `continue` statements and local
//	                 declarations: it returns the same whichever matching element is met first
//	commutative-acc  every effect of body is `n++`, `n += e`, `n |= e`, `b = b || e`, `b = b && e` on outer variables
//	reviewed         the site is listed in go/extract/mapranges_reviewed.json with the SHA-256 of its printed loop
//	                 and a justification (used where order reaches only an error message / log line, or a callee
//	                 that sorts); an edited loop no longer matches its hash and must be re-reviewed
//	order-sensitive  none of the above — `all_sites_invariant` (Props/C18.lean) then fails and so does the check
//
// Inside body, these are not effects: declarations of and assignments to variables declared inside the loop
// (incl. the key/value variables), calls in conditions and right-hand sides (assumed not to mutate shared state —
// reviewed per package below: the generator's helpers called from these loops are getters), `continue`, `break`
// is an effect unless the rule is pure-search, `return` is an effect unless pure-search or it returns an error
// built in the body (error-path: which error is reported first may vary; listed in the evidence as such).
func init() { extractors["MapRanges"] = extractMapRanges }

var mapRangePkgs = []string{"codegen", "codegen/config", "codegen/templates", "plugin/modelgen", "plugin/resolvergen",
	"plugin/federation", "plugin/federation/fieldset", "plugin/stubgen", "plugin", "api", "internal/code", "internal/imports", "internal/rewrite"}

type mrSite struct {
	File, Func, Expr string
	Line             int
	Class            string
	Evidence         string
	Hash             string
	ErrorPath        bool
}

type reviewed struct {
	File, Func, Expr, Hash, Why string
}

func mrNodeStr(fset *token.FileSet, n ast.Node) string {
	var b bytes.Buffer
	_ = printer.Fprint(&b, fset, n)
	return b.String()
}

type classifier struct {
	fset  *token.FileSet
	info  *types.Info
	loop  *ast.RangeStmt
	fn    ast.Node // *ast.FuncDecl or *ast.FuncLit
	local map[types.Object]bool
	keyV  types.Object
	valV  types.Object
	win   string // see window()
	bad   string // a sort call on a collected slice whose comparator does not sort (sortcomparators.go scProper)
}

func (c *classifier) obj(id *ast.Ident) types.Object {
	if o := c.info.Defs[id]; o != nil {
		return o
	}
	return c.info.Uses[id]
}

// rootIdent returns the identifier at the root of x (a.b[c].d -> a), or nil.
func mrRootIdent(x ast.Expr) *ast.Ident {
	for {
		switch e := x.(type) {
		case *ast.Ident:
			return e
		case *ast.SelectorExpr:
			x = e.X
		case *ast.IndexExpr:
			x = e.X
		case *ast.StarExpr:
			x = e.X
		case *ast.ParenExpr:
			x = e.X
		default:
			return nil
		}
	}
}

func (c *classifier) isLocal(x ast.Expr) bool {
	id := mrRootIdent(x)
	if id == nil {
		return false
	}
	if id.Name == "_" {
		return true
	}
	o := c.obj(id)
	return o != nil && c.local[o]
}

// usesKey: is expression x built from the loop's key variable, or from `<value>.Name` (in every map the generator
// ranges over whose values carry a Name - Schema.Types, directive and object maps - the key IS that name)?
func (c *classifier) usesKey(x ast.Expr) bool {
	found := false
	ast.Inspect(x, func(n ast.Node) bool {
		if id, ok := n.(*ast.Ident); ok && c.keyV != nil && c.obj(id) == c.keyV {
			found = true
		}
		if sel, ok := n.(*ast.SelectorExpr); ok && sel.Sel.Name == "Name" {
			if id, ok := sel.X.(*ast.Ident); ok && c.valV != nil && c.obj(id) == c.valV {
				found = true
			}
		}
		return true
	})
	return found
}

type effects struct {
	appendTo   map[string]bool // slice variables appended to
	keyed      int
	derived    []string // keyed writes whose index is DERIVED from the loop key (`m[k.Name]`, `m[f(k)]`): see derivedIndex
	acc        int
	other      []string
	returns    int
	errReturns int
	errAssign  int
	constRet   bool
	breaks     int
}

func mrIsConstExpr(e ast.Expr) bool {
	switch x := e.(type) {
	case *ast.BasicLit:
		return true
	case *ast.Ident:
		return x.Name == "true" || x.Name == "false" || x.Name == "nil"
	case *ast.CompositeLit:
		return len(x.Elts) == 0
	}
	return false
}

func (c *classifier) collect(body *ast.BlockStmt) *effects {
	ef := &effects{appendTo: map[string]bool{}, constRet: true}
	// locals: everything declared inside the loop statement (incl. key / value)
	ast.Inspect(c.loop, func(n ast.Node) bool {
		if id, ok := n.(*ast.Ident); ok {
			if o := c.info.Defs[id]; o != nil {
				c.local[o] = true
			}
		}
		return true
	})
	var nest []ast.Node // enclosing inner loops / switches (an unlabeled break inside them is local control flow)
	var all []ast.Node
	var walk func(n ast.Node) bool
	walk = func(n ast.Node) bool {
		if n == nil {
			last := all[len(all)-1]
			all = all[:len(all)-1]
			if len(nest) > 0 && nest[len(nest)-1] == last {
				nest = nest[:len(nest)-1]
			}
			return true
		}
		all = append(all, n)
		switch n.(type) {
		case *ast.ForStmt, *ast.RangeStmt, *ast.SwitchStmt, *ast.TypeSwitchStmt, *ast.SelectStmt:
			nest = append(nest, n)
		}
		switch s := n.(type) {
		case *ast.FuncLit:
			all = all[:len(all)-1]
			return false // closures defined in the body are effects only when called; calls are handled below
		case *ast.AssignStmt:
			for i, lhs := range s.Lhs {
				if c.isLocal(lhs) {
					if id := mrRootIdent(lhs); id != nil && c.valV != nil && c.obj(id) == c.valV {
						if _, bare := lhs.(*ast.Ident); !bare {
							ef.keyed++ // write through the loop's own element (v.f = …): element-keyed
						}
					}
					if i < len(s.Rhs) {
						if call, ok := s.Rhs[i].(*ast.CallExpr); ok && mrNodeStr(c.fset, call.Fun) == "templates.Render" {
							if c.renderPerElement(call) {
								ef.keyed++
							} else {
								ef.other = append(ef.other, "templates.Render with a file name not derived from the element")
							}
						}
					}
					continue
				}
				if t := c.info.TypeOf(lhs); t != nil && t.String() == "error" {
					ef.errAssign++ // `err = f(x)` on an outer error variable: error path
					// … unless the call is templates.Render: one output file per element
					if i < len(s.Rhs) {
						if call, ok := s.Rhs[i].(*ast.CallExpr); ok && mrNodeStr(c.fset, call.Fun) == "templates.Render" {
							if c.renderPerElement(call) {
								ef.keyed++
							} else {
								ef.other = append(ef.other, "templates.Render with a file name not derived from the element")
							}
						}
					}
					continue
				}
				// s = append(s, …)
				if id, ok := lhs.(*ast.Ident); ok && s.Tok == token.ASSIGN && i < len(s.Rhs) {
					if call, ok := s.Rhs[i].(*ast.CallExpr); ok {
						if f, ok := call.Fun.(*ast.Ident); ok && f.Name == "append" && len(call.Args) > 0 {
							if a0, ok := call.Args[0].(*ast.Ident); ok && a0.Name == id.Name {
								ef.appendTo[id.Name] = true
								continue
							}
						}
					}
				}
				// x.f = append(x.f, …) on a selector
				if sel, ok := lhs.(*ast.SelectorExpr); ok && s.Tok == token.ASSIGN && i < len(s.Rhs) {
					if call, ok := s.Rhs[i].(*ast.CallExpr); ok {
						if f, ok := call.Fun.(*ast.Ident); ok && f.Name == "append" && len(call.Args) > 0 &&
							mrNodeStr(c.fset, call.Args[0]) == mrNodeStr(c.fset, sel) {
							ef.appendTo[mrNodeStr(c.fset, sel)] = true
							continue
						}
					}
				}
				// m[k] … = v with k built from the loop key, or a set insert
				if ix := mrFindIndex(lhs); ix != nil {
					if c.chainUsesKey(lhs) {
						ef.keyed++
						if d := c.derivedIndex(lhs); d != "" {
							ef.derived = append(ef.derived, d)
						}
						continue
					}
					if i < len(s.Rhs) && mrIsConstExpr(s.Rhs[i]) && s.Tok == token.ASSIGN {
						ef.keyed++
						continue
					}
				}
				// commutative accumulation
				switch s.Tok {
				case token.ADD_ASSIGN, token.OR_ASSIGN, token.AND_ASSIGN, token.MUL_ASSIGN:
					if _, isStr := c.info.TypeOf(lhs).Underlying().(*types.Basic); isStr && c.info.TypeOf(lhs).Underlying().(*types.Basic).Info()&types.IsString == 0 {
						ef.acc++
						continue
					}
				case token.ASSIGN:
					if i < len(s.Rhs) {
						if be, ok := s.Rhs[i].(*ast.BinaryExpr); ok && (be.Op == token.LOR || be.Op == token.LAND) &&
							mrNodeStr(c.fset, be.X) == mrNodeStr(c.fset, lhs) {
							ef.acc++
							continue
						}
						if mrIsConstExpr(s.Rhs[i]) {
							// flag = true : idempotent
							ef.acc++
							continue
						}
					}
				}
				ef.other = append(ef.other, "assign "+mrNodeStr(c.fset, lhs))
			}
		case *ast.IncDecStmt:
			if !c.isLocal(s.X) {
				ef.acc++
			}
		case *ast.ExprStmt:
			if call, ok := s.X.(*ast.CallExpr); ok {
				if f, ok := call.Fun.(*ast.Ident); ok && f.Name == "delete" && len(call.Args) == 2 && c.usesKey(call.Args[1]) {
					ef.keyed++
					return true
				}
				if sel, ok := call.Fun.(*ast.SelectorExpr); ok && len(call.Args) > 0 && c.usesKey(call.Args[0]) {
					if t := c.info.TypeOf(sel.X); t != nil {
						if _, isMap := t.Underlying().(*types.Map); isMap {
							ef.keyed++ // m.Add(key, …): method of a map type writing the entry of the loop's own key
							return true
						}
					}
				}
				if sel, ok := call.Fun.(*ast.SelectorExpr); ok && c.isLocal(sel.X) {
					if id := mrRootIdent(sel.X); id != nil && c.obj(id) != c.valV && c.obj(id) != c.keyV {
						return true // method of a value declared inside the loop (e.g. a strings.Builder)
					}
				}
				if f, ok := call.Fun.(*ast.Ident); ok && f.Name == "panic" {
					ef.errReturns++
					return true
				}
				ef.other = append(ef.other, "call "+mrNodeStr(c.fset, call.Fun))
			}
		case *ast.ReturnStmt:
			ef.returns++
			isErr := false
			for _, r := range s.Results {
				if !mrIsConstExpr(r) {
					ef.constRet = false
				}
				if t := c.info.TypeOf(r); t != nil && t.String() == "error" {
					if id, ok := r.(*ast.Ident); !ok || id.Name != "nil" {
						isErr = true
					}
				}
				if call, ok := r.(*ast.CallExpr); ok {
					fs := mrNodeStr(c.fset, call.Fun)
					if fs == "fmt.Errorf" || fs == "errors.New" {
						isErr = true
					}
				}
			}
			if isErr {
				ef.errReturns++
			}
		case *ast.BranchStmt:
			if (s.Tok == token.BREAK && (len(nest) == 0 || s.Label != nil)) || s.Tok == token.GOTO {
				ef.breaks++
			}
		case *ast.GoStmt, *ast.DeferStmt, *ast.SendStmt:
			ef.other = append(ef.other, fmt.Sprintf("%T", s))
		}
		return true
	}
	ast.Inspect(body, walk)
	return ef
}

// chainUsesKey: some index along a[i].b[j]… is built from the loop key
func (c *classifier) chainUsesKey(x ast.Expr) bool {
	for {
		switch e := x.(type) {
		case *ast.IndexExpr:
			if c.usesKey(e.Index) {
				return true
			}
			x = e.X
		case *ast.SelectorExpr:
			x = e.X
		case *ast.StarExpr:
			x = e.X
		case *ast.ParenExpr:
			x = e.X
		default:
			return false
		}
	}
}

// isKeyItself: x IS the loop's key variable (possibly converted, `string(k)`, or parenthesised) or `<value>.Name`
// (see usesKey) - two iterations then never address the same entry. Anything else built from the key (`k.Name` where
// k is a pointer / struct key, `strings.ToLower(k)`, `f(k)`) is a PROJECTION of the key: two different keys may give
// the same index, and then the last (or, behind an `if _, ok := m[idx]; !ok` guard, the first) iteration wins.
func (c *classifier) isKeyItself(x ast.Expr) bool {
	switch e := x.(type) {
	case *ast.ParenExpr:
		return c.isKeyItself(e.X)
	case *ast.Ident:
		return c.keyV != nil && c.obj(e) == c.keyV
	case *ast.SelectorExpr:
		if id, ok := e.X.(*ast.Ident); ok && e.Sel.Name == "Name" && c.valV != nil && c.obj(id) == c.valV {
			return true
		}
	case *ast.CallExpr:
		// a conversion T(k) is injective for the string / integer kinds map keys have here
		if len(e.Args) == 1 {
			if tv, ok := c.info.Types[e.Fun]; ok && tv.IsType() {
				return c.isKeyItself(e.Args[0])
			}
		}
	}
	return false
}

// derivedIndex: along a[i].b[j]…, the first index that is built from the loop key without being the key itself
// (printed), or "" when every key-built index is the key itself.
func (c *classifier) derivedIndex(x ast.Expr) string {
	for {
		switch e := x.(type) {
		case *ast.IndexExpr:
			if c.usesKey(e.Index) {
				if c.isKeyItself(e.Index) {
					return ""
				}
				return mrNodeStr(c.fset, e.Index)
			}
			x = e.X
		case *ast.SelectorExpr:
			x = e.X
		case *ast.StarExpr:
			x = e.X
		case *ast.ParenExpr:
			x = e.X
		default:
			return ""
		}
	}
}

func mrFindIndex(x ast.Expr) *ast.IndexExpr {
	for {
		switch e := x.(type) {
		case *ast.IndexExpr:
			return e
		case *ast.SelectorExpr:
			x = e.X
		case *ast.StarExpr:
			x = e.X
		case *ast.ParenExpr:
			x = e.X
		default:
			return nil
		}
	}
}

// renderPerElement: templates.Render(templates.Options{… Filename: <e> …}) where <e> is a variable declared in the
// loop or a field of the loop's key / value: each iteration writes its own file.
func (c *classifier) renderPerElement(call *ast.CallExpr) bool {
	if len(call.Args) != 1 {
		return false
	}
	cl, ok := call.Args[0].(*ast.CompositeLit)
	if !ok {
		return false
	}
	for _, e := range cl.Elts {
		kv, ok := e.(*ast.KeyValueExpr)
		if !ok {
			continue
		}
		if k, ok := kv.Key.(*ast.Ident); ok && k.Name == "Filename" {
			return c.isLocal(kv.Value)
		}
	}
	return false
}

// sortedAfter: is there, after the loop inside fn, a call sort.X(<name> …) / slices.SortX(<name> …)?
func (c *classifier) sortedAfter(name string) bool {
	return c.firstSort(name) != token.NoPos
}

// window: the source text from the end of the loop to the end of the last "first sort call" of the slices the loop
// appends to - the stretch in which collected slices still are in map-iteration order. It is part of the site's
// hash, so a `reviewed` site is re-opened when a statement is moved into / out of that stretch or a sort key changes.
func (c *classifier) window(names map[string]bool) string {
	end := token.NoPos
	for n := range names {
		if call := c.firstSortCall(n); call != nil && call.End() > end {
			end = call.End()
		}
	}
	if end == token.NoPos {
		return ""
	}
	f := c.fset.File(c.loop.End())
	src, err := os.ReadFile(f.Name())
	if err != nil {
		return "unreadable"
	}
	return string(src[f.Offset(c.loop.End()):f.Offset(end)])
}

func mrIsSortCall(fset *token.FileSet, call *ast.CallExpr) bool {
	fs := mrNodeStr(fset, call.Fun)
	return strings.HasPrefix(fs, "sort.") || strings.HasPrefix(fs, "slices.Sort")
}

// firstSort: position of the first sort call on <name> after the loop (NoPos: none)
func (c *classifier) firstSort(name string) token.Pos {
	if call := c.firstSortCall(name); call != nil {
		return call.Pos()
	}
	return token.NoPos
}

func (c *classifier) firstSortCall(name string) *ast.CallExpr {
	var first *ast.CallExpr
	ast.Inspect(c.fn, func(n ast.Node) bool {
		call, ok := n.(*ast.CallExpr)
		if !ok || call.Pos() < c.loop.End() || len(call.Args) == 0 {
			return true
		}
		if mrIsSortCall(c.fset, call) {
			a := mrNodeStr(c.fset, call.Args[0])
			if (a == name || strings.HasSuffix(a, "("+name+")")) && (first == nil || call.Pos() < first.Pos()) {
				if ok, why := scProper(c.fset, call); !ok {
					// `sort.Slice(s, func(i, j int) bool { return s[i].K < s[i].K })` is not a sort
					c.bad = fmt.Sprintf("the sort call on %s at line %d does not count: %s", name, c.fset.Position(call.Pos()).Line, why)
					return true
				}
				first = call
			}
		}
		return true
	})
	return first
}

// usedBeforeSorted: the collected slice <name> (`s` or `b.S`) still is in map-iteration order between the end of
// the loop and its first sort call. Any statement in between that can see it lets the order through: a mention of
// <name> itself, or of the bare variable it hangs off (`f(b)`, `b.M()`, `x := b`) - other fields of that variable
// (`b.Other`) do not count, nor do further `<name> = append(<name>, …)` statements and sort calls (on this or a sibling
// slice). Returns a description of the first such use, or "".
func (c *classifier) usedBeforeSorted(name string) string {
	sortPos := c.firstSort(name)
	if sortPos == token.NoPos {
		return ""
	}
	var nameExpr ast.Expr
	ast.Inspect(c.loop.Body, func(n ast.Node) bool {
		if e, ok := n.(ast.Expr); ok && nameExpr == nil && mrNodeStr(c.fset, e) == name {
			if _, isCall := e.(*ast.CallExpr); !isCall {
				nameExpr = e
			}
		}
		return nameExpr == nil
	})
	if nameExpr == nil {
		return ""
	}
	root := mrRootIdent(nameExpr)
	if root == nil {
		return ""
	}
	rootObj := c.obj(root)
	use := ""
	var stack []ast.Node
	ast.Inspect(c.fn, func(n ast.Node) bool {
		if n == nil {
			stack = stack[:len(stack)-1]
			return true
		}
		stack = append(stack, n)
		if use != "" || n.End() <= c.loop.End() || n.Pos() >= sortPos {
			return use == "" && n.End() > c.loop.End()
		}
		if n.Pos() < c.loop.End() {
			return true // a node that contains the loop (enclosing block): descend
		}
		switch x := n.(type) {
		case *ast.CallExpr:
			if mrIsSortCall(c.fset, x) {
				return false
			}
		case *ast.AssignStmt:
			// <name> = append(<name>, …): still collecting
			if len(x.Lhs) == 1 && len(x.Rhs) == 1 && mrNodeStr(c.fset, x.Lhs[0]) == name {
				if call, ok := x.Rhs[0].(*ast.CallExpr); ok && mrNodeStr(c.fset, call.Fun) == "append" && len(call.Args) > 0 && mrNodeStr(c.fset, call.Args[0]) == name {
					return false
				}
			}
		case *ast.Ident:
			if rootObj == nil || c.obj(x) != rootObj {
				return true
			}
			// climb to the outermost selector / index chain this identifier is the root of
			var chain ast.Expr = x
			for i := len(stack) - 2; i >= 0; i-- {
				switch p := stack[i].(type) {
				case *ast.SelectorExpr:
					if p.X == chain {
						chain = p
						continue
					}
				case *ast.IndexExpr:
					if p.X == chain {
						chain = p
						continue
					}
				case *ast.ParenExpr:
					chain = p
					continue
				case *ast.StarExpr:
					chain = p
					continue
				}
				break
			}
			cs := mrNodeStr(c.fset, chain)
			bare := cs == root.Name
			same := cs == name || strings.HasPrefix(cs, name+"[") || strings.HasPrefix(cs, name+".")
			if se, isSel := chain.(*ast.SelectorExpr); isSel && !same && se.X == ast.Expr(x) {
				// a method of the bare variable (`b.M()`) sees everything; a field read (`b.Other`) does not
				if sel := c.info.Selections[se]; sel != nil && sel.Kind() == types.MethodVal {
					bare = true
				}
			}
			if bare || same {
				use = fmt.Sprintf("%s at line %d", cs, c.fset.Position(x.Pos()).Line)
			}
		}
		return true
	})
	return use
}

func (c *classifier) classify() (string, string, bool) {
	ef := c.collect(c.loop.Body)
	c.win = c.window(ef.appendTo)
	errPath := ef.errReturns > 0 || ef.errAssign > 0
	if len(ef.other) == 0 && ef.breaks == 0 {
		nonErrReturns := ef.returns - ef.errReturns
		if len(ef.appendTo) == 0 && ef.keyed == 0 && ef.acc == 0 && nonErrReturns > 0 && ef.constRet {
			return "pure-search", fmt.Sprintf("returns=%d (constants only)", ef.returns), errPath
		}
		if nonErrReturns == 0 {
			if len(ef.derived) > 0 {
				return "order-sensitive", fmt.Sprintf("writes an element indexed by %s, which is DERIVED from the loop key, not the key itself: two keys may give the same index and then the iteration order decides which write survives (injective only under an invariant of the ranged map: needs review)", strings.Join(ef.derived, ", ")), errPath
			}
			if len(ef.appendTo) > 0 {
				var names, unsorted []string
				for n := range ef.appendTo {
					names = append(names, n)
					if !c.sortedAfter(n) {
						unsorted = append(unsorted, n)
					}
				}
				sort.Strings(names)
				sort.Strings(unsorted)
				for _, n := range names {
					if u := c.usedBeforeSorted(n); u != "" {
						return "order-sensitive", fmt.Sprintf("appends to %s, which is sorted later in the function but used BEFORE that sort while still in map-iteration order (%s)", n, u), errPath
					}
				}
				if len(unsorted) == 0 {
					return "sorted-after", fmt.Sprintf("appends to %s, sorted later in the function; %d keyed writes, %d accumulations", strings.Join(names, ","), ef.keyed, ef.acc), errPath
				}
				ev := "appends to " + strings.Join(unsorted, ",") + " which is not sorted afterwards in the same function"
				if c.bad != "" {
					ev += " (" + c.bad + ")"
				}
				return "order-sensitive", ev, errPath
			}
			if ef.keyed > 0 {
				return "keyed-write", fmt.Sprintf("%d element writes indexed by the loop key / set inserts, %d commutative accumulations", ef.keyed, ef.acc), errPath
			}
			if ef.acc > 0 {
				return "commutative-acc", fmt.Sprintf("%d commutative accumulations", ef.acc), errPath
			}
			return "pure-search", "no effects outside the loop (error returns only)", errPath
		}
	}
	return "order-sensitive", fmt.Sprintf("other=%v breaks=%d returns=%d constRet=%v appends=%d keyed=%d acc=%d", ef.other, ef.breaks, ef.returns, ef.constRet, len(ef.appendTo), ef.keyed, ef.acc), errPath
}

func extractMapRanges(repo string) (string, error) {
	cfg := &packages.Config{Mode: packages.NeedName | packages.NeedFiles | packages.NeedSyntax | packages.NeedTypes | packages.NeedTypesInfo | packages.NeedImports | packages.NeedDeps,
		Dir: repo, Env: append(os.Environ(), "GOFLAGS=-mod=mod", "GOPROXY=off")}
	var pats []string
	for _, p := range mapRangePkgs {
		pats = append(pats, "./"+p)
	}
	pkgs, err := packages.Load(cfg, pats...)
	if err != nil {
		return "", err
	}
	var rev []reviewed
	// the reviewed list lives next to the extractor's sources
	for _, cand := range []string{os.Getenv("VERIF_REVIEWED"), "/verif/go/extract/mapranges_reviewed.json"} {
		if cand == "" {
			continue
		}
		if b, err := os.ReadFile(cand); err == nil {
			if err := json.Unmarshal(b, &rev); err != nil {
				return "", fmt.Errorf("%s: %v", cand, err)
			}
			break
		}
	}
	var sites []mrSite
	for _, pkg := range pkgs {
		if len(pkg.Errors) > 0 {
			return "", fmt.Errorf("package %s does not type-check: %v", pkg.PkgPath, pkg.Errors[0])
		}
		for _, f := range pkg.Syntax {
			fname := pkg.Fset.Position(f.Pos()).Filename
			if strings.HasSuffix(fname, "_test.go") {
				continue
			}
			rel, _ := filepath.Rel(repo, fname)
			if strings.HasSuffix(rel, "verif_export.go") {
				continue
			}
			var stack []ast.Node
			ast.Inspect(f, func(n ast.Node) bool {
				if n == nil {
					stack = stack[:len(stack)-1]
					return true
				}
				stack = append(stack, n)
				rs, ok := n.(*ast.RangeStmt)
				if !ok {
					return true
				}
				t := pkg.TypesInfo.TypeOf(rs.X)
				if t == nil {
					return true
				}
				if _, isMap := t.Underlying().(*types.Map); !isMap {
					return true
				}
				var fn ast.Node
				fnName := "?"
				for i := len(stack) - 1; i >= 0; i-- {
					if fl, ok := stack[i].(*ast.FuncLit); ok && fn == nil {
						fn = fl
					}
					if fd, ok := stack[i].(*ast.FuncDecl); ok {
						if fn == nil {
							fn = fd
						}
						fnName = fd.Name.Name
						if fd.Recv != nil && len(fd.Recv.List) > 0 {
							fnName = strings.TrimPrefix(mrNodeStr(pkg.Fset, fd.Recv.List[0].Type), "*") + "." + fnName
						}
						break
					}
				}
				c := &classifier{fset: pkg.Fset, info: pkg.TypesInfo, loop: rs, fn: fn, local: map[types.Object]bool{}}
				if id, ok := rs.Key.(*ast.Ident); ok && id.Name != "_" {
					c.keyV = c.obj(id)
				}
				if id, ok := rs.Value.(*ast.Ident); ok && id.Name != "_" {
					c.valV = c.obj(id)
				}
				class, ev, errPath := c.classify()
				h := sha256.Sum256([]byte(mrNodeStr(pkg.Fset, rs)))
				if c.win != "" {
					h = sha256.Sum256([]byte(mrNodeStr(pkg.Fset, rs) + "\n// until sorted:\n" + c.win))
				}
				s := mrSite{File: rel, Func: fnName, Expr: mrNodeStr(pkg.Fset, rs.X), Line: pkg.Fset.Position(rs.Pos()).Line,
					Class: class, Evidence: ev, Hash: fmt.Sprintf("%x", h[:8]), ErrorPath: errPath}
				if class == "order-sensitive" {
					for _, r := range rev {
						if r.File == s.File && r.Func == s.Func && r.Expr == s.Expr && r.Hash == s.Hash {
							s.Class = "reviewed"
							s.Evidence = r.Why
						}
					}
				}
				sites = append(sites, s)
				return true
			})
		}
	}
	sort.Slice(sites, func(i, j int) bool {
		if sites[i].File != sites[j].File {
			return sites[i].File < sites[j].File
		}
		return sites[i].Line < sites[j].Line
	})
	if len(sites) == 0 {
		return "", fmt.Errorf("no map range found: the extractor no longer sees the generator packages")
	}
	var b strings.Builder
	b.WriteString("/-! Every `range` over a map in gqlgen's generator packages with its order classification (go/extract/mapranges.go). -/\n")
	b.WriteString("namespace GqlgenVerif.Gen.MapRanges\n\n")
	b.WriteString("inductive OrderClass where\n  | sortedAfter | keyedWrite | pureSearch | commutativeAcc | reviewed | orderSensitive\nderiving Repr, DecidableEq\n\n")
	b.WriteString("structure Site where\n  file : String\n  func : String\n  expr : String\n  line : Nat\n  cls : OrderClass\n  errorPath : Bool\n  evidence : String\nderiving Repr\n\n")
	b.WriteString("def sites : List Site := [\n")
	cls := map[string]string{"sorted-after": ".sortedAfter", "keyed-write": ".keyedWrite", "pure-search": ".pureSearch", "commutative-acc": ".commutativeAcc", "reviewed": ".reviewed", "order-sensitive": ".orderSensitive"}
	for i, s := range sites {
		sep := ","
		if i == len(sites)-1 {
			sep = ""
		}
		fmt.Fprintf(&b, "  ⟨%s, %s, %s, %d, %s, %v, %s⟩%s\n", kwLeanStr(s.File), kwLeanStr(s.Func), kwLeanStr(s.Expr), s.Line, cls[s.Class], s.ErrorPath, kwLeanStr(s.Hash+" "+s.Evidence), sep)
	}
	b.WriteString("]\n\nend GqlgenVerif.Gen.MapRanges\n")
	return b.String(), nil
}
