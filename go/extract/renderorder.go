package main

import (
	"fmt"
	"go/ast"
	"go/parser"
	"go/token"
	"path/filepath"
	"strconv"
	"strings"
)

// RenderOrder (C18): the comparator with which codegen/templates/templates.go Render orders its root templates, and
// the filter that decides what a root is. The roots come from `t.Templates()` (a range over a Go map): the sort is all
// there is between the map order and the bytes of the rendered file.
//
//	for _, templ := range t.Templates() {
//	    if strings.HasSuffix(templ.Name(), "_.gotpl") || !strings.HasSuffix(templ.Name(), ".gotpl") { continue }
//	    roots = append(roots, templ.Name())
//	}
//	sort.SliceStable(roots, func(i, j int) bool {
//	    if strings.HasSuffix(roots[i], "!.gotpl") && !strings.HasSuffix(roots[j], "!.gotpl") { return true }
//	    if strings.HasSuffix(roots[j], "!.gotpl") && !strings.HasSuffix(roots[i], "!.gotpl") { return false }
//	    return roots[i] < roots[j]
//	})
//
// becomes
//
//	def comparator : Comparator := ⟨[⟨.and .impI (.not .impJ), true⟩, ⟨.and .impJ (.not .impI), false⟩], .ltIJ, true⟩
//	def importantSuffix := "!.gotpl"   def skipSuffix := "_.gotpl"   def rootSuffix := ".gotpl"
//
// Recognised in the comparator literal: any number of `if <cond> { return true|false }` (no else, no init) where <cond>
// is built with && || ! ( ) from `strings.HasSuffix(roots[i|j], "<one and the same literal>")`, then a final
// `return roots[a] < roots[b]` with {a, b} = {i, j}. Anything else fails (broken tie). Props/C18Tpl.lean decides on
// the regenerated clauses that they are the strict order "important first" (render_comparator_decides_as_spec).
func init() { extractors["RenderOrder"] = extractRenderOrder }

type roCtx struct {
	fset   *token.FileSet
	slice  string
	pi, pj string
	suffix string
}

// roSuffixCall: strings.HasSuffix(<x>, "<lit>") -> (x, lit)
func roSuffixCall(fset *token.FileSet, e ast.Expr) (ast.Expr, string, bool) {
	call, ok := e.(*ast.CallExpr)
	if !ok || mrNodeStr(fset, call.Fun) != "strings.HasSuffix" || len(call.Args) != 2 {
		return nil, "", false
	}
	lit, ok := call.Args[1].(*ast.BasicLit)
	if !ok || lit.Kind != token.STRING {
		return nil, "", false
	}
	s, err := strconv.Unquote(lit.Value)
	if err != nil {
		return nil, "", false
	}
	return call.Args[0], s, true
}

func (c *roCtx) cond(e ast.Expr) (string, error) {
	switch x := e.(type) {
	case *ast.ParenExpr:
		return c.cond(x.X)
	case *ast.UnaryExpr:
		if x.Op == token.NOT {
			a, err := c.cond(x.X)
			if err != nil {
				return "", err
			}
			return "(.not " + a + ")", nil
		}
	case *ast.BinaryExpr:
		if x.Op == token.LAND || x.Op == token.LOR {
			a, err := c.cond(x.X)
			if err != nil {
				return "", err
			}
			b, err := c.cond(x.Y)
			if err != nil {
				return "", err
			}
			op := ".and"
			if x.Op == token.LOR {
				op = ".or"
			}
			return "(" + op + " " + a + " " + b + ")", nil
		}
	case *ast.CallExpr:
		arg, lit, ok := roSuffixCall(c.fset, x)
		if !ok {
			break
		}
		if c.suffix != "" && c.suffix != lit {
			return "", fmt.Errorf("the comparator tests two different suffixes, %q and %q", c.suffix, lit)
		}
		c.suffix = lit
		switch mrNodeStr(c.fset, arg) {
		case c.slice + "[" + c.pi + "]":
			return ".impI", nil
		case c.slice + "[" + c.pj + "]":
			return ".impJ", nil
		}
	}
	return "", fmt.Errorf("condition not understood: %s", mrNodeStr(c.fset, e))
}

func extractRenderOrder(repo string) (string, error) {
	fset := token.NewFileSet()
	f, err := parser.ParseFile(fset, filepath.Join(repo, "codegen/templates/templates.go"), nil, 0)
	if err != nil {
		return "", err
	}
	var render *ast.FuncDecl
	for _, d := range f.Decls {
		if fd, ok := d.(*ast.FuncDecl); ok && fd.Recv == nil && fd.Name.Name == "Render" {
			render = fd
		}
	}
	if render == nil || render.Body == nil {
		return "", fmt.Errorf("func Render not found in codegen/templates/templates.go")
	}
	// the collecting loop: range <x>.Templates(), one filter, one append
	var loop *ast.RangeStmt
	var sortCall *ast.CallExpr
	nSort := 0
	ast.Inspect(render.Body, func(n ast.Node) bool {
		switch x := n.(type) {
		case *ast.RangeStmt:
			if strings.HasSuffix(mrNodeStr(fset, x.X), ".Templates()") {
				if loop != nil {
					loop = nil
					return false
				}
				loop = x
			}
		case *ast.CallExpr:
			if _, _, ok := scSortFunLit(fset, x); ok {
				nSort++
				sortCall = x
			}
		}
		return true
	})
	if loop == nil {
		return "", fmt.Errorf("Render: expected exactly one `range <t>.Templates()` loop")
	}
	if nSort != 1 {
		return "", fmt.Errorf("Render: expected exactly one sort call with a comparator, found %d", nSort)
	}
	val, ok := loop.Value.(*ast.Ident)
	if !ok {
		return "", fmt.Errorf("Render: the Templates() loop has no value variable")
	}
	nameExpr := val.Name + ".Name()"
	var skipSuffix, rootSuffix, slice string
	if len(loop.Body.List) != 2 {
		return "", fmt.Errorf("Render: the Templates() loop has %d statements, expected the filter and the append", len(loop.Body.List))
	}
	ifs, ok := loop.Body.List[0].(*ast.IfStmt)
	if !ok || ifs.Init != nil || ifs.Else != nil || len(ifs.Body.List) != 1 || mrNodeStr(fset, ifs.Body.List[0]) != "continue" {
		return "", fmt.Errorf("Render: the Templates() loop does not start with `if … { continue }`")
	}
	or, ok := ifs.Cond.(*ast.BinaryExpr)
	if !ok || or.Op != token.LOR {
		return "", fmt.Errorf("Render: filter is not `HasSuffix(name, skip) || !HasSuffix(name, root)`: %s", mrNodeStr(fset, ifs.Cond))
	}
	if a, lit, ok := roSuffixCall(fset, or.X); ok && mrNodeStr(fset, a) == nameExpr {
		skipSuffix = lit
	}
	if un, ok := or.Y.(*ast.UnaryExpr); ok && un.Op == token.NOT {
		if a, lit, ok := roSuffixCall(fset, un.X); ok && mrNodeStr(fset, a) == nameExpr {
			rootSuffix = lit
		}
	}
	if skipSuffix == "" || rootSuffix == "" {
		return "", fmt.Errorf("Render: filter is not `HasSuffix(name, skip) || !HasSuffix(name, root)`: %s", mrNodeStr(fset, ifs.Cond))
	}
	if as, ok := loop.Body.List[1].(*ast.AssignStmt); ok && len(as.Lhs) == 1 && len(as.Rhs) == 1 {
		if id, ok := as.Lhs[0].(*ast.Ident); ok && mrNodeStr(fset, as.Rhs[0]) == "append("+id.Name+", "+nameExpr+")" {
			slice = id.Name
		}
	}
	if slice == "" {
		return "", fmt.Errorf("Render: the Templates() loop does not end with `roots = append(roots, %s)`", nameExpr)
	}
	if sortCall.Pos() < loop.End() || mrNodeStr(fset, sortCall.Args[0]) != slice {
		return "", fmt.Errorf("Render: the sort call does not sort %s after the loop", slice)
	}
	cmpE, stable, _ := scSortFunLit(fset, sortCall)
	fl, ok := cmpE.(*ast.FuncLit)
	if !ok {
		return "", fmt.Errorf("Render: the comparator is not a function literal")
	}
	var params []string
	for _, p := range fl.Type.Params.List {
		for _, n := range p.Names {
			params = append(params, n.Name)
		}
	}
	if len(params) != 2 {
		return "", fmt.Errorf("Render: comparator with %d parameters", len(params))
	}
	c := &roCtx{fset: fset, slice: slice, pi: params[0], pj: params[1]}
	var clauses []string
	final := ""
	for k, st := range fl.Body.List {
		if k == len(fl.Body.List)-1 {
			ret, ok := st.(*ast.ReturnStmt)
			if !ok || len(ret.Results) != 1 {
				return "", fmt.Errorf("Render: the comparator does not end with a return")
			}
			be, ok := ret.Results[0].(*ast.BinaryExpr)
			ei, ej := slice+"["+c.pi+"]", slice+"["+c.pj+"]"
			switch {
			case ok && be.Op == token.LSS && mrNodeStr(fset, be.X) == ei && mrNodeStr(fset, be.Y) == ej,
				ok && be.Op == token.GTR && mrNodeStr(fset, be.X) == ej && mrNodeStr(fset, be.Y) == ei:
				final = ".ltIJ"
			case ok && be.Op == token.LSS && mrNodeStr(fset, be.X) == ej && mrNodeStr(fset, be.Y) == ei,
				ok && be.Op == token.GTR && mrNodeStr(fset, be.X) == ei && mrNodeStr(fset, be.Y) == ej:
				final = ".ltJI"
			default:
				return "", fmt.Errorf("Render: final return of the comparator not understood: %s", mrNodeStr(fset, st))
			}
			continue
		}
		is, ok := st.(*ast.IfStmt)
		if !ok || is.Init != nil || is.Else != nil || len(is.Body.List) != 1 {
			return "", fmt.Errorf("Render: comparator statement not understood: %s", mrNodeStr(fset, st))
		}
		ret, ok := is.Body.List[0].(*ast.ReturnStmt)
		if !ok || len(ret.Results) != 1 {
			return "", fmt.Errorf("Render: comparator statement not understood: %s", mrNodeStr(fset, st))
		}
		rv := mrNodeStr(fset, ret.Results[0])
		if rv != "true" && rv != "false" {
			return "", fmt.Errorf("Render: guarded return of a non-constant: %s", rv)
		}
		cs, err := c.cond(is.Cond)
		if err != nil {
			return "", fmt.Errorf("Render: %v", err)
		}
		clauses = append(clauses, "⟨"+strings.TrimSuffix(strings.TrimPrefix(cs, "("), ")")+", "+rv+"⟩")
	}
	if final == "" {
		return "", fmt.Errorf("Render: empty comparator")
	}
	var b strings.Builder
	b.WriteString("import GqlgenVerif.Model.RenderOrder\n")
	b.WriteString("/-! The comparator `templates.Render` orders its root templates with, and its root filter (go/extract/renderorder.go). -/\n")
	b.WriteString("namespace GqlgenVerif.Gen.RenderOrder\nopen GqlgenVerif.RenderOrder\n\n")
	fmt.Fprintf(&b, "/-- codegen/templates/templates.go:%d -/\n", fset.Position(sortCall.Pos()).Line)
	fmt.Fprintf(&b, "def comparator : Comparator := ⟨[%s], %s, %v⟩\n", strings.Join(clauses, ", "), final, stable)
	fmt.Fprintf(&b, "def importantSuffix : String := %s\n", kwLeanStr(c.suffix))
	fmt.Fprintf(&b, "def skipSuffix : String := %s\n", kwLeanStr(skipSuffix))
	fmt.Fprintf(&b, "def rootSuffix : String := %s\n", kwLeanStr(rootSuffix))
	b.WriteString("\nend GqlgenVerif.Gen.RenderOrder\n")
	return b.String(), nil
}
