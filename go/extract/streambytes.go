package main

import (
	"fmt"
	"go/ast"
	"go/parser"
	"go/token"
	"os"
	"path/filepath"
	"sort"
	"strconv"
	"strings"
)

// StreamBytes: how the bytes of a payload reach the writer in the streaming transports (C12, content
// dimension) - the facts behind "every transport delivers exactly the bytes json.Marshal gave, whatever they
// contain":
//
//	(a) the three functions that marshal a response and write it - sse.go writeJsonWithSSE, util.go writeJson,
//	    http_multipart_mixed.go writeIncrementalJson - as `PayloadFn`s: is the marshalling error guarded
//	    (`b, err := json.Marshal(…)`, `if err != nil { panic(…) }`), and every following statement as a
//	    `WriteCall` over `BExpr`s (string literal / the marshalled `b` / string(b) / a + b / opaque):
//	    fmt.Fprintf(w, FORMAT, args...), fmt.Fprint(w, args...), w.Write(e), io.WriteString(w, e);
//	(b) every printf-family call of the whole transport package (non-test files): is its format a string
//	    literal, how many verbs does the literal have, how many operands follow - or does the call hand on
//	    the enclosing function's own `format, args...`.
//
// Props/C12Bytes.lean proves over these that a payload is written verbatim for ALL payload contents.
func init() { extractors["StreamBytes"] = extractStreamBytes }

type sbCtx struct {
	w string // name of the io.Writer parameter
	b string // name of the variable holding the marshalled bytes ("" when there is none)
}

func (c sbCtx) expr(e ast.Expr) string {
	switch x := e.(type) {
	case *ast.ParenExpr:
		return c.expr(x.X)
	case *ast.BasicLit:
		if x.Kind == token.STRING {
			if s, err := strconv.Unquote(x.Value); err == nil {
				return ".lit " + sfBytes(s)
			}
		}
	case *ast.Ident:
		if c.b != "" && x.Name == c.b {
			return ".payload"
		}
	case *ast.BinaryExpr:
		if x.Op == token.ADD {
			return ".cat (" + c.expr(x.X) + ") (" + c.expr(x.Y) + ")"
		}
	case *ast.CallExpr:
		if len(x.Args) == 1 && x.Ellipsis == token.NoPos {
			if id, ok := x.Fun.(*ast.Ident); ok && id.Name == "string" {
				return ".conv (" + c.expr(x.Args[0]) + ")"
			}
			if at, ok := x.Fun.(*ast.ArrayType); ok && at.Len == nil {
				if id, ok := at.Elt.(*ast.Ident); ok && id.Name == "byte" {
					return ".conv (" + c.expr(x.Args[0]) + ")"
				}
			}
		}
	}
	return ".opaque"
}

func (c sbCtx) exprs(es []ast.Expr) string {
	p := make([]string, len(es))
	for i, e := range es {
		p[i] = c.expr(e)
	}
	return "[" + strings.Join(p, ", ") + "]"
}

func (c sbCtx) isW(e ast.Expr) bool {
	id, ok := e.(*ast.Ident)
	return ok && id.Name == c.w
}

// call: one statement after the marshalling prologue as a WriteCall
func (c sbCtx) call(st ast.Stmt) string {
	es, ok := st.(*ast.ExprStmt)
	if !ok {
		return ".other"
	}
	call, ok := es.X.(*ast.CallExpr)
	if !ok || call.Ellipsis != token.NoPos {
		return ".other"
	}
	switch sfSel(call.Fun) {
	case "fmt.Fprintf":
		if len(call.Args) >= 2 && c.isW(call.Args[0]) {
			return ".printf (" + c.expr(call.Args[1]) + ") " + c.exprs(call.Args[2:])
		}
	case "fmt.Fprint":
		if len(call.Args) >= 1 && c.isW(call.Args[0]) {
			return ".print " + c.exprs(call.Args[1:])
		}
	case "io.WriteString":
		if len(call.Args) == 2 && c.isW(call.Args[0]) {
			return ".write (" + c.expr(call.Args[1]) + ")"
		}
	case c.w + ".Write":
		if len(call.Args) == 1 {
			return ".write (" + c.expr(call.Args[0]) + ")"
		}
	}
	return ".other"
}

// sbPayloadFn: `func name(w io.Writer, …) { b, err := json.Marshal(…); if err != nil { panic(…) }; <writes> }`
func sbPayloadFn(f *sfFile, name string) (def string, doc string, err error) {
	fd, ok := f.funcs[name]
	if !ok {
		return "", "", fmt.Errorf("function %s not found", name)
	}
	c := sbCtx{}
	for _, fl := range fd.Type.Params.List {
		if sfSel(fl.Type) == "io.Writer" || sfSel(fl.Type) == "http.ResponseWriter" {
			if len(fl.Names) == 1 {
				c.w = fl.Names[0].Name
			}
		}
	}
	if c.w == "" {
		return "", "", fmt.Errorf("%s: no io.Writer parameter", name)
	}
	stmts := fd.Body.List
	guarded := false
	errName := ""
	if len(stmts) >= 1 {
		if as, ok := stmts[0].(*ast.AssignStmt); ok && as.Tok == token.DEFINE && len(as.Lhs) == 2 && len(as.Rhs) == 1 {
			if call, ok := as.Rhs[0].(*ast.CallExpr); ok && sfSel(call.Fun) == "json.Marshal" && len(call.Args) == 1 {
				if b, ok := as.Lhs[0].(*ast.Ident); ok {
					if e, ok := as.Lhs[1].(*ast.Ident); ok {
						c.b, errName = b.Name, e.Name
						stmts = stmts[1:]
					}
				}
			}
		}
	}
	if c.b != "" && len(stmts) >= 1 {
		if is, ok := stmts[0].(*ast.IfStmt); ok && is.Init == nil && is.Else == nil && len(is.Body.List) == 1 {
			if be, ok := is.Cond.(*ast.BinaryExpr); ok && be.Op == token.NEQ && sfSel(be.X) == errName && sfSel(be.Y) == "nil" {
				if es, ok := is.Body.List[0].(*ast.ExprStmt); ok {
					if call, ok := es.X.(*ast.CallExpr); ok && sfSel(call.Fun) == "panic" {
						guarded = true
						stmts = stmts[1:]
					}
				}
			}
		}
	}
	var ws, lines []string
	for _, st := range stmts {
		w := c.call(st)
		ws = append(ws, w)
		lines = append(lines, fmt.Sprintf("%d", f.fset.Position(st.Pos()).Line))
	}
	return fmt.Sprintf("⟨%v, [%s]⟩", guarded, strings.Join(ws, ", ")),
		fmt.Sprintf("`%s` (line %d): marshals into `%s`, error guarded by a panic: %v; statements after that at lines %s",
			name, f.fset.Position(fd.Pos()).Line, c.b, guarded, strings.Join(lines, ", ")), nil
}

// sbVerbs: the number of operands a printf format consumes (`%%` none, `*` one more)
func sbVerbs(s string) int {
	n := 0
	for i := 0; i < len(s); i++ {
		if s[i] != '%' {
			continue
		}
		i++
		for i < len(s) && strings.IndexByte("+-# 0123456789.[]*", s[i]) >= 0 {
			if s[i] == '*' {
				n++
			}
			i++
		}
		if i < len(s) && s[i] != '%' {
			n++
		}
	}
	return n
}

// formatters of other packages the transports call: position of the format operand
var sbKnown = map[string]int{
	"fmt.Fprintf": 1, "fmt.Sprintf": 0, "fmt.Errorf": 0, "fmt.Printf": 0, "fmt.Appendf": 1,
	"log.Printf": 0, "log.Fatalf": 0, "log.Panicf": 0, "gqlerror.Errorf": 0, "errors.Errorf": 0,
}

func extractStreamBytes(repo string) (string, error) {
	dir := filepath.Join(repo, "graphql", "handler", "transport")
	var b strings.Builder
	b.WriteString("import GqlgenVerif.Model.GoFmt\nnamespace GqlgenVerif.Gen.StreamBytes\nopen GqlgenVerif.GoFmt\n\n")
	for _, pf := range []struct{ file, fn, name string }{
		{"sse.go", "writeJsonWithSSE", "sseNext"},
		{"util.go", "writeJson", "mpJson"},
		{"http_multipart_mixed.go", "writeIncrementalJson", "mpIncremental"},
	} {
		f, err := sfParse(filepath.Join(dir, pf.file))
		if err != nil {
			return "", err
		}
		def, doc, err := sbPayloadFn(f, pf.fn)
		if err != nil {
			return "", fmt.Errorf("%s: %v", pf.file, err)
		}
		fmt.Fprintf(&b, "/-- %s %s -/\ndef %s : PayloadFn := %s\n\n", pf.file, doc, pf.name, def)
	}

	// ---- every printf-family call of the package
	ents, err := os.ReadDir(dir)
	if err != nil {
		return "", err
	}
	var files []string
	for _, e := range ents {
		if strings.HasSuffix(e.Name(), ".go") && !strings.HasSuffix(e.Name(), "_test.go") {
			files = append(files, e.Name())
		}
	}
	sort.Strings(files)
	fset := token.NewFileSet()
	parsed := map[string]*ast.File{}
	own := map[string]int{} // functions / methods of the package with a `format string` parameter: its position
	for _, fn := range files {
		af, err := parser.ParseFile(fset, filepath.Join(dir, fn), nil, 0)
		if err != nil {
			return "", err
		}
		if len(af.Name.Name) >= 5 && strings.HasSuffix(af.Name.Name, "_test") {
			continue
		}
		parsed[fn] = af
		for _, d := range af.Decls {
			fd, ok := d.(*ast.FuncDecl)
			if !ok {
				continue
			}
			k := 0
			for _, fl := range fd.Type.Params.List {
				for _, nm := range fl.Names {
					if nm.Name == "format" && sfSel(fl.Type) == "string" {
						if prev, dup := own[fd.Name.Name]; dup && prev != k {
							return "", fmt.Errorf("two functions named %s take their format at different positions", fd.Name.Name)
						}
						own[fd.Name.Name] = k
					}
					k++
				}
				if len(fl.Names) == 0 {
					k++
				}
			}
		}
	}
	var sites, docs []string
	for _, fn := range files {
		af := parsed[fn]
		if af == nil {
			continue
		}
		for _, d := range af.Decls {
			fd, ok := d.(*ast.FuncDecl)
			if !ok || fd.Body == nil {
				continue
			}
			_, takesFormat := own[fd.Name.Name]
			var ferr error
			ast.Inspect(fd.Body, func(n ast.Node) bool {
				call, ok := n.(*ast.CallExpr)
				if !ok || ferr != nil {
					return true
				}
				name := sfSel(call.Fun)
				idx, known := sbKnown[name]
				if !known {
					last := name
					if i := strings.LastIndexByte(name, '.'); i >= 0 {
						last = name[i+1:]
					}
					pkg := strings.TrimSuffix(name, "."+last)
					if k, ok := own[last]; ok && pkg != "fmt" && pkg != "log" {
						idx, known = k, true
					} else if (pkg == "fmt" || pkg == "log" || pkg == "gqlerror") && strings.HasSuffix(last, "f") {
						ferr = fmt.Errorf("%s:%d: formatter %s is not known to the extractor", fn, fset.Position(call.Pos()).Line, name)
						return true
					}
				}
				if !known {
					return true
				}
				line := fset.Position(call.Pos()).Line
				if len(call.Args) <= idx {
					ferr = fmt.Errorf("%s:%d: %s without a format operand", fn, line, name)
					return true
				}
				constF, fwd, verbs, nargs := false, false, 0, len(call.Args)-idx-1
				fe := call.Args[idx]
				for {
					pe, ok := fe.(*ast.ParenExpr)
					if !ok {
						break
					}
					fe = pe.X
				}
				if lit, ok := fe.(*ast.BasicLit); ok && lit.Kind == token.STRING {
					s, err := strconv.Unquote(lit.Value)
					if err != nil {
						ferr = err
						return true
					}
					constF, verbs = true, sbVerbs(s)
					if call.Ellipsis != token.NoPos {
						constF = false // a literal format with a spread operand list: operands cannot be counted
					}
				} else if id, ok := fe.(*ast.Ident); ok && id.Name == "format" && takesFormat && call.Ellipsis != token.NoPos && nargs == 1 {
					fwd, nargs = true, 0
				}
				sites = append(sites, fmt.Sprintf("⟨%q, %d, %v, %v, %d, %d⟩", fn, line, constF, fwd, verbs, nargs))
				docs = append(docs, fmt.Sprintf("%s:%d %s", fn, line, name))
				return true
			})
			if ferr != nil {
				return "", ferr
			}
		}
	}
	if len(sites) == 0 {
		return "", fmt.Errorf("no printf-family call found in %s", dir)
	}
	fmt.Fprintf(&b, "/-- every printf-family call of graphql/handler/transport (non-test files):\n    (file, line, format is a string literal, hands on its own `format, args...`, verbs in the literal, operands).\n    %s -/\ndef fmtSites : List FmtSite := [\n  %s]\n\n", strings.Join(docs, "; "), strings.Join(sites, ",\n  "))
	b.WriteString("end GqlgenVerif.Gen.StreamBytes\n")
	return b.String(), nil
}
