package main

import (
	"fmt"
	"go/ast"
	"go/parser"
	"go/token"
	"path/filepath"
	"strconv"
	"strings"
)

// WsCloseReasons (C10): every close frame the websocket transport writes, translated from
// /repo/graphql/handler/transport/websocket.go into GqlgenVerif.WsClose.CloseSite values:
//
//   - every call `<recv>.close(code, reason)` and every `websocket.FormatCloseMessage(code, reason)`
//     outside of `func (c *wsConnection) close` (inside it the two arguments must be the function's own
//     parameters: it is the sink all `close` calls go through);
//   - code: a gorilla `websocket.CloseXxx` constant, an integer literal or a package-level integer constant;
//   - reason: a string literal, `fmt.Sprintf("<pre>%s<suf>", X)` written in place, or a local variable
//     bound by `v := fmt.Sprintf("<pre>%s<suf>", X)` in the same block and optionally cut by
//       if len(v) > G { v = v[:C] }                                                      -> Trunc.bytes G C
//       if len(v) > G { n := C; for n > 0 && !utf8.RuneStart(v[n]) { n-- }; v = v[:n] }  -> Trunc.runes G C
//     (G, C integer literals or package-level integer constants);
//   - X: `m.id` (bytes of the client) or `ws.Subprotocol()` (server configuration).
//
// Anything else is refused (exit 1): the tie is broken and a human has to look.

func init() { extractors["WsCloseReasons"] = extractWsCloseReasons }

var gorillaCloseCodes = map[string]int{
	"CloseNormalClosure": 1000, "CloseGoingAway": 1001, "CloseProtocolError": 1002, "CloseUnsupportedData": 1003,
	"CloseNoStatusReceived": 1005, "CloseAbnormalClosure": 1006, "CloseInvalidFramePayloadData": 1007,
	"ClosePolicyViolation": 1008, "CloseMessageTooBig": 1009, "CloseMandatoryExtension": 1010,
	"CloseInternalServerErr": 1011, "CloseServiceRestart": 1012, "CloseTryAgainLater": 1013, "CloseTLSHandshake": 1015,
}

type wcrCtx struct {
	fset   *token.FileSet
	consts map[string]int
}

func (x *wcrCtx) pos(n ast.Node) string { return x.fset.Position(n.Pos()).String() }

func (x *wcrCtx) intOf(e ast.Expr) (int, error) {
	switch v := e.(type) {
	case *ast.BasicLit:
		if v.Kind == token.INT {
			n, err := strconv.ParseInt(v.Value, 0, 64)
			return int(n), err
		}
	case *ast.Ident:
		if n, ok := x.consts[v.Name]; ok {
			return n, nil
		}
	case *ast.SelectorExpr:
		if id, ok := v.X.(*ast.Ident); ok && id.Name == "websocket" {
			if n, ok := gorillaCloseCodes[v.Sel.Name]; ok {
				return n, nil
			}
		}
	case *ast.ParenExpr:
		return x.intOf(v.X)
	}
	return 0, fmt.Errorf("%s: %s is not an integer literal, a package-level integer constant or a websocket.CloseXxx code", x.pos(e), c10str(e))
}

func leanBytes(s string) string {
	if s == "" {
		return "[]"
	}
	var p []string
	for i := 0; i < len(s); i++ {
		p = append(p, strconv.Itoa(int(s[i])))
	}
	return "[" + strings.Join(p, ", ") + "]"
}

// sprintf recognises fmt.Sprintf("<pre>%s<suf>", X) and returns pre, suf, source
func (x *wcrCtx) sprintf(e ast.Expr) (pre, suf, src string, ok bool, err error) {
	call, isCall := e.(*ast.CallExpr)
	if !isCall || c10str(call.Fun) != "fmt.Sprintf" {
		return "", "", "", false, nil
	}
	if len(call.Args) != 2 {
		return "", "", "", true, fmt.Errorf("%s: fmt.Sprintf with %d arguments in a close reason", x.pos(e), len(call.Args))
	}
	lit, isLit := call.Args[0].(*ast.BasicLit)
	if !isLit || lit.Kind != token.STRING {
		return "", "", "", true, fmt.Errorf("%s: format of a close reason is not a string literal", x.pos(e))
	}
	f, uerr := strconv.Unquote(lit.Value)
	if uerr != nil {
		return "", "", "", true, uerr
	}
	if strings.Count(f, "%") != 1 || !strings.Contains(f, "%s") {
		return "", "", "", true, fmt.Errorf("%s: format %q is not of the shape <pre>%%s<suf>", x.pos(e), f)
	}
	i := strings.Index(f, "%s")
	switch c10str(call.Args[1]) {
	case "m.id":
		src = ".client"
	case "ws.Subprotocol()":
		src = ".config"
	default:
		return "", "", "", true, fmt.Errorf("%s: do not know where %s comes from (client bytes or configuration?)", x.pos(e), c10str(call.Args[1]))
	}
	return f[:i], f[i+2:], src, true, nil
}

func (x *wcrCtx) truncOf(ifs *ast.IfStmt, v string) (string, error) {
	bad := func(what string) (string, error) {
		return "", fmt.Errorf("%s: unrecognised cut of close reason %s: %s", x.pos(ifs), v, what)
	}
	if ifs.Init != nil || ifs.Else != nil {
		return bad("if with init or else")
	}
	cond, ok := ifs.Cond.(*ast.BinaryExpr)
	if !ok || cond.Op != token.GTR || c10str(cond.X) != "len("+v+")" {
		return bad("condition " + c10str(ifs.Cond))
	}
	g, err := x.intOf(cond.Y)
	if err != nil {
		return "", err
	}
	sliceTo := func(s ast.Stmt) (ast.Expr, bool) {
		as, ok := s.(*ast.AssignStmt)
		if !ok || as.Tok != token.ASSIGN || len(as.Lhs) != 1 || len(as.Rhs) != 1 || c10str(as.Lhs[0]) != v {
			return nil, false
		}
		se, ok := as.Rhs[0].(*ast.SliceExpr)
		if !ok || c10str(se.X) != v || se.Low != nil || se.High == nil || se.Slice3 {
			return nil, false
		}
		return se.High, true
	}
	body := ifs.Body.List
	switch len(body) {
	case 1:
		hi, ok := sliceTo(body[0])
		if !ok {
			return bad("body")
		}
		c, err := x.intOf(hi)
		if err != nil {
			return "", err
		}
		return fmt.Sprintf(".bytes %d %d", g, c), nil
	case 3:
		def, ok := body[0].(*ast.AssignStmt)
		if !ok || def.Tok != token.DEFINE || len(def.Lhs) != 1 || len(def.Rhs) != 1 {
			return bad("first statement")
		}
		n := c10str(def.Lhs[0])
		c, err := x.intOf(def.Rhs[0])
		if err != nil {
			return "", err
		}
		loop, ok := body[1].(*ast.ForStmt)
		if !ok || loop.Init != nil || loop.Post != nil || loop.Cond == nil ||
			c10str(loop.Cond) != fmt.Sprintf("%s > 0 && !utf8.RuneStart(%s[%s])", n, v, n) || len(loop.Body.List) != 1 {
			return bad("loop")
		}
		dec, ok := loop.Body.List[0].(*ast.IncDecStmt)
		if !ok || dec.Tok != token.DEC || c10str(dec.X) != n {
			return bad("loop body")
		}
		hi, ok := sliceTo(body[2])
		if !ok || c10str(hi) != n {
			return bad("final slice")
		}
		return fmt.Sprintf(".runes %d %d", g, c), nil
	}
	return bad("body of " + strconv.Itoa(len(body)) + " statements")
}

// wcrAssignsTo: does the statement (not descending into function literals) assign to v?
func wcrAssignsTo(s ast.Stmt, v string) bool {
	found := false
	ast.Inspect(s, func(n ast.Node) bool {
		switch a := n.(type) {
		case *ast.FuncLit:
			return false
		case *ast.AssignStmt:
			for _, l := range a.Lhs {
				if c10str(l) == v {
					found = true
				}
			}
		case *ast.IncDecStmt:
			if c10str(a.X) == v {
				found = true
			}
		case *ast.UnaryExpr:
			if a.Op == token.AND && c10str(a.X) == v {
				found = true
			}
		}
		return true
	})
	return found
}

// reasonOf: Lean term of type Reason for the reason argument of a close call; path is the chain of
// enclosing nodes of the call (outermost first).
func (x *wcrCtx) reasonOf(arg ast.Expr, path []ast.Node) (string, error) {
	if lit, ok := arg.(*ast.BasicLit); ok && lit.Kind == token.STRING {
		s, err := strconv.Unquote(lit.Value)
		if err != nil {
			return "", err
		}
		return fmt.Sprintf(".lit %s /- %q -/", leanBytes(s), s), nil
	}
	if pre, suf, src, ok, err := x.sprintf(arg); ok {
		if err != nil {
			return "", err
		}
		return fmt.Sprintf(".echo %s %s %s .none /- %q ++ · ++ %q -/", leanBytes(pre), leanBytes(suf), src, pre, suf), nil
	}
	id, ok := arg.(*ast.Ident)
	if !ok {
		return "", fmt.Errorf("%s: close reason %s is neither a literal, a fmt.Sprintf nor a local variable", x.pos(arg), c10str(arg))
	}
	// the innermost block with a statement that contains the call
	for i := len(path) - 1; i >= 0; i-- {
		blk, ok := path[i].(*ast.BlockStmt)
		if !ok {
			continue
		}
		upto := -1
		for k, st := range blk.List {
			if st.Pos() <= arg.Pos() && arg.End() <= st.End() {
				upto = k
			}
		}
		if upto < 0 {
			continue
		}
		def := -1
		for k := 0; k < upto; k++ {
			if as, ok := blk.List[k].(*ast.AssignStmt); ok && as.Tok == token.DEFINE && len(as.Lhs) == 1 && c10str(as.Lhs[0]) == id.Name {
				def = k
			}
		}
		if def < 0 {
			continue
		}
		as := blk.List[def].(*ast.AssignStmt)
		pre, suf, src, ok, err := x.sprintf(as.Rhs[0])
		if err != nil {
			return "", err
		}
		if !ok {
			return "", fmt.Errorf("%s: close reason %s is bound to %s, not to a fmt.Sprintf", x.pos(as), id.Name, c10str(as.Rhs[0]))
		}
		trunc := ".none"
		for k := def + 1; k < upto; k++ {
			st := blk.List[k]
			if !wcrAssignsTo(st, id.Name) {
				continue
			}
			ifs, ok := st.(*ast.IfStmt)
			if !ok || trunc != ".none" {
				return "", fmt.Errorf("%s: close reason %s is modified in a way the translator does not know", x.pos(st), id.Name)
			}
			trunc, err = x.truncOf(ifs, id.Name)
			if err != nil {
				return "", err
			}
		}
		return fmt.Sprintf(".echo %s %s %s (%s) /- %q ++ · ++ %q -/", leanBytes(pre), leanBytes(suf), src, trunc, pre, suf), nil
	}
	return "", fmt.Errorf("%s: no definition of close reason %s in an enclosing block", x.pos(arg), id.Name)
}

func extractWsCloseReasons(repo string) (string, error) {
	fset := token.NewFileSet()
	f, err := parser.ParseFile(fset, filepath.Join(repo, "graphql/handler/transport/websocket.go"), nil, 0)
	if err != nil {
		return "", err
	}
	x := &wcrCtx{fset: fset, consts: map[string]int{}}
	for _, d := range f.Decls {
		gd, ok := d.(*ast.GenDecl)
		if !ok || gd.Tok != token.CONST {
			continue
		}
		for _, sp := range gd.Specs {
			vs := sp.(*ast.ValueSpec)
			for i, n := range vs.Names {
				if i < len(vs.Values) {
					if lit, ok := vs.Values[i].(*ast.BasicLit); ok && lit.Kind == token.INT {
						if v, err := strconv.ParseInt(lit.Value, 0, 64); err == nil {
							x.consts[n.Name] = int(v)
						}
					}
				}
			}
		}
	}
	var sites []string
	sink := 0
	for _, d := range f.Decls {
		fd, ok := d.(*ast.FuncDecl)
		if !ok || fd.Body == nil {
			continue
		}
		name := fd.Name.Name
		isSink := name == "close" && fd.Recv != nil
		var path []ast.Node
		var ierr error
		ast.Inspect(fd.Body, func(n ast.Node) bool {
			if n == nil {
				path = path[:len(path)-1]
				return true
			}
			path = append(path, n)
			call, ok := n.(*ast.CallExpr)
			if !ok || ierr != nil {
				return true
			}
			fun := c10str(call.Fun)
			isClose := false
			if sel, ok := call.Fun.(*ast.SelectorExpr); ok && sel.Sel.Name == "close" && len(call.Args) == 2 {
				isClose = true
			}
			isFmt := fun == "websocket.FormatCloseMessage"
			if !isClose && !isFmt {
				return true
			}
			if isFmt && len(call.Args) != 2 {
				ierr = fmt.Errorf("%s: FormatCloseMessage with %d arguments", x.pos(call), len(call.Args))
				return true
			}
			if isSink {
				if isFmt {
					ps := fd.Type.Params.List
					var pn []string
					for _, p := range ps {
						for _, nm := range p.Names {
							pn = append(pn, nm.Name)
						}
					}
					if len(pn) != 2 || c10str(call.Args[0]) != pn[0] || c10str(call.Args[1]) != pn[1] {
						ierr = fmt.Errorf("%s: wsConnection.close does not pass its own (code, reason) to FormatCloseMessage unchanged", x.pos(call))
					}
					sink++
				}
				return true
			}
			code, err := x.intOf(call.Args[0])
			if err != nil {
				ierr = err
				return true
			}
			reason, err := x.reasonOf(call.Args[1], path)
			if err != nil {
				ierr = err
				return true
			}
			sites = append(sites, fmt.Sprintf("  ⟨%q, %d, %s⟩", name, code, reason))
			return true
		})
		if ierr != nil {
			return "", ierr
		}
	}
	if sink != 1 {
		return "", fmt.Errorf("expected exactly one FormatCloseMessage inside (*wsConnection).close, found %d", sink)
	}
	if len(sites) == 0 {
		return "", fmt.Errorf("no close site found in websocket.go")
	}
	var b strings.Builder
	b.WriteString("import GqlgenVerif.Model.WsClose\nnamespace GqlgenVerif.Gen.WsCloseReasons\nopen GqlgenVerif.WsClose\n\n")
	b.WriteString("/-- every close frame written by graphql/handler/transport/websocket.go: enclosing function, status code, reason -/\n")
	b.WriteString("def sites : List CloseSite := [\n" + strings.Join(sites, ",\n") + "\n]\n\n")
	b.WriteString("end GqlgenVerif.Gen.WsCloseReasons\n")
	return b.String(), nil
}
