package main

import (
	"bytes"
	"fmt"
	"go/ast"
	"go/parser"
	"go/printer"
	"go/token"
	"path/filepath"
	"strings"
)

// ExtInstall (C14): how an installed handler extension reaches the loops of CreateOperationContext -
//
//	graphql/executor/extensions.go  type extensions struct: which field is the slot of which hook interface (by its type)
//	    (*Executor).Use: the interfaces of the clause that appends the extension and re-runs processExtensions
//	    processExtensions: per loop its direction and, statement by statement,
//	        `if p, ok := p.(graphql.<I>); ok { fill }`                      -> .ifAssert I fill
//	        `switch p := p.(type) { case graphql.<I>: fill … }`             -> .typeSwitch [(I, fill), …]   (first match only)
//	      fill = `e.f = append(e.f, p)` (.append) or `previous := e.f; e.f = func(…){ return p.Intercept…(ctx, func(…){ return previous(ctx, next) }) }` (.wrap)
//	graphql/executor/executor.go    CreateOperationContext: the `for _, p := range e.ext.<slot> { if err := p.Mutate…; err != nil { return … } }` loops
//
// as `GqlgenVerif.ExtInstall.Program`. Props/C14Install.lean proves over it that every slot is filled by one independent
// assertion (so a limit carried by an extension that implements further hooks is still a context mutator). Statements the
// translator has no reading for are errors (broken tie).
func init() { extractors["ExtInstall"] = extractExtInstall }

func eiSrc(fset *token.FileSet, n ast.Node) string {
	if n == nil {
		return ""
	}
	var b bytes.Buffer
	_ = printer.Fprint(&b, fset, n)
	return strings.Join(strings.Fields(b.String()), " ")
}

func eiFunc(f *ast.File, recv, name string) *ast.FuncDecl {
	for _, d := range f.Decls {
		fd, ok := d.(*ast.FuncDecl)
		if !ok || fd.Name.Name != name {
			continue
		}
		if recv == "" && fd.Recv == nil {
			return fd
		}
		if recv != "" && fd.Recv != nil && len(fd.Recv.List) == 1 {
			t := fd.Recv.List[0].Type
			if s, ok := t.(*ast.StarExpr); ok {
				t = s.X
			}
			if id, ok := t.(*ast.Ident); ok && id.Name == recv {
				return fd
			}
		}
	}
	return nil
}

// hook interface -> Lean constructor, the method the executor calls through it, the type of its slot in `extensions`
var eiHooks = []struct{ iface, lean, method, slotType string }{
	{"OperationParameterMutator", ".param", "MutateOperationParameters", "[]graphql.OperationParameterMutator"},
	{"OperationContextMutator", ".ctx", "MutateOperationContext", "[]graphql.OperationContextMutator"},
	{"OperationInterceptor", ".op", "InterceptOperation", "graphql.OperationMiddleware"},
	{"ResponseInterceptor", ".resp", "InterceptResponse", "graphql.ResponseMiddleware"},
	{"RootFieldInterceptor", ".rootField", "InterceptRootField", "graphql.RootFieldMiddleware"},
	{"FieldInterceptor", ".field", "InterceptField", "graphql.FieldMiddleware"},
}

func eiByIface(name string) (lean, method string, ok bool) {
	for _, h := range eiHooks {
		if h.iface == name {
			return h.lean, h.method, true
		}
	}
	return "", "", false
}

// the slots of `type extensions struct`: field name -> Lean hook
func eiSlots(fset *token.FileSet, f *ast.File) (map[string]string, error) {
	for _, d := range f.Decls {
		gd, ok := d.(*ast.GenDecl)
		if !ok {
			continue
		}
		for _, sp := range gd.Specs {
			ts, ok := sp.(*ast.TypeSpec)
			if !ok || ts.Name.Name != "extensions" {
				continue
			}
			st, ok := ts.Type.(*ast.StructType)
			if !ok {
				return nil, fmt.Errorf("type extensions is not a struct")
			}
			res := map[string]string{}
			for _, fl := range st.Fields.List {
				t := eiSrc(fset, fl.Type)
				lean := ""
				for _, h := range eiHooks {
					if h.slotType == t {
						lean = h.lean
					}
				}
				if lean == "" {
					return nil, fmt.Errorf("type extensions: field of type %q is not the slot of a hook interface", t)
				}
				for _, n := range fl.Names {
					res[n.Name] = lean
				}
			}
			return res, nil
		}
	}
	return nil, fmt.Errorf("type extensions not found")
}

// eiFill: the body of a branch taken for a value asserted to implement `iface`
func eiFill(fset *token.FileSet, slots map[string]string, iface string, body []ast.Stmt) (string, error) {
	_, method, _ := eiByIface(iface)
	switch len(body) {
	case 1:
		as, ok := body[0].(*ast.AssignStmt)
		if !ok || len(as.Lhs) != 1 || len(as.Rhs) != 1 || as.Tok != token.ASSIGN || !strings.HasPrefix(eiSrc(fset, as.Lhs[0]), "e.") {
			return "", fmt.Errorf("%s: unexpected body %q", iface, eiSrc(fset, body[0]))
		}
		field := strings.TrimPrefix(eiSrc(fset, as.Lhs[0]), "e.")
		if eiSrc(fset, as.Rhs[0]) != "append(e."+field+", p)" {
			return "", fmt.Errorf("%s: %q is not an append of p to the same slot", iface, eiSrc(fset, as))
		}
		slot, ok := slots[field]
		if !ok {
			return "", fmt.Errorf("%s: e.%s is not a field of extensions", iface, field)
		}
		return fmt.Sprintf("⟨%s, .append⟩", slot), nil
	case 2:
		pa, ok1 := body[0].(*ast.AssignStmt)
		as, ok2 := body[1].(*ast.AssignStmt)
		if !ok1 || !ok2 || len(pa.Lhs) != 1 || len(as.Lhs) != 1 || eiSrc(fset, pa.Lhs[0]) != "previous" || pa.Tok != token.DEFINE ||
			!strings.HasPrefix(eiSrc(fset, pa.Rhs[0]), "e.") || eiSrc(fset, as.Lhs[0]) != eiSrc(fset, pa.Rhs[0]) || as.Tok != token.ASSIGN {
			return "", fmt.Errorf("%s: unexpected body %q / %q", iface, eiSrc(fset, body[0]), eiSrc(fset, body[1]))
		}
		field := strings.TrimPrefix(eiSrc(fset, pa.Rhs[0]), "e.")
		slot, ok := slots[field]
		if !ok {
			return "", fmt.Errorf("%s: e.%s is not a field of extensions", iface, field)
		}
		fl, ok := as.Rhs[0].(*ast.FuncLit)
		if !ok || len(fl.Body.List) != 1 {
			return "", fmt.Errorf("%s: not a single-return closure", iface)
		}
		ret, ok := fl.Body.List[0].(*ast.ReturnStmt)
		if !ok || len(ret.Results) != 1 {
			return "", fmt.Errorf("%s: not a single-return closure", iface)
		}
		call, ok := ret.Results[0].(*ast.CallExpr)
		if !ok || eiSrc(fset, call.Fun) != "p."+method || len(call.Args) != 2 || eiSrc(fset, call.Args[0]) != "ctx" {
			return "", fmt.Errorf("%s: the closure does not return p.%s(ctx, …)", iface, method)
		}
		in, ok := call.Args[1].(*ast.FuncLit)
		if !ok || len(in.Body.List) != 1 || eiSrc(fset, in.Body.List[0]) != "return previous(ctx, next)" {
			return "", fmt.Errorf("%s: the inner closure is not `return previous(ctx, next)`", iface)
		}
		return fmt.Sprintf("⟨%s, .wrap⟩", slot), nil
	}
	return "", fmt.Errorf("%s: unexpected body of %d statements", iface, len(body))
}

func eiIfaceOf(fset *token.FileSet, e ast.Expr) (string, error) {
	t := eiSrc(fset, e)
	if !strings.HasPrefix(t, "graphql.") {
		return "", fmt.Errorf("type %q is not a graphql hook interface", t)
	}
	name := strings.TrimPrefix(t, "graphql.")
	if _, _, ok := eiByIface(name); !ok {
		return "", fmt.Errorf("type %q is not a graphql hook interface", t)
	}
	return name, nil
}

func eiLoop(fset *token.FileSet, s ast.Stmt, over string) (dir string, body []ast.Stmt, isLoop bool, err error) {
	switch st := s.(type) {
	case *ast.ForStmt:
		hdr := eiSrc(fset, st.Init) + "; " + eiSrc(fset, st.Cond) + "; " + eiSrc(fset, st.Post)
		switch hdr {
		case "i := len(" + over + ") - 1; i >= 0; i--":
			return ".backward", st.Body.List, true, nil
		case "i := 0; i < len(" + over + "); i++":
			return ".forward", st.Body.List, true, nil
		}
		return "", nil, true, fmt.Errorf("unknown loop header %q", hdr)
	case *ast.RangeStmt:
		if eiSrc(fset, st.X) != over || eiSrc(fset, st.Key) != "_" || eiSrc(fset, st.Value) != "p" {
			return "", nil, true, fmt.Errorf("unknown range loop `for %s, %s := range %s` (expected `for _, p := range %s`)", eiSrc(fset, st.Key), eiSrc(fset, st.Value), eiSrc(fset, st.X), over)
		}
		return ".forward", st.Body.List, true, nil
	}
	return "", nil, false, nil
}

func eiProcess(fset *token.FileSet, slots map[string]string, fd *ast.FuncDecl) ([]string, error) {
	var loops []string
	for _, s := range fd.Body.List {
		dir, body, isLoop, err := eiLoop(fset, s, "exts")
		if err != nil {
			return nil, fmt.Errorf("processExtensions: %v", err)
		}
		if !isLoop {
			switch st := s.(type) {
			case *ast.AssignStmt:
				if eiSrc(fset, st.Lhs[0]) == "e" && st.Tok == token.DEFINE {
					continue // e := extensions{ identity middleware … }
				}
			case *ast.ReturnStmt:
				if eiSrc(fset, st) == "return e" {
					continue
				}
			}
			return nil, fmt.Errorf("processExtensions: unexpected statement %q", eiSrc(fset, s))
		}
		var stmts []string
		for _, b := range body {
			if eiSrc(fset, b) == "p := exts[i]" {
				continue
			}
			switch st := b.(type) {
			case *ast.IfStmt:
				if st.Init == nil || st.Else != nil || eiSrc(fset, st.Cond) != "ok" {
					return nil, fmt.Errorf("processExtensions: unexpected if %q", eiSrc(fset, st))
				}
				as, ok := st.Init.(*ast.AssignStmt)
				if !ok || as.Tok != token.DEFINE || len(as.Lhs) != 2 || len(as.Rhs) != 1 || eiSrc(fset, as.Lhs[0]) != "p" || eiSrc(fset, as.Lhs[1]) != "ok" {
					return nil, fmt.Errorf("processExtensions: unexpected type assertion %q", eiSrc(fset, st.Init))
				}
				ta, ok := as.Rhs[0].(*ast.TypeAssertExpr)
				if !ok || eiSrc(fset, ta.X) != "p" || ta.Type == nil {
					return nil, fmt.Errorf("processExtensions: unexpected type assertion %q", eiSrc(fset, st.Init))
				}
				iface, err := eiIfaceOf(fset, ta.Type)
				if err != nil {
					return nil, fmt.Errorf("processExtensions: %v", err)
				}
				fill, err := eiFill(fset, slots, iface, st.Body.List)
				if err != nil {
					return nil, fmt.Errorf("processExtensions: %v", err)
				}
				lean, _, _ := eiByIface(iface)
				stmts = append(stmts, fmt.Sprintf(".ifAssert %s %s", lean, fill))
			case *ast.TypeSwitchStmt:
				if st.Init != nil {
					return nil, fmt.Errorf("processExtensions: type switch with an init statement")
				}
				as, ok := st.Assign.(*ast.AssignStmt)
				if !ok || eiSrc(fset, as) != "p := p.(type)" {
					return nil, fmt.Errorf("processExtensions: unexpected type switch on %q", eiSrc(fset, st.Assign))
				}
				var cases []string
				for _, c := range st.Body.List {
					cc := c.(*ast.CaseClause)
					if cc.List == nil {
						if len(cc.Body) != 0 {
							return nil, fmt.Errorf("processExtensions: type switch default clause with a body")
						}
						continue
					}
					if len(cc.List) != 1 {
						return nil, fmt.Errorf("processExtensions: type switch clause with %d types", len(cc.List))
					}
					iface, err := eiIfaceOf(fset, cc.List[0])
					if err != nil {
						return nil, fmt.Errorf("processExtensions: %v", err)
					}
					fill, err := eiFill(fset, slots, iface, cc.Body)
					if err != nil {
						return nil, fmt.Errorf("processExtensions: %v", err)
					}
					lean, _, _ := eiByIface(iface)
					cases = append(cases, fmt.Sprintf("(%s, %s)", lean, fill))
				}
				stmts = append(stmts, ".typeSwitch ["+strings.Join(cases, ", ")+"]")
			default:
				return nil, fmt.Errorf("processExtensions: unexpected statement in loop %q", eiSrc(fset, b))
			}
		}
		loops = append(loops, fmt.Sprintf("⟨%s,\n        [%s]⟩", dir, strings.Join(stmts, ",\n         ")))
	}
	if len(loops) == 0 {
		return nil, fmt.Errorf("processExtensions: no loop recognised")
	}
	return loops, nil
}

// eiUse: the clause of `switch extension.(type)` that registers the extension
func eiUse(fset *token.FileSet, fd *ast.FuncDecl) ([]string, error) {
	var accepts []string
	found := false
	for _, s := range fd.Body.List {
		ts, ok := s.(*ast.TypeSwitchStmt)
		if !ok {
			continue
		}
		if eiSrc(fset, ts.Assign) != "extension.(type)" {
			return nil, fmt.Errorf("(*Executor).Use: unexpected type switch on %q", eiSrc(fset, ts.Assign))
		}
		for _, c := range ts.Body.List {
			cc := c.(*ast.CaseClause)
			body := ""
			for _, b := range cc.Body {
				body += eiSrc(fset, b) + " ; "
			}
			if cc.List == nil {
				if strings.Contains(body, "e.extensions") || strings.Contains(body, "processExtensions") {
					return nil, fmt.Errorf("(*Executor).Use: the default clause registers the extension")
				}
				continue
			}
			if body != "e.extensions = append(e.extensions, extension) ; e.ext = processExtensions(e.extensions) ; " {
				return nil, fmt.Errorf("(*Executor).Use: unexpected clause body %q", body)
			}
			found = true
			for _, t := range cc.List {
				iface, err := eiIfaceOf(fset, t)
				if err != nil {
					return nil, fmt.Errorf("(*Executor).Use: %v", err)
				}
				lean, _, _ := eiByIface(iface)
				accepts = append(accepts, lean)
			}
		}
	}
	if !found {
		return nil, fmt.Errorf("(*Executor).Use: no clause appends the extension and re-runs processExtensions")
	}
	return accepts, nil
}

func eiCreate(fset *token.FileSet, slots map[string]string, fd *ast.FuncDecl) ([]string, error) {
	var loops []string
	for _, s := range fd.Body.List {
		rs, ok := s.(*ast.RangeStmt)
		if !ok {
			if _, isFor := s.(*ast.ForStmt); isFor {
				return nil, fmt.Errorf("CreateOperationContext: unexpected loop %q", eiSrc(fset, s))
			}
			continue
		}
		over := eiSrc(fset, rs.X)
		if !strings.HasPrefix(over, "e.ext.") || eiSrc(fset, rs.Key) != "_" || eiSrc(fset, rs.Value) != "p" {
			return nil, fmt.Errorf("CreateOperationContext: unexpected loop over %q", over)
		}
		slot, ok := slots[strings.TrimPrefix(over, "e.ext.")]
		if !ok {
			return nil, fmt.Errorf("CreateOperationContext: %s is not a slot of extensions", over)
		}
		method := ""
		for _, h := range eiHooks {
			if h.lean == slot {
				method = h.method
			}
		}
		if len(rs.Body.List) != 1 {
			return nil, fmt.Errorf("CreateOperationContext: loop over %s: %d statements", over, len(rs.Body.List))
		}
		ifs, ok := rs.Body.List[0].(*ast.IfStmt)
		if !ok || ifs.Else != nil || !strings.HasPrefix(eiSrc(fset, ifs.Init), "err := p."+method+"(ctx, ") || eiSrc(fset, ifs.Cond) != "err != nil" ||
			len(ifs.Body.List) != 1 || eiSrc(fset, ifs.Body.List[0]) != "return opCtx, gqlerror.List{err}" {
			return nil, fmt.Errorf("CreateOperationContext: loop over %s: body is not `if err := p.%s(ctx, …); err != nil { return opCtx, gqlerror.List{err} }`", over, method)
		}
		loops = append(loops, slot)
	}
	return loops, nil
}

func extractExtInstall(repo string) (string, error) {
	fset := token.NewFileSet()
	ext, err := parser.ParseFile(fset, filepath.Join(repo, "graphql/executor/extensions.go"), nil, 0)
	if err != nil {
		return "", err
	}
	exe, err := parser.ParseFile(fset, filepath.Join(repo, "graphql/executor/executor.go"), nil, 0)
	if err != nil {
		return "", err
	}
	pe, use, create := eiFunc(ext, "", "processExtensions"), eiFunc(ext, "Executor", "Use"), eiFunc(exe, "Executor", "CreateOperationContext")
	if pe == nil || use == nil || create == nil {
		return "", fmt.Errorf("processExtensions / (*Executor).Use / (*Executor).CreateOperationContext not found")
	}
	slots, err := eiSlots(fset, ext)
	if err != nil {
		return "", err
	}
	loops, err := eiProcess(fset, slots, pe)
	if err != nil {
		return "", err
	}
	accepts, err := eiUse(fset, use)
	if err != nil {
		return "", err
	}
	creates, err := eiCreate(fset, slots, create)
	if err != nil {
		return "", err
	}
	var b strings.Builder
	b.WriteString("import GqlgenVerif.Model.ExtInstall\nnamespace GqlgenVerif.Gen.ExtInstall\nopen GqlgenVerif.ExtInstall\n\n")
	b.WriteString("/-- graphql/executor/extensions.go (*Executor).Use, processExtensions; executor.go CreateOperationContext -/\n")
	b.WriteString("def program : Program :=\n  { loops :=\n      [" + strings.Join(loops, ",\n       ") + "],\n")
	b.WriteString("    useAccepts := [" + strings.Join(accepts, ", ") + "],\n")
	b.WriteString("    createLoops := [" + strings.Join(creates, ", ") + "] }\n\n")
	b.WriteString("end GqlgenVerif.Gen.ExtInstall\n")
	return b.String(), nil
}
