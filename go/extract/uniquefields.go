package main

import (
	"fmt"
	"go/ast"
	"go/parser"
	"go/token"
	"path/filepath"
	"strings"
)

// UniqueFields: translate `(*Object).UniqueFields` of codegen/complexity.go - the grouping of an object's
// fields by Go field name that BOTH complexity templates (codegen/generated!.gotpl, codegen/root_.gotpl)
// range over to emit `ComplexityRoot` and the `case "T.a", "T.b":` clauses of `executableSchema.Complexity`.
//
//	m := map[string][]*Field{}                      (or make(map[string][]*Field[, n]))
//	for _, f := range o.Fields {
//		m[f.GoFieldName] = append(m[f.GoFieldName], f)
//	}
//	return m
//
// becomes a left fold over the field list with Go's map read / map write spelled GoMap.get / GoMap.set
// (Model/FieldMap.lean):
//
//	def step (m : GoMap) (f : GField) : GoMap :=
//	  let m := GoMap.set m f.goName (GoMap.get m f.goName ++ [f])
//	  m
//	def uniqueFields (fields : List GField) : GoMap := fields.foldl step []
//
// Anything else in the body (another statement kind, another key, a guard) is refused: the tie is then
// reported broken instead of silently keeping yesterday's definition.

func init() { extractors["UniqueFields"] = extractUniqueFields }

type ufTr struct {
	recv, m, f string
	errs       []string
}

func (t *ufTr) fail(format string, a ...any) string {
	t.errs = append(t.errs, fmt.Sprintf(format, a...))
	return "?"
}

func isFieldSliceMap(e ast.Expr) bool {
	mt, ok := e.(*ast.MapType)
	if !ok {
		return false
	}
	if k, ok := mt.Key.(*ast.Ident); !ok || k.Name != "string" {
		return false
	}
	return isFieldSlice(mt.Value)
}

func isFieldSlice(e ast.Expr) bool {
	at, ok := e.(*ast.ArrayType)
	if !ok || at.Len != nil {
		return false
	}
	st, ok := at.Elt.(*ast.StarExpr)
	if !ok {
		return false
	}
	id, ok := st.X.(*ast.Ident)
	return ok && id.Name == "Field"
}

// key translates a string-typed expression over the loop variable.
func (t *ufTr) key(e ast.Expr) string {
	if se, ok := e.(*ast.SelectorExpr); ok {
		if id, ok := se.X.(*ast.Ident); ok && id.Name == t.f {
			switch se.Sel.Name {
			case "GoFieldName":
				return t.f + ".goName"
			case "Name":
				return t.f + ".name"
			}
		}
	}
	return t.fail("map key is not %s.GoFieldName / %s.Name", t.f, t.f)
}

// elem translates a *Field-typed expression (only the loop variable).
func (t *ufTr) elem(e ast.Expr) string {
	if id, ok := e.(*ast.Ident); ok && id.Name == t.f {
		return t.f
	}
	return t.fail("slice element is not the loop variable")
}

// slice translates a []*Field-typed expression.
func (t *ufTr) slice(e ast.Expr) string {
	switch e := e.(type) {
	case *ast.Ident:
		if e.Name == "nil" {
			return "([] : List GField)"
		}
	case *ast.ParenExpr:
		return t.slice(e.X)
	case *ast.IndexExpr:
		if id, ok := e.X.(*ast.Ident); ok && id.Name == t.m {
			return "(GoMap.get " + t.m + " " + t.key(e.Index) + ")"
		}
	case *ast.CompositeLit:
		if isFieldSlice(e.Type) {
			var xs []string
			for _, el := range e.Elts {
				xs = append(xs, t.elem(el))
			}
			return "([" + strings.Join(xs, ", ") + "] : List GField)"
		}
	case *ast.CallExpr:
		if id, ok := e.Fun.(*ast.Ident); ok && id.Name == "append" && len(e.Args) >= 1 {
			base := t.slice(e.Args[0])
			if e.Ellipsis != token.NoPos {
				if len(e.Args) != 2 {
					return t.fail("append with ... and %d arguments", len(e.Args))
				}
				return "(" + base + " ++ " + t.slice(e.Args[1]) + ")"
			}
			var xs []string
			for _, a := range e.Args[1:] {
				xs = append(xs, t.elem(a))
			}
			return "(" + base + " ++ [" + strings.Join(xs, ", ") + "])"
		}
	}
	return t.fail("untranslatable slice expression %T", e)
}

func extractUniqueFields(repo string) (string, error) {
	fset := token.NewFileSet()
	file, err := parser.ParseFile(fset, filepath.Join(repo, "codegen", "complexity.go"), nil, 0)
	if err != nil {
		return "", err
	}
	var fn *ast.FuncDecl
	for _, d := range file.Decls {
		if fd, ok := d.(*ast.FuncDecl); ok && fd.Name.Name == "UniqueFields" && fd.Recv != nil && len(fd.Recv.List) == 1 {
			fn = fd
		}
	}
	if fn == nil {
		return "", fmt.Errorf("codegen/complexity.go: method UniqueFields not found")
	}
	t := &ufTr{}
	if st, ok := fn.Recv.List[0].Type.(*ast.StarExpr); ok {
		if id, ok := st.X.(*ast.Ident); ok && id.Name == "Object" && len(fn.Recv.List[0].Names) == 1 {
			t.recv = fn.Recv.List[0].Names[0].Name
		}
	}
	if t.recv == "" {
		return "", fmt.Errorf("UniqueFields: receiver is not a named *Object")
	}
	if fn.Type.Params.NumFields() != 0 || fn.Type.Results.NumFields() != 1 || !isFieldSliceMap(fn.Type.Results.List[0].Type) {
		return "", fmt.Errorf("UniqueFields: signature is not func() map[string][]*Field")
	}
	body := fn.Body.List
	if len(body) != 3 {
		return "", fmt.Errorf("UniqueFields: expected `m := <empty map>; for … range %s.Fields {…}; return m`, found %d statements", t.recv, len(body))
	}
	// m := map[string][]*Field{}  |  make(map[string][]*Field[, n])
	as, ok := body[0].(*ast.AssignStmt)
	if !ok || as.Tok != token.DEFINE || len(as.Lhs) != 1 || len(as.Rhs) != 1 {
		return "", fmt.Errorf("UniqueFields: first statement is not `m := …`")
	}
	t.m = as.Lhs[0].(*ast.Ident).Name
	switch r := as.Rhs[0].(type) {
	case *ast.CompositeLit:
		if !isFieldSliceMap(r.Type) || len(r.Elts) != 0 {
			return "", fmt.Errorf("UniqueFields: the map does not start empty")
		}
	case *ast.CallExpr:
		id, ok := r.Fun.(*ast.Ident)
		if !ok || id.Name != "make" || len(r.Args) < 1 || len(r.Args) > 2 || !isFieldSliceMap(r.Args[0]) {
			return "", fmt.Errorf("UniqueFields: the map is not created by a literal or make(map[string][]*Field)")
		}
	default:
		return "", fmt.Errorf("UniqueFields: the map is not created by a literal or make")
	}
	// for _, f := range o.Fields { … }
	rs, ok := body[1].(*ast.RangeStmt)
	if !ok || rs.Tok != token.DEFINE || rs.Value == nil {
		return "", fmt.Errorf("UniqueFields: second statement is not `for _, f := range …`")
	}
	if k, ok := rs.Key.(*ast.Ident); !ok || k.Name != "_" {
		return "", fmt.Errorf("UniqueFields: the loop uses the index")
	}
	t.f = rs.Value.(*ast.Ident).Name
	if se, ok := rs.X.(*ast.SelectorExpr); !ok || se.Sel.Name != "Fields" {
		return "", fmt.Errorf("UniqueFields: the loop does not range over %s.Fields", t.recv)
	} else if id, ok := se.X.(*ast.Ident); !ok || id.Name != t.recv {
		return "", fmt.Errorf("UniqueFields: the loop does not range over %s.Fields", t.recv)
	}
	var lets []string
	for _, s := range rs.Body.List {
		a, ok := s.(*ast.AssignStmt)
		if !ok || a.Tok != token.ASSIGN || len(a.Lhs) != 1 || len(a.Rhs) != 1 {
			t.fail("loop body statement %T is not `%s[key] = slice`", s, t.m)
			continue
		}
		ix, ok := a.Lhs[0].(*ast.IndexExpr)
		if !ok {
			t.fail("loop body assigns to something else than %s[key]", t.m)
			continue
		}
		if id, ok := ix.X.(*ast.Ident); !ok || id.Name != t.m {
			t.fail("loop body assigns to something else than %s[key]", t.m)
			continue
		}
		lets = append(lets, fmt.Sprintf("  let %s := GoMap.set %s %s %s", t.m, t.m, t.key(ix.Index), t.slice(a.Rhs[0])))
	}
	// return m
	ret, ok := body[2].(*ast.ReturnStmt)
	if !ok || len(ret.Results) != 1 {
		return "", fmt.Errorf("UniqueFields: last statement is not `return %s`", t.m)
	}
	if id, ok := ret.Results[0].(*ast.Ident); !ok || id.Name != t.m {
		return "", fmt.Errorf("UniqueFields: last statement is not `return %s`", t.m)
	}
	if len(t.errs) > 0 {
		return "", fmt.Errorf("UniqueFields: %s", strings.Join(t.errs, "; "))
	}
	var b strings.Builder
	b.WriteString("import GqlgenVerif.Model.FieldMap\nnamespace GqlgenVerif.Gen.UniqueFields\nopen GqlgenVerif.FieldMap\n\n")
	b.WriteString("/-- the loop body of `(*Object).UniqueFields` (codegen/complexity.go): Go's `m[k]` / `m[k] = v` as `GoMap.get` / `GoMap.set` -/\n")
	fmt.Fprintf(&b, "def step (%s : GoMap) (%s : GField) : GoMap :=\n%s\n  %s\n\n", t.m, t.f, strings.Join(lets, "\n"), t.m)
	b.WriteString("/-- `(*Object).UniqueFields`: an empty map, the loop over `o.Fields`, `return m` -/\n")
	b.WriteString("def uniqueFields (fields : List GField) : GoMap :=\n  fields.foldl step []\n\nend GqlgenVerif.Gen.UniqueFields\n")
	return b.String(), nil
}
