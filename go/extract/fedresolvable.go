package main

import (
	"fmt"
	"go/ast"
	"go/parser"
	"go/token"
	"path/filepath"
	"strconv"
	"strings"
)

// FedResolvable: the guards that decide whether an entity type gets entity resolvers at all, translated from
// plugin/federation/entity.go - (*Entity).isResolvable, isFieldImplicitlyExternal, allFieldsAreExternal - and the
// guarded statement order of buildEntity in plugin/federation/federation.go (every `return` that precedes
// `entity.Resolvers = buildResolvers(…)`, with the condition it stands under).
//
// The three methods are small guard chains over: the first @key directive (nil or not), its `resolvable` argument
// (nil or not; its raw text), the federation version, and per field "is a field of the first @key" / "carries
// @external". They are translated statement by statement into Lean functions returning `Option Bool` (`none` = the
// Go code would dereference nil), so that `if x == nil { return true }; return x.Value.Raw != "false"` and
// `return x != nil && x.Value.Raw != "false"` are different Lean terms with different theorems.
// Fails when a statement or expression is not one it knows how to translate.
func init() { extractors["FedResolvable"] = extractFedResolvable }

type frTr struct {
	fset *token.FileSet
	// local variable name -> what it holds ("key": first @key directive, "resolvable": its resolvable argument)
	vars map[string]string
	recv string
	// inside the loop of allFieldsAreExternal: the loop variable
	field string
	// parameter names
	verParam, fieldParam string
	fname                string
	aux                  string // auxiliary definition (the loop of allFieldsAreExternal)
}

func (t *frTr) pos(n ast.Node) string { return t.fset.Position(n.Pos()).String() }

func frIsNil(e ast.Expr) bool {
	id, ok := e.(*ast.Ident)
	return ok && id.Name == "nil"
}

func frStrLit(e ast.Expr) (string, bool) {
	bl, ok := e.(*ast.BasicLit)
	if !ok || bl.Kind != token.STRING {
		return "", false
	}
	s, err := strconv.Unquote(bl.Value)
	return s, err == nil
}

// selector chain a.b.c as text
func frSelText(e ast.Expr) string {
	switch x := e.(type) {
	case *ast.Ident:
		return x.Name
	case *ast.SelectorExpr:
		return frSelText(x.X) + "." + x.Sel.Name
	case *ast.CallExpr:
		var args []string
		for _, a := range x.Args {
			if s, ok := frStrLit(a); ok {
				args = append(args, strconv.Quote(s))
			} else {
				args = append(args, frSelText(a))
			}
		}
		return frSelText(x.Fun) + "(" + strings.Join(args, ",") + ")"
	}
	return "?"
}

// what a pointer-valued expression denotes: "key" | "resolvable" | "externalDir"
func (t *frTr) ptr(e ast.Expr) (string, error) {
	if id, ok := e.(*ast.Ident); ok {
		if w, ok := t.vars[id.Name]; ok {
			return w, nil
		}
	}
	s := frSelText(e)
	switch {
	case s == t.recv+".Def.Directives.ForName(dirNameKey)":
		return "key", nil
	case t.fieldVar() != "" && s == t.fieldVar()+`.Directives.ForName("external")`:
		return "externalDir", nil
	}
	for v, w := range t.vars {
		if w == "key" && s == v+`.Arguments.ForName("resolvable")` {
			return "resolvable", nil
		}
	}
	return "", fmt.Errorf("%s: unknown pointer expression %s", t.pos(e), s)
}

func (t *frTr) fieldVar() string {
	if t.field != "" {
		return t.field
	}
	return t.fieldParam
}

// expr translates a Go boolean expression into a Lean term of type `Option Bool`.
func (t *frTr) expr(e ast.Expr) (string, error) {
	switch x := e.(type) {
	case *ast.ParenExpr:
		return t.expr(x.X)
	case *ast.Ident:
		if x.Name == "true" || x.Name == "false" {
			return "(some " + x.Name + ")", nil
		}
	case *ast.UnaryExpr:
		if x.Op == token.NOT {
			a, err := t.expr(x.X)
			if err != nil {
				return "", err
			}
			return "(gnot " + a + ")", nil
		}
	case *ast.BinaryExpr:
		switch x.Op {
		case token.LAND, token.LOR:
			a, err := t.expr(x.X)
			if err != nil {
				return "", err
			}
			b, err := t.expr(x.Y)
			if err != nil {
				return "", err
			}
			if x.Op == token.LAND {
				return "(gand " + a + " " + b + ")", nil
			}
			return "(gor " + a + " " + b + ")", nil
		case token.EQL, token.NEQ:
			neg := x.Op == token.NEQ
			wrap := func(s string) string {
				if neg {
					return "(gnot " + s + ")"
				}
				return s
			}
			l, r := x.X, x.Y
			if frIsNil(l) {
				l, r = r, l
			}
			if frIsNil(r) {
				w, err := t.ptr(l)
				if err != nil {
					return "", err
				}
				switch w {
				case "key":
					return wrap("(some keyNil)"), nil
				case "resolvable":
					// reading key.Arguments when key is nil is a nil dereference
					return wrap("(if keyNil then none else some resNil)"), nil
				case "externalDir":
					return wrap("(some (!ext))"), nil
				}
			}
			if lit, ok := frStrLit(r); ok {
				s := frSelText(l)
				for v, w := range t.vars {
					if w == "resolvable" && s == v+".Value.Raw" {
						return wrap("(if keyNil || resNil then none else some (raw == " + leanStr(lit) + "))"), nil
					}
				}
			}
			if bl, ok := r.(*ast.BasicLit); ok && bl.Kind == token.INT {
				if id, ok := l.(*ast.Ident); ok && id.Name == t.verParam && t.verParam != "" {
					return wrap("(some (ver == " + bl.Value + "))"), nil
				}
			}
		}
	case *ast.CallExpr:
		s := frSelText(x)
		switch {
		case s == t.recv+".isResolvable()":
			return "(isResolvable keyNil resNil raw)", nil
		case t.fieldVar() != "" && s == t.recv+".isKeyField("+t.fieldVar()+")":
			return "(some isKey)", nil
		case t.fieldVar() != "" && t.verParam != "" && s == t.recv+".isFieldImplicitlyExternal("+t.fieldVar()+","+t.verParam+")":
			return "(isFieldImplicitlyExternal ver keyNil resNil raw isKey)", nil
		}
	}
	return "", fmt.Errorf("%s: cannot translate expression %s", t.pos(e), src(t.fset, e))
}

// stmts translates a statement list that ends every path in a `return <bool expr>`.
// tail: the Lean term to continue with when the list falls off its end ("" = not allowed).
func (t *frTr) stmts(list []ast.Stmt, tail string) (string, error) {
	if len(list) == 0 {
		if tail == "" {
			return "", fmt.Errorf("statement list falls off its end")
		}
		return tail, nil
	}
	switch s := list[0].(type) {
	case *ast.AssignStmt:
		if s.Tok == token.DEFINE && len(s.Lhs) == 1 && len(s.Rhs) == 1 {
			id, ok := s.Lhs[0].(*ast.Ident)
			if ok {
				w, err := t.ptr(s.Rhs[0])
				if err != nil {
					return "", err
				}
				t.vars[id.Name] = w
				return t.stmts(list[1:], tail)
			}
		}
	case *ast.ReturnStmt:
		if len(s.Results) == 1 {
			return t.expr(s.Results[0])
		}
	case *ast.IfStmt:
		if s.Init == nil {
			c, err := t.expr(s.Cond)
			if err != nil {
				return "", err
			}
			rest := ""
			if s.Else != nil {
				eb, ok := s.Else.(*ast.BlockStmt)
				if !ok {
					return "", fmt.Errorf("%s: else-if not supported", t.pos(s))
				}
				// both branches must return
				el, err := t.stmts(eb.List, "")
				if err != nil {
					return "", err
				}
				rest = el
			} else {
				r, err := t.stmts(list[1:], tail)
				if err != nil {
					return "", err
				}
				rest = r
			}
			thTail := rest
			if s.Else != nil {
				thTail = ""
			}
			th, err := t.stmts(s.Body.List, thTail)
			if err != nil {
				return "", err
			}
			return "(gite " + c + "\n      " + th + "\n      " + rest + ")", nil
		}
	case *ast.RangeStmt:
		// for _, field := range e.Def.Fields { if c { return lit } }  followed by the rest
		if id, ok := s.Value.(*ast.Ident); ok && frSelText(s.X) == t.recv+".Def.Fields" {
			rest, err := t.stmts(list[1:], tail)
			if err != nil {
				return "", err
			}
			if t.aux != "" {
				return "", fmt.Errorf("%s: second loop in %s", t.pos(s), t.fname)
			}
			loop := t.fname + "Loop"
			t.field = id.Name
			body, err := t.stmts(s.Body.List, "("+loop+" ver keyNil resNil raw rest)")
			t.field = ""
			if err != nil {
				return "", err
			}
			t.aux = "/-- the `for _, " + id.Name + " := range " + frSelText(s.X) + "` loop of `" + t.fname + "` and what follows it -/\ndef " + loop +
				" (ver : Nat) (keyNil resNil : Bool) (raw : String) : List (Bool × Bool) → Option Bool\n  | [] => " + rest +
				"\n  | (isKey, ext) :: rest =>\n    " + body + "\n\n"
			return "(" + loop + " ver keyNil resNil raw fields)", nil
		}
	}
	return "", fmt.Errorf("%s: cannot translate statement %s", t.pos(list[0]), src(t.fset, list[0]))
}

func extractFedResolvable(repo string) (string, error) {
	fset := token.NewFileSet()
	fn := filepath.Join(repo, "plugin/federation/entity.go")
	f, err := parser.ParseFile(fset, fn, nil, 0)
	if err != nil {
		return "", err
	}
	methods := map[string]*ast.FuncDecl{}
	for _, d := range f.Decls {
		fd, ok := d.(*ast.FuncDecl)
		if !ok || fd.Recv == nil || len(fd.Recv.List) != 1 || len(fd.Recv.List[0].Names) != 1 || fd.Body == nil {
			continue
		}
		methods[fd.Name.Name] = fd
	}
	get := func(name string, nparams int) (*ast.FuncDecl, *frTr, error) {
		fd := methods[name]
		if fd == nil {
			return nil, nil, fmt.Errorf("entity.go: method %s not found", name)
		}
		var params []string
		for _, p := range fd.Type.Params.List {
			for _, n := range p.Names {
				params = append(params, n.Name)
			}
		}
		if len(params) != nparams {
			return nil, nil, fmt.Errorf("entity.go: %s has %d parameters, expected %d", name, len(params), nparams)
		}
		t := &frTr{fset: fset, vars: map[string]string{}, recv: fd.Recv.List[0].Names[0].Name, fname: name}
		switch nparams {
		case 1:
			t.verParam = params[0]
		case 2:
			t.fieldParam, t.verParam = params[0], params[1]
		}
		return fd, t, nil
	}
	var b strings.Builder
	b.WriteString(`/-! Whether an entity type gets entity resolvers: the guard chains of plugin/federation/entity.go, translated
statement by statement. ` + "`none`" + ` = the Go code dereferences a nil pointer on that input.
Inputs: keyNil - the type has no @key directive; resNil - its first @key has no ` + "`resolvable`" + ` argument; raw - the raw text
of that argument (meaningful only when it exists); ver - the configured federation version; per field (isKey, ext) -
the field is a top-level field of the first @key / carries @external. -/
namespace GqlgenVerif.Gen.FedResolvable
set_option linter.unusedVariables false

/-- Go's ` + "`!`" + ` over possibly-panicking operands -/
def gnot : Option Bool → Option Bool
  | some b => some (!b)
  | none => none

/-- Go's short-circuit ` + "`&&`" + ` -/
def gand : Option Bool → Option Bool → Option Bool
  | some true, b => b
  | a, _ => a

/-- Go's short-circuit ` + "`||`" + ` -/
def gor : Option Bool → Option Bool → Option Bool
  | some false, b => b
  | a, _ => a

/-- ` + "`if c { t }; e`" + ` where t ends in a return -/
def gite : Option Bool → Option Bool → Option Bool → Option Bool
  | some true, t, _ => t
  | some false, _, e => e
  | none, _, _ => none

`)
	// isResolvable
	fd, t, err := get("isResolvable", 0)
	if err != nil {
		return "", err
	}
	body, err := t.stmts(fd.Body.List, "")
	if err != nil {
		return "", err
	}
	b.WriteString("/-- `(*Entity).isResolvable()` -/\ndef isResolvable (keyNil resNil : Bool) (raw : String) : Option Bool :=\n    " + body + "\n\n")
	// isFieldImplicitlyExternal
	fd, t, err = get("isFieldImplicitlyExternal", 2)
	if err != nil {
		return "", err
	}
	body, err = t.stmts(fd.Body.List, "")
	if err != nil {
		return "", err
	}
	b.WriteString("/-- `(*Entity).isFieldImplicitlyExternal(field, federationVersion)` -/\ndef isFieldImplicitlyExternal (ver : Nat) (keyNil resNil : Bool) (raw : String) (isKey : Bool) : Option Bool :=\n    " + body + "\n\n")
	// allFieldsAreExternal
	fd, t, err = get("allFieldsAreExternal", 1)
	if err != nil {
		return "", err
	}
	body, err = t.stmts(fd.Body.List, "")
	if err != nil {
		return "", err
	}
	b.WriteString(t.aux)
	b.WriteString("/-- `(*Entity).allFieldsAreExternal(federationVersion)`; fields: (isKey, ext) of every field of the type, in order -/\ndef allFieldsAreExternal (ver : Nat) (keyNil resNil : Bool) (raw : String) (fields : List (Bool × Bool)) : Option Bool :=\n    " + body + "\n\n")

	// buildEntity: the returns that precede `entity.Resolvers = buildResolvers(…)`, each with its guard
	fn2 := filepath.Join(repo, "plugin/federation/federation.go")
	f2, err := parser.ParseFile(fset, fn2, nil, 0)
	if err != nil {
		return "", err
	}
	var be *ast.FuncDecl
	for _, d := range f2.Decls {
		if fd, ok := d.(*ast.FuncDecl); ok && fd.Name.Name == "buildEntity" && fd.Body != nil {
			be = fd
		}
	}
	if be == nil {
		return "", fmt.Errorf("federation.go: buildEntity not found")
	}
	var guards [][2]string
	assigned := false
	var after []string
	for _, st := range be.Body.List {
		if as, ok := st.(*ast.AssignStmt); ok && len(as.Lhs) == 1 && frSelText(as.Lhs[0]) == "entity.Resolvers" {
			if assigned {
				return "", fmt.Errorf("federation.go: entity.Resolvers assigned twice in buildEntity")
			}
			assigned = true
			after = append(after, src(fset, as.Rhs[0]))
			continue
		}
		if is, ok := st.(*ast.IfStmt); ok && !assigned {
			var rets []string
			ast.Inspect(is.Body, func(n ast.Node) bool {
				if r, ok := n.(*ast.ReturnStmt); ok {
					var parts []string
					for _, x := range r.Results {
						parts = append(parts, src(fset, x))
					}
					rets = append(rets, strings.Join(parts, ", "))
				}
				return true
			})
			if is.Else != nil && len(rets) > 0 {
				return "", fmt.Errorf("%s: returning if with else in buildEntity", fset.Position(is.Pos()))
			}
			for _, r := range rets {
				guards = append(guards, [2]string{src(fset, is.Cond), r})
			}
			continue
		}
		if !assigned {
			bad := false
			ast.Inspect(st, func(n ast.Node) bool {
				if _, ok := n.(*ast.ReturnStmt); ok {
					bad = true
				}
				return true
			})
			if bad {
				return "", fmt.Errorf("%s: unguarded return before the resolvers are built in buildEntity", fset.Position(st.Pos()))
			}
		}
	}
	if !assigned {
		return "", fmt.Errorf("federation.go: buildEntity no longer assigns entity.Resolvers")
	}
	b.WriteString("/-- buildEntity: every `return` that precedes `entity.Resolvers = …`: (guard, returned value) -/\n")
	b.WriteString("def buildEntityEarlyReturns : List (String × String) := " + leanPairs(guards) + "\n\n")
	b.WriteString("/-- buildEntity: the right-hand side of `entity.Resolvers = …` -/\n")
	b.WriteString("def buildEntityResolvers : String := " + leanStr(strings.Join(after, "; ")) + "\n\n")
	b.WriteString("end GqlgenVerif.Gen.FedResolvable\n")
	return b.String(), nil
}
