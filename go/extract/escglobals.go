package main

import (
	"fmt"
	"go/ast"
	"go/token"
	"path/filepath"
	"sort"
	"strings"
)

// EscGlobals (C07, round 7): package-level variables of map / slice / pointer type that are HANDED OUT.
//
// gqlgen hands user code (response / operation / field middleware, presenters, resolvers) objects that it may write
// into: `Response.Extensions` is never nil precisely so that `resp.Extensions["k"] = v` works, the maps of the
// OperationContext, error values. Such an object must belong to one request. A package-level map / slice / pointer
// that is returned, stored into a struct or assigned is one object for the whole PROCESS: a write made while one
// request is served is visible to every later or concurrent request, on every transport and every Server.
//
// For the packages a request passes through (graphql, executor, errcode, handler, transport, extension, lru,
// introspection; non-test files): every package-level `var` whose declared type or initialiser is syntactically a
// map (`map[..]..`, `map[..]..{}`, `make(map..)`), a slice (`[]T`, `[]T{..}`, `make([]T..)`) or a pointer (`*T`,
// `&T{..}`, `new(T)`) - `mutableGlobals` - and every place where such a variable, as a bare identifier that is not
// shadowed by a local declaration, is the operand of a `return`, the value of a composite-literal element or the
// right-hand side of an assignment / short declaration - `escapes` (package, variable, kind, function, how).
// Reads through the variable (`m[k]`, `range m`, `len(m)`, `*p`, method calls) are not escapes.
func init() { extractors["EscGlobals"] = extractEscGlobals }

func egKind(fset *token.FileSet, typ ast.Expr, val ast.Expr) string {
	ofType := func(t ast.Expr) string {
		switch x := t.(type) {
		case *ast.MapType:
			return "map"
		case *ast.ArrayType:
			if x.Len == nil {
				return "slice"
			}
		case *ast.StarExpr:
			return "pointer"
		}
		return ""
	}
	if typ != nil {
		if k := ofType(typ); k != "" {
			return k
		}
	}
	switch v := val.(type) {
	case *ast.CompositeLit:
		if v.Type != nil {
			return ofType(v.Type)
		}
	case *ast.UnaryExpr:
		if v.Op == token.AND {
			return "pointer"
		}
	case *ast.CallExpr:
		if id, ok := v.Fun.(*ast.Ident); ok && len(v.Args) > 0 {
			switch id.Name {
			case "make":
				return ofType(v.Args[0])
			case "new":
				return "pointer"
			}
		}
	}
	return ""
}

func extractEscGlobals(repo string) (string, error) {
	fset := token.NewFileSet()
	var globals, escapes []string
	nfuncs := 0
	for _, rel := range []string{"graphql", "graphql/executor", "graphql/errcode", "graphql/handler", "graphql/handler/transport", "graphql/handler/extension", "graphql/handler/lru", "graphql/introspection"} {
		files, err := evParseDir(fset, filepath.Join(repo, filepath.FromSlash(rel)))
		if err != nil {
			return "", err
		}
		kinds := map[string]string{}
		specs := map[*ast.ValueSpec]bool{}
		for _, f := range files {
			for _, d := range f.Decls {
				gd, ok := d.(*ast.GenDecl)
				if !ok || gd.Tok != token.VAR {
					continue
				}
				for _, sp := range gd.Specs {
					vs := sp.(*ast.ValueSpec)
					specs[vs] = true
					for i, n := range vs.Names {
						var val ast.Expr
						if i < len(vs.Values) {
							val = vs.Values[i]
						}
						if k := egKind(fset, vs.Type, val); k != "" && n.Name != "_" {
							kinds[n.Name] = k
						}
					}
				}
			}
		}
		var names []string
		for n := range kinds {
			names = append(names, n)
		}
		sort.Strings(names)
		for _, n := range names {
			globals = append(globals, fmt.Sprintf("(%s, %s, %s)", leanStr(rel), leanStr(n), leanStr(kinds[n])))
		}
		// is this identifier the package-level variable (not a local / parameter / field of the same name)?
		isGlobal := func(e ast.Expr) (string, bool) {
			id, ok := e.(*ast.Ident)
			if !ok || kinds[id.Name] == "" {
				return "", false
			}
			if id.Obj != nil {
				vs, ok := id.Obj.Decl.(*ast.ValueSpec)
				if !ok || !specs[vs] {
					return "", false
				}
			}
			return id.Name, true
		}
		for _, f := range files {
			for _, d := range f.Decls {
				fd, ok := d.(*ast.FuncDecl)
				if !ok || fd.Body == nil {
					continue
				}
				nfuncs++
				fn := fd.Name.Name
				if fd.Recv != nil && len(fd.Recv.List) > 0 {
					fn = strings.TrimPrefix(prSrc(fset, fd.Recv.List[0].Type), "*") + "." + fn
				}
				add := func(v, how string) {
					escapes = append(escapes, fmt.Sprintf("(%s, %s, %s, %s, %s)", leanStr(rel), leanStr(v), leanStr(kinds[v]), leanStr(fn), leanStr(how)))
				}
				ast.Inspect(fd.Body, func(n ast.Node) bool {
					switch x := n.(type) {
					case *ast.ReturnStmt:
						for _, r := range x.Results {
							if v, ok := isGlobal(r); ok {
								add(v, "return")
							}
						}
					case *ast.KeyValueExpr:
						if v, ok := isGlobal(x.Value); ok {
							add(v, "element "+prSrc(fset, x.Key))
						}
					case *ast.CompositeLit:
						for _, el := range x.Elts {
							if v, ok := isGlobal(el); ok {
								add(v, "element")
							}
						}
					case *ast.AssignStmt:
						for i, r := range x.Rhs {
							if v, ok := isGlobal(r); ok {
								lhs := "_"
								if i < len(x.Lhs) {
									lhs = prSrc(fset, x.Lhs[i])
								}
								if lhs != "_" {
									add(v, "assigned to "+lhs)
								}
							}
						}
					}
					return true
				})
			}
		}
	}
	if nfuncs < 100 {
		return "", fmt.Errorf("EscGlobals: only %d functions found in graphql/... (layout changed?)", nfuncs)
	}
	var b strings.Builder
	b.WriteString("namespace GqlgenVerif.Gen.EscGlobals\n\n")
	fmt.Fprintf(&b, "/-- package-level variables of map / slice / pointer type: (package, variable, kind) -/\ndef mutableGlobals : List (String × String × String) := [%s]\n\n", strings.Join(globals, ",\n  "))
	fmt.Fprintf(&b, "/-- where one of them is handed out (returned / stored into a literal / assigned): (package, variable, kind, function, how) -/\ndef escapes : List (String × String × String × String × String) := [%s]\n\n", strings.Join(escapes, ",\n  "))
	b.WriteString("end GqlgenVerif.Gen.EscGlobals\n")
	return b.String(), nil
}
