package main

import (
	"fmt"
	"go/ast"
	"go/parser"
	"go/token"
	"os"
	"path/filepath"
	"sort"
	"strings"
)

// WsHolder (C07): where the websocket transport's error holder - the object transport.AddSubscriptionError
// appends to and the operation's terminating frame is built from - is installed.
//
//	(a) withSubscriptionErrorContext returns context.WithValue(ctx, key, &subscriptionError{…}): a NEW holder per call;
//	(b) AddSubscriptionError appends to the `errs` of the holder found on the context it is given;
//	(c) every call of withSubscriptionErrorContext in package transport (non-test files): the function it is in,
//	    whether it is unconditional there (not under an if / for / switch / select; a `go` / `defer` / directly
//	    invoked function literal is transparent, any other function literal is not), and where its result goes:
//	    `opCtx:<v>` assigned to the plain variable <v> in (*wsConnection).subscribe, `connCtx` stored (directly or
//	    through a local) in a `ctx` field of a wsConnection - the parent of every operation's context -, `other`;
//	(d) the variables (*wsConnection).subscribe passes to getSubscriptionError when the stream ends.
//
// Fails (broken tie) if one of the three functions or (*wsConnection).subscribe is not found.
func init() { extractors["WsHolder"] = extractWsHolder }

func extractWsHolder(repo string) (string, error) {
	fset := token.NewFileSet()
	dir := filepath.Join(repo, "graphql", "handler", "transport")
	pkgs, err := parser.ParseDir(fset, dir, func(fi os.FileInfo) bool { return !strings.HasSuffix(fi.Name(), "_test.go") }, 0)
	if err != nil {
		return "", err
	}
	var funcs []*ast.FuncDecl
	for _, p := range pkgs {
		if p.Name != "transport" {
			continue
		}
		var names []string
		for n := range p.Files {
			names = append(names, n)
		}
		sort.Strings(names)
		for _, n := range names {
			for _, d := range p.Files[n].Decls {
				if fd, ok := d.(*ast.FuncDecl); ok && fd.Body != nil {
					funcs = append(funcs, fd)
				}
			}
		}
	}
	byName := map[string]*ast.FuncDecl{}
	for _, fd := range funcs {
		if fd.Recv == nil {
			byName[fd.Name.Name] = fd
		} else if fd.Name.Name == "subscribe" && strings.Contains(prSrc(fset, fd.Recv.List[0].Type), "wsConnection") {
			byName["(subscribe)"] = fd
		}
	}
	ctor, add, sub := byName["withSubscriptionErrorContext"], byName["AddSubscriptionError"], byName["(subscribe)"]
	if ctor == nil || add == nil || sub == nil || byName["getSubscriptionErrorStruct"] == nil {
		return "", fmt.Errorf("withSubscriptionErrorContext / AddSubscriptionError / getSubscriptionErrorStruct / (*wsConnection).subscribe not found")
	}
	isCall := func(n ast.Node, name string) *ast.CallExpr {
		if c, ok := n.(*ast.CallExpr); ok {
			if id, ok := c.Fun.(*ast.Ident); ok && id.Name == name {
				return c
			}
		}
		return nil
	}
	// ---- (a)
	fresh := false
	if len(ctor.Body.List) == 1 {
		if rs, ok := ctor.Body.List[0].(*ast.ReturnStmt); ok && len(rs.Results) == 1 {
			if c, ok := rs.Results[0].(*ast.CallExpr); ok && sfSel(c.Fun) == "context.WithValue" && len(c.Args) == 3 {
				if u, ok := c.Args[2].(*ast.UnaryExpr); ok && u.Op == token.AND {
					if cl, ok := u.X.(*ast.CompositeLit); ok && sfSel(cl.Type) == "subscriptionError" {
						fresh = true
					}
				}
			}
		}
	}
	// ---- (b)
	appends := false
	{
		param := ""
		if len(add.Type.Params.List) > 0 && len(add.Type.Params.List[0].Names) > 0 {
			param = add.Type.Params.List[0].Names[0].Name
		}
		holder := map[string]bool{}
		ast.Inspect(add.Body, func(n ast.Node) bool {
			if as, ok := n.(*ast.AssignStmt); ok && len(as.Lhs) == 1 && len(as.Rhs) == 1 {
				if c := isCall(as.Rhs[0], "getSubscriptionErrorStruct"); c != nil && len(c.Args) == 1 && sfSel(c.Args[0]) == param {
					holder[sfSel(as.Lhs[0])] = true
				}
			}
			return true
		})
		ast.Inspect(add.Body, func(n ast.Node) bool {
			if as, ok := n.(*ast.AssignStmt); ok && len(as.Lhs) == 1 && len(as.Rhs) == 1 {
				l := sfSel(as.Lhs[0])
				if strings.HasSuffix(l, ".errs") && holder[strings.TrimSuffix(l, ".errs")] {
					if c := isCall(as.Rhs[0], "append"); c != nil && len(c.Args) == 2 && sfSel(c.Args[0]) == l {
						appends = true
					}
				}
			}
			return true
		})
	}
	// ---- (c)
	type site struct {
		fn     string
		uncond bool
		dest   string
	}
	var sites []site
	connHolder := false
	for _, fd := range funcs {
		// locals that hold a context with a holder installed by this function
		tainted := map[string]bool{}
		mentions := func(e ast.Expr) bool {
			found := false
			ast.Inspect(e, func(n ast.Node) bool {
				if isCall(n, "withSubscriptionErrorContext") != nil {
					found = true
				}
				if id, ok := n.(*ast.Ident); ok && tainted[id.Name] {
					found = true
				}
				return true
			})
			return found
		}
		for round := 0; round < 3; round++ {
			ast.Inspect(fd.Body, func(n ast.Node) bool {
				if as, ok := n.(*ast.AssignStmt); ok {
					for i, l := range as.Lhs {
						if id, ok := l.(*ast.Ident); ok && i < len(as.Rhs) && mentions(as.Rhs[i]) {
							tainted[id.Name] = true
						}
					}
				}
				return true
			})
		}
		// stores into a `ctx` field of a connection
		ast.Inspect(fd.Body, func(n ast.Node) bool {
			switch x := n.(type) {
			case *ast.CompositeLit:
				if sfSel(x.Type) == "wsConnection" {
					for _, el := range x.Elts {
						if kv, ok := el.(*ast.KeyValueExpr); ok && sfSel(kv.Key) == "ctx" && mentions(kv.Value) {
							connHolder = true
						}
					}
				}
			case *ast.AssignStmt:
				for i, l := range x.Lhs {
					if se, ok := l.(*ast.SelectorExpr); ok && se.Sel.Name == "ctx" && i < len(x.Rhs) && mentions(x.Rhs[i]) && fd != sub {
						connHolder = true
					}
				}
			}
			return true
		})
		// the call sites, with the path from the function body down to them
		var path []ast.Node
		ast.Inspect(fd.Body, func(n ast.Node) bool {
			if n == nil {
				path = path[:len(path)-1]
				return true
			}
			path = append(path, n)
			c := isCall(n, "withSubscriptionErrorContext")
			if c == nil {
				return true
			}
			uncond := true
			dest := "other"
			for i := len(path) - 2; i >= 0; i-- {
				switch p := path[i].(type) {
				case *ast.IfStmt, *ast.ForStmt, *ast.RangeStmt, *ast.SwitchStmt, *ast.TypeSwitchStmt, *ast.SelectStmt, *ast.CaseClause, *ast.CommClause:
					uncond = false
				case *ast.FuncLit:
					// transparent only if it is the function of a go / defer statement or called on the spot
					ok := false
					if i >= 1 {
						if call, isC := path[i-1].(*ast.CallExpr); isC && call.Fun == p {
							ok = true
						}
					}
					if !ok {
						uncond = false
					}
				case *ast.AssignStmt:
					if len(p.Lhs) == 1 && len(p.Rhs) == 1 && p.Rhs[0] == ast.Expr(c) {
						switch l := p.Lhs[0].(type) {
						case *ast.Ident:
							if fd == sub {
								dest = "opCtx:" + l.Name
							}
						case *ast.SelectorExpr:
							if l.Sel.Name == "ctx" {
								dest = "connCtx"
							}
						}
					}
				case *ast.KeyValueExpr:
					if sfSel(p.Key) == "ctx" && p.Value == ast.Expr(c) {
						dest = "connCtx"
					}
				}
			}
			if dest == "connCtx" {
				connHolder = true
			}
			name := fd.Name.Name
			sites = append(sites, site{name, uncond, dest})
			return true
		})
	}
	install := ".never"
	for _, s := range sites {
		if s.fn == "subscribe" && strings.HasPrefix(s.dest, "opCtx:") {
			if s.uncond {
				install = ".always"
			} else if install == ".never" {
				install = ".ifAbsent"
			}
		}
	}
	// ---- (d)
	var reads []string
	ast.Inspect(sub.Body, func(n ast.Node) bool {
		if c := isCall(n, "getSubscriptionError"); c != nil && len(c.Args) == 1 {
			v := fmt.Sprintf("%q", sfSel(c.Args[0]))
			dup := false
			for _, r := range reads {
				dup = dup || r == v
			}
			if !dup {
				reads = append(reads, v)
			}
		}
		return true
	})
	var b strings.Builder
	b.WriteString("import GqlgenVerif.Model.WsHolder\n\nnamespace GqlgenVerif.Gen.WsHolder\n\n")
	b.WriteString("/-- transport/websocket_resolver_error.go withSubscriptionErrorContext returns `context.WithValue(ctx, key, &subscriptionError{…})`: a new holder per call -/\n")
	fmt.Fprintf(&b, "def ctorAllocatesNewHolder : Bool := %v\n\n", fresh)
	b.WriteString("/-- AddSubscriptionError appends to the `errs` of the holder found on the context it is given -/\n")
	fmt.Fprintf(&b, "def addAppendsToHolderOfItsContext : Bool := %v\n\n", appends)
	b.WriteString("/-- every call of withSubscriptionErrorContext in package transport: (function, unconditional there, where the result goes) -/\n")
	var ss []string
	for _, s := range sites {
		ss = append(ss, fmt.Sprintf("(%q, %v, %q)", s.fn, s.uncond, s.dest))
	}
	b.WriteString("def installSites : List (String × Bool × String) := [" + strings.Join(ss, ", ") + "]\n\n")
	b.WriteString("/-- the variables (*wsConnection).subscribe reads the holder from when the operation's stream ends -/\n")
	b.WriteString("def terminationReads : List String := [" + strings.Join(reads, ", ") + "]\n\n")
	b.WriteString("/-- derived: does the connection's context carry a holder, and what does subscribe install per operation -/\n")
	fmt.Fprintf(&b, "def policy : GqlgenVerif.WsHolder.Policy := ⟨%v, %s⟩\n\nend GqlgenVerif.Gen.WsHolder\n", connHolder, install)
	return b.String(), nil
}
