package main

import (
	"fmt"
	"go/ast"
	"go/parser"
	"go/token"
	"path/filepath"
	"strings"
)

// WsWriteLock (C10, server-initiated closes while subscriptions write): every frame write of
// /repo/graphql/handler/transport/websocket.go's wsConnection and whether `c.mu` is held around it.
//
// gorilla/websocket supports one concurrent writer and panics on a second one; the writers of a
// connection are goroutines (read loop, one per operation, tickers, closeOnCancel), c.mu is what
// serialises them. A write call is one of
//
//	c.me.Send(…)  c.conn.WriteMessage(…)  c.conn.WriteJSON(…)  c.conn.WriteControl(…)
//	c.conn.NextWriter(…)  c.conn.WritePreparedMessage(…)
//
// inside a method with receiver `c *wsConnection`. The lock state is followed through the method's
// statements in source order: `c.mu.Lock()` / `c.mu.Unlock()` as expression statements set it; the
// branches of if / switch / select / for must agree on it where they meet (a branch that ends in
// return does not meet anything); a `go func() {…}()` / `defer func() {…}()` body starts without the
// lock; every return and the end of the method must be without the lock. A call of a method that
// itself takes c.mu (write, close, … and everything that calls them) while the lock is held is a
// self-deadlock. Anything the walk cannot follow: exit 1 (broken tie).
func init() { extractors["WsWriteLock"] = extractWsWriteLock }

type wlSite struct {
	fn, call string
	locked   bool
	pos      token.Position
}

type wlWalker struct {
	fset   *token.FileSet
	fn     string
	lockFn map[string]bool
	sites  []wlSite
	err    error
}

var wlWriteCalls = map[string]bool{
	"c.me.Send": true, "c.conn.WriteMessage": true, "c.conn.WriteJSON": true, "c.conn.WriteControl": true,
	"c.conn.NextWriter": true, "c.conn.WritePreparedMessage": true,
}

func (w *wlWalker) fail(n ast.Node, f string, a ...any) {
	if w.err == nil {
		w.err = fmt.Errorf("%s: %s: %s", w.fset.Position(n.Pos()), w.fn, fmt.Sprintf(f, a...))
	}
}

// exprs records the write calls (and checks the lock-taking calls) in the expressions of a node, not
// descending into function literals (handled by the caller) nor into nested statements.
func (w *wlWalker) exprs(n ast.Node, held bool) {
	if n == nil {
		return
	}
	ast.Inspect(n, func(m ast.Node) bool {
		switch x := m.(type) {
		case *ast.FuncLit:
			// a closure that runs later, on whatever goroutine calls it: without the lock
			w.block(x.Body.List, false, true)
			return false
		case *ast.CallExpr:
			src := pgSrc(w.fset, x.Fun)
			if wlWriteCalls[src] {
				w.sites = append(w.sites, wlSite{w.fn, src, held, w.fset.Position(x.Pos())})
			}
			if held && strings.HasPrefix(src, "c.") && w.lockFn[strings.TrimPrefix(src, "c.")] {
				w.fail(x, "%s(…) takes c.mu and is called while c.mu is held", src)
			}
		}
		return true
	})
}

func wlTerminates(l []ast.Stmt) bool {
	if len(l) == 0 {
		return false
	}
	switch x := l[len(l)-1].(type) {
	case *ast.ReturnStmt:
		return true
	case *ast.BranchStmt:
		return x.Tok == token.BREAK || x.Tok == token.CONTINUE || x.Tok == token.GOTO
	case *ast.ExprStmt:
		if c, ok := x.X.(*ast.CallExpr); ok {
			if id, ok := c.Fun.(*ast.Ident); ok && id.Name == "panic" {
				return true
			}
		}
	}
	return false
}

// block walks a statement list; top: returns / the end must be without the lock. Returns the state at the end.
func (w *wlWalker) block(l []ast.Stmt, held bool, top bool) bool {
	for _, st := range l {
		held = w.stmt(st, held)
	}
	if top && held && !wlTerminates(l) {
		if len(l) > 0 {
			w.fail(l[len(l)-1], "the function ends with c.mu held")
		}
	}
	return held
}

// merge: the states of the branches that reach the join point must agree
func (w *wlWalker) merge(n ast.Node, states []bool, fallback bool) bool {
	if len(states) == 0 {
		return fallback
	}
	for _, s := range states[1:] {
		if s != states[0] {
			w.fail(n, "branches leave c.mu in different states")
		}
	}
	return states[0]
}

func (w *wlWalker) stmt(st ast.Stmt, held bool) bool {
	switch s := st.(type) {
	case *ast.ExprStmt:
		switch pgSrc(w.fset, s.X) {
		case "c.mu.Lock()":
			if held {
				w.fail(s, "c.mu.Lock() while c.mu is held")
			}
			return true
		case "c.mu.Unlock()":
			if !held {
				w.fail(s, "c.mu.Unlock() without the lock")
			}
			return false
		}
		w.exprs(s.X, held)
	case *ast.DeferStmt:
		src := pgSrc(w.fset, s.Call)
		if strings.Contains(src, "c.mu.") && !strings.HasPrefix(src, "func()") {
			w.fail(s, "deferred lock operation %q: not followed", src)
		}
		if fl, ok := s.Call.Fun.(*ast.FuncLit); ok {
			w.block(fl.Body.List, false, true)
			for _, a := range s.Call.Args {
				w.exprs(a, held)
			}
		} else {
			w.exprs(s.Call, false)
		}
	case *ast.GoStmt:
		if fl, ok := s.Call.Fun.(*ast.FuncLit); ok {
			w.block(fl.Body.List, false, true)
			for _, a := range s.Call.Args {
				w.exprs(a, held)
			}
		} else {
			w.exprs(s.Call, false)
		}
	case *ast.ReturnStmt:
		for _, r := range s.Results {
			w.exprs(r, held)
		}
		if held {
			w.fail(s, "return with c.mu held")
		}
	case *ast.BlockStmt:
		return w.block(s.List, held, false)
	case *ast.IfStmt:
		if s.Init != nil {
			held = w.stmt(s.Init, held)
		}
		w.exprs(s.Cond, held)
		var states []bool
		h1 := w.block(s.Body.List, held, false)
		if !wlTerminates(s.Body.List) {
			states = append(states, h1)
		}
		switch e := s.Else.(type) {
		case nil:
			states = append(states, held)
		case *ast.BlockStmt:
			h2 := w.block(e.List, held, false)
			if !wlTerminates(e.List) {
				states = append(states, h2)
			}
		default:
			states = append(states, w.stmt(e, held))
		}
		return w.merge(s, states, held)
	case *ast.ForStmt:
		if s.Init != nil {
			held = w.stmt(s.Init, held)
		}
		w.exprs(s.Cond, held)
		h := w.block(s.Body.List, held, false)
		if !wlTerminates(s.Body.List) && h != held {
			w.fail(s, "the loop body changes the state of c.mu")
		}
		if s.Post != nil {
			w.stmt(s.Post, held)
		}
	case *ast.RangeStmt:
		w.exprs(s.X, held)
		h := w.block(s.Body.List, held, false)
		if !wlTerminates(s.Body.List) && h != held {
			w.fail(s, "the loop body changes the state of c.mu")
		}
	case *ast.SwitchStmt, *ast.TypeSwitchStmt, *ast.SelectStmt:
		var body *ast.BlockStmt
		hasDefault := false
		switch x := s.(type) {
		case *ast.SwitchStmt:
			if x.Init != nil {
				held = w.stmt(x.Init, held)
			}
			w.exprs(x.Tag, held)
			body = x.Body
		case *ast.TypeSwitchStmt:
			if x.Init != nil {
				held = w.stmt(x.Init, held)
			}
			body = x.Body
		case *ast.SelectStmt:
			body = x.Body
			hasDefault = true // a select without default blocks until one clause runs
		}
		var states []bool
		for _, c := range body.List {
			var l []ast.Stmt
			switch cc := c.(type) {
			case *ast.CaseClause:
				if cc.List == nil {
					hasDefault = true
				}
				for _, e := range cc.List {
					w.exprs(e, held)
				}
				l = cc.Body
			case *ast.CommClause:
				if cc.Comm != nil {
					w.stmt(cc.Comm, held)
				}
				l = cc.Body
			}
			h := w.block(l, held, false)
			if !wlTerminates(l) {
				states = append(states, h)
			}
		}
		if !hasDefault {
			states = append(states, held)
		}
		return w.merge(s, states, held)
	case *ast.LabeledStmt:
		return w.stmt(s.Stmt, held)
	case *ast.AssignStmt, *ast.DeclStmt, *ast.IncDecStmt, *ast.SendStmt, *ast.BranchStmt, *ast.EmptyStmt:
		w.exprs(st, held)
	default:
		w.fail(st, "unknown statement %T", st)
	}
	return held
}

func extractWsWriteLock(repo string) (string, error) {
	path := filepath.Join(repo, "graphql", "handler", "transport", "websocket.go")
	fset := token.NewFileSet()
	f, err := parser.ParseFile(fset, path, nil, 0)
	if err != nil {
		return "", err
	}
	var methods []*ast.FuncDecl
	for _, d := range f.Decls {
		fd, ok := d.(*ast.FuncDecl)
		if !ok || fd.Recv == nil || fd.Body == nil || len(fd.Recv.List) != 1 || pgSrc(fset, fd.Recv.List[0].Type) != "*wsConnection" {
			continue
		}
		if len(fd.Recv.List[0].Names) != 1 || fd.Recv.List[0].Names[0].Name != "c" {
			return "", fmt.Errorf("%s: receiver of wsConnection.%s is not named c", fset.Position(fd.Pos()), fd.Name.Name)
		}
		methods = append(methods, fd)
	}
	if len(methods) == 0 {
		return "", fmt.Errorf("%s: no methods of *wsConnection", path)
	}
	// methods that take c.mu, directly or through another method
	calls := map[string]map[string]bool{}
	lockFn := map[string]bool{}
	for _, m := range methods {
		calls[m.Name.Name] = map[string]bool{}
		ast.Inspect(m.Body, func(n ast.Node) bool {
			switch x := n.(type) {
			case *ast.GoStmt:
				return false // another goroutine: does not block the caller
			case *ast.CallExpr:
				src := pgSrc(fset, x.Fun)
				if src == "c.mu.Lock" {
					lockFn[m.Name.Name] = true
				}
				if strings.HasPrefix(src, "c.") && !strings.Contains(src[2:], ".") {
					calls[m.Name.Name][src[2:]] = true
				}
			}
			return true
		})
	}
	for changed := true; changed; {
		changed = false
		for m, cs := range calls {
			if lockFn[m] {
				continue
			}
			for c := range cs {
				if lockFn[c] {
					lockFn[m] = true
					changed = true
				}
			}
		}
	}
	var sites []wlSite
	for _, m := range methods {
		w := &wlWalker{fset: fset, fn: m.Name.Name, lockFn: lockFn}
		w.block(m.Body.List, false, true)
		if w.err != nil {
			return "", w.err
		}
		sites = append(sites, w.sites...)
	}
	if len(sites) == 0 {
		return "", fmt.Errorf("%s: no frame write found in the methods of *wsConnection", path)
	}
	// the writes must all be in websocket.go: no other non-test file of the package may write through a wsConnection
	var b strings.Builder
	b.WriteString("import GqlgenVerif.Model.WsWriteLock\nnamespace GqlgenVerif.Gen.WsWriteLock\nopen GqlgenVerif.WsWriteLock\n\n")
	b.WriteString("/-- graphql/handler/transport/websocket.go: every frame write of a wsConnection (method, call, c.mu held around it) -/\n")
	b.WriteString("def writes : List WriteSite := [\n")
	for i, s := range sites {
		sep := ","
		if i == len(sites)-1 {
			sep = ""
		}
		fmt.Fprintf(&b, "  ⟨%q, %q, %v⟩%s  -- line %d\n", s.fn, s.call, s.locked, sep, s.pos.Line)
	}
	b.WriteString("]\n\nend GqlgenVerif.Gen.WsWriteLock\n")
	return b.String(), nil
}
