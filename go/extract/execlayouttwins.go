package main

import (
	"fmt"
	"os"
	"path/filepath"
	"sort"
	"strings"
	"text/template/parse"
)

// ExecLayoutTwins (C17): the executor's top-level declarations exist once per EXEC LAYOUT.
//
//	codegen/generated!.gotpl   {{ if eq .Config.Exec.Layout "single-file" }} … {{ end }}   (two blocks: Config /
//	                           ResolverRoot / DirectiveRoot / ComplexityRoot, and executableSchema … sources)
//	codegen/root_.gotpl        the same declarations again, rendered to root_.generated.go under `follow-schema`
//
// and `type ResolverRoot interface` must list a method for every type whose generated code calls `ec.resolvers.<T>()`:
// objects with resolver fields (field.gotpl) AND input objects with resolver fields (input.gotpl). The templates are
// parsed with text/template/parse and written as token lists (text lexed into identifiers / punctuation, whitespace dropped; an
// action / `if` / `range` head is one token in its canonical spelling, so trim markers and blanks inside actions do not
// matter). Output:
//
//	singleFileBlocks   tokens of each `if eq .Config.Exec.Layout "single-file"` block of generated!.gotpl
//	builtinDirectives  tokens of generated!.gotpl's top-level `range … .BuiltInDirectives` (emitted for both layouts)
//	followRoot         tokens of root_.gotpl after its leading import reservations / variable declarations
//	resolverRoot       per layout: the (collection, guard, entry tokens) of every `range` inside `type ResolverRoot interface`
//	resolverInterfaces (collection, guard, header tokens) of the `type …Resolver interface {` declarations of generated!.gotpl
//	resolverCallers    (template, collection of its top-level range) for every template that writes `ec.resolvers.`
//
// Fails when a template no longer has that shape.
func init() { extractors["ExecLayoutTwins"] = extractExecLayoutTwins }

const eltSingleCond = `eq .Config.Exec.Layout "single-file"`

// canonical one-token spelling of a branch head
func eltHead(kind string, p *parse.PipeNode) string { return "{{" + kind + " " + p.String() + "}}" }

// eltTokens flattens a node list into tokens
func eltTokens(l *parse.ListNode, out *[]string) error {
	if l == nil {
		return nil
	}
	for _, n := range l.Nodes {
		switch x := n.(type) {
		case *parse.TextNode:
			*out = append(*out, eltLex(string(x.Text))...)
		case *parse.ActionNode:
			*out = append(*out, "{{"+x.Pipe.String()+"}}")
		case *parse.TemplateNode:
			*out = append(*out, x.String())
		case *parse.CommentNode:
		case *parse.IfNode, *parse.RangeNode, *parse.WithNode:
			var b *parse.BranchNode
			kind := ""
			switch y := n.(type) {
			case *parse.IfNode:
				b, kind = &y.BranchNode, "if"
			case *parse.RangeNode:
				b, kind = &y.BranchNode, "range"
			case *parse.WithNode:
				b, kind = &y.BranchNode, "with"
			}
			*out = append(*out, eltHead(kind, b.Pipe))
			if err := eltTokens(b.List, out); err != nil {
				return err
			}
			if b.ElseList != nil {
				*out = append(*out, "{{else}}")
				if err := eltTokens(b.ElseList, out); err != nil {
					return err
				}
			}
			*out = append(*out, "{{end}}")
		default:
			return fmt.Errorf("unexpected template node %T `%s`", n, n.String())
		}
	}
	return nil
}

// eltLex: identifiers and single punctuation characters (quotes included: a string may be split by an action);
// whitespace dropped
func eltLex(s string) []string {
	var out []string
	for i := 0; i < len(s); {
		c := s[i]
		switch {
		case c == ' ' || c == '\t' || c == '\n' || c == '\r':
			i++
		case fsIdentByte(c):
			j := i
			for j < len(s) && fsIdentByte(s[j]) {
				j++
			}
			out = append(out, s[i:j])
			i = j
		default:
			out = append(out, s[i:i+1])
			i++
		}
	}
	return out
}

func eltParse(repo, base string) (map[string]*parse.Tree, error) {
	b, err := os.ReadFile(filepath.Join(repo, "codegen", base))
	if err != nil {
		return nil, err
	}
	tr := parse.New(base)
	tr.Mode = parse.SkipFuncCheck
	trees := map[string]*parse.Tree{}
	if _, err := tr.Parse(string(b), "", "", trees); err != nil {
		return nil, fmt.Errorf("%s: %v", base, err)
	}
	if trees[base] == nil {
		return nil, fmt.Errorf("%s: no main template", base)
	}
	return trees, nil
}

// the collection a `range $x := .Coll` iterates ("" when the pipe has another shape)
func eltRangeColl(r *parse.RangeNode) string {
	if len(r.Pipe.Cmds) != 1 || len(r.Pipe.Cmds[0].Args) != 1 {
		return ""
	}
	if f, ok := r.Pipe.Cmds[0].Args[0].(*parse.FieldNode); ok {
		return f.String()
	}
	return ""
}

func eltBlank(n parse.Node) bool {
	t, ok := n.(*parse.TextNode)
	return ok && strings.TrimSpace(string(t.Text)) == ""
}

type eltEntry struct {
	coll, guard string
	toks        []string
}

// the ranges between `type ResolverRoot interface {` and the text that closes it, in a node list
func eltResolverRoot(l *parse.ListNode, where string) ([]eltEntry, error) {
	var out []eltEntry
	inside := false
	for _, n := range l.Nodes {
		if t, ok := n.(*parse.TextNode); ok {
			s := string(t.Text)
			if !inside {
				if i := strings.Index(s, "type ResolverRoot interface"); i >= 0 {
					rest := strings.TrimSpace(s[i+len("type ResolverRoot interface"):])
					if rest != "{" {
						return nil, fmt.Errorf("%s: text after `type ResolverRoot interface`: %q", where, rest)
					}
					inside = true
				}
				continue
			}
			if strings.TrimSpace(s) == "" {
				continue
			}
			if strings.HasPrefix(strings.TrimSpace(s), "}") {
				return out, nil
			}
			return nil, fmt.Errorf("%s: unexpected text inside ResolverRoot: %q", where, s)
		}
		if !inside {
			continue
		}
		r, ok := n.(*parse.RangeNode)
		if !ok || eltRangeColl(r) == "" || r.ElseList != nil {
			return nil, fmt.Errorf("%s: unexpected node inside ResolverRoot: `%s`", where, n.String())
		}
		var body []parse.Node
		for _, c := range r.List.Nodes {
			if !eltBlank(c) {
				body = append(body, c)
			}
		}
		if len(body) != 1 {
			return nil, fmt.Errorf("%s: the body of `%s` inside ResolverRoot is not a single `if`", where, eltHead("range", r.Pipe))
		}
		is, ok := body[0].(*parse.IfNode)
		if !ok || is.ElseList != nil {
			return nil, fmt.Errorf("%s: the body of `%s` inside ResolverRoot is not a single `if`", where, eltHead("range", r.Pipe))
		}
		var toks []string
		if err := eltTokens(is.List, &toks); err != nil {
			return nil, err
		}
		out = append(out, eltEntry{eltRangeColl(r), is.Pipe.String(), toks})
	}
	if inside {
		return nil, fmt.Errorf("%s: `type ResolverRoot interface {` is not closed in the same block", where)
	}
	return nil, fmt.Errorf("%s: `type ResolverRoot interface` not found", where)
}

func extractExecLayoutTwins(repo string) (string, error) {
	gen, err := eltParse(repo, "generated!.gotpl")
	if err != nil {
		return "", err
	}
	rootT, err := eltParse(repo, "root_.gotpl")
	if err != nil {
		return "", err
	}
	intern := map[string]int{}
	var table []string
	ids := func(ts []string) string {
		xs := make([]string, len(ts))
		for i, t := range ts {
			v, ok := intern[t]
			if !ok {
				v = len(table)
				intern[t] = v
				table = append(table, t)
			}
			xs[i] = fmt.Sprint(v)
		}
		return "[" + strings.Join(xs, ", ") + "]"
	}
	strs := func(ts []string) string {
		xs := make([]string, len(ts))
		for i, t := range ts {
			xs[i] = pnLeanStr(t)
		}
		return "[" + strings.Join(xs, ", ") + "]"
	}
	// ---- generated!.gotpl: the single-file blocks, the shared built-in directive block, the resolver interfaces
	var blocks [][]string
	var blockLists []*parse.ListNode
	var builtin []string
	var ifaces []eltEntry
	for _, n := range gen["generated!.gotpl"].Root.Nodes {
		switch x := n.(type) {
		case *parse.IfNode:
			if x.Pipe.String() == eltSingleCond {
				if x.ElseList != nil {
					return "", fmt.Errorf("generated!.gotpl: `if %s` has an else arm", eltSingleCond)
				}
				var ts []string
				if err := eltTokens(x.List, &ts); err != nil {
					return "", err
				}
				blocks = append(blocks, ts)
				blockLists = append(blockLists, x.List)
			} else if strings.Contains(x.Pipe.String(), ".Config.Exec.Layout") {
				return "", fmt.Errorf("generated!.gotpl: unexpected layout condition `%s`", x.Pipe.String())
			}
		case *parse.RangeNode:
			switch coll := eltRangeColl(x); coll {
			case ".BuiltInDirectives":
				if builtin != nil {
					return "", fmt.Errorf("generated!.gotpl: two top-level ranges over .BuiltInDirectives")
				}
				var ts []string
				ts = append(ts, eltHead("range", x.Pipe))
				if err := eltTokens(x.List, &ts); err != nil {
					return "", err
				}
				builtin = append(ts, "{{end}}")
			case ".Objects", ".Inputs":
				var body []parse.Node
				for _, c := range x.List.Nodes {
					if !eltBlank(c) {
						body = append(body, c)
					}
				}
				if len(body) != 1 {
					continue
				}
				is, ok := body[0].(*parse.IfNode)
				if !ok {
					continue
				}
				var ts []string
				if err := eltTokens(is.List, &ts); err != nil {
					return "", err
				}
				// header: up to and including the first `{`
				k := -1
				for i, t := range ts {
					if t == "{" {
						k = i
						break
					}
				}
				if k < 0 || !strings.Contains(strings.Join(ts[:k], " "), "Resolver interface") {
					continue
				}
				ifaces = append(ifaces, eltEntry{coll, is.Pipe.String(), ts[:k+1]})
			}
		}
	}
	if len(blocks) == 0 {
		return "", fmt.Errorf("generated!.gotpl: no `if %s` block", eltSingleCond)
	}
	if builtin == nil {
		return "", fmt.Errorf("generated!.gotpl: no top-level range over .BuiltInDirectives")
	}
	if len(ifaces) == 0 {
		return "", fmt.Errorf("generated!.gotpl: no `type …Resolver interface` declaration found")
	}
	// ---- root_.gotpl: everything after the leading import reservations / variable declarations
	rnodes := rootT["root_.gotpl"].Root.Nodes
	start := 0
	for start < len(rnodes) {
		n := rnodes[start]
		if eltBlank(n) {
			start++
			continue
		}
		if _, ok := n.(*parse.CommentNode); ok {
			start++
			continue
		}
		if a, ok := n.(*parse.ActionNode); ok && (len(a.Pipe.Decl) > 0 || strings.HasPrefix(a.Pipe.String(), "reserveImport ")) {
			start++
			continue
		}
		break
	}
	rest := &parse.ListNode{NodeType: parse.NodeList, Nodes: rnodes[start:]}
	var follow []string
	if err := eltTokens(rest, &follow); err != nil {
		return "", err
	}
	// ---- ResolverRoot per layout
	var rrSingle []eltEntry
	found := 0
	for _, bl := range blockLists {
		if es, err := eltResolverRoot(bl, "generated!.gotpl"); err == nil {
			rrSingle = es
			found++
		} else if !strings.HasSuffix(err.Error(), "not found") {
			return "", err
		}
	}
	if found != 1 {
		return "", fmt.Errorf("generated!.gotpl: `type ResolverRoot interface` found in %d single-file blocks", found)
	}
	rrFollow, err := eltResolverRoot(rest, "root_.gotpl")
	if err != nil {
		return "", err
	}
	// ---- templates that call through ec.resolvers
	files, _ := filepath.Glob(filepath.Join(repo, "codegen", "*.gotpl"))
	sort.Strings(files)
	type caller struct{ file, coll string }
	var callers []caller
	for _, fn := range files {
		base := filepath.Base(fn)
		trees, err := eltParse(repo, base)
		if err != nil {
			return "", err
		}
		calls := false
		for _, t := range trees {
			fsWalk(t.Root, func(n parse.Node) {
				if tx, ok := n.(*parse.TextNode); ok && strings.Contains(string(tx.Text), "ec.resolvers.") {
					calls = true
				}
			})
		}
		if !calls {
			continue
		}
		var colls []string
		for _, n := range trees[base].Root.Nodes {
			if r, ok := n.(*parse.RangeNode); ok {
				if c := eltRangeColl(r); c != "" {
					colls = append(colls, c)
				}
			}
		}
		if len(colls) != 1 {
			return "", fmt.Errorf("%s writes `ec.resolvers.` but has %d top-level ranges over a collection (%v)", base, len(colls), colls)
		}
		callers = append(callers, caller{base, colls[0]})
	}
	if len(callers) == 0 {
		return "", fmt.Errorf("no template under codegen/ writes `ec.resolvers.`")
	}

	var b strings.Builder
	b.WriteString("/-! The executor's top-level declarations per exec layout (`generated!.gotpl` single-file blocks vs `root_.gotpl`),\n")
	b.WriteString("the `range`s of `type ResolverRoot interface` in each, the resolver interface declarations and the templates that\n")
	b.WriteString("call through `ec.resolvers`. Tokens: text lexed with whitespace dropped, a template action / branch head is one token. -/\n")
	b.WriteString("namespace GqlgenVerif.Gen.ExecLayoutTwins\n\n")
	// render the index lists first so that the table is complete
	var blockIds []string
	for _, bl := range blocks {
		blockIds = append(blockIds, ids(bl))
	}
	builtinIds := ids(builtin)
	followIds := ids(follow)
	b.WriteString("/-- token table (a token of the lists below is an index into it) -/\ndef tokens : List String := [\n")
	for i, t := range table {
		sep := ","
		if i == len(table)-1 {
			sep = ""
		}
		b.WriteString("  " + pnLeanStr(t) + sep + "\n")
	}
	b.WriteString("]\n\n")
	b.WriteString("/-- generated!.gotpl: the body of each `if eq .Config.Exec.Layout \"single-file\"` block, in order -/\n")
	b.WriteString("def singleFileBlocks : List (List Nat) := [\n  " + strings.Join(blockIds, ",\n  ") + "]\n\n")
	b.WriteString("/-- generated!.gotpl: the top-level `range` over .BuiltInDirectives (between the blocks; rendered for both layouts) -/\n")
	b.WriteString("def builtinDirectives : List Nat := " + builtinIds + "\n\n")
	b.WriteString("/-- root_.gotpl after its leading import reservations and variable declarations -/\n")
	b.WriteString("def followRoot : List Nat := " + followIds + "\n\n")
	ent := func(es []eltEntry) string {
		var xs []string
		for _, e := range es {
			xs = append(xs, "("+pnLeanStr(e.coll)+", "+pnLeanStr(e.guard)+", "+strs(e.toks)+")")
		}
		return "[" + strings.Join(xs, ", ") + "]"
	}
	b.WriteString("/-- per exec layout: (collection, guard, tokens of the entry) of every `range` inside `type ResolverRoot interface` -/\n")
	b.WriteString("def resolverRoot : List (String × List (String × String × List String)) := [\n")
	b.WriteString("  (\"single-file\", " + ent(rrSingle) + "),\n  (\"follow-schema\", " + ent(rrFollow) + ")]\n\n")
	b.WriteString("/-- generated!.gotpl: (collection, guard, header tokens) of the `type …Resolver interface {` declarations -/\n")
	b.WriteString("def resolverInterfaces : List (String × String × List String) := " + ent(ifaces) + "\n\n")
	b.WriteString("/-- templates that write a call through `ec.resolvers.` and the collection their top-level range iterates -/\n")
	var cs []string
	for _, c := range callers {
		cs = append(cs, "("+pnLeanStr(c.file)+", "+pnLeanStr(c.coll)+")")
	}
	b.WriteString("def resolverCallers : List (String × String) := [" + strings.Join(cs, ", ") + "]\n\n")
	b.WriteString("end GqlgenVerif.Gen.ExecLayoutTwins\n")
	return b.String(), nil
}
