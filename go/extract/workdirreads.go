package main

import (
	"fmt"
	"go/ast"
	"go/parser"
	"go/token"
	"os"
	"path/filepath"
	"sort"
	"strings"
)

// WorkDirReads (C18): where the generator reads the process's working directory, and WHEN relative to the move
// config.LoadConfigFromDefaultLocations makes to the directory of gqlgen.yml.
//
// `gqlgen generate` may be started in any directory inside the project: LoadConfigFromDefaultLocations searches upwards
// (findCfg: os.Getwd + parents), os.Chdir's to the directory holding the config and only then loads it; every path of
// the configuration is relative to THAT directory. A read of the working directory is harmless for C18 when it happens
// after the move (it sees the config directory whatever the start directory was), it is the purpose of the search
// itself, and it leaks the start directory into the output when it is evaluated at PACKAGE INITIALISATION (a package
// level `var wd, _ = os.Getwd()`, an init() function): that runs at process start, before any chdir.
//
// Over the non-test files of the generator packages (the MapRanges set) and main.go:
//
//	reads   every call of os.Getwd / filepath.Abs / os.Getenv("PWD") with its phase:
//	          .init      outside any function declaration (package-level initialiser) or inside func init()
//	          .search    inside codegen/config findCfg (the upward search)
//	          .generate  anywhere else (runs after the configuration is loaded)
//	steps   the calls of LoadConfigFromDefaultLocations in source order: .findCfg, .chdirCfgDir (os.Chdir of
//	        filepath.Dir(<result of findCfg>)), .chdirOther, .loadConfig
//
// Props/C18Start.lean proves from these that no read is at package initialisation, that the working directory is the
// config directory when the config is loaded, hence that everything read while generating is independent of the start
// directory (and that an init-time read / a missing chdir is not).
func init() { extractors["WorkDirReads"] = extractWorkDirReads }

func extractWorkDirReads(repo string) (string, error) {
	fset := token.NewFileSet()
	var reads []string
	var steps []string
	foundLoader := false
	dirs := append([]string{"."}, mapRangePkgs...)
	for _, d := range dirs {
		ents, err := os.ReadDir(filepath.Join(repo, d))
		if err != nil {
			return "", err
		}
		for _, e := range ents {
			n := e.Name()
			if e.IsDir() || !strings.HasSuffix(n, ".go") || strings.HasSuffix(n, "_test.go") {
				continue
			}
			rel := filepath.ToSlash(filepath.Join(d, n))
			f, err := parser.ParseFile(fset, filepath.Join(repo, d, n), nil, 0)
			if err != nil {
				return "", err
			}
			osName, fpName := "", ""
			for _, im := range f.Imports {
				p := strings.Trim(im.Path.Value, `"`)
				local := filepath.Base(p)
				if im.Name != nil {
					local = im.Name.Name
				}
				switch p {
				case "os":
					osName = local
				case "path/filepath":
					fpName = local
				}
			}
			isRead := func(c *ast.CallExpr) string {
				sel, ok := c.Fun.(*ast.SelectorExpr)
				if !ok {
					return ""
				}
				x, ok := sel.X.(*ast.Ident)
				if !ok {
					return ""
				}
				switch {
				case x.Name == osName && osName != "" && sel.Sel.Name == "Getwd":
					return "os.Getwd"
				case x.Name == fpName && fpName != "" && sel.Sel.Name == "Abs":
					return "filepath.Abs"
				case x.Name == osName && osName != "" && sel.Sel.Name == "Getenv" && len(c.Args) == 1:
					if bl, ok := c.Args[0].(*ast.BasicLit); ok && bl.Value == `"PWD"` {
						return "os.Getenv(PWD)"
					}
				}
				return ""
			}
			for _, decl := range f.Decls {
				phase, fname := ".init", "(package level)"
				if fd, ok := decl.(*ast.FuncDecl); ok {
					fname = fd.Name.Name
					if fd.Recv != nil && len(fd.Recv.List) > 0 {
						fname = strings.TrimPrefix(mrNodeStr(fset, fd.Recv.List[0].Type), "*") + "." + fname
					}
					switch {
					case fd.Recv == nil && fd.Name.Name == "init":
						phase = ".init"
					case rel == "codegen/config/config.go" && fd.Recv == nil && fd.Name.Name == "findCfg":
						phase = ".search"
					default:
						phase = ".generate"
					}
					if rel == "codegen/config/config.go" && fd.Recv == nil && fd.Name.Name == "LoadConfigFromDefaultLocations" && fd.Body != nil {
						foundLoader = true
						cfgVars := map[string]bool{}
						ast.Inspect(fd.Body, func(n ast.Node) bool {
							if as, ok := n.(*ast.AssignStmt); ok && len(as.Rhs) == 1 {
								if c, ok := as.Rhs[0].(*ast.CallExpr); ok {
									if id, ok := c.Fun.(*ast.Ident); ok && id.Name == "findCfg" && len(as.Lhs) > 0 {
										if l, ok := as.Lhs[0].(*ast.Ident); ok {
											cfgVars[l.Name] = true
										}
									}
								}
							}
							c, ok := n.(*ast.CallExpr)
							if !ok {
								return true
							}
							switch fn := c.Fun.(type) {
							case *ast.Ident:
								switch fn.Name {
								case "findCfg":
									steps = append(steps, ".findCfg")
								case "LoadConfig", "ReadConfig":
									steps = append(steps, ".loadConfig")
								}
							case *ast.SelectorExpr:
								if x, ok := fn.X.(*ast.Ident); ok && x.Name == osName && fn.Sel.Name == "Chdir" {
									st := ".chdirOther"
									if len(c.Args) == 1 {
										if dc, ok := c.Args[0].(*ast.CallExpr); ok && len(dc.Args) == 1 {
											if ds, ok := dc.Fun.(*ast.SelectorExpr); ok && ds.Sel.Name == "Dir" {
												if dx, ok := ds.X.(*ast.Ident); ok && dx.Name == fpName {
													if a, ok := dc.Args[0].(*ast.Ident); ok && cfgVars[a.Name] {
														st = ".chdirCfgDir"
													}
												}
											}
										}
									}
									steps = append(steps, st)
								}
							}
							return true
						})
					}
				}
				// a function literal in a package-level initialiser runs when it is CALLED, not at initialisation -
				// unless it is invoked on the spot (`var x = func() T { ... }()`)
				_, isFunc := decl.(*ast.FuncDecl)
				invoked := map[*ast.FuncLit]bool{}
				var walk func(n ast.Node, ph, fn string)
				walk = func(n ast.Node, ph, fn string) {
					ast.Inspect(n, func(m ast.Node) bool {
						switch v := m.(type) {
						case *ast.CallExpr:
							if fl, ok := ast.Unparen(v.Fun).(*ast.FuncLit); ok {
								invoked[fl] = true
							}
							if what := isRead(v); what != "" {
								reads = append(reads, fmt.Sprintf("⟨%q, %q, %q, %d, %s⟩", rel, fn, what, fset.Position(v.Pos()).Line, ph))
							}
						case *ast.FuncLit:
							if !isFunc && !invoked[v] && ph == ".init" {
								walk(v.Body, ".generate", "(function literal in a package-level initialiser)")
								return false
							}
						}
						return true
					})
				}
				walk(decl, phase, fname)
			}
		}
	}
	if !foundLoader {
		return "", fmt.Errorf("codegen/config/config.go: func LoadConfigFromDefaultLocations not found")
	}
	sort.Strings(reads)
	var b strings.Builder
	b.WriteString("import GqlgenVerif.Model.StartDir\n")
	b.WriteString("/-! Reads of the working directory in the generator and the steps of LoadConfigFromDefaultLocations (go/extract/workdirreads.go). -/\n")
	b.WriteString("namespace GqlgenVerif.Gen.WorkDirReads\nopen GqlgenVerif.StartDir\n\n")
	b.WriteString("/-- every os.Getwd / filepath.Abs / os.Getenv(\"PWD\") call of the generator packages: file, function, call, line, phase -/\n")
	b.WriteString("def reads : List Read := [" + joinLines(reads) + "]\n\n")
	b.WriteString("/-- the calls of config.LoadConfigFromDefaultLocations in source order -/\n")
	b.WriteString("def steps : List Step := [" + strings.Join(steps, ", ") + "]\n\n")
	b.WriteString("end GqlgenVerif.Gen.WorkDirReads\n")
	return b.String(), nil
}
