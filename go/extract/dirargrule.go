package main

import (
	"fmt"
	"go/ast"
	"go/parser"
	"go/token"
	"os"
	"path/filepath"
	"strings"
	"text/template/parse"
)

// DirArgRule (C17): the two cooperating sites that hand the arguments of an applied schema directive to the directive
// function in the generated executor, and where the values they look at come from.
//
//	codegen/directive.go  (*Directive).ResolveArgs      for _, arg := range d.Args {
//	                                                        dArg := "dirArg_" + arg.VarName
//	                                                        if arg.Value == nil && arg.Default == nil { dArg = "nil" }
//	                                                        args = append(args, dArg) }
//	    -> localPrefix, nilLiteral, passesNil valueNil defaultNil defDefaultNil := <the condition, translated>
//	       (`arg.DefaultValue` is the promoted field of the embedded *ast.ArgumentDefinition: the default written in the
//	       directive's DEFINITION, not the effective value of this use)
//	codegen/directive.go  (*builder).getDirectives      value := a.Default; if argValue, ok := argValues[a.Name]; ok { value = argValue }
//	                                                    args = append(args, &FieldArgument{ArgumentDefinition: …, Value: value, …})
//	    -> useFields (field, expression) of the FieldArgument of a USE, useValueInit, useValueWhenGiven
//	codegen/directive.go  (*builder).buildDirectives    newArg := &FieldArgument{…}; if arg.DefaultValue != nil { newArg.Default, err = arg.DefaultValue.Value(nil) }
//	    -> defFields, defDefaultGuard, defDefaultFrom
//	codegen/directives.gotpl  define "implDirectives"   range $arg := $directive.Args: {{if notNil "Value" $arg}} dirArg_{{$arg.VarName}}, err := …({{$arg.Value|dump}})
//	                                                    {{else if notNil "Default" $arg}} … {{$arg.Default|dump}} {{end}}
//	    -> declChain: per link the tested field and, per flavour arm, (prefix of the declared local, dumped field)
//
// Fails when a site leaves the shape it knows how to translate.
func init() { extractors["DirArgRule"] = extractDirArgRule }

func daNilTest(fset *token.FileSet, e ast.Expr, v string) (string, error) {
	switch e := e.(type) {
	case *ast.ParenExpr:
		return daNilTest(fset, e.X, v)
	case *ast.UnaryExpr:
		if e.Op == token.NOT {
			a, err := daNilTest(fset, e.X, v)
			return "(!" + a + ")", err
		}
	case *ast.BinaryExpr:
		switch e.Op {
		case token.LAND, token.LOR:
			a, err := daNilTest(fset, e.X, v)
			if err != nil {
				return "", err
			}
			b, err := daNilTest(fset, e.Y, v)
			if err != nil {
				return "", err
			}
			return "(" + a + " " + e.Op.String() + " " + b + ")", nil
		case token.EQL, token.NEQ:
			if !bgIsNil(e.Y) {
				break
			}
			var name string
			switch trSel(e.X) {
			case v + ".Value":
				name = "valueNil"
			case v + ".Default":
				name = "defaultNil"
			case v + ".DefaultValue", v + ".ArgumentDefinition.DefaultValue":
				name = "defDefaultNil"
			default:
				return "", fmt.Errorf("ResolveArgs: the nil test looks at `%s`, which is neither Value, Default nor DefaultValue of the argument", pnSrc(fset, e.X))
			}
			if e.Op == token.NEQ {
				return "(!" + name + ")", nil
			}
			return name, nil
		}
	}
	return "", fmt.Errorf("ResolveArgs: cannot translate `%s` in the nil decision", pnSrc(fset, e))
}

func daLiteralFields(fset *token.FileSet, e ast.Expr) ([]string, error) {
	u, ok := e.(*ast.UnaryExpr)
	if !ok || u.Op != token.AND {
		return nil, fmt.Errorf("not `&FieldArgument{…}`: `%s`", pnSrc(fset, e))
	}
	cl, ok := u.X.(*ast.CompositeLit)
	if !ok || trSel(cl.Type) != "FieldArgument" {
		return nil, fmt.Errorf("not `&FieldArgument{…}`: `%s`", pnSrc(fset, e))
	}
	var out []string
	for _, el := range cl.Elts {
		kv, ok := el.(*ast.KeyValueExpr)
		if !ok {
			return nil, fmt.Errorf("unkeyed FieldArgument literal")
		}
		out = append(out, "("+pnLeanStr(trSel(kv.Key))+", "+pnLeanStr(pnSrc(fset, kv.Value))+")")
	}
	return out, nil
}

func extractDirArgRule(repo string) (string, error) {
	fset := token.NewFileSet()
	f, err := parser.ParseFile(fset, filepath.Join(repo, "codegen", "directive.go"), nil, 0)
	if err != nil {
		return "", err
	}
	meth := map[string]*ast.FuncDecl{}
	for _, d := range f.Decls {
		if fd, ok := d.(*ast.FuncDecl); ok && fd.Recv != nil {
			meth[fd.Name.Name] = fd
		}
	}
	// ---- ResolveArgs
	ra := meth["ResolveArgs"]
	if ra == nil {
		return "", fmt.Errorf("codegen/directive.go: method ResolveArgs not found")
	}
	var loop *ast.RangeStmt
	for _, st := range ra.Body.List {
		if rs, ok := st.(*ast.RangeStmt); ok && trSel(rs.X) == "d.Args" {
			if loop != nil {
				return "", fmt.Errorf("ResolveArgs: more than one loop over d.Args")
			}
			loop = rs
		}
	}
	if loop == nil {
		return "", fmt.Errorf("ResolveArgs: `for _, arg := range d.Args` not found")
	}
	av := trSel(loop.Value)
	prefix, nilLit, cond := "", "", ""
	local := ""
	appended := false
	for _, st := range loop.Body.List {
		switch x := st.(type) {
		case *ast.AssignStmt:
			if len(x.Lhs) != 1 || len(x.Rhs) != 1 {
				return "", fmt.Errorf("ResolveArgs: unexpected assignment `%s`", pnSrc(fset, x))
			}
			if be, ok := x.Rhs[0].(*ast.BinaryExpr); ok && x.Tok == token.DEFINE && be.Op == token.ADD && trSel(be.Y) == av+".VarName" && local == "" {
				lit, ok := be.X.(*ast.BasicLit)
				if !ok || lit.Kind != token.STRING {
					return "", fmt.Errorf("ResolveArgs: the local's name is not `<string literal> + %s.VarName`: `%s`", av, pnSrc(fset, x))
				}
				prefix = strings.Trim(lit.Value, "\"`")
				local = trSel(x.Lhs[0])
				continue
			}
			if call, ok := x.Rhs[0].(*ast.CallExpr); ok && trSel(call.Fun) == "append" && len(call.Args) == 2 && trSel(call.Args[1]) == local && local != "" {
				appended = true
				continue
			}
			return "", fmt.Errorf("ResolveArgs: unexpected assignment `%s`", pnSrc(fset, x))
		case *ast.IfStmt:
			if local == "" || cond != "" || appended || x.Else != nil || x.Init != nil || len(x.Body.List) != 1 {
				return "", fmt.Errorf("ResolveArgs: unexpected `if %s`", pnSrc(fset, x.Cond))
			}
			as, ok := x.Body.List[0].(*ast.AssignStmt)
			if !ok || len(as.Lhs) != 1 || trSel(as.Lhs[0]) != local || len(as.Rhs) != 1 {
				return "", fmt.Errorf("ResolveArgs: the body of `if %s` is not `%s = \"nil\"`", pnSrc(fset, x.Cond), local)
			}
			lit, ok := as.Rhs[0].(*ast.BasicLit)
			if !ok || lit.Kind != token.STRING {
				return "", fmt.Errorf("ResolveArgs: the body of `if %s` does not assign a string literal", pnSrc(fset, x.Cond))
			}
			nilLit = strings.Trim(lit.Value, "\"`")
			if cond, err = daNilTest(fset, x.Cond, av); err != nil {
				return "", err
			}
		default:
			return "", fmt.Errorf("ResolveArgs: unexpected statement `%s`", pnSrc(fset, st))
		}
	}
	if local == "" || cond == "" || !appended {
		return "", fmt.Errorf("ResolveArgs: the loop does not name a local, decide nil and append")
	}
	// ---- getDirectives: the FieldArgument of a use
	gd := meth["getDirectives"]
	if gd == nil {
		return "", fmt.Errorf("codegen/directive.go: method getDirectives not found")
	}
	var useFields []string
	useInit, useGiven := "", ""
	var gerr error
	ast.Inspect(gd.Body, func(n ast.Node) bool {
		rs, ok := n.(*ast.RangeStmt)
		if !ok || trSel(rs.X) != "def.Args" {
			return true
		}
		a := trSel(rs.Value)
		for _, st := range rs.Body.List {
			switch x := st.(type) {
			case *ast.AssignStmt:
				if len(x.Lhs) == 1 && len(x.Rhs) == 1 && trSel(x.Lhs[0]) == "value" && x.Tok == token.DEFINE {
					useInit = strings.Replace(pnSrc(fset, x.Rhs[0]), a+".", "a.", 1)
					continue
				}
				if len(x.Rhs) == 1 {
					if call, ok := x.Rhs[0].(*ast.CallExpr); ok && trSel(call.Fun) == "append" && len(call.Args) == 2 {
						fs, err := daLiteralFields(fset, call.Args[1])
						if err != nil {
							gerr = fmt.Errorf("getDirectives: %v", err)
						}
						for i := range fs {
							fs[i] = strings.Replace(fs[i], "\""+a+".", "\"a.", 1)
						}
						useFields = fs
						continue
					}
				}
				gerr = fmt.Errorf("getDirectives: unexpected assignment in the def.Args loop: `%s`", pnSrc(fset, x))
			case *ast.IfStmt:
				// if argValue, ok := argValues[a.Name]; ok { value = argValue }
				okShape := x.Init != nil && x.Else == nil && len(x.Body.List) == 1 && trSel(x.Cond) == "ok"
				if okShape {
					init, ok1 := x.Init.(*ast.AssignStmt)
					as, ok2 := x.Body.List[0].(*ast.AssignStmt)
					okShape = ok1 && ok2 && len(init.Lhs) == 2 && len(init.Rhs) == 1 && len(as.Lhs) == 1 && len(as.Rhs) == 1 &&
						trSel(as.Lhs[0]) == "value" && trSel(as.Rhs[0]) == trSel(init.Lhs[0])
					if okShape {
						ix, ok := init.Rhs[0].(*ast.IndexExpr)
						okShape = ok && trSel(ix.X) == "argValues" && trSel(ix.Index) == a+".Name"
						useGiven = "argValues[a.Name]"
					}
				}
				if !okShape {
					gerr = fmt.Errorf("getDirectives: unexpected `if` in the def.Args loop: `%s`", pnSrc(fset, x.Cond))
				}
			default:
				gerr = fmt.Errorf("getDirectives: unexpected statement in the def.Args loop: `%s`", pnSrc(fset, st))
			}
		}
		return true
	})
	if gerr != nil {
		return "", gerr
	}
	if len(useFields) == 0 || useInit == "" || useGiven == "" {
		return "", fmt.Errorf("getDirectives: `value := …; if argValue, ok := argValues[a.Name]; ok { value = argValue }; append(args, &FieldArgument{…})` not found")
	}
	// ---- buildDirectives: the FieldArgument of a definition
	bd := meth["buildDirectives"]
	if bd == nil {
		return "", fmt.Errorf("codegen/directive.go: method buildDirectives not found")
	}
	var defFields []string
	defGuard, defFrom := "", ""
	ast.Inspect(bd.Body, func(n ast.Node) bool {
		rs, ok := n.(*ast.RangeStmt)
		if !ok || trSel(rs.X) != "dir.Arguments" {
			return true
		}
		for _, st := range rs.Body.List {
			switch x := st.(type) {
			case *ast.AssignStmt:
				if len(x.Lhs) == 1 && len(x.Rhs) == 1 && trSel(x.Lhs[0]) == "newArg" {
					fs, err := daLiteralFields(fset, x.Rhs[0])
					if err != nil {
						gerr = fmt.Errorf("buildDirectives: %v", err)
					}
					defFields = fs
				}
			case *ast.IfStmt:
				ast.Inspect(x.Body, func(m ast.Node) bool {
					as, ok := m.(*ast.AssignStmt)
					if ok && len(as.Lhs) >= 1 && trSel(as.Lhs[0]) == "newArg.Default" && len(as.Rhs) == 1 {
						if defFrom != "" {
							gerr = fmt.Errorf("buildDirectives: newArg.Default is assigned twice")
						}
						defGuard = pnSrc(fset, x.Cond)
						defFrom = pnSrc(fset, as.Rhs[0])
					}
					return true
				})
			}
		}
		return true
	})
	if gerr != nil {
		return "", gerr
	}
	if len(defFields) == 0 || defFrom == "" {
		return "", fmt.Errorf("buildDirectives: `newArg := &FieldArgument{…}` / `newArg.Default, err = …` not found")
	}
	// ---- directives.gotpl, define "implDirectives"
	src, err := os.ReadFile(filepath.Join(repo, "codegen", "directives.gotpl"))
	if err != nil {
		return "", err
	}
	tr := parse.New("directives.gotpl")
	tr.Mode = parse.SkipFuncCheck
	trees := map[string]*parse.Tree{}
	if _, err := tr.Parse(string(src), "", "", trees); err != nil {
		return "", fmt.Errorf("directives.gotpl: %v", err)
	}
	impl := trees["implDirectives"]
	if impl == nil {
		return "", fmt.Errorf("directives.gotpl: define \"implDirectives\" not found")
	}
	var argRange *parse.RangeNode
	fsWalk(impl.Root, func(n parse.Node) {
		if r, ok := n.(*parse.RangeNode); ok && strings.HasSuffix(r.Pipe.String(), "$directive.Args") && strings.Contains(r.Pipe.String(), "$arg") {
			argRange = r
		}
	})
	if argRange == nil {
		return "", fmt.Errorf("directives.gotpl: `range $arg := $directive.Args` not found in implDirectives")
	}
	// one arm of a flavour switch: the text token before {{$arg.VarName}} and the field that is dumped
	arm := func(l *parse.ListNode) (string, string, error) {
		prefix, dumped := "", ""
		for i, n := range l.Nodes {
			if a, ok := n.(*parse.ActionNode); ok {
				s := a.Pipe.String()
				if s == "$arg.VarName" && i > 0 {
					if t, ok := l.Nodes[i-1].(*parse.TextNode); ok {
						fs := strings.Fields(string(t.Text))
						if len(fs) > 0 {
							prefix = fs[len(fs)-1]
						}
					}
				}
				if strings.HasSuffix(s, "| dump") && strings.HasPrefix(s, "$arg.") {
					if dumped != "" {
						return "", "", fmt.Errorf("directives.gotpl: two dumped values in one arm")
					}
					dumped = strings.TrimSpace(strings.TrimSuffix(strings.TrimPrefix(s, "$arg."), "| dump"))
				}
			}
		}
		if prefix == "" || dumped == "" {
			return "", "", fmt.Errorf("directives.gotpl: an arm of implDirectives does not declare `<prefix>{{$arg.VarName}}, err := …({{$arg.<Field> | dump}})`: %q", l.String())
		}
		return prefix, dumped, nil
	}
	type link struct {
		field string
		arms  [][2]string
	}
	var chain []link
	var walkIf func(in *parse.IfNode) error
	walkIf = func(in *parse.IfNode) error {
		c := in.Pipe.String()
		if !strings.HasPrefix(c, "notNil \"") || !strings.HasSuffix(c, "\" $arg") {
			return fmt.Errorf("directives.gotpl: a link of the chain in implDirectives is not `notNil \"<Field>\" $arg`: `%s`", c)
		}
		lk := link{field: strings.TrimSuffix(strings.TrimPrefix(c, "notNil \""), "\" $arg")}
		var sw *parse.IfNode
		for _, n := range in.List.Nodes {
			if x, ok := n.(*parse.IfNode); ok {
				if sw != nil || !strings.Contains(x.Pipe.String(), fsVar) || x.ElseList == nil {
					return fmt.Errorf("directives.gotpl: unexpected `if %s` inside a link of implDirectives", x.Pipe.String())
				}
				sw = x
			}
		}
		if sw == nil {
			p, d, err := arm(in.List)
			if err != nil {
				return err
			}
			lk.arms = [][2]string{{p, d}}
		} else {
			for _, l := range []*parse.ListNode{sw.List, sw.ElseList} {
				p, d, err := arm(l)
				if err != nil {
					return err
				}
				lk.arms = append(lk.arms, [2]string{p, d})
			}
		}
		chain = append(chain, lk)
		if in.ElseList != nil {
			var next *parse.IfNode
			for _, n := range in.ElseList.Nodes {
				switch x := n.(type) {
				case *parse.IfNode:
					if next != nil {
						return fmt.Errorf("directives.gotpl: two ifs in an else arm of implDirectives")
					}
					next = x
				case *parse.TextNode:
					if strings.TrimSpace(string(x.Text)) != "" {
						return fmt.Errorf("directives.gotpl: text in an else arm of the chain of implDirectives: %q", x.Text)
					}
				default:
					return fmt.Errorf("directives.gotpl: unexpected node in an else arm of the chain of implDirectives: %s", n.String())
				}
			}
			if next != nil {
				return walkIf(next)
			}
		}
		return nil
	}
	var top *parse.IfNode
	for _, n := range argRange.List.Nodes {
		switch x := n.(type) {
		case *parse.IfNode:
			if top != nil {
				return "", fmt.Errorf("directives.gotpl: more than one `if` per argument in implDirectives")
			}
			top = x
		case *parse.TextNode:
			if strings.TrimSpace(string(x.Text)) != "" {
				return "", fmt.Errorf("directives.gotpl: text beside the chain of implDirectives: %q", x.Text)
			}
		default:
			return "", fmt.Errorf("directives.gotpl: unexpected node in `range $arg`: %s", n.String())
		}
	}
	if top == nil {
		return "", fmt.Errorf("directives.gotpl: no `if notNil …` in `range $arg := $directive.Args`")
	}
	if err := walkIf(top); err != nil {
		return "", err
	}
	var b strings.Builder
	b.WriteString("/-! How the arguments of an applied schema directive reach the directive function in the generated executor\n")
	b.WriteString("(codegen/directive.go ResolveArgs / getDirectives / buildDirectives, codegen/directives.gotpl implDirectives;\n")
	b.WriteString("go/extract/dirargrule.go). -/\n")
	b.WriteString("namespace GqlgenVerif.Gen.DirArgRule\nset_option linter.unusedVariables false\n\n")
	fmt.Fprintf(&b, "/-- ResolveArgs: the name of the local is this prefix + VarName -/\ndef localPrefix : String := %s\n", pnLeanStr(prefix))
	fmt.Fprintf(&b, "/-- ResolveArgs: what is passed instead when the decision says so -/\ndef nilLiteral : String := %s\n", pnLeanStr(nilLit))
	b.WriteString("/-- ResolveArgs: when the literal is passed instead of the local (`valueNil`: arg.Value == nil, `defaultNil`:\n")
	b.WriteString("arg.Default == nil, `defDefaultNil`: arg.DefaultValue == nil, the default written in the directive's definition) -/\n")
	fmt.Fprintf(&b, "def passesNil (valueNil defaultNil defDefaultNil : Bool) : Bool := %s\n\n", cond)
	fmt.Fprintf(&b, "/-- getDirectives: the fields of the FieldArgument built for a USE of the directive -/\ndef useFields : List (String × String) := [%s]\n", strings.Join(useFields, ", "))
	fmt.Fprintf(&b, "/-- getDirectives: `value := …` -/\ndef useValueInit : String := %s\n", pnLeanStr(useInit))
	fmt.Fprintf(&b, "/-- getDirectives: what overrides it when the use writes the argument (also when it writes `null`) -/\ndef useValueWhenGiven : String := %s\n\n", pnLeanStr(useGiven))
	fmt.Fprintf(&b, "/-- buildDirectives: the fields of the FieldArgument built for the DEFINITION -/\ndef defFields : List (String × String) := [%s]\n", strings.Join(defFields, ", "))
	fmt.Fprintf(&b, "def defDefaultGuard : String := %s\ndef defDefaultFrom : String := %s\n\n", pnLeanStr(defGuard), pnLeanStr(defFrom))
	b.WriteString("/-- implDirectives: the if / else-if chain per argument: (tested field, per flavour arm (prefix of the declared local,\ndumped field)) -/\n")
	b.WriteString("def declChain : List (String × List (String × String)) := [\n")
	for i, lk := range chain {
		var arms []string
		for _, a := range lk.arms {
			arms = append(arms, "("+pnLeanStr(a[0])+", "+pnLeanStr(a[1])+")")
		}
		sep := ","
		if i == len(chain)-1 {
			sep = ""
		}
		fmt.Fprintf(&b, "  (%s, [%s])%s\n", pnLeanStr(lk.field), strings.Join(arms, ", "), sep)
	}
	b.WriteString("]\n\nend GqlgenVerif.Gen.DirArgRule\n")
	return b.String(), nil
}
