package main

import (
	"fmt"
	"go/ast"
	"go/parser"
	"go/token"
	"os"
	"path/filepath"
	"sort"
	"strings"
)

// TransportGates (C03): for every function of graphql/handler/transport that calls
// exec.CreateOperationContext, the statements that FOLLOW the call, in the statement language of
// lean/GqlgenVerif/Model/PipelineTransport.lean:
//
//	rc, err := exec.CreateOperationContext(ctx, params)       (must be a statement of the function body)
//	if err != nil { A } else { B }                            → .onRejected A B      (len(err) != 0 / > 0 too;
//	if err == nil { B } else { A }                            → .onRejected A B       err == nil swaps the arms)
//	switch errcode.GetErrorKind(err) { case errcode.KindProtocol: P; default: U }    → .onKind P U
//	… exec.DispatchError(…, err)                              → .dispatchError
//	… exec.DispatchOperation(…)                               → .dispatchOperation
//	return                                                    → .ret
//	writeJson(…) / c.sendError(…) / c.sendResponse(…) / c.complete(…) / c.write(…)   → .send "<callee>"
//	go func() { … }() / for { … } / { … } containing one of the calls above: translated in place
//	any other statement containing one of the calls above, or reassigning err            → .other "<source>"
//
// Statements that contain none of these calls and do not test err are skipped (an early return among
// them can only make the real code reach less than the translation). `Props/C03.lean` decides
// `Transport.closed` on every regenerated program and proves the list of transports equal to the list
// the harness drives.
func init() { extractors["TransportGates"] = extractTransportGates }

type tgCtx struct {
	fset   *token.FileSet
	errVar string
}

func tgCallName(c *ast.CallExpr) string {
	switch f := c.Fun.(type) {
	case *ast.SelectorExpr:
		return f.Sel.Name
	case *ast.Ident:
		return f.Name
	}
	return ""
}

// tgHas: n contains a call of one of the names (function literals included)
func tgHas(n ast.Node, names ...string) bool {
	found := false
	ast.Inspect(n, func(x ast.Node) bool {
		if c, ok := x.(*ast.CallExpr); ok {
			nm := tgCallName(c)
			for _, w := range names {
				if nm == w {
					found = true
				}
			}
		}
		return !found
	})
	return found
}

func tgInteresting(n ast.Node) bool {
	return tgHas(n, "DispatchError", "DispatchOperation", "GetErrorKind", "CreateOperationContext")
}

func tgIsIdent(e ast.Expr, name string) bool {
	id, ok := e.(*ast.Ident)
	return ok && id.Name == name
}

// tgErrTest: +1 for "err is non-empty", -1 for "err is empty", 0 otherwise
func (c *tgCtx) tgErrTest(e ast.Expr) int {
	if p, ok := e.(*ast.ParenExpr); ok {
		return c.tgErrTest(p.X)
	}
	b, ok := e.(*ast.BinaryExpr)
	if !ok {
		return 0
	}
	isLen := func(x ast.Expr) bool {
		call, ok := x.(*ast.CallExpr)
		return ok && tgCallName(call) == "len" && len(call.Args) == 1 && tgIsIdent(call.Args[0], c.errVar)
	}
	isZero := func(x ast.Expr) bool {
		l, ok := x.(*ast.BasicLit)
		return ok && l.Value == "0"
	}
	switch {
	case tgIsIdent(b.X, c.errVar) && tgIsIdent(b.Y, "nil"):
		if b.Op == token.NEQ {
			return 1
		}
		if b.Op == token.EQL {
			return -1
		}
	case isLen(b.X) && isZero(b.Y):
		if b.Op == token.NEQ || b.Op == token.GTR {
			return 1
		}
		if b.Op == token.EQL {
			return -1
		}
	}
	return 0
}

func (c *tgCtx) mentionsErr(n ast.Node) bool {
	found := false
	ast.Inspect(n, func(x ast.Node) bool {
		if id, ok := x.(*ast.Ident); ok && id.Name == c.errVar {
			found = true
		}
		return !found
	})
	return found
}

func (c *tgCtx) other(n ast.Node) string { return ".other " + psLeanStr(psSrc(c.fset, n)) }

func tgList(items []string) string { return "[" + strings.Join(items, ", ") + "]" }

func (c *tgCtx) block(b *ast.BlockStmt) []string {
	if b == nil {
		return nil
	}
	return c.stmts(b.List)
}

func (c *tgCtx) elseArm(s ast.Stmt) []string {
	switch e := s.(type) {
	case nil:
		return nil
	case *ast.BlockStmt:
		return c.block(e)
	default:
		return c.stmts([]ast.Stmt{e})
	}
}

var tgSends = map[string]bool{"writeJson": true, "writeJsonWithSSE": true, "sendError": true, "sendResponse": true,
	"complete": true, "write": true, "writeJsonError": true, "writeJsonErrorf": true}

// simple: an assignment / expression / declaration statement
func (c *tgCtx) simple(st ast.Stmt) []string {
	hasLit := false
	ast.Inspect(st, func(x ast.Node) bool {
		if _, ok := x.(*ast.FuncLit); ok {
			hasLit = true
		}
		return true
	})
	if as, ok := st.(*ast.AssignStmt); ok {
		for _, l := range as.Lhs {
			if tgIsIdent(l, c.errVar) {
				return []string{c.other(st)} // the error list is reassigned: the tests that follow mean something else
			}
		}
	}
	if tgInteresting(st) {
		if hasLit || tgHas(st, "GetErrorKind", "CreateOperationContext") ||
			(tgHas(st, "DispatchError") && tgHas(st, "DispatchOperation")) {
			return []string{c.other(st)}
		}
		if tgHas(st, "DispatchOperation") {
			return []string{".dispatchOperation"}
		}
		// DispatchError: it must be given the error list of CreateOperationContext
		ok := false
		ast.Inspect(st, func(x ast.Node) bool {
			if call, isCall := x.(*ast.CallExpr); isCall && tgCallName(call) == "DispatchError" {
				for _, a := range call.Args {
					if tgIsIdent(a, c.errVar) {
						ok = true
					}
				}
			}
			return true
		})
		if !ok {
			return []string{c.other(st)}
		}
		return []string{".dispatchError"}
	}
	if es, ok := st.(*ast.ExprStmt); ok {
		if call, ok := es.X.(*ast.CallExpr); ok && tgSends[tgCallName(call)] {
			return []string{".send " + psLeanStr(tgCallName(call))}
		}
	}
	return nil
}

func (c *tgCtx) stmts(list []ast.Stmt) []string {
	var out []string
	for _, st := range list {
		switch s := st.(type) {
		case *ast.IfStmt:
			t := c.tgErrTest(s.Cond)
			switch {
			case s.Init != nil && (tgInteresting(s.Init) || c.mentionsErr(s.Init)):
				out = append(out, c.other(s))
			case t > 0:
				out = append(out, ".onRejected "+tgList(c.block(s.Body))+" "+tgList(c.elseArm(s.Else)))
			case t < 0:
				out = append(out, ".onRejected "+tgList(c.elseArm(s.Else))+" "+tgList(c.block(s.Body)))
			case tgInteresting(s) || c.mentionsErr(s.Cond):
				out = append(out, c.other(s))
			}
		case *ast.SwitchStmt:
			call, isCall := s.Tag.(*ast.CallExpr)
			if s.Init == nil && isCall && tgCallName(call) == "GetErrorKind" && len(call.Args) == 1 && tgIsIdent(call.Args[0], c.errVar) {
				var prot, user []string
				okShape := true
				seen := map[string]bool{}
				for _, cc := range s.Body.List {
					cl := cc.(*ast.CaseClause)
					arm := "default"
					if cl.List != nil {
						if len(cl.List) != 1 {
							okShape = false
							break
						}
						arm = psSrc(c.fset, cl.List[0])
					}
					if seen[arm] {
						okShape = false
					}
					seen[arm] = true
					for _, b := range cl.Body {
						if br, ok := b.(*ast.BranchStmt); ok && br.Tok == token.FALLTHROUGH {
							okShape = false
						}
					}
					switch arm {
					case "errcode.KindProtocol":
						prot = c.stmts(cl.Body)
					case "errcode.KindUser", "default":
						if seen["errcode.KindUser"] && seen["default"] {
							okShape = false // two arms for the user kind: only the first applies, keep it simple
						}
						user = c.stmts(cl.Body)
					default:
						okShape = false
					}
				}
				if !okShape {
					out = append(out, c.other(s))
				} else {
					out = append(out, ".onKind "+tgList(prot)+" "+tgList(user))
				}
			} else if tgInteresting(s) || (s.Tag != nil && c.mentionsErr(s.Tag)) {
				out = append(out, c.other(s))
			}
		case *ast.ReturnStmt:
			if tgInteresting(s) {
				out = append(out, c.other(s))
			}
			out = append(out, ".ret")
		case *ast.GoStmt:
			if !tgInteresting(s) {
				break
			}
			if fl, ok := s.Call.Fun.(*ast.FuncLit); ok && len(s.Call.Args) == 0 && !tgHasReturnOutsideLit(fl.Body) {
				out = append(out, c.block(fl.Body)...)
			} else {
				out = append(out, c.other(s))
			}
		case *ast.ForStmt:
			if tgInteresting(s) {
				out = append(out, c.block(s.Body)...)
			} else {
				out = append(out, c.sendsIn(s)...)
			}
		case *ast.BlockStmt:
			if tgInteresting(s) {
				out = append(out, c.block(s)...)
			}
		case *ast.AssignStmt, *ast.ExprStmt, *ast.DeclStmt:
			out = append(out, c.simple(st)...)
		default:
			if tgInteresting(st) {
				out = append(out, c.other(st))
			}
		}
	}
	return out
}

// sendsIn: the writes of an uninteresting loop (the polling loop of a streaming transport), for the reader
func (c *tgCtx) sendsIn(n ast.Node) []string {
	var out []string
	seen := map[string]bool{}
	ast.Inspect(n, func(x ast.Node) bool {
		if call, ok := x.(*ast.CallExpr); ok && tgSends[tgCallName(call)] && !seen[tgCallName(call)] {
			seen[tgCallName(call)] = true
			out = append(out, ".send "+psLeanStr(tgCallName(call)))
		}
		return true
	})
	return out
}

// tgHasReturnOutsideLit: a return of the goroutine's own body (an early exit of the goroutine would
// have to be modelled as leaving a block; the translator refuses instead)
func tgHasReturnOutsideLit(b *ast.BlockStmt) bool {
	found := false
	var walk func(n ast.Node) bool
	walk = func(n ast.Node) bool {
		switch n.(type) {
		case *ast.FuncLit:
			return false
		case *ast.ReturnStmt:
			found = true
		}
		return !found
	}
	ast.Inspect(b, walk)
	return found
}

func extractTransportGates(repo string) (string, error) {
	dir := filepath.Join(repo, "graphql", "handler", "transport")
	ents, err := os.ReadDir(dir)
	if err != nil {
		return "", err
	}
	type gate struct{ file, fn, prog string }
	var gates []gate
	for _, e := range ents {
		name := e.Name()
		if e.IsDir() || !strings.HasSuffix(name, ".go") || strings.HasSuffix(name, "_test.go") {
			continue
		}
		fset := token.NewFileSet()
		f, err := parser.ParseFile(fset, filepath.Join(dir, name), nil, 0)
		if err != nil {
			return "", err
		}
		for _, d := range f.Decls {
			fd, ok := d.(*ast.FuncDecl)
			if !ok || fd.Body == nil || !tgHas(fd.Body, "CreateOperationContext") {
				continue
			}
			fn := fd.Name.Name
			if fd.Recv != nil && len(fd.Recv.List) == 1 {
				t := fd.Recv.List[0].Type
				if st, ok := t.(*ast.StarExpr); ok {
					t = st.X
				}
				fn = psSrc(fset, t) + "." + fn
			}
			idx := -1
			c := &tgCtx{fset: fset}
			for i, st := range fd.Body.List {
				if !tgHas(st, "CreateOperationContext") {
					continue
				}
				as, ok := st.(*ast.AssignStmt)
				if !ok || idx >= 0 || len(as.Lhs) != 2 || len(as.Rhs) != 1 {
					return "", fmt.Errorf("%s %s: CreateOperationContext is not called as `rc, err := …` in one statement of the function body: %q", name, fn, psSrc(fset, st))
				}
				call, isCall := as.Rhs[0].(*ast.CallExpr)
				id, isId := as.Lhs[1].(*ast.Ident)
				if !isCall || tgCallName(call) != "CreateOperationContext" || !isId || id.Name == "_" {
					return "", fmt.Errorf("%s %s: unexpected call of CreateOperationContext: %q", name, fn, psSrc(fset, st))
				}
				c.errVar = id.Name
				idx = i
			}
			if idx < 0 {
				return "", fmt.Errorf("%s %s: CreateOperationContext is called inside a nested statement", name, fn)
			}
			gates = append(gates, gate{name, fn, tgList(c.stmts(fd.Body.List[idx+1:]))})
		}
	}
	if len(gates) == 0 {
		return "", fmt.Errorf("no transport calls CreateOperationContext")
	}
	sort.Slice(gates, func(i, j int) bool {
		if gates[i].file != gates[j].file {
			return gates[i].file < gates[j].file
		}
		return gates[i].fn < gates[j].fn
	})
	var b strings.Builder
	b.WriteString("import GqlgenVerif.Model.PipelineTransport\nnamespace GqlgenVerif.Gen.TransportGates\nopen GqlgenVerif.Pipeline.Transport\n\n")
	b.WriteString("/-- graphql/handler/transport: per function calling `CreateOperationContext`, the statements after the call -/\n")
	b.WriteString("def gates : List TGate :=\n  [")
	for i, g := range gates {
		if i > 0 {
			b.WriteString(",\n   ")
		}
		fmt.Fprintf(&b, "{ file := %s, func := %s,\n     prog := %s }", psLeanStr(g.file), psLeanStr(g.fn), g.prog)
	}
	b.WriteString("]\n\nend GqlgenVerif.Gen.TransportGates\n")
	return b.String(), nil
}
