package main

import (
	"fmt"
	"go/ast"
	"go/parser"
	"go/token"
	"os"
	"path/filepath"
	"sort"
	"strings"
)

// EnvDecode (C07, round 6): where the request envelope (*graphql.RawParams) gets its Headers map from, relative to
// the point where the payload is DECODED into it.
//
// Every field of RawParams has a JSON tag, `Headers http.Header` included (`json:"headers"`), and encoding/json
// decodes an object into a map that is already there by adding / overwriting entries. A transport that points
// params.Headers at a map which outlives the operation (the websocket connection's c.headers) BEFORE decoding lets
// one operation's payload write into what every later operation of the connection sees.
//
// For every function of package transport (non-test files) that builds or decodes an envelope, in source order:
//
//	initNil            `var X *graphql.RawParams`
//	initLit <src>      a composite literal graphql.RawParams{… Headers: e …} (src = absent without the key)
//	assign <src>       `X.Headers = e`
//	decode             jsonDecodeParams(_, &X) / jsonDecode(_, &X)
//
// src: nilv | request (the Header of a *http.Request parameter: lives as long as the request) | longLived (a field of
// the method's receiver: the transport object or the connection) | other (anything else - treated as long-lived).
// Fails (broken tie) if (*wsConnection).subscribe is not found or does not decode.
func init() { extractors["EnvDecode"] = extractEnvDecode }

func extractEnvDecode(repo string) (string, error) {
	fset := token.NewFileSet()
	dir := filepath.Join(repo, "graphql", "handler", "transport")
	pkgs, err := parser.ParseDir(fset, dir, func(fi os.FileInfo) bool { return !strings.HasSuffix(fi.Name(), "_test.go") }, 0)
	if err != nil {
		return "", err
	}
	type ev struct {
		pos  token.Pos
		text string
	}
	var progs []string
	wsSub := ""
	for _, p := range pkgs {
		if p.Name != "transport" {
			continue
		}
		var names []string
		for n := range p.Files {
			names = append(names, n)
		}
		sort.Strings(names)
		for _, fn := range names {
			for _, d := range p.Files[fn].Decls {
				fd, ok := d.(*ast.FuncDecl)
				if !ok || fd.Body == nil {
					continue
				}
				recv := ""
				if fd.Recv != nil && len(fd.Recv.List) > 0 && len(fd.Recv.List[0].Names) > 0 {
					recv = fd.Recv.List[0].Names[0].Name
				}
				reqParams := map[string]bool{}
				for _, prm := range fd.Type.Params.List {
					if strings.HasSuffix(prSrc(fset, prm.Type), "http.Request") {
						for _, n := range prm.Names {
							reqParams[n.Name] = true
						}
					}
				}
				src := func(e ast.Expr) string {
					if id, ok := e.(*ast.Ident); ok && id.Name == "nil" {
						return ".nilv"
					}
					if se, ok := e.(*ast.SelectorExpr); ok {
						if x, ok := se.X.(*ast.Ident); ok {
							if reqParams[x.Name] && se.Sel.Name == "Header" {
								return ".request"
							}
							if recv != "" && x.Name == recv {
								return fmt.Sprintf("(.longLived %q)", prSrc(fset, e))
							}
						}
					}
					return fmt.Sprintf("(.other %q)", prSrc(fset, e))
				}
				isRawParams := func(t ast.Expr) bool {
					se, ok := t.(*ast.SelectorExpr)
					return ok && se.Sel.Name == "RawParams"
				}
				var evs []ev
				ast.Inspect(fd.Body, func(n ast.Node) bool {
					switch x := n.(type) {
					case *ast.ValueSpec:
						if st, ok := x.Type.(*ast.StarExpr); ok && isRawParams(st.X) && len(x.Values) == 0 {
							evs = append(evs, ev{x.Pos(), ".initNil"})
						}
					case *ast.CompositeLit:
						if x.Type != nil && isRawParams(x.Type) {
							s := ".absent"
							for _, el := range x.Elts {
								if kv, ok := el.(*ast.KeyValueExpr); ok {
									if k, ok := kv.Key.(*ast.Ident); ok && k.Name == "Headers" {
										s = src(kv.Value)
									}
								}
							}
							evs = append(evs, ev{x.Pos(), ".initLit " + s})
						}
					case *ast.AssignStmt:
						for i, l := range x.Lhs {
							if se, ok := l.(*ast.SelectorExpr); ok && se.Sel.Name == "Headers" && i < len(x.Rhs) {
								evs = append(evs, ev{x.Pos(), ".assign " + src(x.Rhs[i])})
							}
						}
					case *ast.CallExpr:
						if id, ok := x.Fun.(*ast.Ident); ok && (id.Name == "jsonDecodeParams" || id.Name == "jsonDecode") && len(x.Args) == 2 {
							if u, ok := x.Args[1].(*ast.UnaryExpr); ok && u.Op == token.AND {
								if _, ok := u.X.(*ast.Ident); ok {
									evs = append(evs, ev{x.Pos(), ".decode"})
								}
							}
						}
					}
					return true
				})
				if len(evs) == 0 {
					continue
				}
				sort.SliceStable(evs, func(i, j int) bool { return evs[i].pos < evs[j].pos })
				var steps []string
				for _, e := range evs {
					steps = append(steps, e.text)
				}
				list := "[" + strings.Join(steps, ", ") + "]"
				name := filepath.Base(fn) + ":" + fd.Name.Name
				progs = append(progs, fmt.Sprintf("  (%q, %s)", name, list))
				if fd.Name.Name == "subscribe" && fd.Recv != nil && strings.Contains(prSrc(fset, fd.Recv.List[0].Type), "wsConnection") {
					wsSub = list
				}
			}
		}
	}
	if wsSub == "" || !strings.Contains(wsSub, ".decode") {
		return "", fmt.Errorf("(*wsConnection).subscribe not found, or it does not decode an envelope any more")
	}
	var b strings.Builder
	b.WriteString("import GqlgenVerif.Model.EnvDecode\n\nnamespace GqlgenVerif.Gen.EnvDecode\nopen GqlgenVerif.EnvDecode\n\n")
	b.WriteString("/-- transport/websocket.go (*wsConnection).subscribe: how the operation's envelope is built, in source order -/\n")
	b.WriteString("def wsSubscribe : List Step := " + wsSub + "\n\n")
	b.WriteString("/-- every function of package transport that builds or decodes an envelope -/\n")
	b.WriteString("def programs : List (String × List Step) := [\n" + strings.Join(progs, ",\n") + "]\n\n")
	b.WriteString("end GqlgenVerif.Gen.EnvDecode\n")
	return b.String(), nil
}
