package main

import (
	"fmt"
	"go/ast"
	"go/parser"
	"go/token"
	"path/filepath"
	"sort"
	"strings"
)

// IntCasts: translate the numeric arms of every graphql.Unmarshal{Int,Uint,…}* type switch, and the
// safeCast helpers, into Lean functions over Int using the conversions of Model/GoInt.lean.
//
//   case int64:
//       if v < 0 { return 0, newUintSignError(…) }
//       return uint(v), nil
// becomes
//   def UnmarshalUintID_int64 (v : Int) : Except String Int :=
//     if v < 0 then .error "newUintSignError" else .ok (Go.conv_uint v)

var intTypes = map[string]bool{"int": true, "int64": true, "int32": true, "uint": true, "uint64": true, "uint32": true}

func init() { extractors["IntCasts"] = extractIntCasts }

type tr struct{ errs []string }

func (t *tr) expr(e ast.Expr) string {
	switch e := e.(type) {
	case *ast.Ident:
		return e.Name
	case *ast.BasicLit:
		if e.Kind == token.INT {
			return "(" + e.Value + " : Int)"
		}
	case *ast.ParenExpr:
		return "(" + t.expr(e.X) + ")"
	case *ast.SelectorExpr:
		if x, ok := e.X.(*ast.Ident); ok && x.Name == "math" {
			switch e.Sel.Name {
			case "MaxInt32":
				return "Go.maxInt32"
			case "MinInt32":
				return "Go.minInt32"
			case "MaxUint32":
				return "Go.maxUint32"
			case "MaxInt64":
				return "Go.maxInt64"
			case "MinInt64":
				return "Go.minInt64"
			}
		}
	case *ast.CallExpr:
		if id, ok := e.Fun.(*ast.Ident); ok && len(e.Args) == 1 {
			if intTypes[id.Name] {
				return "(Go.conv_" + id.Name + " " + t.expr(e.Args[0]) + ")"
			}
		}
	case *ast.BinaryExpr:
		op := map[token.Token]string{token.LSS: "<", token.GTR: ">", token.LEQ: "≤", token.GEQ: "≥",
			token.LOR: "∨", token.LAND: "∧", token.EQL: "=", token.NEQ: "≠"}[e.Op]
		if op != "" {
			return "(" + t.expr(e.X) + " " + op + " " + t.expr(e.Y) + ")"
		}
	}
	t.errs = append(t.errs, fmt.Sprintf("untranslatable expression %T", e))
	return "?"
}

// stmts translates a statement list ending in a return into an Except-valued Lean term.
func (t *tr) stmts(ss []ast.Stmt) string {
	if len(ss) == 0 {
		t.errs = append(t.errs, "fell off the end")
		return "?"
	}
	switch s := ss[0].(type) {
	case *ast.ReturnStmt:
		if len(s.Results) == 1 { // return safeCastX(e)
			if c, ok := s.Results[0].(*ast.CallExpr); ok {
				if id, ok := c.Fun.(*ast.Ident); ok && strings.HasPrefix(id.Name, "safeCast") && len(c.Args) == 1 {
					return "(" + id.Name + " " + t.expr(c.Args[0]) + ")"
				}
			}
		}
		if len(s.Results) == 2 {
			if id, ok := s.Results[1].(*ast.Ident); ok && id.Name == "nil" {
				return "(.ok " + t.expr(s.Results[0]) + ")"
			}
			if c, ok := s.Results[1].(*ast.CallExpr); ok {
				if id, ok := c.Fun.(*ast.Ident); ok && strings.HasPrefix(id.Name, "new") {
					return "(.error \"" + id.Name + "\")"
				}
			}
		}
	case *ast.IfStmt:
		if s.Init == nil && s.Else == nil {
			return "(if " + t.expr(s.Cond) + " then " + t.stmts(s.Body.List) + " else " + t.stmts(ss[1:]) + ")"
		}
	}
	t.errs = append(t.errs, fmt.Sprintf("untranslatable statement %T", ss[0]))
	return "?"
}

func extractIntCasts(repo string) (string, error) {
	fset := token.NewFileSet()
	var b strings.Builder
	b.WriteString("import GqlgenVerif.Model.GoInt\nnamespace GqlgenVerif.Gen.IntCasts\nopen GqlgenVerif\n\n")
	var arms []string
	t := &tr{}
	var late strings.Builder
	for _, fn := range []string{"int.go", "uint.go", "id.go"} {
		f, err := parser.ParseFile(fset, filepath.Join(repo, "graphql", fn), nil, 0)
		if err != nil {
			return "", err
		}
		for _, d := range f.Decls {
			fd, ok := d.(*ast.FuncDecl)
			if !ok || fd.Recv != nil {
				continue
			}
			name := fd.Name.Name
			if strings.HasPrefix(name, "safeCast") {
				p := fd.Type.Params.List[0].Names[0].Name
				fmt.Fprintf(&b, "def %s (%s : Int) : Except String Int :=\n  %s\n\n", name, p, t.stmts(fd.Body.List))
				continue
			}
			if !strings.HasPrefix(name, "Unmarshal") || !(strings.Contains(name, "Int") || strings.Contains(name, "Uint")) {
				continue
			}
			// the body must be exactly one type switch `switch v := v.(type)`
			if len(fd.Body.List) != 1 {
				return "", fmt.Errorf("%s: body is not a single type switch", name)
			}
			ts, ok := fd.Body.List[0].(*ast.TypeSwitchStmt)
			if !ok {
				return "", fmt.Errorf("%s: body is not a type switch", name)
			}
			for _, c := range ts.Body.List {
				cc := c.(*ast.CaseClause)
				for _, ty := range cc.List {
					id, ok := ty.(*ast.Ident)
					if !ok || !intTypes[id.Name] {
						continue
					}
					if len(cc.List) != 1 {
						return "", fmt.Errorf("%s: multi-type case with %s", name, id.Name)
					}
					fmt.Fprintf(&late, "def %s_%s (v : Int) : Except String Int :=\n  %s\n\n", name, id.Name, t.stmts(cc.Body))
					arms = append(arms, name+"_"+id.Name)
				}
			}
		}
	}
	if len(t.errs) > 0 {
		return "", fmt.Errorf("%s", strings.Join(t.errs, "; "))
	}
	b.WriteString(late.String())
	sort.Strings(arms)
	b.WriteString("/-- every (function, numeric arm) found in the source; the property file proves a theorem per entry\n    and that this list is the one it expects -/\ndef arms : List String := [")
	for i, a := range arms {
		if i > 0 {
			b.WriteString(", ")
		}
		fmt.Fprintf(&b, "%q", a)
	}
	b.WriteString("]\n\n/-- name ↦ arm, for the driver -/\ndef run (name : String) (v : Int) : Option (Except String Int) :=\n")
	for _, a := range arms {
		fmt.Fprintf(&b, "  if name = %q then some (%s v) else\n", a, a)
	}
	b.WriteString("  none\n\nend GqlgenVerif.Gen.IntCasts\n")
	return b.String(), nil
}
