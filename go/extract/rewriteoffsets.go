package main

import (
	"fmt"
	"go/ast"
	"go/parser"
	"go/token"
	"os"
	"path/filepath"
	"regexp"
	"strconv"
	"strings"
)

// RewriteOffsets: the byte-offset facts the C19 theorems are stated over, re-read from the source:
//
//	internal/rewrite/rewriter.go
//	  getSource        must be  file[startPos.Offset:endPos.Offset]
//	  GetMethodBody    r.getSource(d.Body.Pos()+A, d.Body.End()-B)               -> bodyStartOff, bodyEndOff
//	  RemainingSource  the `continue` conditions of the loop over f.Decls         -> skipCopied, skipToks
//	                   buf.WriteString(r.getSource(d.Pos(), d.End())); buf.WriteString(SEP)  -> declSep
//	                   return strings.TrimSpace(buf.String())                      -> trimRemaining
//	plugin/resolvergen/resolver.go
//	  every use of rewriter.GetMethodBody for a field is wrapped in strings.TrimSpace -> trimBody
//	plugin/resolvergen/resolver.gotpl
//	  the text after the WARNING header: one of the two known shapes               -> trailerMode
//	codegen/templates/import.go
//	  Import.String: the condition under which the alias is left out               -> aliasOmitRule
//	plugin/resolvergen/resolver.go + resolver.gotpl: WHICH name helper is applied to the GraphQL type name
//	  structName := templates.H(o.Name) + templates.UcFirst(data.Config.Resolver.Type), the only receiver
//	  GetMethodComment / GetMethodBody / GetPrevDecl are called with for a field   -> lookupRecvSingle/Follow
//	  rewriter.MarkStructCopied(templates.H(o.Name) + templates.UcFirst(…))        -> markStructSingle/Follow
//	  rewriter.GetMethodBody(data.Config.Resolver.Type, caser.String(o.Name))      -> lookupAccessorSingle/Follow
//	  func (r *{{H $resolver.Object.Name}}{{ucFirst $.ResolverType}}) …            -> emitRecv
//	  func (r *{{$.ResolverType}}) {{H $object.Name}}() … { return &{{H' $object.Name}}{{ucFirst $.ResolverType}}{r} } -> emitAccessor, emitAccessorRet
//	  type {{H $object.Name}}{{ucFirst $.ResolverType}} struct { *{{$.ResolverType}} } -> emitStruct
//
// Anything else is a shape the translator does not know: it fails (broken tie).
func init() { extractors["RewriteOffsets"] = extractRewriteOffsets }

func roCallSel(e ast.Expr) string { // "d.Body.Pos" for d.Body.Pos()
	c, ok := e.(*ast.CallExpr)
	if !ok || len(c.Args) != 0 {
		return ""
	}
	return roSel(c.Fun)
}

func roSel(e ast.Expr) string {
	switch v := e.(type) {
	case *ast.Ident:
		return v.Name
	case *ast.SelectorExpr:
		x := roSel(v.X)
		if x == "" {
			return ""
		}
		return x + "." + v.Sel.Name
	}
	return ""
}

// roOffset recognises  <call>  |  <call> + n  |  <call> - n   and returns (call selector, signed n)
func roOffset(e ast.Expr) (string, int, error) {
	if s := roCallSel(e); s != "" {
		return s, 0, nil
	}
	b, ok := e.(*ast.BinaryExpr)
	if !ok || (b.Op != token.ADD && b.Op != token.SUB) {
		return "", 0, fmt.Errorf("unrecognised offset expression")
	}
	s := roCallSel(b.X)
	lit, ok := b.Y.(*ast.BasicLit)
	if s == "" || !ok || lit.Kind != token.INT {
		return "", 0, fmt.Errorf("unrecognised offset expression")
	}
	n, err := strconv.Atoi(lit.Value)
	if err != nil {
		return "", 0, err
	}
	if b.Op == token.SUB {
		n = -n
	}
	return s, n, nil
}

func roFunc(f *ast.File, name string) *ast.FuncDecl {
	for _, d := range f.Decls {
		if fd, ok := d.(*ast.FuncDecl); ok && fd.Name.Name == name && fd.Recv != nil {
			return fd
		}
	}
	return nil
}

// ---- name helpers (which function turns a GraphQL type name into a Go identifier, where)

var roGoHelper = map[string]string{"templates.LcFirst": ".lcFirst", "templates.UcFirst": ".ucFirst", "templates.ToGo": ".toGo", "templates.ToGoPrivate": ".toGoPrivate"}
var roTplHelper = map[string]string{"lcFirst": ".lcFirst", "ucFirst": ".ucFirst", "go": ".toGo", "goPrivate": ".toGoPrivate"}

// roHelperOfName recognises templates.H(o.Name) and returns the Lean constructor of H
func roHelperOfName(e ast.Expr) (string, error) {
	c, ok := e.(*ast.CallExpr)
	if !ok || len(c.Args) != 1 || roSel(c.Args[0]) != "o.Name" {
		return "", fmt.Errorf("not a name helper applied to o.Name")
	}
	h, ok := roGoHelper[roSel(c.Fun)]
	if !ok {
		return "", fmt.Errorf("unknown name helper %s", roSel(c.Fun))
	}
	return h, nil
}

// roStructExpr recognises templates.H(o.Name) + templates.UcFirst(data.Config.Resolver.Type)
func roStructExpr(e ast.Expr) (string, error) {
	b, ok := e.(*ast.BinaryExpr)
	if !ok || b.Op != token.ADD {
		return "", fmt.Errorf("not <helper>(o.Name) + templates.UcFirst(data.Config.Resolver.Type)")
	}
	c, ok := b.Y.(*ast.CallExpr)
	if !ok || roSel(c.Fun) != "templates.UcFirst" || len(c.Args) != 1 || roSel(c.Args[0]) != "data.Config.Resolver.Type" {
		return "", fmt.Errorf("the struct name suffix is not templates.UcFirst(data.Config.Resolver.Type)")
	}
	return roHelperOfName(b.X)
}

type roNames struct{ lookup, mark, accessor string }

// roNameFacts reads the three facts off one of generateSingleFile / generatePerSchema
func roNameFacts(f *ast.File, fn string) (roNames, error) {
	var out roNames
	fd := roFunc(f, fn)
	if fd == nil {
		return out, fmt.Errorf("resolver.go: %s not found", fn)
	}
	var err error
	fail := func(format string, a ...any) bool {
		if err == nil {
			err = fmt.Errorf("resolver.go %s: "+format, append([]any{fn}, a...)...)
		}
		return false
	}
	nStruct, nMark, nAcc := 0, 0, 0
	lookups := map[string]int{}
	titleCaser := false
	ast.Inspect(fd, func(n ast.Node) bool {
		switch v := n.(type) {
		case *ast.AssignStmt:
			if len(v.Lhs) == 1 && len(v.Rhs) == 1 && roSel(v.Lhs[0]) == "structName" {
				h, e := roStructExpr(v.Rhs[0])
				if e != nil {
					return fail("structName: %v", e)
				}
				out.lookup = h
				nStruct++
			}
			if len(v.Lhs) == 1 && len(v.Rhs) == 1 && roSel(v.Lhs[0]) == "caser" {
				c, ok := v.Rhs[0].(*ast.CallExpr)
				if ok && roSel(c.Fun) == "cases.Title" && len(c.Args) == 2 && roSel(c.Args[0]) == "language.English" && roSel(c.Args[1]) == "cases.NoLower" {
					titleCaser = true
				} else {
					return fail("caser is not cases.Title(language.English, cases.NoLower)")
				}
			}
		case *ast.CallExpr:
			switch roSel(v.Fun) {
			case "rewriter.MarkStructCopied":
				if len(v.Args) != 1 {
					return fail("MarkStructCopied: unknown call shape")
				}
				h, e := roStructExpr(v.Args[0])
				if e != nil {
					return fail("MarkStructCopied: %v", e)
				}
				out.mark = h
				nMark++
			case "rewriter.GetMethodComment", "rewriter.GetMethodBody", "rewriter.GetPrevDecl":
				if len(v.Args) != 2 {
					return fail("%s: unknown call shape", roSel(v.Fun))
				}
				if roSel(v.Args[0]) == "data.Config.Resolver.Type" && roSel(v.Fun) == "rewriter.GetMethodBody" {
					// the accessor func (r *Resolver) <X>()
					if c, ok := v.Args[1].(*ast.CallExpr); ok && roSel(c.Fun) == "caser.String" && len(c.Args) == 1 && roSel(c.Args[0]) == "o.Name" {
						out.accessor = ".title"
					} else if h, e := roHelperOfName(v.Args[1]); e == nil {
						out.accessor = h
					} else {
						return fail("accessor lookup: unknown name expression")
					}
					nAcc++
					return true
				}
				if roSel(v.Args[0]) != "structName" || roSel(v.Args[1]) != "f.GoFieldName" {
					return fail("%s is called with something else than (structName, f.GoFieldName)", roSel(v.Fun))
				}
				lookups[roSel(v.Fun)]++
			}
		}
		return true
	})
	if err != nil {
		return out, err
	}
	if nStruct != 1 || nMark != 1 || nAcc != 1 {
		return out, fmt.Errorf("resolver.go %s: expected one structName assignment, one MarkStructCopied and one accessor lookup (found %d, %d, %d)", fn, nStruct, nMark, nAcc)
	}
	if out.accessor == ".title" && !titleCaser {
		return out, fmt.Errorf("resolver.go %s: caser.String used without caser := cases.Title(language.English, cases.NoLower)", fn)
	}
	if lookups["rewriter.GetMethodComment"] != 1 || lookups["rewriter.GetMethodBody"] != 1 || lookups["rewriter.GetPrevDecl"] != 1 {
		return out, fmt.Errorf("resolver.go %s: expected GetMethodComment, GetMethodBody and GetPrevDecl once each with (structName, f.GoFieldName), found %v", fn, lookups)
	}
	return out, nil
}

var roTplRecv = regexp.MustCompile(`func \(r \*\{\{\s*(\w+) \$resolver\.Object\.Name\s*\}\}\{\{\s*ucFirst \$\.ResolverType\s*\}\}\) \{\{\s*\$resolver\.Field\.GoFieldName\s*\}\}`)
var roTplAcc = regexp.MustCompile(`func \(r \*\{\{\s*\$\.ResolverType\s*\}\}\) \{\{\s*(\w+) \$object\.Name\s*\}\}\(\) \{\{\s*\$object\.ResolverInterface \| ref\s*\}\} \{ return &\{\{\s*(\w+) \$object\.Name\s*\}\}\{\{\s*ucFirst \$\.ResolverType\s*\}\}\{r\} \}`)
var roTplStruct = regexp.MustCompile(`type \{\{\s*(\w+) \$object\.Name\s*\}\}\{\{\s*ucFirst \$\.ResolverType\s*\}\} struct \{ \*\{\{\s*\$\.ResolverType\s*\}\} \}`)

// roTplNames reads the helpers the template applies to the object name where it writes Go identifiers
func roTplNames(tpl string) (recv, acc, accRet, strct string, err error) {
	one := func(re *regexp.Regexp, what string) []string {
		ms := re.FindAllStringSubmatch(tpl, -1)
		if len(ms) != 1 {
			if err == nil {
				err = fmt.Errorf("resolver.gotpl: expected exactly one %s of the known shape, found %d", what, len(ms))
			}
			return nil
		}
		return ms[0]
	}
	h := func(n string) string {
		c, ok := roTplHelper[n]
		if !ok && err == nil {
			err = fmt.Errorf("resolver.gotpl: unknown name helper %q", n)
		}
		return c
	}
	if m := one(roTplRecv, "resolver method header"); m != nil {
		recv = h(m[1])
	}
	if m := one(roTplAcc, "object accessor"); m != nil {
		acc, accRet = h(m[1]), h(m[2])
	}
	if m := one(roTplStruct, "resolver struct type"); m != nil {
		strct = h(m[1])
	}
	// no other place may write an identifier derived from the object name
	if n := strings.Count(tpl, "Object.Name") + strings.Count(tpl, "$object.Name"); err == nil && n != 5 {
		err = fmt.Errorf("resolver.gotpl: the object name is used in %d places, expected 5 (method receiver, accessor comment, accessor, accessor result, struct type)", n)
	}
	return
}

func extractRewriteOffsets(repo string) (string, error) {
	fset := token.NewFileSet()
	path := filepath.Join(repo, "internal/rewrite/rewriter.go")
	f, err := parser.ParseFile(fset, path, nil, 0)
	if err != nil {
		return "", err
	}
	// ---- getSource
	gs := roFunc(f, "getSource")
	if gs == nil {
		return "", fmt.Errorf("getSource not found")
	}
	okSlice := false
	ast.Inspect(gs, func(n ast.Node) bool {
		if r, ok := n.(*ast.ReturnStmt); ok && len(r.Results) == 1 {
			if se, ok := r.Results[0].(*ast.SliceExpr); ok && !se.Slice3 &&
				roSel(se.X) == "file" && roSel(se.Low) == "startPos.Offset" && roSel(se.High) == "endPos.Offset" {
				okSlice = true
			}
		}
		return true
	})
	if !okSlice {
		return "", fmt.Errorf("getSource no longer returns file[startPos.Offset:endPos.Offset]")
	}
	// ---- GetMethodBody
	mb := roFunc(f, "GetMethodBody")
	if mb == nil {
		return "", fmt.Errorf("GetMethodBody not found")
	}
	var startOff, endOff int
	found := 0
	var ferr error
	ast.Inspect(mb, func(n ast.Node) bool {
		c, ok := n.(*ast.CallExpr)
		if !ok || roSel(c.Fun) != "r.getSource" || len(c.Args) != 2 {
			return true
		}
		s1, n1, e1 := roOffset(c.Args[0])
		s2, n2, e2 := roOffset(c.Args[1])
		if e1 != nil || e2 != nil || s1 != "d.Body.Pos" || s2 != "d.Body.End" {
			ferr = fmt.Errorf("GetMethodBody: getSource arguments are not d.Body.Pos()+a, d.Body.End()-b")
			return false
		}
		if n1 < 0 || n2 > 0 {
			ferr = fmt.Errorf("GetMethodBody: offsets point outside the body (%d, %d)", n1, n2)
			return false
		}
		startOff, endOff = n1, -n2
		found++
		return true
	})
	if ferr != nil {
		return "", ferr
	}
	if found != 1 {
		return "", fmt.Errorf("GetMethodBody: expected exactly one getSource call, found %d", found)
	}
	// ---- RemainingSource
	rs := roFunc(f, "RemainingSource")
	if rs == nil {
		return "", fmt.Errorf("RemainingSource not found")
	}
	var loop *ast.RangeStmt
	ast.Inspect(rs, func(n ast.Node) bool {
		if r, ok := n.(*ast.RangeStmt); ok && roSel(r.X) == "f.Decls" {
			loop = r
		}
		return true
	})
	if loop == nil {
		return "", fmt.Errorf("RemainingSource: loop over f.Decls not found")
	}
	skipCopied := false
	var skipToks []string
	sep := ""
	sawSrc := false
	nsep := 0
	for _, st := range loop.Body.List {
		switch s := st.(type) {
		case *ast.IfStmt:
			if len(s.Body.List) != 1 || s.Else != nil {
				return "", fmt.Errorf("RemainingSource: unknown if shape in the loop")
			}
			br, ok := s.Body.List[0].(*ast.BranchStmt)
			if !ok || br.Tok != token.CONTINUE {
				return "", fmt.Errorf("RemainingSource: an if in the loop does something else than continue")
			}
			if sawSrc {
				return "", fmt.Errorf("RemainingSource: skip condition after the source was written")
			}
			if s.Init == nil {
				ix, ok := s.Cond.(*ast.IndexExpr)
				if ok && roSel(ix.X) == "r.copied" && roSel(ix.Index) == "d" {
					skipCopied = true
					continue
				}
				return "", fmt.Errorf("RemainingSource: unknown skip condition")
			}
			// if d, isGen := d.(*ast.GenDecl); isGen && (d.Tok == token.X || ...)
			as, ok := s.Init.(*ast.AssignStmt)
			if !ok || len(as.Rhs) != 1 {
				return "", fmt.Errorf("RemainingSource: unknown skip condition")
			}
			ta, ok := as.Rhs[0].(*ast.TypeAssertExpr)
			if !ok || roSel(ta.X) != "d" {
				return "", fmt.Errorf("RemainingSource: unknown skip condition")
			}
			if st, ok := ta.Type.(*ast.StarExpr); !ok || roSel(st.X) != "ast.GenDecl" {
				return "", fmt.Errorf("RemainingSource: skip condition on something else than *ast.GenDecl")
			}
			and, ok := s.Cond.(*ast.BinaryExpr)
			if !ok || and.Op != token.LAND || roSel(and.X) != "isGen" {
				return "", fmt.Errorf("RemainingSource: unknown GenDecl skip condition")
			}
			var toks func(e ast.Expr) error
			toks = func(e ast.Expr) error {
				if p, ok := e.(*ast.ParenExpr); ok {
					return toks(p.X)
				}
				b, ok := e.(*ast.BinaryExpr)
				if !ok {
					return fmt.Errorf("RemainingSource: unknown GenDecl skip condition")
				}
				if b.Op == token.LOR {
					if err := toks(b.X); err != nil {
						return err
					}
					return toks(b.Y)
				}
				if b.Op == token.EQL && roSel(b.X) == "d.Tok" && strings.HasPrefix(roSel(b.Y), "token.") {
					skipToks = append(skipToks, strings.TrimPrefix(roSel(b.Y), "token."))
					return nil
				}
				return fmt.Errorf("RemainingSource: unknown GenDecl skip condition")
			}
			if err := toks(and.Y); err != nil {
				return "", err
			}
		case *ast.ExprStmt:
			c, ok := s.X.(*ast.CallExpr)
			if !ok || roSel(c.Fun) != "buf.WriteString" || len(c.Args) != 1 {
				return "", fmt.Errorf("RemainingSource: unknown statement in the loop")
			}
			if lit, ok := c.Args[0].(*ast.BasicLit); ok && lit.Kind == token.STRING {
				v, err := strconv.Unquote(lit.Value)
				if err != nil || !sawSrc {
					return "", fmt.Errorf("RemainingSource: separator written before the source")
				}
				sep += v
				nsep++
				continue
			}
			g, ok := c.Args[0].(*ast.CallExpr)
			if !ok || roSel(g.Fun) != "r.getSource" || len(g.Args) != 2 || roCallSel(g.Args[0]) != "d.Pos" || roCallSel(g.Args[1]) != "d.End" || sawSrc {
				return "", fmt.Errorf("RemainingSource: the loop no longer writes getSource(d.Pos(), d.End()) once")
			}
			sawSrc = true
		default:
			return "", fmt.Errorf("RemainingSource: unknown statement in the loop")
		}
	}
	if !sawSrc {
		return "", fmt.Errorf("RemainingSource: the loop does not write the declaration source")
	}
	// the return after the loop
	trimRem := false
	okRet := false
	for _, st := range loop.Body.List {
		_ = st
	}
	ast.Inspect(rs, func(n ast.Node) bool {
		r, ok := n.(*ast.ReturnStmt)
		if !ok || len(r.Results) != 1 {
			return true
		}
		if c, ok := r.Results[0].(*ast.CallExpr); ok {
			if roSel(c.Fun) == "strings.TrimSpace" && len(c.Args) == 1 && roCallSel(c.Args[0]) == "buf.String" {
				trimRem, okRet = true, true
			} else if roCallSel(c) == "buf.String" {
				trimRem, okRet = false, true
			}
		}
		return true
	})
	if !okRet {
		return "", fmt.Errorf("RemainingSource: does not return buf.String() / strings.TrimSpace(buf.String())")
	}
	// ---- resolver.go: GetMethodBody for a field is always trimmed
	rpath := filepath.Join(repo, "plugin/resolvergen/resolver.go")
	rf, err := parser.ParseFile(fset, rpath, nil, 0)
	if err != nil {
		return "", err
	}
	trimmed, bare := 0, 0
	ast.Inspect(rf, func(n ast.Node) bool {
		switch v := n.(type) {
		case *ast.AssignStmt:
			if len(v.Lhs) == 1 && roSel(v.Lhs[0]) == "implementation" && len(v.Rhs) == 1 {
				c, ok := v.Rhs[0].(*ast.CallExpr)
				if ok && roSel(c.Fun) == "strings.TrimSpace" && len(c.Args) == 1 {
					if g, ok := c.Args[0].(*ast.CallExpr); ok && roSel(g.Fun) == "rewriter.GetMethodBody" {
						trimmed++
						return true
					}
				}
				bare++
			}
		}
		return true
	})
	if trimmed != 2 || bare != 0 {
		return "", fmt.Errorf("resolver.go: expected `implementation := strings.TrimSpace(rewriter.GetMethodBody(…))` in both layouts (found %d trimmed, %d other)", trimmed, bare)
	}
	// ---- which helper computes the receiver / struct / accessor names resolver.go looks up
	nmSingle, err := roNameFacts(rf, "generateSingleFile")
	if err != nil {
		return "", err
	}
	nmFollow, err := roNameFacts(rf, "generatePerSchema")
	if err != nil {
		return "", err
	}
	// ---- template trailer
	tb, err := os.ReadFile(filepath.Join(repo, "plugin/resolvergen/resolver.gotpl"))
	if err != nil {
		return "", err
	}
	tpl := string(tb)
	eRecv, eAcc, eAccRet, eStruct, err := roTplNames(tpl)
	if err != nil {
		return "", err
	}
	const marker = "Move them out to keep these resolver files clean."
	i := strings.Index(tpl, marker)
	if i < 0 || !strings.Contains(tpl[:i], `{{ if (ne .RemainingSource "") }}`) {
		return "", fmt.Errorf("resolver.gotpl: WARNING block not found")
	}
	tail := strings.Join(strings.Fields(tpl[i+len(marker):]), " ")
	mode := ""
	switch tail {
	case `/* {{ .RemainingSource }} */ {{ end }}`:
		mode = ".blockAlways"
	case `{{- if gt (len (strSplit .RemainingSource "*/")) 1 }} {{ .RemainingSource | prefixLines "// " }} {{- else }} /* {{ .RemainingSource }} */ {{- end }} {{ end }}`:
		mode = ".lineWhenBlockEnd"
	default:
		return "", fmt.Errorf("resolver.gotpl: unknown shape of the WARNING block tail: %q", tail)
	}

	// ---- Import.String
	ipath := filepath.Join(repo, "codegen/templates/import.go")
	impf, err := parser.ParseFile(fset, ipath, nil, 0)
	if err != nil {
		return "", err
	}
	var strFn *ast.FuncDecl
	for _, d := range impf.Decls {
		if fd, ok := d.(*ast.FuncDecl); ok && fd.Name.Name == "String" && fd.Recv != nil && len(fd.Recv.List) == 1 {
			if st, ok := fd.Recv.List[0].Type.(*ast.StarExpr); ok && roSel(st.X) == "Import" {
				strFn = fd
			}
		}
	}
	if strFn == nil || len(strFn.Body.List) != 2 {
		return "", fmt.Errorf("import.go: (*Import).String no longer has the shape `if cond { return quoted path }; return alias + path`")
	}
	ifs, ok := strFn.Body.List[0].(*ast.IfStmt)
	if !ok || ifs.Init != nil || ifs.Else != nil {
		return "", fmt.Errorf("import.go: (*Import).String: unknown shape")
	}
	isSuffixCall := func(e ast.Expr) bool {
		c, ok := e.(*ast.CallExpr)
		return ok && roSel(c.Fun) == "strings.HasSuffix" && len(c.Args) == 2 && roSel(c.Args[0]) == "i.Path" && roSel(c.Args[1]) == "i.Alias"
	}
	eq := func(e ast.Expr, l, r string) bool {
		b, ok := e.(*ast.BinaryExpr)
		if !ok || b.Op != token.EQL || roSel(b.X) != l {
			return false
		}
		if lit, ok := b.Y.(*ast.BasicLit); ok {
			return lit.Value == r
		}
		return roSel(b.Y) == r
	}
	rule := ""
	if isSuffixCall(ifs.Cond) {
		rule = ".suffixOnly"
	} else if and, ok := ifs.Cond.(*ast.BinaryExpr); ok && and.Op == token.LAND && isSuffixCall(and.X) {
		if p, ok := and.Y.(*ast.ParenExpr); ok {
			if or, ok := p.X.(*ast.BinaryExpr); ok && or.Op == token.LOR && eq(or.X, "i.Alias", "i.Name") && eq(or.Y, "i.Name", `""`) {
				rule = ".suffixAndName"
			}
		}
	}
	if rule == "" {
		return "", fmt.Errorf("import.go: (*Import).String: unknown alias-omission condition")
	}

	var b strings.Builder
	b.WriteString("/-! Facts re-read from internal/rewrite/rewriter.go, plugin/resolvergen/resolver.go and resolver.gotpl (C19). -/\n")
	b.WriteString("namespace GqlgenVerif.Gen.RewriteOffsets\n\n")
	b.WriteString("/-- how the template writes the leftover code after the WARNING header -/\ninductive TrailerMode\n  | blockAlways       -- always inside one /* */ comment\n  | lineWhenBlockEnd  -- as // lines when the code contains \"*/\", else inside /* */\n  deriving DecidableEq, Repr\n\n")
	b.WriteString("/-- when (*templates.Import).String leaves the alias out -/\ninductive AliasOmitRule\n  | suffixOnly      -- strings.HasSuffix(path, alias)\n  | suffixAndName   -- ... && (alias == package name || package name unknown)\n  deriving DecidableEq, Repr\n\n")
	b.WriteString("/-- a function that turns a GraphQL type name into (part of) a Go identifier -/\ninductive NameHelper\n  | lcFirst      -- templates.LcFirst, template func lcFirst\n  | ucFirst      -- templates.UcFirst, template func ucFirst\n  | toGo         -- templates.ToGo, template func go\n  | toGoPrivate  -- templates.ToGoPrivate, template func goPrivate\n  | title        -- cases.Title(language.English, cases.NoLower).String\n  deriving DecidableEq, Repr\n\n")
	fmt.Fprintf(&b, "/-- GetMethodBody: getSource(d.Body.Pos()+%d, d.Body.End()-%d) -/\ndef bodyStartOff : Nat := %d\ndef bodyEndOff : Nat := %d\n\n", startOff, endOff, startOff, endOff)
	fmt.Fprintf(&b, "/-- RemainingSource: `if r.copied[d] { continue }` present -/\ndef skipCopied : Bool := %v\n", skipCopied)
	qs := []string{}
	for _, t := range skipToks {
		qs = append(qs, strconv.Quote(t))
	}
	fmt.Fprintf(&b, "/-- RemainingSource: GenDecl tokens skipped -/\ndef skipToks : List String := [%s]\n", strings.Join(qs, ", "))
	fmt.Fprintf(&b, "/-- RemainingSource: written after every declaration -/\ndef declSep : String := %s\n", strconv.Quote(sep))
	fmt.Fprintf(&b, "/-- RemainingSource: result passed through strings.TrimSpace -/\ndef trimRemaining : Bool := %v\n", trimRem)
	fmt.Fprintf(&b, "/-- resolver.gotpl: shape of the WARNING block -/\ndef trailerMode : TrailerMode := %s\n", mode)
	fmt.Fprintf(&b, "/-- codegen/templates/import.go: Import.String -/\ndef aliasOmitRule : AliasOmitRule := %s\n", rule)
	b.WriteString("/-- resolver.go: `structName := H(o.Name) + UcFirst(Resolver.Type)`, the receiver GetMethodComment / GetMethodBody / GetPrevDecl look a field's method up under (generateSingleFile, generatePerSchema) -/\n")
	fmt.Fprintf(&b, "def lookupRecvSingle : NameHelper := %s\ndef lookupRecvFollow : NameHelper := %s\n", nmSingle.lookup, nmFollow.lookup)
	b.WriteString("/-- resolver.go: `MarkStructCopied(H(o.Name) + UcFirst(Resolver.Type))` -/\n")
	fmt.Fprintf(&b, "def markStructSingle : NameHelper := %s\ndef markStructFollow : NameHelper := %s\n", nmSingle.mark, nmFollow.mark)
	b.WriteString("/-- resolver.go: `GetMethodBody(Resolver.Type, H(o.Name))`, the accessor that is marked copied -/\n")
	fmt.Fprintf(&b, "def lookupAccessorSingle : NameHelper := %s\ndef lookupAccessorFollow : NameHelper := %s\n", nmSingle.accessor, nmFollow.accessor)
	b.WriteString("/-- resolver.gotpl: `func (r *{{H $resolver.Object.Name}}{{ucFirst $.ResolverType}}) …` -/\n")
	fmt.Fprintf(&b, "def emitRecv : NameHelper := %s\n", eRecv)
	b.WriteString("/-- resolver.gotpl: `func (r *{{$.ResolverType}}) {{H $object.Name}}() … { return &{{H' $object.Name}}{{ucFirst $.ResolverType}}{r} }` -/\n")
	fmt.Fprintf(&b, "def emitAccessor : NameHelper := %s\ndef emitAccessorRet : NameHelper := %s\n", eAcc, eAccRet)
	b.WriteString("/-- resolver.gotpl: `type {{H $object.Name}}{{ucFirst $.ResolverType}} struct { *{{$.ResolverType}} }` -/\n")
	fmt.Fprintf(&b, "def emitStruct : NameHelper := %s\n", eStruct)
	b.WriteString("\nend GqlgenVerif.Gen.RewriteOffsets\n")
	return b.String(), nil
}
