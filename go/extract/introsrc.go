package main

import (
	"fmt"
	"go/ast"
	"go/parser"
	"go/token"
	"os"
	"path/filepath"
	"strings"
)

// IntroSrc (C16): WHICH schema the generated introspection entry points describe, in both exec layouts —
//
//	codegen/generated!.gotpl (layout single-file) and codegen/root_.gotpl (layout follow-schema):
//	  NewExecutableSchema        whether the `executableSchema` literal stores `schema: cfg.Schema` (Config.Schema,
//	                             the runtime override)
//	  executableSchema.Schema()  its statements: `if e.schema != nil { return X }` / `return X`, X = e.schema | parsedSchema
//	  introspectSchema           the leading `if ec.DisableIntrospection { return nil, <error> }` guard and the
//	                             argument of `introspection.WrapSchema(…)`
//	  introspectType             the guard and both schema expressions of
//	                             `introspection.WrapTypeFromDef(X, Y.Types[name])`
//	  schema expressions: `ec.Schema()` (the method) | `ec.schema` (the field) | `parsedSchema` (compiled-in)
//
// as `GqlgenVerif.Introspect.Served.Layout` values. None of the four functions contains a template action; each is
// cut out of the template text and parsed with go/parser. Props/C16Served.lean proves over these facts that
// `__schema` / `__type` describe the schema the server serves (Config.Schema when given, the compiled-in one
// otherwise). Any other statement or expression is an error (broken tie).
func init() { extractors["IntroSrc"] = extractIntroSrc }

// isCut returns the text of the one top-level function of `src` whose header starts with `hdr`.
func isCut(src, hdr string) (string, error) {
	i := strings.Index(src, hdr)
	if i < 0 {
		return "", fmt.Errorf("no %q", hdr)
	}
	if strings.Contains(src[i+len(hdr):], hdr) {
		return "", fmt.Errorf("%q occurs more than once", hdr)
	}
	open := strings.Index(src[i:], "{\n")
	if open < 0 {
		return "", fmt.Errorf("%q: no body", hdr)
	}
	depth := 0
	for j := i + open; j < len(src); j++ {
		switch src[j] {
		case '{':
			if strings.HasPrefix(src[j:], "{{") {
				return "", fmt.Errorf("%q: template action inside the function", hdr)
			}
			depth++
		case '}':
			depth--
			if depth == 0 {
				return src[i : j+1], nil
			}
		}
	}
	return "", fmt.Errorf("%q: unbalanced braces", hdr)
}

func isParse(fset *token.FileSet, text string) (*ast.FuncDecl, error) {
	f, err := parser.ParseFile(fset, "t.go", "package p\n"+text, 0)
	if err != nil {
		return nil, err
	}
	if len(f.Decls) != 1 {
		return nil, fmt.Errorf("%d declarations", len(f.Decls))
	}
	fd, ok := f.Decls[0].(*ast.FuncDecl)
	if !ok || fd.Body == nil {
		return nil, fmt.Errorf("not a function")
	}
	return fd, nil
}

// isSrc: a schema expression inside a method of executionContext (receiver ec) / executableSchema (receiver e)
func isSrc(s string) (string, error) {
	switch s {
	case "ec.Schema()", "e.Schema()", "ec.executableSchema.Schema()":
		return ".method", nil
	case "ec.schema", "e.schema", "ec.executableSchema.schema":
		return ".field", nil
	case "parsedSchema":
		return ".compiled", nil
	}
	return "", fmt.Errorf("unknown schema expression %q", s)
}

// isGuard: `if ec.DisableIntrospection { return nil, <non-nil> }`
func isGuard(fset *token.FileSet, s ast.Stmt) bool {
	is, ok := s.(*ast.IfStmt)
	if !ok || is.Init != nil || is.Else != nil || eoSrc(fset, is.Cond) != "ec.DisableIntrospection" || len(is.Body.List) != 1 {
		return false
	}
	ret, ok := is.Body.List[0].(*ast.ReturnStmt)
	return ok && len(ret.Results) == 2 && eoSrc(fset, ret.Results[0]) == "nil" && eoSrc(fset, ret.Results[1]) != "nil"
}

// isEntry: [guard] + `return introspection.<fn>(args…), nil`; returns guard, the call's arguments
func isEntry(fset *token.FileSet, fd *ast.FuncDecl, fn string) (bool, []ast.Expr, error) {
	stmts := fd.Body.List
	guard := false
	if len(stmts) > 0 && isGuard(fset, stmts[0]) {
		guard = true
		stmts = stmts[1:]
	}
	if len(stmts) != 1 {
		return false, nil, fmt.Errorf("%s: %d statements after the guard, expected one return", fd.Name.Name, len(stmts))
	}
	ret, ok := stmts[0].(*ast.ReturnStmt)
	if !ok || len(ret.Results) != 2 || eoSrc(fset, ret.Results[1]) != "nil" {
		return false, nil, fmt.Errorf("%s: unexpected statement %q", fd.Name.Name, eoSrc(fset, stmts[0]))
	}
	call, ok := ret.Results[0].(*ast.CallExpr)
	if !ok || eoSrc(fset, call.Fun) != "introspection."+fn {
		return false, nil, fmt.Errorf("%s: returns %q, expected introspection.%s(…)", fd.Name.Name, eoSrc(fset, ret.Results[0]), fn)
	}
	return guard, call.Args, nil
}

func isLayout(repo, file, name string) (string, error) {
	b, err := os.ReadFile(filepath.Join(repo, "codegen", file))
	if err != nil {
		return "", err
	}
	src := string(b)
	fset := token.NewFileSet()
	get := func(hdr string) (*ast.FuncDecl, error) {
		t, err := isCut(src, hdr)
		if err != nil {
			return nil, err
		}
		fd, err := isParse(fset, t)
		if err != nil {
			return nil, fmt.Errorf("%q: %v", hdr, err)
		}
		return fd, nil
	}
	// ---- NewExecutableSchema
	fd, err := get("func NewExecutableSchema(cfg Config) graphql.ExecutableSchema")
	if err != nil {
		return "", err
	}
	if len(fd.Body.List) != 1 {
		return "", fmt.Errorf("NewExecutableSchema: %d statements", len(fd.Body.List))
	}
	ret, ok := fd.Body.List[0].(*ast.ReturnStmt)
	if !ok || len(ret.Results) != 1 {
		return "", fmt.Errorf("NewExecutableSchema: not a single return")
	}
	ue, ok := ret.Results[0].(*ast.UnaryExpr)
	var cl *ast.CompositeLit
	if ok {
		cl, ok = ue.X.(*ast.CompositeLit)
	}
	if !ok || eoSrc(fset, cl.Type) != "executableSchema" {
		return "", fmt.Errorf("NewExecutableSchema: returns %q, expected &executableSchema{…}", eoSrc(fset, ret.Results[0]))
	}
	stores := "false"
	for _, el := range cl.Elts {
		kv, ok := el.(*ast.KeyValueExpr)
		if !ok {
			return "", fmt.Errorf("NewExecutableSchema: positional literal")
		}
		if eoSrc(fset, kv.Key) == "schema" {
			if v := eoSrc(fset, kv.Value); v != "cfg.Schema" {
				return "", fmt.Errorf("NewExecutableSchema: schema: %s", v)
			}
			stores = "true"
		}
	}
	// ---- executableSchema.Schema()
	fd, err = get("func (e *executableSchema) Schema() *ast.Schema")
	if err != nil {
		return "", err
	}
	var arms []string
	retSrc := func(s ast.Stmt) (string, error) {
		r, ok := s.(*ast.ReturnStmt)
		if !ok || len(r.Results) != 1 {
			return "", fmt.Errorf("Schema(): unexpected statement %q", eoSrc(fset, s))
		}
		x, err := isSrc(eoSrc(fset, r.Results[0]))
		if err != nil || x == ".method" {
			return "", fmt.Errorf("Schema(): returns %q", eoSrc(fset, r.Results[0]))
		}
		return x, nil
	}
	for _, s := range fd.Body.List {
		if is, ok := s.(*ast.IfStmt); ok {
			if is.Init != nil || is.Else != nil || eoSrc(fset, is.Cond) != "e.schema != nil" || len(is.Body.List) != 1 {
				return "", fmt.Errorf("Schema(): unexpected if %q", eoSrc(fset, is.Cond))
			}
			x, err := retSrc(is.Body.List[0])
			if err != nil {
				return "", err
			}
			arms = append(arms, "⟨true, "+x+"⟩")
			continue
		}
		x, err := retSrc(s)
		if err != nil {
			return "", err
		}
		arms = append(arms, "⟨false, "+x+"⟩")
	}
	// ---- introspectSchema
	fd, err = get("func (ec *executionContext) introspectSchema() (*introspection.Schema, error)")
	if err != nil {
		return "", err
	}
	sGuard, args, err := isEntry(fset, fd, "WrapSchema")
	if err != nil {
		return "", err
	}
	if len(args) != 1 {
		return "", fmt.Errorf("introspectSchema: WrapSchema with %d arguments", len(args))
	}
	sSrc, err := isSrc(eoSrc(fset, args[0]))
	if err != nil {
		return "", fmt.Errorf("introspectSchema: %v", err)
	}
	// ---- introspectType
	fd, err = get("func (ec *executionContext) introspectType(name string) (*introspection.Type, error)")
	if err != nil {
		return "", err
	}
	tGuard, args, err := isEntry(fset, fd, "WrapTypeFromDef")
	if err != nil {
		return "", err
	}
	if len(args) != 2 {
		return "", fmt.Errorf("introspectType: WrapTypeFromDef with %d arguments", len(args))
	}
	wSrc, err := isSrc(eoSrc(fset, args[0]))
	if err != nil {
		return "", fmt.Errorf("introspectType: %v", err)
	}
	lk := eoSrc(fset, args[1])
	if !strings.HasSuffix(lk, ".Types[name]") {
		return "", fmt.Errorf("introspectType: the definition is %q, expected <schema>.Types[name]", lk)
	}
	lSrc, err := isSrc(strings.TrimSuffix(lk, ".Types[name]"))
	if err != nil {
		return "", fmt.Errorf("introspectType: %v", err)
	}
	return fmt.Sprintf("  { name := %q, template := %q, storesOverride := %s,\n    schemaMethod := [%s],\n    schemaGuard := %v, schemaSrc := %s,\n    typeGuard := %v, typeWrapSrc := %s, typeLookupSrc := %s }",
		name, "codegen/"+file, stores, strings.Join(arms, ", "), sGuard, sSrc, tGuard, wSrc, lSrc), nil
}

func extractIntroSrc(repo string) (string, error) {
	var ls []string
	for _, x := range [][2]string{{"generated!.gotpl", "single-file"}, {"root_.gotpl", "follow-schema"}} {
		l, err := isLayout(repo, x[0], x[1])
		if err != nil {
			return "", fmt.Errorf("codegen/%s: %v", x[0], err)
		}
		ls = append(ls, l)
	}
	var b strings.Builder
	b.WriteString("import GqlgenVerif.Model.IntroServed\n")
	b.WriteString("/-! REGENERATED from codegen/generated!.gotpl and codegen/root_.gotpl (go/extract/introsrc.go): which schema\n    NewExecutableSchema stores, executableSchema.Schema() returns, and introspectSchema / introspectType describe. -/\n")
	b.WriteString("namespace GqlgenVerif.Gen.IntroSrc\nopen GqlgenVerif.Introspect.Served\n\n")
	b.WriteString("def layouts : List Layout := [\n" + strings.Join(ls, ",\n") + " ]\n\n")
	b.WriteString("end GqlgenVerif.Gen.IntroSrc\n")
	return b.String(), nil
}
