package main

import (
	"fmt"
	"go/ast"
	"go/parser"
	"go/printer"
	"go/token"
	"os"
	"path/filepath"
	"sort"
	"strconv"
	"strings"
)

// SyncFacts (C05): the hand-written synchronisation of gqlgen's runtime (every non-test file under graphql/),
// translated statement by statement into the little language of Model/SyncProg.lean:
//
//   - lockProgs: every function (or function literal) that locks a mutex WITHOUT deferring the unlock right away,
//     as the control-flow skeleton of its body with that mutex's Lock / Unlock calls in place. Props/C05Sync
//     decides that every path through every one of them leaves the mutex free (an exit that keeps it would block
//     the next caller for ever).
//   - chanProgs: every function (or literal) that sends on a channel made in the same file OUTSIDE a select with
//     other arms, with the channel's capacity. Props/C05Sync decides that the sends of one run fit the buffer
//     (such a sender can then finish although its receiver has gone away - e.g. took a timeout arm).
//
// Anything the translation does not understand (labels, goto, a break inside a switch, a mutex call in an
// expression, a channel capacity that is not a literal) is an error: the tie is reported broken.
func init() { extractors["SyncFacts"] = extractSyncFacts }

type syncUnit struct {
	name string // file:Func or file:Func$lit<n>
	body *ast.BlockStmt
}

func exprText(fset *token.FileSet, e ast.Expr) string {
	var b strings.Builder
	printer.Fprint(&b, fset, e)
	return b.String()
}

// mutexCall recognises `X.Lock()` / `X.Unlock()` / `X.RLock()` / `X.RUnlock()`: (text of X [+ "#r"], "lock" | "unlock")
func mutexCall(fset *token.FileSet, e ast.Expr) (string, string, bool) {
	c, ok := e.(*ast.CallExpr)
	if !ok || len(c.Args) != 0 {
		return "", "", false
	}
	s, ok := c.Fun.(*ast.SelectorExpr)
	if !ok {
		return "", "", false
	}
	switch s.Sel.Name {
	case "Lock":
		return exprText(fset, s.X), "lock", true
	case "Unlock":
		return exprText(fset, s.X), "unlock", true
	case "RLock":
		return exprText(fset, s.X) + "#r", "lock", true
	case "RUnlock":
		return exprText(fset, s.X) + "#r", "unlock", true
	}
	return "", "", false
}

// inspectUnit walks n without entering nested function literals
func inspectUnit(n ast.Node, f func(ast.Node) bool) {
	ast.Inspect(n, func(x ast.Node) bool {
		if _, ok := x.(*ast.FuncLit); ok && x != n {
			return false
		}
		return f(x)
	})
}

func lastIdent(e ast.Expr) string {
	switch v := e.(type) {
	case *ast.Ident:
		return v.Name
	case *ast.SelectorExpr:
		return v.Sel.Name
	case *ast.ParenExpr:
		return lastIdent(v.X)
	}
	return ""
}

// syncTranslator turns a statement list into SyncProg syntax for ONE mutex (mutex != "") or ONE channel (ch != "")
type syncTranslator struct {
	fset  *token.FileSet
	mutex string
	ch    string
	err   error
}

func (t *syncTranslator) fail(pos token.Pos, format string, a ...any) {
	if t.err == nil {
		t.err = fmt.Errorf("%s: %s", t.fset.Position(pos), fmt.Sprintf(format, a...))
	}
}

// prim reports whether the expression statement is an operation on the tracked object
func (t *syncTranslator) mentions(n ast.Node) bool {
	found := false
	inspectUnit(n, func(x ast.Node) bool {
		switch v := x.(type) {
		case *ast.CallExpr:
			if m, _, ok := mutexCall(t.fset, v); ok && t.mutex != "" && m == t.mutex {
				found = true
			}
		case *ast.SendStmt:
			if t.ch != "" && lastIdent(v.Chan) == t.ch {
				found = true
			}
		}
		return true
	})
	return found
}

func (t *syncTranslator) list(ss []ast.Stmt, inAlt bool) []string {
	var out []string
	for _, s := range ss {
		out = append(out, t.stmt(s, inAlt)...)
	}
	return out
}

func altOf(branches [][]string) string {
	// n-ary choice as nested binary choices
	if len(branches) == 1 {
		return ".alt [" + strings.Join(branches[0], ", ") + "] [" + strings.Join(branches[0], ", ") + "]"
	}
	last := "[" + strings.Join(branches[len(branches)-1], ", ") + "]"
	for i := len(branches) - 2; i >= 0; i-- {
		cur := ".alt [" + strings.Join(branches[i], ", ") + "] " + last
		if i == 0 {
			return cur
		}
		last = "[" + cur + "]"
	}
	return ""
}

func allEmpty(bs [][]string) bool {
	for _, b := range bs {
		if len(b) != 0 {
			return false
		}
	}
	return true
}

func (t *syncTranslator) stmt(s ast.Stmt, inAlt bool) []string {
	switch v := s.(type) {
	case nil:
		return nil
	case *ast.ExprStmt:
		if m, k, ok := mutexCall(t.fset, v.X); ok && t.mutex != "" && m == t.mutex {
			return []string{".prim ." + k}
		}
		if t.mentions(v) {
			t.fail(v.Pos(), "operation on %s%s inside an expression", t.mutex, t.ch)
		}
		return nil
	case *ast.SendStmt:
		if t.ch != "" && lastIdent(v.Chan) == t.ch {
			return []string{".prim .send"}
		}
		return nil
	case *ast.ReturnStmt:
		if t.mentions(v) {
			t.fail(v.Pos(), "operation on %s%s inside a return", t.mutex, t.ch)
		}
		return []string{".ret"}
	case *ast.BranchStmt:
		if v.Label != nil || v.Tok == token.GOTO || v.Tok == token.FALLTHROUGH {
			t.fail(v.Pos(), "labelled branch / goto / fallthrough")
			return nil
		}
		if v.Tok == token.BREAK {
			if inAlt {
				t.fail(v.Pos(), "break inside a switch / select clause")
			}
			return []string{".brk"}
		}
		return []string{".cont"}
	case *ast.BlockStmt:
		return t.list(v.List, inAlt)
	case *ast.LabeledStmt:
		return t.stmt(v.Stmt, inAlt)
	case *ast.IfStmt:
		out := t.stmt(v.Init, inAlt)
		if v.Cond != nil && t.mentions(v.Cond) {
			t.fail(v.Pos(), "operation on %s%s inside a condition", t.mutex, t.ch)
		}
		a := t.list(v.Body.List, inAlt)
		var b []string
		if v.Else != nil {
			b = t.stmt(v.Else, inAlt)
		}
		if len(a) == 0 && len(b) == 0 {
			return out
		}
		return append(out, altOf([][]string{a, b}))
	case *ast.ForStmt:
		out := t.stmt(v.Init, inAlt)
		body := t.list(v.Body.List, false)
		body = append(body, t.stmt(v.Post, false)...)
		if len(body) == 0 {
			return out
		}
		return append(out, ".loop ["+strings.Join(body, ", ")+"]")
	case *ast.RangeStmt:
		body := t.list(v.Body.List, false)
		if len(body) == 0 {
			return nil
		}
		return []string{".loop [" + strings.Join(body, ", ") + "]"}
	case *ast.SwitchStmt, *ast.TypeSwitchStmt, *ast.SelectStmt:
		var clauses []ast.Stmt
		var out []string
		isSelect := false
		switch w := v.(type) {
		case *ast.SwitchStmt:
			out = t.stmt(w.Init, inAlt)
			clauses = w.Body.List
		case *ast.TypeSwitchStmt:
			out = t.stmt(w.Init, inAlt)
			clauses = w.Body.List
		case *ast.SelectStmt:
			clauses = w.Body.List
			isSelect = true
		}
		var branches [][]string
		hasDefault := false
		for _, c := range clauses {
			switch cc := c.(type) {
			case *ast.CaseClause:
				if cc.List == nil {
					hasDefault = true
				}
				branches = append(branches, t.list(cc.Body, true))
			case *ast.CommClause:
				if cc.Comm == nil {
					hasDefault = true
				}
				var b []string
				if snd, ok := cc.Comm.(*ast.SendStmt); ok && t.ch != "" && lastIdent(snd.Chan) == t.ch && len(clauses) == 1 {
					b = append(b, ".prim .send") // a select with this single arm is a plain send
				}
				branches = append(branches, append(b, t.list(cc.Body, true)...))
			}
		}
		if !hasDefault && !isSelect {
			branches = append(branches, nil)
		}
		if len(branches) == 0 || allEmpty(branches) {
			return out
		}
		return append(out, altOf(branches))
	case *ast.DeferStmt:
		if m, _, ok := mutexCall(t.fset, v.Call); ok && t.mutex != "" && m == t.mutex {
			t.fail(v.Pos(), "deferred and hand-written unlocks of %s in one function", t.mutex)
		}
		return nil
	default:
		// assignments, declarations, go statements, inc/dec ...: no control flow of their own
		if t.mentions(s) {
			t.fail(s.Pos(), "operation on %s%s in an unsupported statement", t.mutex, t.ch)
		}
		return nil
	}
}

func extractSyncFacts(repo string) (string, error) {
	root := filepath.Join(repo, "graphql")
	var files []string
	err := filepath.Walk(root, func(p string, info os.FileInfo, err error) error {
		if err != nil {
			return err
		}
		if info.IsDir() {
			switch info.Name() {
			case "testserver", "testexecutor", "generated", "testdata":
				return filepath.SkipDir
			}
			return nil
		}
		if strings.HasSuffix(p, ".go") && !strings.HasSuffix(p, "_test.go") && !strings.HasPrefix(info.Name(), "verif_") && !strings.HasSuffix(p, "_mock.go") {
			files = append(files, p)
		}
		return nil
	})
	if err != nil {
		return "", err
	}
	sort.Strings(files)
	fset := token.NewFileSet()
	type lockRow struct{ unit, mutex, prog string }
	type chanRow struct {
		unit, ch string
		cap      int
		prog     string
	}
	var lockRows []lockRow
	var chanRows []chanRow
	deferred := 0
	for _, fn := range files {
		f, err := parser.ParseFile(fset, fn, nil, 0)
		if err != nil {
			return "", err
		}
		rel, _ := filepath.Rel(repo, fn)
		// the units of this file: every declared function and every function literal
		var units []syncUnit
		for _, d := range f.Decls {
			fd, ok := d.(*ast.FuncDecl)
			if !ok || fd.Body == nil {
				continue
			}
			units = append(units, syncUnit{rel + ":" + fd.Name.Name, fd.Body})
			n := 0
			ast.Inspect(fd.Body, func(x ast.Node) bool {
				if fl, ok := x.(*ast.FuncLit); ok {
					n++
					units = append(units, syncUnit{fmt.Sprintf("%s:%s$lit%d", rel, fd.Name.Name, n), fl.Body})
				}
				return true
			})
		}
		// channels made in this file: name -> capacity
		caps := map[string]int{}
		var capErr error
		noteMake := func(name string, e ast.Expr) {
			c, ok := e.(*ast.CallExpr)
			if !ok {
				return
			}
			if id, ok := c.Fun.(*ast.Ident); !ok || id.Name != "make" || len(c.Args) == 0 {
				return
			}
			if _, ok := c.Args[0].(*ast.ChanType); !ok {
				return
			}
			n := 0
			if len(c.Args) > 1 {
				lit, ok := c.Args[1].(*ast.BasicLit)
				if !ok {
					capErr = fmt.Errorf("%s: capacity of channel %s is not a literal", fset.Position(c.Pos()), name)
					return
				}
				n, _ = strconv.Atoi(lit.Value)
			}
			if old, seen := caps[name]; seen && old != n {
				capErr = fmt.Errorf("%s: two channels named %s with different capacities", fset.Position(c.Pos()), name)
			}
			caps[name] = n
		}
		ast.Inspect(f, func(x ast.Node) bool {
			switch v := x.(type) {
			case *ast.AssignStmt:
				if len(v.Lhs) == len(v.Rhs) {
					for i := range v.Lhs {
						noteMake(lastIdent(v.Lhs[i]), v.Rhs[i])
					}
				}
			case *ast.ValueSpec:
				if len(v.Names) == len(v.Values) {
					for i := range v.Names {
						noteMake(v.Names[i].Name, v.Values[i])
					}
				}
			case *ast.KeyValueExpr:
				noteMake(lastIdent(v.Key), v.Value)
			}
			return true
		})
		if capErr != nil {
			return "", capErr
		}
		for _, u := range units {
			// mutexes this unit locks, and whether each lock is at once followed by its deferred unlock
			type use struct{ hand, deferredPairs, locks int }
			uses := map[string]*use{}
			var order []string
			var scan func(ss []ast.Stmt)
			scan = func(ss []ast.Stmt) {
				for i, s := range ss {
					if es, ok := s.(*ast.ExprStmt); ok {
						if m, k, ok := mutexCall(fset, es.X); ok && k == "lock" {
							if uses[m] == nil {
								uses[m] = &use{}
								order = append(order, m)
							}
							uses[m].locks++
							paired := false
							if i+1 < len(ss) {
								if ds, ok := ss[i+1].(*ast.DeferStmt); ok {
									if m2, k2, ok := mutexCall(fset, ds.Call); ok && m2 == m && k2 == "unlock" {
										paired = true
									}
								}
							}
							if paired {
								uses[m].deferredPairs++
							} else {
								uses[m].hand++
							}
						}
					}
				}
			}
			inspectUnit(u.body, func(x ast.Node) bool {
				switch v := x.(type) {
				case *ast.BlockStmt:
					scan(v.List)
				case *ast.CaseClause:
					scan(v.Body)
				case *ast.CommClause:
					scan(v.Body)
				}
				return true
			})
			for _, m := range order {
				us := uses[m]
				if us.hand == 0 {
					deferred += us.deferredPairs
					continue
				}
				t := &syncTranslator{fset: fset, mutex: m}
				prog := t.list(u.body.List, false)
				if t.err != nil {
					return "", t.err
				}
				lockRows = append(lockRows, lockRow{u.name, m, "[" + strings.Join(prog, ", ") + "]"})
			}
			// bare sends on channels made in this file
			sent := map[string]bool{}
			var sentOrder []string
			inspectUnit(u.body, func(x ast.Node) bool {
				if sel, ok := x.(*ast.SelectStmt); ok && len(sel.Body.List) > 1 {
					// a send that is one arm among several is not a bare send: look at the clause bodies only
					for _, c := range sel.Body.List {
						for _, s := range c.(*ast.CommClause).Body {
							inspectUnit(s, func(y ast.Node) bool {
								if snd, ok := y.(*ast.SendStmt); ok {
									if n := lastIdent(snd.Chan); n != "" && !sent[n] {
										if _, made := caps[n]; made {
											sent[n] = true
											sentOrder = append(sentOrder, n)
										}
									}
								}
								return true
							})
						}
					}
					return false
				}
				if snd, ok := x.(*ast.SendStmt); ok {
					if n := lastIdent(snd.Chan); n != "" && !sent[n] {
						if _, made := caps[n]; made {
							sent[n] = true
							sentOrder = append(sentOrder, n)
						}
					}
				}
				return true
			})
			for _, n := range sentOrder {
				t := &syncTranslator{fset: fset, ch: n}
				prog := t.list(u.body.List, false)
				if t.err != nil {
					return "", t.err
				}
				chanRows = append(chanRows, chanRow{u.name, n, caps[n], "[" + strings.Join(prog, ", ") + "]"})
			}
		}
	}
	if len(lockRows) == 0 {
		return "", fmt.Errorf("no hand-locked mutex found under %s", root)
	}
	if len(chanRows) == 0 {
		return "", fmt.Errorf("no bare channel send found under %s", root)
	}
	var b strings.Builder
	b.WriteString("import GqlgenVerif.Model.SyncProg\nnamespace GqlgenVerif.Gen.SyncFacts\nopen GqlgenVerif.SyncProg\n\n")
	b.WriteString("/-- (function, mutex, skeleton of the body) for every function that unlocks by hand -/\ndef lockProgs : List (String × String × List Stmt) := [\n")
	for i, r := range lockRows {
		sep := ","
		if i == len(lockRows)-1 {
			sep = ""
		}
		fmt.Fprintf(&b, "  (%q, %q, %s)%s\n", r.unit, r.mutex, r.prog, sep)
	}
	b.WriteString("]\n\n")
	fmt.Fprintf(&b, "/-- Lock() calls that are at once followed by `defer ….Unlock()` (balanced by construction) -/\ndef deferredUnlocks : Nat := %d\n\n", deferred)
	b.WriteString("/-- (function, channel, capacity given to make, skeleton of the body) for every function that sends on a channel\n    made in the same file outside a select with other arms -/\ndef chanProgs : List (String × String × Nat × List Stmt) := [\n")
	for i, r := range chanRows {
		sep := ","
		if i == len(chanRows)-1 {
			sep = ""
		}
		fmt.Fprintf(&b, "  (%q, %q, %d, %s)%s\n", r.unit, r.ch, r.cap, r.prog, sep)
	}
	b.WriteString("]\n\nend GqlgenVerif.Gen.SyncFacts\n")
	return b.String(), nil
}
