package main

import (
	"fmt"
	"go/ast"
	"go/parser"
	"go/token"
	"path/filepath"
	"strings"
)

// BuildGuards (C17): how each pass of codegen.generatePerSchema (codegen/generate.go, exec layout follow-schema) gets
// hold of the per-schema-file build it adds an element to - as a straight-line program over "is there a build for this
// file" and "the local that holds it", in SOURCE ORDER:
//
//	for _, o := range data.Objects {
//	    filename := filename(o.Position, data.Config)
//	    if (*builds)[filename] == nil {                    ifMapNil 1
//	        addBuild(filename, o.Position, data, builds)   create
//	    }
//	    (*builds)[filename].Objects = append(…)            useMap …
//	}
//	for k, inf := range data.Interfaces {
//	    …guard…                                            ifMapNil 1, create
//	    build := (*builds)[filename]                       load
//	    if build.Interfaces == nil { … }                   useVar …
//	}
//
// Steps: ifMapNil n / ifVarNil n (`if (*builds)[filename] == nil {` / `if build == nil {` with n flattened steps in the
// body), create (`addBuild(filename, x.Position, data, builds)`), load (`build := (*builds)[filename]` or `build = …`),
// useMap (a selector on `(*builds)[filename]`), useVar (a selector on the local). Whether the order of these steps can
// dereference a nil build is decided in Lean (Model/Builds.lean, Props/C17Files.lean: for EVERY state of the map).
//
// Recognised: every call `f(data, &builds)` in generatePerSchema, f a package-level function of generate.go whose body
// is one `for … := range data.<Field>` loop (+ `return nil`) that starts with `filename := filename(x.Position,
// data.Config)`; addBuild must assign `(*builds)[filename] = &Data{…}`. Anything else that assigns the local or the map
// entry, an `else` on a guard, a guard with another condition shape -> the extractor fails (broken tie).
func init() { extractors["BuildGuards"] = extractBuildGuards }

// `(*builds)[filename]`
func bgIsMapEntry(e ast.Expr) bool {
	ix, ok := e.(*ast.IndexExpr)
	if !ok {
		return false
	}
	p, ok := ix.X.(*ast.ParenExpr)
	if !ok {
		return false
	}
	return trSel(p.X) == "*builds" && trSel(ix.Index) == "filename"
}

func bgIsNil(e ast.Expr) bool { id, ok := e.(*ast.Ident); return ok && id.Name == "nil" }

type bgPass struct {
	name, field string
	line        int
	steps       []string
}

func extractBuildGuards(repo string) (string, error) {
	fset := token.NewFileSet()
	f, err := parser.ParseFile(fset, filepath.Join(repo, "codegen", "generate.go"), nil, 0)
	if err != nil {
		return "", err
	}
	funcs := map[string]*ast.FuncDecl{}
	for _, d := range f.Decls {
		if fd, ok := d.(*ast.FuncDecl); ok && fd.Recv == nil {
			funcs[fd.Name.Name] = fd
		}
	}
	gps := funcs["generatePerSchema"]
	if gps == nil {
		return "", fmt.Errorf("codegen/generate.go: func generatePerSchema not found")
	}
	// addBuild creates a non-nil entry
	ab := funcs["addBuild"]
	if ab == nil {
		return "", fmt.Errorf("codegen/generate.go: func addBuild not found")
	}
	creates := false
	ast.Inspect(ab.Body, func(n ast.Node) bool {
		if as, ok := n.(*ast.AssignStmt); ok && len(as.Lhs) == 1 && len(as.Rhs) == 1 && bgIsMapEntry(as.Lhs[0]) {
			if u, ok := as.Rhs[0].(*ast.UnaryExpr); ok && u.Op == token.AND {
				if cl, ok := u.X.(*ast.CompositeLit); ok && trSel(cl.Type) == "Data" {
					creates = true
				}
			}
		}
		return true
	})
	if !creates {
		return "", fmt.Errorf("addBuild: `(*builds)[filename] = &Data{…}` not found")
	}
	var passes []bgPass
	var ferr error
	fail := func(format string, a ...any) {
		if ferr == nil {
			ferr = fmt.Errorf(format, a...)
		}
	}
	ast.Inspect(gps.Body, func(n ast.Node) bool {
		call, ok := n.(*ast.CallExpr)
		if !ok || len(call.Args) != 2 || trSel(call.Args[0]) != "data" {
			return true
		}
		u, ok := call.Args[1].(*ast.UnaryExpr)
		if !ok || u.Op != token.AND || trSel(u.X) != "builds" {
			return true
		}
		name := trSel(call.Fun)
		fd := funcs[name]
		if fd == nil {
			fail("generatePerSchema calls %s(data, &builds), which is not a function of generate.go", name)
			return true
		}
		var loop *ast.RangeStmt
		for _, st := range fd.Body.List {
			switch x := st.(type) {
			case *ast.RangeStmt:
				if loop != nil {
					fail("%s: more than one range loop", name)
				}
				loop = x
			case *ast.ReturnStmt:
			default:
				fail("%s: unexpected statement outside the loop: `%s`", name, pnSrc(fset, st))
			}
		}
		if loop == nil || !strings.HasPrefix(trSel(loop.X), "data.") {
			fail("%s: `for … := range data.<Field>` not found", name)
			return true
		}
		p := bgPass{name: name, field: strings.TrimPrefix(trSel(loop.X), "data."), line: fset.Position(call.Pos()).Line}
		elem := trSel(loop.Value)
		local := "" // the variable that holds the build
		if len(loop.Body.List) == 0 {
			fail("%s: empty loop", name)
			return true
		}
		// first statement: filename := filename(<elem>[.Definition].Position, data.Config)
		first, ok := loop.Body.List[0].(*ast.AssignStmt)
		okFirst := ok && len(first.Lhs) == 1 && trSel(first.Lhs[0]) == "filename" && len(first.Rhs) == 1
		if okFirst {
			c, ok := first.Rhs[0].(*ast.CallExpr)
			okFirst = ok && trSel(c.Fun) == "filename" && len(c.Args) == 2 && strings.HasPrefix(trSel(c.Args[0]), elem+".") &&
				strings.HasSuffix(trSel(c.Args[0]), ".Position") && trSel(c.Args[1]) == "data.Config"
		}
		if !okFirst {
			fail("%s: the loop does not start with `filename := filename(%s.Position, data.Config)`", name, elem)
			return true
		}
		isCreate := func(st ast.Stmt) bool {
			es, ok := st.(*ast.ExprStmt)
			if !ok {
				return false
			}
			c, ok := es.X.(*ast.CallExpr)
			if !ok || trSel(c.Fun) != "addBuild" {
				return false
			}
			if len(c.Args) != 4 || trSel(c.Args[0]) != "filename" || !strings.HasSuffix(trSel(c.Args[1]), ".Position") || trSel(c.Args[2]) != "data" || trSel(c.Args[3]) != "builds" {
				fail("%s: unexpected arguments of addBuild: `%s`", name, pnSrc(fset, st))
			}
			return true
		}
		// the uses inside an ordinary statement, in source order; assignments to the local / the map entry are refused
		uses := func(st ast.Node) []string {
			var out []string
			ast.Inspect(st, func(n ast.Node) bool {
				switch x := n.(type) {
				case *ast.AssignStmt:
					for _, l := range x.Lhs {
						if bgIsMapEntry(l) || (local != "" && trSel(l) == local) {
							fail("%s: `%s` assigns the build outside the recognised shapes", name, pnSrc(fset, x))
						}
					}
				case *ast.CallExpr:
					if trSel(x.Fun) == "addBuild" {
						fail("%s: addBuild called inside `%s`", name, pnSrc(fset, st))
					}
				case *ast.SelectorExpr:
					if bgIsMapEntry(x.X) {
						out = append(out, ".useMap")
					} else if id, ok := x.X.(*ast.Ident); ok && local != "" && id.Name == local {
						out = append(out, ".useVar")
					}
				}
				return true
			})
			return out
		}
		var block func(list []ast.Stmt) []string
		block = func(list []ast.Stmt) []string {
			var out []string
			for _, st := range list {
				if isCreate(st) {
					out = append(out, ".create")
					continue
				}
				switch x := st.(type) {
				case *ast.AssignStmt:
					if len(x.Lhs) == 1 && len(x.Rhs) == 1 && bgIsMapEntry(x.Rhs[0]) {
						id, ok := x.Lhs[0].(*ast.Ident)
						if !ok || (local != "" && id.Name != local) {
							fail("%s: the build is loaded into a second place: `%s`", name, pnSrc(fset, x))
							continue
						}
						local = id.Name
						out = append(out, ".load")
						continue
					}
				case *ast.IfStmt:
					if be, ok := x.Cond.(*ast.BinaryExpr); ok && be.Op == token.EQL && bgIsNil(be.Y) && x.Init == nil {
						kind := ""
						if bgIsMapEntry(be.X) {
							kind = ".ifMapNil"
						} else if id, ok := be.X.(*ast.Ident); ok && local != "" && id.Name == local {
							kind = ".ifVarNil"
						}
						if kind != "" {
							if x.Else != nil {
								fail("%s: a build guard with an else arm: `%s`", name, pnSrc(fset, x.Cond))
							}
							body := block(x.Body.List)
							out = append(out, fmt.Sprintf("%s %d", kind, len(body)))
							out = append(out, body...)
							continue
						}
					}
					if be, ok := x.Cond.(*ast.BinaryExpr); ok && (bgIsMapEntry(be.X) || (local != "" && trSel(be.X) == local)) {
						fail("%s: a test of the build that is not `== nil`: `%s`", name, pnSrc(fset, x.Cond))
					}
				}
				out = append(out, uses(st)...)
			}
			return out
		}
		p.steps = block(loop.Body.List[1:])
		passes = append(passes, p)
		return true
	})
	if ferr != nil {
		return "", ferr
	}
	if len(passes) == 0 {
		return "", fmt.Errorf("generatePerSchema: no pass `f(data, &builds)` found")
	}
	var b strings.Builder
	b.WriteString("import GqlgenVerif.Model.Builds\n")
	b.WriteString("/-! How each pass of `codegen.generatePerSchema` reaches the build of a schema file (go/extract/buildguards.go). -/\n")
	b.WriteString("namespace GqlgenVerif.Gen.BuildGuards\nopen GqlgenVerif.Builds\n\n")
	b.WriteString("/-- (pass, the field of Data it ranges over, the steps of one loop iteration in source order) -/\n")
	b.WriteString("def passes : List (String × String × List Step) := [\n")
	for i, p := range passes {
		sep := ","
		if i == len(passes)-1 {
			sep = ""
		}
		fmt.Fprintf(&b, "  (%s, %s, [%s])%s  -- line %d\n", pnLeanStr(p.name), pnLeanStr(p.field), strings.Join(p.steps, ", "), sep, p.line)
	}
	b.WriteString("]\n\nend GqlgenVerif.Gen.BuildGuards\n")
	return b.String(), nil
}
