package main

import (
	"bytes"
	"fmt"
	"go/ast"
	"go/parser"
	"go/printer"
	"go/token"
	"path/filepath"
	"strings"
)

// ScalarArms (C02): the type-switch tables of every scalar input unmarshaler and of CoerceList.
//
// For each function   func UnmarshalX(v any) (T, error) { switch v := v.(type) { case A: …; default: … } }
// of graphql/{int,uint,id,float,string,bool}.go and for graphql.CoerceList it emits one entry per
// (function, case type) with the arm's body as whitespace-normalised source text:
//
//	("UnmarshalInt32", "json.Number", "iv, err := strconv.ParseInt(string(v), 10, 64); if err != nil { return 0, err }; return safeCastInt32(iv)")
//
// The Lean model (Model/Coerce.lean) gives a meaning only to the arm texts it knows (`armSem`), and
// Props/C02.lean pins the whole table (`arms_expected`): which dynamic Go types each scalar accepts, and
// what it does with them, is re-read from the source on every run. Statements before the switch are the
// arm "pre"; a function whose body is a plain `return F(v)` is the arm "delegate".

func init() { extractors["ScalarArms"] = extractScalarArms }

// armTags: the arm bodies this extractor knows, by their normalised text, and the short tag the Lean model
// gives a meaning to (`armSem`). Any other text gets the tag "unknown" (the model then fails on that arm and
// `arms_expected` no longer holds).
var armTags = map[string]string{
	"return strconv.Atoi(v)":                     "parseInt64",
	"return strconv.Atoi(string(v))":             "parseInt64",
	"return strconv.ParseInt(v, 10, 64)":         "parseInt64",
	"return strconv.ParseInt(string(v), 10, 64)": "parseInt64",
	"iv, err := strconv.ParseInt(v, 10, 64); if err != nil { return 0, err }; return safeCastInt32(iv)":                                                                                                                                                   "parseInt64_safeCastInt32",
	"iv, err := strconv.ParseInt(string(v), 10, 64); if err != nil { return 0, err }; return safeCastInt32(iv)":                                                                                                                                           "parseInt64_safeCastInt32",
	"u64, err := strconv.ParseUint(v, 10, 64); if err != nil { var strconvErr *strconv.NumError if errors.As(err, &strconvErr) && isSignedInteger(v) { return 0, newUintSignError(v) } return 0, err }; return uint(u64), err":                            "parseUint64_sign_uint",
	"u64, err := strconv.ParseUint(string(v), 10, 64); if err != nil { var strconvErr *strconv.NumError if errors.As(err, &strconvErr) && isSignedInteger(string(v)) { return 0, newUintSignError(string(v)) } return 0, err }; return uint(u64), err":    "parseUint64_sign_uint",
	"i, err := strconv.ParseUint(v, 10, 64); if err != nil { var strconvErr *strconv.NumError if errors.As(err, &strconvErr) && isSignedInteger(v) { return 0, newUintSignError(v) } return 0, err }; return i, nil":                                      "parseUint64_sign",
	"i, err := strconv.ParseUint(string(v), 10, 64); if err != nil { var strconvErr *strconv.NumError if errors.As(err, &strconvErr) && isSignedInteger(string(v)) { return 0, newUintSignError(string(v)) } return 0, err }; return i, nil":              "parseUint64_sign",
	"iv, err := strconv.ParseUint(v, 10, 64); if err != nil { var strconvErr *strconv.NumError if errors.As(err, &strconvErr) && isSignedInteger(v) { return 0, newUintSignError(v) } return 0, err }; return safeCastUint32(iv)":                         "parseUint64_sign_safeCastUint32",
	"iv, err := strconv.ParseUint(string(v), 10, 64); if err != nil { var strconvErr *strconv.NumError if errors.As(err, &strconvErr) && isSignedInteger(string(v)) { return 0, newUintSignError(string(v)) } return 0, err }; return safeCastUint32(iv)": "parseUint64_sign_safeCastUint32",
	"result, err := strconv.ParseUint(v, 10, 64); return uint(result), err":         "parseUint64_uint",
	"result, err := strconv.ParseUint(string(v), 10, 64); return uint(result), err": "parseUint64_uint",
	"return 0, nil":                                      "zero",
	"return v, nil":                                      "identity",
	"return string(v), nil":                              "stringOf",
	"return strconv.Itoa(v), nil":                        "formatInt",
	"return strconv.FormatInt(v, 10), nil":               "formatInt",
	"return strconv.FormatFloat(v, 'f', 6, 64), nil":     "formatFloat_f_6",
	"return strconv.FormatFloat(v, 'f', -1, 64), nil":    "formatFloat_f_shortest",
	"return strconv.FormatBool(v), nil":                  "formatBool",
	"return \"null\", nil":                               "const_null",
	"return \"\", nil":                                   "const_empty",
	"return false, nil":                                  "const_false",
	"return strconv.ParseFloat(v, 64)":                   "parseFloat",
	"return strconv.ParseFloat(string(v), 64)":           "parseFloat",
	"return float64(v), nil":                             "toFloat",
	"return strings.EqualFold(v, \"true\"), nil":         "equalFoldTrue",
	"return v != 0, nil":                                 "neq0",
	"return 0, fmt.Errorf(\"%T is not an int\", v)":      "typeError",
	"return 0, fmt.Errorf(\"%T is not an uint\", v)":     "typeError",
	"return \"\", fmt.Errorf(\"%T is not a string\", v)": "typeError",
	"return 0, fmt.Errorf(\"%T is not an float\", v)":    "typeError",
	"return false, fmt.Errorf(\"%T is not a bool\", v)":  "typeError",
	// CoerceList
	"var vSlice []any; if v == nil { return vSlice }": "nilEmpty",
	"return vSlice":                          "result",
	"vSlice = v":                             "same",
	"if len(v) > 0 { vSlice = []any{v[0]} }": "first",
	"vSlice = []any{v}":                      "wrap",
	"return UnmarshalFloat(v)":               "UnmarshalFloat",
	"":                                       "none",
}

var numericCase = map[string]bool{"int": true, "int64": true, "int32": true, "uint32": true, "uint64": true}

// tagOf: numeric arms of the integer scalars are translated by the IntCasts extractor (tag "numeric")
func tagOf(fn, ty, body string) string {
	if numericCase[ty] && (strings.Contains(fn, "Int") || strings.Contains(fn, "Uint")) {
		return "numeric"
	}
	if t, ok := armTags[body]; ok {
		return t
	}
	return "unknown"
}

func nodeText(fset *token.FileSet, n any) string {
	var b bytes.Buffer
	printer.Fprint(&b, fset, n)
	return strings.Join(strings.Fields(b.String()), " ")
}

func stmtsText(fset *token.FileSet, ss []ast.Stmt) string {
	var parts []string
	for _, s := range ss {
		parts = append(parts, nodeText(fset, s))
	}
	return strings.Join(parts, "; ")
}

func extractScalarArms(repo string) (string, error) {
	fset := token.NewFileSet()
	want := map[string]bool{}
	type arm struct{ fn, ty, body string }
	var arms []arm
	var fns []string
	for _, file := range []string{"int.go", "uint.go", "id.go", "float.go", "string.go", "bool.go", "coercion.go"} {
		f, err := parser.ParseFile(fset, filepath.Join(repo, "graphql", file), nil, 0)
		if err != nil {
			return "", err
		}
		for _, d := range f.Decls {
			fd, ok := d.(*ast.FuncDecl)
			if !ok || fd.Recv != nil || fd.Body == nil {
				continue
			}
			name := fd.Name.Name
			if !(strings.HasPrefix(name, "Unmarshal") || name == "CoerceList") {
				continue
			}
			want[name] = true
			fns = append(fns, name)
			// locate the type switch
			idx := -1
			for i, s := range fd.Body.List {
				if _, ok := s.(*ast.TypeSwitchStmt); ok {
					if idx >= 0 {
						return "", fmt.Errorf("%s: more than one type switch", name)
					}
					idx = i
				}
			}
			if idx < 0 {
				// delegate: a single `return F(v)`
				if len(fd.Body.List) == 1 {
					if _, ok := fd.Body.List[0].(*ast.ReturnStmt); ok {
						arms = append(arms, arm{name, "delegate", nodeText(fset, fd.Body.List[0])})
						continue
					}
				}
				return "", fmt.Errorf("%s: neither a type switch nor a delegating return", name)
			}
			ts := fd.Body.List[idx].(*ast.TypeSwitchStmt)
			if got := nodeText(fset, ts.Assign); got != "v := v.(type)" {
				return "", fmt.Errorf("%s: type switch on %q", name, got)
			}
			arms = append(arms, arm{name, "pre", stmtsText(fset, fd.Body.List[:idx])})
			arms = append(arms, arm{name, "post", stmtsText(fset, fd.Body.List[idx+1:])})
			for _, c := range ts.Body.List {
				cc := c.(*ast.CaseClause)
				body := stmtsText(fset, cc.Body)
				if len(cc.List) == 0 {
					arms = append(arms, arm{name, "default", body})
				}
				for _, ty := range cc.List {
					arms = append(arms, arm{name, nodeText(fset, ty), body})
				}
			}
		}
	}
	for _, n := range []string{"UnmarshalInt", "UnmarshalInt64", "UnmarshalInt32", "UnmarshalUint", "UnmarshalUint64",
		"UnmarshalUint32", "UnmarshalID", "UnmarshalIntID", "UnmarshalUintID", "UnmarshalFloat", "UnmarshalFloatContext",
		"UnmarshalString", "UnmarshalBoolean", "CoerceList"} {
		if !want[n] {
			return "", fmt.Errorf("function %s not found", n)
		}
	}
	var b strings.Builder
	b.WriteString("namespace GqlgenVerif.Gen.ScalarArms\n\n")
	b.WriteString("/-- (function, case type | \"default\" | \"pre\" | \"post\" | \"delegate\", tag of the arm's body) -/\n")
	b.WriteString("def arms : List (String × String × String) := [\n")
	for i, a := range arms {
		sep := ","
		if i == len(arms)-1 {
			sep = ""
		}
		fmt.Fprintf(&b, "  (%q, %q, %q)%s  -- %s\n", a.fn, a.ty, tagOf(a.fn, a.ty, a.body), sep, a.body)
	}
	b.WriteString("]\n\n")
	// the same table split per function (short lists keep the kernel's string comparisons cheap)
	for _, fn := range fns {
		fmt.Fprintf(&b, "def fn_%s : List (String × String) := [", fn)
		first := true
		for _, a := range arms {
			if a.fn != fn {
				continue
			}
			if !first {
				b.WriteString(", ")
			}
			first = false
			fmt.Fprintf(&b, "(%q, %q)", a.ty, tagOf(a.fn, a.ty, a.body))
		}
		b.WriteString("]\n")
	}
	b.WriteString("\n/-- the functions found, in source order -/\ndef functions : List String := [")
	for i, n := range fns {
		if i > 0 {
			b.WriteString(", ")
		}
		fmt.Fprintf(&b, "%q", n)
	}
	b.WriteString("]\n\nend GqlgenVerif.Gen.ScalarArms\n")
	return b.String(), nil
}
