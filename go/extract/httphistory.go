package main

import (
	"bytes"
	"fmt"
	"go/ast"
	"go/parser"
	"go/printer"
	"go/token"
	"path/filepath"
	"reflect"
	"strings"
)

// HttpHistory (property C09, request sequences): the two places where one HTTP request can leave something
// behind for the next one, translated from source on every run:
//
//	graphql/executor/executor.go            (*Executor).parseQuery as the ORDERED list of its top-level steps
//	                                        (cache lookup that returns the cached document with nil errors,
//	                                        parse, parse-error return, no-operation return, validate,
//	                                        validation-error return, queryCache.Add, final return). The Lean
//	                                        model *interprets* that list, so moving `queryCache.Add` in front
//	                                        of the validation-error return changes the model and the theorem
//	                                        "the cache only ever holds validated documents" stops closing.
//	graphql/handler.go                      the fields of graphql.RawParams a JSON body can set (json tag != "-")
//	graphql/handler/transport/http_post.go  whether POST.Do takes its *RawParams from a sync.Pool and which
//	                                        fields the deferred function that ends in pool.Put(params) resets
//	                                        to their zero value.
//
// Steps the translator does not know make it fail (broken tie). Assignments to `stats.…` and the
// `if e.disableSuggestion { … }` rule swap do not touch the document, the cache or the returned errors and
// are skipped by name.
func init() { extractors["HttpHistory"] = extractHttpHistory }

func hhSrc(fset *token.FileSet, n ast.Node) string {
	var b bytes.Buffer
	printer.Fprint(&b, fset, n)
	return strings.Join(strings.Fields(b.String()), " ")
}

// hhReturns lists the printed `return …` statements anywhere inside n (not descending into func literals).
func hhReturns(fset *token.FileSet, n ast.Node) []string {
	var l []string
	ast.Inspect(n, func(m ast.Node) bool {
		switch r := m.(type) {
		case *ast.FuncLit:
			return false
		case *ast.ReturnStmt:
			l = append(l, hhSrc(fset, r))
		}
		return true
	})
	return l
}

func hhCalls(fset *token.FileSet, n ast.Node, suffix string) int {
	c := 0
	ast.Inspect(n, func(m ast.Node) bool {
		if call, ok := m.(*ast.CallExpr); ok && strings.HasSuffix(hhSrc(fset, call.Fun), suffix) {
			c++
		}
		return true
	})
	return c
}

func extractHttpHistory(repo string) (string, error) {
	fset := token.NewFileSet()
	parse := func(rel string) (*ast.File, error) {
		return parser.ParseFile(fset, filepath.Join(repo, rel), nil, parser.ParseComments)
	}
	var errs []string
	fail := func(n ast.Node, f string, a ...any) {
		errs = append(errs, fmt.Sprintf("%s: ", fset.Position(n.Pos()))+fmt.Sprintf(f, a...))
	}

	// ------------------------------------------------------------ parseQuery
	ef, err := parse("graphql/executor/executor.go")
	if err != nil {
		return "", err
	}
	pq := funcDecl(ef, "Executor", "parseQuery")
	if pq == nil || pq.Body == nil {
		return "", fmt.Errorf("graphql/executor/executor.go: (*Executor).parseQuery not found")
	}
	var steps []string
	for _, st := range pq.Body.List {
		src := hhSrc(fset, st)
		switch s := st.(type) {
		case *ast.AssignStmt:
			switch {
			case strings.HasPrefix(src, "stats."):
				// timing only
			case strings.Contains(src, "parser.ParseQuery") && strings.HasPrefix(src, "doc, err :="):
				steps = append(steps, "parse")
			case strings.HasPrefix(src, "listErr := validate("):
				steps = append(steps, "validate")
			default:
				fail(st, "parseQuery: unknown assignment %q", src)
			}
		case *ast.IfStmt:
			cond := hhSrc(fset, s.Cond)
			rets := hhReturns(fset, s.Body)
			switch {
			case s.Init != nil && strings.Contains(hhSrc(fset, s.Init), "e.queryCache.Get(") && cond == "ok":
				// a hit returns the cached document as it is, without errors
				if len(rets) != 1 || rets[0] != "return doc, nil" || s.Else != nil {
					fail(st, "parseQuery: cache-hit branch does not `return doc, nil`: %v", rets)
				}
				steps = append(steps, "getHit")
			case cond == "err != nil":
				if len(rets) != 1 || !strings.HasPrefix(rets[0], "return nil, gqlerror.List{") || !strings.Contains(src, "errcode.ParseFailed") {
					fail(st, "parseQuery: parse-error branch has an unknown shape: %v", rets)
				}
				steps = append(steps, "retParseErr")
			case cond == "len(doc.Operations) == 0":
				if len(rets) != 1 || !strings.HasPrefix(rets[0], "return nil, gqlerror.List{") || !strings.Contains(src, "errcode.ValidationFailed") {
					fail(st, "parseQuery: no-operation branch has an unknown shape: %v", rets)
				}
				steps = append(steps, "retNoOp")
			case cond == "len(listErr) != 0":
				if len(rets) != 1 || rets[0] != "return nil, listErr" || !strings.Contains(src, "errcode.ValidationFailed") {
					fail(st, "parseQuery: validation-error branch has an unknown shape: %v", rets)
				}
				steps = append(steps, "retInvalid")
			case cond == "e.disableSuggestion":
				if len(rets) != 0 || hhCalls(fset, s.Body, "queryCache.Add") != 0 {
					fail(st, "parseQuery: the disableSuggestion block returns or touches the cache")
				}
			default:
				fail(st, "parseQuery: unknown if statement with condition %q", cond)
			}
			if cond != "ok" && hhCalls(fset, s, "queryCache.Add")+hhCalls(fset, s, "queryCache.Get") != 0 {
				fail(st, "parseQuery: cache access inside a conditional block")
			}
		case *ast.ExprStmt:
			if strings.HasPrefix(src, "e.queryCache.Add(ctx, query, doc)") {
				steps = append(steps, "add")
			} else {
				fail(st, "parseQuery: unknown statement %q", src)
			}
		case *ast.ReturnStmt:
			if src == "return doc, nil" {
				steps = append(steps, "retOk")
			} else {
				fail(st, "parseQuery: unknown return %q", src)
			}
		default:
			fail(st, "parseQuery: unknown statement kind %s: %q", reflect.TypeOf(st), src)
		}
	}
	// `doc` and `listErr` must be defined before they are used (the compiler guarantees it; stated so that the
	// interpreter's reading "the error returns test the outcome of THIS query text" is the source's)
	idx := func(name string) int {
		for i, s := range steps {
			if s == name {
				return i
			}
		}
		return -1
	}
	count := func(name string) int {
		c := 0
		for _, s := range steps {
			if s == name {
				c++
			}
		}
		return c
	}
	if count("parse") != 1 || count("retOk") != 1 || steps[len(steps)-1] != "retOk" {
		errs = append(errs, fmt.Sprintf("parseQuery: steps %v: expected one parse and a final `return doc, nil`", steps))
	} else {
		for _, s := range []string{"retParseErr", "retNoOp", "validate", "retInvalid", "add", "retOk"} {
			if i := idx(s); i >= 0 && i < idx("parse") {
				errs = append(errs, fmt.Sprintf("parseQuery: step %s before the document is parsed", s))
			}
		}
		if i := idx("retInvalid"); i >= 0 && (idx("validate") < 0 || i < idx("validate")) {
			errs = append(errs, "parseQuery: validation-error return without a preceding validate")
		}
	}

	// ------------------------------------------------------------ RawParams
	hf, err := parse("graphql/handler.go")
	if err != nil {
		return "", err
	}
	var jsonFields, allFields []string
	ast.Inspect(hf, func(n ast.Node) bool {
		ts, ok := n.(*ast.TypeSpec)
		if !ok || ts.Name.Name != "RawParams" {
			return true
		}
		stt, ok := ts.Type.(*ast.StructType)
		if !ok {
			return false
		}
		for _, f := range stt.Fields.List {
			tag := ""
			if f.Tag != nil {
				tag = reflect.StructTag(strings.Trim(f.Tag.Value, "`")).Get("json")
			}
			for _, nm := range f.Names {
				allFields = append(allFields, nm.Name)
				if nm.IsExported() && strings.Split(tag, ",")[0] != "-" {
					jsonFields = append(jsonFields, nm.Name)
				}
			}
		}
		return false
	})
	if len(allFields) == 0 {
		errs = append(errs, "graphql/handler.go: type RawParams struct not found")
	}

	// ------------------------------------------------------------ POST.Do
	pf, err := parse("graphql/handler/transport/http_post.go")
	if err != nil {
		return "", err
	}
	do := funcDecl(pf, "POST", "Do")
	if do == nil || do.Body == nil {
		return "", fmt.Errorf("graphql/handler/transport/http_post.go: POST.Do not found")
	}
	pooled := false
	var resets []string
	overwritten := []string{} // fields POST.Do itself assigns before decoding (e.g. Headers)
	gets := hhCalls(fset, do.Body, "pool.Get")
	puts := hhCalls(fset, do.Body, "pool.Put")
	if gets+puts > 0 {
		pooled = true
		if gets != 1 || puts != 1 {
			fail(do, "POST.Do: %d pool.Get / %d pool.Put calls", gets, puts)
		}
		seenGet, seenDefer, seenDecode := false, false, false
		for _, st := range do.Body.List {
			src := hhSrc(fset, st)
			switch s := st.(type) {
			case *ast.AssignStmt:
				if strings.HasPrefix(src, "params := pool.Get().(*graphql.RawParams)") {
					seenGet = true
				} else if strings.HasPrefix(src, "params.") && !seenDecode && len(s.Lhs) == 1 {
					overwritten = append(overwritten, strings.TrimPrefix(hhSrc(fset, s.Lhs[0]), "params."))
				}
			case *ast.DeferStmt:
				fl, ok := s.Call.Fun.(*ast.FuncLit)
				if !ok || !strings.Contains(src, "pool.Put(params)") {
					continue
				}
				seenDefer = true
				if !seenGet {
					fail(st, "POST.Do: the reset is deferred before pool.Get")
				}
				n := len(fl.Body.List)
				if n == 0 || hhSrc(fset, fl.Body.List[n-1]) != "pool.Put(params)" {
					fail(st, "POST.Do: the deferred function does not end in pool.Put(params)")
					continue
				}
				for _, ds := range fl.Body.List[:n-1] {
					as, ok := ds.(*ast.AssignStmt)
					dsrc := hhSrc(fset, ds)
					if !ok || len(as.Lhs) != 1 || len(as.Rhs) != 1 || !strings.HasPrefix(dsrc, "params.") {
						fail(ds, "POST.Do: unknown statement in the deferred reset: %q", dsrc)
						continue
					}
					rhs := hhSrc(fset, as.Rhs[0])
					zero := rhs == `""` || rhs == "nil" || rhs == "0" || rhs == "false" || strings.HasSuffix(rhs, "{}")
					if zero { // an assignment of anything else is not a reset
						resets = append(resets, strings.TrimPrefix(hhSrc(fset, as.Lhs[0]), "params."))
					}
				}
			}
			if strings.Contains(src, "jsonDecode") {
				seenDecode = true
			}
		}
		if !seenGet || !seenDefer {
			fail(do, "POST.Do: pooled params without the `params := pool.Get()` / `defer func(){…; pool.Put(params)}()` shape")
		}
	}

	if len(errs) > 0 {
		return "", fmt.Errorf("cannot translate:\n  %s", strings.Join(errs, "\n  "))
	}

	strs := func(l []string) string {
		q := make([]string, len(l))
		for i, s := range l {
			q[i] = fmt.Sprintf("%q", s)
		}
		return "[" + strings.Join(q, ", ") + "]"
	}
	var b strings.Builder
	b.WriteString("namespace GqlgenVerif.Gen.HttpHistory\n\n")
	b.WriteString("/-- a top-level step of (*Executor).parseQuery -/\n")
	b.WriteString("inductive PQStep | getHit | parse | retParseErr | retNoOp | validate | retInvalid | add | retOk\n  deriving DecidableEq, Repr\n\n")
	b.WriteString("/-- (*Executor).parseQuery, in source order -/\n")
	ps := make([]string, len(steps))
	for i, s := range steps {
		ps[i] = "." + s
	}
	fmt.Fprintf(&b, "def parseQueryProg : List PQStep := [%s]\n\n", strings.Join(ps, ", "))
	b.WriteString("/-- fields of graphql.RawParams a JSON request body can set -/\n")
	fmt.Fprintf(&b, "def rawParamsJsonFields : List String := %s\n\n", strs(jsonFields))
	b.WriteString("/-- POST.Do takes its *RawParams from a sync.Pool -/\n")
	fmt.Fprintf(&b, "def postPooled : Bool := %v\n", pooled)
	b.WriteString("/-- fields the deferred function of POST.Do sets to their zero value before pool.Put -/\n")
	fmt.Fprintf(&b, "def postResetFields : List String := %s\n", strs(resets))
	b.WriteString("/-- fields POST.Do assigns itself before decoding the body -/\n")
	fmt.Fprintf(&b, "def postAssignedFields : List String := %s\n\n", strs(overwritten))
	b.WriteString("end GqlgenVerif.Gen.HttpHistory\n")
	return b.String(), nil
}
