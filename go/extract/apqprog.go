package main

import (
	"fmt"
	"go/ast"
	"go/parser"
	"go/printer"
	"go/token"
	"path/filepath"
	"strconv"
	"strings"
)

// ApqProg: translate the body of extension.AutomaticPersistedQuery.MutateOperationParameters
// (graphql/handler/extension/apq.go) into a `GqlgenVerif.Apq.Prog` decision tree in continuation form
// (see lean/GqlgenVerif/Model/ApqProg.lean), plus a few pinned facts: the extension key and the
// mapstructure tags, the shape of computeQueryHash, and the bodies of lru.LRU / MapCache / NoCache
// Get and Add. Property C15 proves the regenerated tree equal to the hand-written model `Apq.step`.
// Anything the translator does not recognise is an error (the regenerated tie is then reported broken).

func init() { extractors["ApqProg"] = extractApqProg }

type apqTr struct {
	fset   *token.FileSet
	consts map[string]string     // string constants of the file
	errs   map[string]*[2]string // local error variables: message, code ("" = none)
	key    string                // the Extensions[...] key
	bad    []string
}

func (t *apqTr) src(n ast.Node) string {
	var sb strings.Builder
	printer.Fprint(&sb, t.fset, n)
	return strings.Join(strings.Fields(sb.String()), " ")
}

func (t *apqTr) fail(n ast.Node, what string) string {
	t.bad = append(t.bad, fmt.Sprintf("%s: %s", what, t.src(n)))
	return "?"
}

// str evaluates a string literal or a string constant of the file.
func (t *apqTr) str(e ast.Expr) (string, bool) {
	switch e := e.(type) {
	case *ast.BasicLit:
		if e.Kind == token.STRING {
			s, err := strconv.Unquote(e.Value)
			return s, err == nil
		}
	case *ast.Ident:
		s, ok := t.consts[e.Name]
		return s, ok
	}
	return "", false
}

func apqLeanStr(s string) string { return strconv.Quote(s) }

// errorf recognises gqlerror.Errorf(<string>) and returns the message.
func (t *apqTr) errorf(e ast.Expr) (string, bool) {
	c, ok := e.(*ast.CallExpr)
	if !ok || len(c.Args) != 1 || t.src(c.Fun) != "gqlerror.Errorf" {
		return "", false
	}
	return t.str(c.Args[0])
}

func (t *apqTr) extIndex(e ast.Expr) bool {
	ix, ok := e.(*ast.IndexExpr)
	if !ok || t.src(ix.X) != "rawParams.Extensions" {
		return false
	}
	k, ok := t.str(ix.Index)
	if !ok {
		return false
	}
	if t.key == "" {
		t.key = k
	}
	return t.key == k
}

func (t *apqTr) cond(s *ast.IfStmt) string {
	if s.Init != nil {
		// err := mapstructure.Decode(rawParams.Extensions[key], &extension); err != nil
		as, ok := s.Init.(*ast.AssignStmt)
		if ok && len(as.Lhs) == 1 && len(as.Rhs) == 1 && as.Tok == token.DEFINE && t.src(s.Cond) == t.src(as.Lhs[0])+" != nil" {
			if c, ok := as.Rhs[0].(*ast.CallExpr); ok && t.src(c.Fun) == "mapstructure.Decode" && len(c.Args) == 2 &&
				t.extIndex(c.Args[0]) && t.src(c.Args[1]) == "&extension" {
				return ".decodeFails"
			}
		}
		return t.fail(s, "unrecognised if-with-init")
	}
	if u, ok := s.Cond.(*ast.UnaryExpr); ok && u.Op == token.NOT && t.src(u.X) == "ok" {
		return ".cacheMiss"
	}
	b, ok := s.Cond.(*ast.BinaryExpr)
	if !ok {
		return t.fail(s.Cond, "unrecognised condition")
	}
	x, y := t.src(b.X), t.src(b.Y)
	switch {
	case b.Op == token.EQL && y == "nil" && t.extIndex(b.X):
		return ".extNil"
	case b.Op == token.NEQ && x == "extension.Version":
		if l, ok := b.Y.(*ast.BasicLit); ok && l.Kind == token.INT {
			return "(.versionNe " + l.Value + ")"
		}
	case b.Op == token.EQL && x == "rawParams.Query" && y == `""`:
		return ".queryEmpty"
	case b.Op == token.NEQ && x == "computeQueryHash(rawParams.Query)" && y == "extension.Sha256":
		return ".hashNe"
	}
	return t.fail(s.Cond, "unrecognised condition")
}

// prog translates a statement list followed by the continuation `rest`.
func (t *apqTr) prog(ss []ast.Stmt, rest []ast.Stmt) string {
	if len(ss) == 0 {
		if len(rest) == 0 {
			t.bad = append(t.bad, "fell off the end of the function")
			return "?"
		}
		return t.prog(rest, nil)
	}
	s, tail := ss[0], ss[1:]
	next := func() string { return t.prog(tail, rest) }
	after := append(append([]ast.Stmt{}, tail...), rest...)
	switch s := s.(type) {
	case *ast.ReturnStmt:
		if len(s.Results) != 1 {
			return t.fail(s, "return arity")
		}
		r := s.Results[0]
		if t.src(r) == "nil" {
			return "(.ret .pass)"
		}
		if m, ok := t.errorf(r); ok {
			return "(.ret (.err " + apqLeanStr(m) + " none))"
		}
		if id, ok := r.(*ast.Ident); ok {
			if e, ok := t.errs[id.Name]; ok {
				code := "none"
				if e[1] != "" {
					code = "(some " + apqLeanStr(e[1]) + ")"
				}
				return "(.ret (.err " + apqLeanStr(e[0]) + " " + code + "))"
			}
		}
		return t.fail(s, "unrecognised return")
	case *ast.IfStmt:
		c := t.cond(s)
		th := t.prog(s.Body.List, after)
		var el string
		switch e := s.Else.(type) {
		case nil:
			el = t.prog(after, nil)
		case *ast.BlockStmt:
			el = t.prog(e.List, after)
		default:
			el = t.fail(s, "else-if")
		}
		return "(.ite " + c + "\n  " + th + "\n  " + el + ")"
	case *ast.DeclStmt:
		// var extension struct{…} / var ok bool : no effect on query or cache
		src := t.src(s)
		if strings.HasPrefix(src, "var extension struct") || src == "var ok bool" {
			return next()
		}
		return t.fail(s, "unrecognised declaration")
	case *ast.AssignStmt:
		src := t.src(s)
		switch {
		case src == "fullQuery := false" || src == "fullQuery = true":
			return next() // only feeds ApqStats
		case src == "rawParams.Query, ok = a.Cache.Get(ctx, extension.Sha256)":
			return "(.get " + next() + ")"
		case len(s.Lhs) == 1 && len(s.Rhs) == 1 && s.Tok == token.DEFINE:
			if m, ok := t.errorf(s.Rhs[0]); ok {
				t.errs[t.src(s.Lhs[0])] = &[2]string{m, ""}
				return next()
			}
		}
		return t.fail(s, "unrecognised assignment")
	case *ast.ExprStmt:
		c, ok := s.X.(*ast.CallExpr)
		if !ok {
			return t.fail(s, "unrecognised statement")
		}
		src := t.src(s)
		switch {
		case src == "a.Cache.Add(ctx, extension.Sha256, rawParams.Query)":
			return "(.add " + next() + ")"
		case t.src(c.Fun) == "errcode.Set" && len(c.Args) == 2:
			if e, ok := t.errs[t.src(c.Args[0])]; ok {
				if code, ok := t.str(c.Args[1]); ok {
					e[1] = code
					return next()
				}
			}
		case strings.HasPrefix(src, "graphql.GetOperationContext(ctx).Stats.SetExtension(apqExtension, &ApqStats{"):
			return next() // statistics only
		}
		return t.fail(s, "unrecognised call")
	}
	return t.fail(s, "unrecognised statement")
}

func apqFindFunc(f *ast.File, recv, name string) *ast.FuncDecl {
	for _, d := range f.Decls {
		fd, ok := d.(*ast.FuncDecl)
		if !ok || fd.Name.Name != name {
			continue
		}
		if recv == "" && fd.Recv == nil {
			return fd
		}
		if recv != "" && fd.Recv != nil && len(fd.Recv.List) == 1 {
			var sb strings.Builder
			printer.Fprint(&sb, token.NewFileSet(), fd.Recv.List[0].Type)
			if strings.HasPrefix(strings.TrimPrefix(sb.String(), "*"), recv) {
				return fd
			}
		}
	}
	return nil
}

// apqBodySrc: whitespace-normalised source of a function body's statements, "; "-joined.
func apqBodySrc(fset *token.FileSet, fd *ast.FuncDecl) string {
	var parts []string
	for _, s := range fd.Body.List {
		var sb strings.Builder
		printer.Fprint(&sb, fset, s)
		parts = append(parts, strings.Join(strings.Fields(sb.String()), " "))
	}
	return strings.Join(parts, "; ")
}

func extractApqProg(repo string) (string, error) {
	fset := token.NewFileSet()
	parse := func(rel string) (*ast.File, error) {
		return parser.ParseFile(fset, filepath.Join(repo, rel), nil, 0)
	}
	f, err := parse("graphql/handler/extension/apq.go")
	if err != nil {
		return "", err
	}
	t := &apqTr{fset: fset, consts: map[string]string{}, errs: map[string]*[2]string{}}
	for _, d := range f.Decls {
		gd, ok := d.(*ast.GenDecl)
		if !ok || gd.Tok != token.CONST {
			continue
		}
		for _, sp := range gd.Specs {
			vs := sp.(*ast.ValueSpec)
			for i, n := range vs.Names {
				if i < len(vs.Values) {
					if l, ok := vs.Values[i].(*ast.BasicLit); ok && l.Kind == token.STRING {
						s, _ := strconv.Unquote(l.Value)
						t.consts[n.Name] = s
					}
				}
			}
		}
	}
	fd := apqFindFunc(f, "AutomaticPersistedQuery", "MutateOperationParameters")
	if fd == nil {
		return "", fmt.Errorf("MutateOperationParameters not found")
	}
	prog := t.prog(fd.Body.List, nil)
	// mapstructure tags of the anonymous struct
	tags := map[string]string{}
	ast.Inspect(fd, func(n ast.Node) bool {
		if st, ok := n.(*ast.StructType); ok {
			for _, fl := range st.Fields.List {
				if fl.Tag != nil && len(fl.Names) == 1 {
					tag, _ := strconv.Unquote(fl.Tag.Value)
					tags[fl.Names[0].Name] = tag + " " + t.src(fl.Type)
				}
			}
		}
		return true
	})
	if len(t.bad) > 0 {
		return "", fmt.Errorf("cannot translate MutateOperationParameters:\n  %s", strings.Join(t.bad, "\n  "))
	}
	hf := apqFindFunc(f, "", "computeQueryHash")
	if hf == nil {
		return "", fmt.Errorf("computeQueryHash not found")
	}
	facts := [][2]string{
		{"extKey", t.key},
		{"shaField", tags["Sha256"]},
		{"versionField", tags["Version"]},
		{"hashBody", apqBodySrc(fset, hf)},
	}
	lf, err := parse("graphql/handler/lru/lru.go")
	if err != nil {
		return "", err
	}
	for _, m := range []string{"New", "Get", "Add"} {
		recv := "LRU"
		if m == "New" {
			recv = ""
		}
		fd := apqFindFunc(lf, recv, m)
		if fd == nil {
			return "", fmt.Errorf("lru.%s not found", m)
		}
		src := apqBodySrc(fset, fd)
		if m == "New" { // only the constructor call matters
			i := strings.Index(src, ";")
			if i > 0 {
				src = src[:i]
			}
		}
		facts = append(facts, [2]string{"lru" + m, src})
	}
	cf, err := parse("graphql/cache.go")
	if err != nil {
		return "", err
	}
	for _, rm := range [][2]string{{"MapCache", "Get"}, {"MapCache", "Add"}, {"NoCache", "Get"}, {"NoCache", "Add"}} {
		fd := apqFindFunc(cf, rm[0], rm[1])
		if fd == nil {
			return "", fmt.Errorf("%s.%s not found", rm[0], rm[1])
		}
		facts = append(facts, [2]string{strings.ToLower(rm[0][:1]) + rm[0][1:] + rm[1], apqBodySrc(fset, fd)})
	}
	var sb strings.Builder
	sb.WriteString("import GqlgenVerif.Model.ApqProg\n")
	sb.WriteString("/-! Body of extension.AutomaticPersistedQuery.MutateOperationParameters as a decision tree, and the\nsource text of the small functions the cache models mirror. -/\n")
	sb.WriteString("namespace GqlgenVerif.Gen.ApqProg\nopen GqlgenVerif.Apq\n\n")
	sb.WriteString("def prog : Prog :=\n  " + prog + "\n\n")
	for _, kv := range facts {
		sb.WriteString("def " + kv[0] + " : String := " + apqLeanStr(kv[1]) + "\n")
	}
	sb.WriteString("\nend GqlgenVerif.Gen.ApqProg\n")
	return sb.String(), nil
}
