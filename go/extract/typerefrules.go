package main

import (
	"fmt"
	"go/ast"
	"go/parser"
	"go/token"
	"path/filepath"
	"strings"
)

// TypeRefRules (C17): the decisions that make generated code treat a type reference as a LIST.
//
//	codegen/config/binder.go  func (ref *TypeReference) IsSlice() bool {
//	                              _, isSlice := ref.GO.(*types.Slice)
//	                              return ref.GQL.Elem != nil && isSlice }
//	    -> def isSliceRule (gqlHasElem goIsSlice : Bool) : Bool := (gqlHasElem && goIsSlice)
//	       (the return expression is translated structurally: &&, ||, !, parentheses over the atoms
//	        `ref.GQL.Elem != nil`, `ref.GQL.Elem == nil`, `isSlice`, `true`, `false`)
//	codegen/config/binder.go  func (ref *TypeReference) Elem()   -> def elemBranches : the order of its branches
//	    (`if p, isPtr := ref.GO.(*types.Pointer); isPtr {…}` then `if ref.IsSlice() {… newRef.GQL = ref.GQL.Elem …}`)
//	codegen/type.go           func processType: `if A() || B() || … { processType(ret, ref.Elem()) }`
//	    -> def processTypeRecursesOn : List String
//
// Fails when one of them no longer has that shape.
func init() { extractors["TypeRefRules"] = extractTypeRefRules }

func trSel(e ast.Expr) string {
	switch e := e.(type) {
	case *ast.Ident:
		return e.Name
	case *ast.SelectorExpr:
		return trSel(e.X) + "." + e.Sel.Name
	case *ast.StarExpr:
		return "*" + trSel(e.X)
	}
	return "?"
}

func trBool(e ast.Expr, sliceVar string) (string, error) {
	switch e := e.(type) {
	case *ast.ParenExpr:
		s, err := trBool(e.X, sliceVar)
		return "(" + s + ")", err
	case *ast.UnaryExpr:
		if e.Op == token.NOT {
			s, err := trBool(e.X, sliceVar)
			return "(!" + s + ")", err
		}
	case *ast.Ident:
		switch e.Name {
		case sliceVar:
			return "goIsSlice", nil
		case "true", "false":
			return e.Name, nil
		}
	case *ast.BinaryExpr:
		switch e.Op {
		case token.LAND, token.LOR:
			l, err := trBool(e.X, sliceVar)
			if err != nil {
				return "", err
			}
			r, err := trBool(e.Y, sliceVar)
			op := "&&"
			if e.Op == token.LOR {
				op = "||"
			}
			return "(" + l + " " + op + " " + r + ")", err
		case token.NEQ, token.EQL:
			if id, ok := e.Y.(*ast.Ident); ok && id.Name == "nil" && trSel(e.X) == "ref.GQL.Elem" {
				if e.Op == token.NEQ {
					return "gqlHasElem", nil
				}
				return "(!gqlHasElem)", nil
			}
		}
	}
	return "", fmt.Errorf("IsSlice: cannot translate a sub-expression of the return value")
}

func trMethod(f *ast.File, recv, name string) *ast.FuncDecl {
	for _, d := range f.Decls {
		fd, ok := d.(*ast.FuncDecl)
		if !ok || fd.Name.Name != name || fd.Body == nil {
			continue
		}
		if recv == "" && fd.Recv == nil {
			return fd
		}
		if recv != "" && fd.Recv != nil && len(fd.Recv.List) == 1 && trSel(fd.Recv.List[0].Type) == recv {
			return fd
		}
	}
	return nil
}

// `_, v := ref.GO.(*types.X)` -> (v, X)
func trTypeAssert(s ast.Stmt) (string, string, bool) {
	as, ok := s.(*ast.AssignStmt)
	if !ok || as.Tok != token.DEFINE || len(as.Lhs) != 2 || len(as.Rhs) != 1 {
		return "", "", false
	}
	ta, ok := as.Rhs[0].(*ast.TypeAssertExpr)
	if !ok || trSel(ta.X) != "ref.GO" {
		return "", "", false
	}
	return trSel(as.Lhs[1]), trSel(ta.Type), true
}

func extractTypeRefRules(repo string) (string, error) {
	fset := token.NewFileSet()
	bf, err := parser.ParseFile(fset, filepath.Join(repo, "codegen", "config", "binder.go"), nil, 0)
	if err != nil {
		return "", err
	}
	// ---- IsSlice
	isSlice := trMethod(bf, "*TypeReference", "IsSlice")
	if isSlice == nil || len(isSlice.Body.List) != 2 {
		return "", fmt.Errorf("binder.go: (*TypeReference).IsSlice is not `_, isSlice := ref.GO.(*types.Slice); return <expr>`")
	}
	v, ty, ok := trTypeAssert(isSlice.Body.List[0])
	ret, ok2 := isSlice.Body.List[1].(*ast.ReturnStmt)
	if !ok || !ok2 || ty != "*types.Slice" || len(ret.Results) != 1 {
		return "", fmt.Errorf("binder.go: (*TypeReference).IsSlice is not `_, isSlice := ref.GO.(*types.Slice); return <expr>`")
	}
	rule, err := trBool(ret.Results[0], v)
	if err != nil {
		return "", err
	}
	// ---- Elem: if p, isPtr := ref.GO.(*types.Pointer); isPtr {…}  if ref.IsSlice() {… newRef.GQL = ref.GQL.Elem …}  return nil
	elem := trMethod(bf, "*TypeReference", "Elem")
	if elem == nil || len(elem.Body.List) != 3 {
		return "", fmt.Errorf("binder.go: (*TypeReference).Elem does not have the shape pointer-branch, IsSlice-branch, return nil")
	}
	var branches []string
	for i, st := range elem.Body.List[:2] {
		is, ok := st.(*ast.IfStmt)
		if !ok || is.Else != nil {
			return "", fmt.Errorf("binder.go: (*TypeReference).Elem statement %d is not a plain if", i)
		}
		if is.Init != nil {
			_, ty, ok := trTypeAssert(is.Init)
			if !ok || ty != "*types.Pointer" {
				return "", fmt.Errorf("binder.go: (*TypeReference).Elem: unknown guarded branch")
			}
			branches = append(branches, "pointer")
			continue
		}
		call, ok := is.Cond.(*ast.CallExpr)
		if !ok || trSel(call.Fun) != "ref.IsSlice" {
			return "", fmt.Errorf("binder.go: (*TypeReference).Elem: unknown branch condition")
		}
		setsGQL := false
		for _, s := range is.Body.List {
			if as, ok := s.(*ast.AssignStmt); ok && len(as.Lhs) == 1 && trSel(as.Lhs[0]) == "newRef.GQL" && trSel(as.Rhs[0]) == "ref.GQL.Elem" {
				setsGQL = true
			}
		}
		if !setsGQL {
			return "", fmt.Errorf("binder.go: (*TypeReference).Elem: the IsSlice branch no longer sets newRef.GQL = ref.GQL.Elem")
		}
		branches = append(branches, "IsSlice")
	}
	// ---- processType
	tf, err := parser.ParseFile(fset, filepath.Join(repo, "codegen", "type.go"), nil, 0)
	if err != nil {
		return "", err
	}
	pt := trMethod(tf, "", "processType")
	if pt == nil || len(pt.Body.List) == 0 {
		return "", fmt.Errorf("type.go: processType not found")
	}
	last, ok := pt.Body.List[len(pt.Body.List)-1].(*ast.IfStmt)
	if !ok || last.Else != nil || len(last.Body.List) != 1 {
		return "", fmt.Errorf("type.go: processType does not end with `if A() || B() … { processType(ret, ref.Elem()) }`")
	}
	var preds []string
	var walk func(e ast.Expr) error
	walk = func(e ast.Expr) error {
		if be, ok := e.(*ast.BinaryExpr); ok && be.Op == token.LOR {
			if err := walk(be.X); err != nil {
				return err
			}
			return walk(be.Y)
		}
		call, ok := e.(*ast.CallExpr)
		if !ok || len(call.Args) != 0 || !strings.HasPrefix(trSel(call.Fun), "ref.") {
			return fmt.Errorf("type.go: processType: the recursion condition is not a disjunction of ref.<Pred>() calls")
		}
		preds = append(preds, strings.TrimPrefix(trSel(call.Fun), "ref."))
		return nil
	}
	if err := walk(last.Cond); err != nil {
		return "", err
	}
	q := func(xs []string) string {
		o := make([]string, len(xs))
		for i, x := range xs {
			o[i] = fmt.Sprintf("%q", x)
		}
		return "[" + strings.Join(o, ", ") + "]"
	}
	var b strings.Builder
	b.WriteString("/-! The is-list decisions of a `config.TypeReference` (codegen/config/binder.go `IsSlice`, `Elem`; codegen/type.go\n`processType`), translated from the source. -/\nnamespace GqlgenVerif.Gen.TypeRefRules\n\n")
	b.WriteString("/-- `(*TypeReference).IsSlice`: its return expression over `ref.GQL.Elem != nil` and `ref.GO.(*types.Slice)` -/\n")
	fmt.Fprintf(&b, "def isSliceRule (gqlHasElem goIsSlice : Bool) : Bool := %s\n\n", rule)
	b.WriteString("/-- `(*TypeReference).Elem`: its branches in order (the IsSlice branch steps GQL to GQL.Elem) -/\n")
	fmt.Fprintf(&b, "def elemBranches : List String := %s\n\n", q(branches))
	b.WriteString("/-- `codegen.processType` recurses into `ref.Elem()` when one of these predicates holds -/\n")
	fmt.Fprintf(&b, "def processTypeRecursesOn : List String := %s\n\nend GqlgenVerif.Gen.TypeRefRules\n", q(preds))
	return b.String(), nil
}
